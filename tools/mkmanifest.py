#!/venv/bin/python
"""Writes MANIFEST.json from the table below (kept in one place so the manifest stays valid)."""
import json, os
ROOT = os.path.dirname(os.path.dirname(os.path.abspath(__file__)))
BASELINE = "cd /repo && /venv/bin/python -m pytest -ra -q -p no:cacheprovider --timeout=900 --continue-on-collection-errors"

CHECKS = {
 "C17": dict(
  technique="Lean 4 refinement proof (code model of ordereddict.py ⊑ plain ordered dict on lower-cased keys, by induction over operation sequences) + op-sequence correspondence with the real class",
  text="Kernel-checked theorems C17_step_refines / C17_inv_step / C17_runs_refine / C17_from_construction / C17_copies_equal: for every state reachable from any constructor call and every (unbounded) sequence of getitem/setitem/delitem/contains/get/pop/setdefault/update/items/copy/deepcopy/pickle, the model of ordereddict.py returns exactly what an ordinary ordered dict keyed by lower-cased keys returns, with the documented default rule. The model is tied to the real class on every run by exhaustive small-scope and random op-sequence correspondence; an independent reference dict is the oracle on the real class.",
  note="Trusted: Lean kernel; hand model of ordereddict.py (correspondence-checked, string keys, opaque values, ASCII lower); CPython's OrderedDict C call-back behaviour as observed; deepcopy aliasing checked on real objects only.",
  ref="§6 C17"),
 "C18": dict(
  technique="Lean 4 proofs of the update/find laws on a structural-recursive model of dictutils.py (update = left fold of single-entry updates, each with its law) + I/O correspondence with the real functions",
  text="Kernel-checked theorems over Model/DictUtils.lean for all dictionaries, patches and lists (unbounded nesting): C18_update_seq/_step (update is the sequential composition of single-entry updates), _untouched, _scalar, _no_overwrite, _merge_rec, _list_zip/_list_merge/_list_none_skips/_list_extra/_list_delete/_list_rest_kept, _delete_key/_delete_obj/_root_delete, C18_find_first, _findall_spec, _findunique_distinct/_sorted_ints, _findkey_path, C18_find_pure (threading the C17 dict states through the search). The model is tied to the real functions by correspondence on random nested plain/Mapfile dicts; an independent reference merge and law checks (arguments unchanged, identity of the result) are the oracle.",
  note="Trusted: Lean kernel; hand model of dictutils.py (correspondence-checked); domain: type-compatible patches, patch keys distinct under case folding for Mapfile-dict targets, deletion markers for existing keys, bool overwrite; result/patch aliasing not modelled.",
  ref="§6 C18"),
 "C16": dict(
  technique="Lean 4 proof by mutual structural induction over the printer model (every printed object is balanced layout for every dictionary and option record; alignment column arithmetic) + exact-string correspondence with PrettyPrinter.pprint",
  text="Kernel-checked: fmt_bal/fmtItems_bal/fmtList_bal (mutual induction over unbounded nesting) giving C16_well_nested — an independent stack-discipline reader accepts the structured lines of every successfully printed object under every option record: openers and keyword lines at depth × indent, END at the opener's indentation, '# TYPE' with end_comment; C16_lines_joined and C16_indent_exact (text = rendered lines joined by newlinechar, each starting with lvl × indent spacers); C16_aligned_column and C16_aligned_kv (value column = first multiple of max(1, indent) past the longest simple keyword, ≥ 1 blank). The model is tied to pprint.py by exact-string correspondence on corpus and schema-generated dictionaries × option sets; an independent text-level line reader is the oracle on real dumps output.",
  note="Trusted: Lean kernel; hand model of pprint.py/quoter.py (exact-string correspondence each run); Gen/Props + Gen/Vocab regenerated from schemas and tokens.py; ASCII case/strip functions; Python float division as Nat division; root key/value blocks (outside the 19 block types) are printed one level in and only shown balanced at depth 1.",
  ref="§6 C16"),
 "C06": dict(
  technique="Lean 4 proof by mutual structural induction: printed line content is invariant under every layout option record; separate_complex_types is a stable partition/permutation; + exact-string correspondence and real reload oracle",
  text="Kernel-checked: C06_layout_invariant — for EVERY two option records that agree on quote and separate_complex_types (any indent, spacer string, newline string, end_comment, align_values) and every dictionary or list of roots, printing fails with the same error or yields the same sequence of (kind, key text, value text), comment lines aside (fmt_sim/fmtItems_sim/fmtList_sim by mutual induction over unbounded nesting); C06_sep_stable/_perm/_idem — separate_complex_types is a stable partition of each object's keys (simple keys then block-valued keys, relative order kept), a permutation, idempotent. Tied to pprint.py by exact-string correspondence; the oracle reloads real dumps output under option sets drawn from the full 864+ product and compares with the default formatting (modulo the documented block reordering, computed independently).",
  note="Trusted: Lean kernel; hand model of pprint.py (correspondence); Gen tables regenerated; that Lark maps equal token content to equal dictionaries is the parser/lexer gap, exercised by the oracle; the quote option is covered by the oracle and correspondence only (no theorem yet); strings containing the output quote are the documented exclusion.",
  ref="§6 C06"),
 "C03": dict(
  technique="Lean 4 proofs: hidden keys contribute nothing (for every object, option record); per-shape lexical-class lemmas universal in the value + `decide +kernel` obligation over the regenerated schema tables; + format_value/quoter/pp correspondence and an independent expected-lines oracle incl. dict-API edit histories",
  text="Kernel-checked: C03_hidden_keys_silent / C03_kv_hidden_silent / sep_dropHidden (dropping every __name__ key other than __type__/__comments__ from any object changes nothing that is printed, under every option record); C03_string_quoted, C03_int_bare, C03_float_bare, C03_bool_bare, C03_binding_bare, C03_expression_bare, C03_listexpr_bare, C03_regex_bare (each universal in the value, under an explicit decidable condition okFor on the keyword's schema abstraction) and C03_table / C03_cell_ok (`decide +kernel`: every (type, keyword, admissible shape) of the regenerated Gen.props × Gen.shapes satisfies okFor; enumerated words evaluated exhaustively for both quotes); C03_empty_dict_refused. Edit histories need no separate theorem: the statements hold for every dictionary. Tied to the code by format_value (every cell × shape × both quotes), quoter (exhaustive short strings) and pp correspondences; the oracle compares real dumps with an independently written expectation, for generated documents and for dictionaries edited through random dict-API histories (incl. reads of missing keys, which must be refused).",
  note="Trusted: Lean kernel; hand models of pprint.py/quoter.py (correspondence each run); Gen tables regenerated; lexical-class lemmas use the model's quoter predicates as hypotheses; COMPOP and GEOMTRANSFORM \"end\" quoted by design; strings that look like expressions/bindings/regexes at expression-capable keywords are the documented exclusion; list-valued keywords holding bindings are not in the generated shapes.",
  ref="§6 C03"),
 "C15": dict(
  technique="Lean 4 proof that the load_includes model computes exactly depth-bounded textual substitution (soundness + completeness by induction on the nesting budget and the line list; structural recursion on the budget is the termination argument) + correspondence on include trees materialised on disk",
  text="Kernel-checked over Model/Includes.lean for every file system and path-resolution function: C15_sound and C15_complete (expandLines b ls = ok out ⇔ ExpandsD b ls out: the result is the textual substitution of INCLUDE lines using at most b nesting levels), C15_five_levels (the public entry has budget 5), C15_limit (any INCLUDE at the limit raises the MaxNested ValueError), C15_missing (I/O error), C15_cycle (a self-including file fails for every budget), C15_no_include_identity and join_split (text without INCLUDE lines is returned byte-identical). Termination is by structural recursion on the budget. The same root-relative `resolve` is used at every depth by construction. Tied to Parser.load_includes by exact expanded-text correspondence on random include trees written to a temp dir; the oracle loads the cut documents through open/load/loads from two working directories and compares with loads of the single original text, plus depth ≥ 6, cyclic, missing-file and expand_includes=False variants.",
  note="Trusted: Lean kernel; hand model of load_includes/_get_include_filename (correspondence each run); the OS file system, os.path and text-mode newline translation are parameters supplied by the harness; Lark parsing of the expanded text is exercised by the oracle. Include paths containing blanks are not supported by the code (split on whitespace) and are not generated; the 'quotes/trailing comment do not matter' clause is covered by correspondence and oracle, not yet by a theorem.",
  ref="§6 C15"),
 "C10": dict(
  technique="Lean 4 proofs by structural induction over expression trees (normal forms balanced / one group / derivable in the grammar ladder as a tree of the same shape / fixpoint / leaves in order) + `decide` obligations pinning the ladder rules of the regenerated grammar tables + exact-string correspondence on real Lark trees",
  text="Kernel-checked over Model/Expr.lean for every expression tree (unbounded size): C10_bal_norm, C10_top_oneGroup (what is stored is one parenthesised group), C10_derivable (for every tree obeying the ladder's level discipline, the normalised tokens are a sentence of the grammar ladder G, derived as `re e` at the tree's own level — the added parentheses are never *needed* to regroup), C10_shape_re (re e has the same operator tree, operands and operator spellings: added parentheses never regroup operands), C10_norm_re (re-reading and re-normalising gives the same string), C10_leaves_in_order (operands and operator spellings unchanged and in order); Ladder.* (`decide` over Gen/Grammar.lean: or_test, and_test, comparison, sum/add/sub, product/mul/div/power, unary_expr/neg, atom, expression, not_expression, func_call, value, compare_op have exactly the alternatives G was written from). C10_old_test_witness keeps the repaired defect as a witness. Tied to transformer.py by exact-string correspondence on the real Lark tree of every generated expression; the oracle reads the stored string with an independent precedence parser (same operator tree, same leaves, one group, dumps/loads fixpoint) for all tree shapes up to a bound and random trees to 40 operators.",
  note="Trusted: Lean kernel; hand model of the expression call-backs (correspondence each run); grammar tables regenerated through Lark's loader; Lark's LALR shift preference (that the real parser derives exactly the ladder's tree) is exercised, not proved; function arguments are operands; '%' (comparison operator in the grammar, arithmetic in the property text) and the literal 0 under unary minus are not generated.",
  ref="§6 C10"),
 "C09": dict(
  technique="Lean 4 proofs over a store-with-sharing model of the version filter (range test; the in-place walk equals the specification filter on expanded trees; unannotated entries untouched; idempotence; per-Validator cache transparency by induction over call histories) + `decide +kernel` obligations over the regenerated schema folder + correspondence of expanded views for every schema × version class and call histories",
  text="Kernel-checked over Model/Versioning.lean: C09_valid_iff (is_valid_for_version ⇔ minVersion ≤ v ≤ maxVersion with defaults 0/1000), C09_tree_spec (on every reference-free properties dict, for every walk budget and store, get_versioned_properties returns exactly the specification filter — every dict-valued entry and every dict alternative is dropped iff out of range, at every depth — and leaves the store alone), C09_keyword_kept_iff / C09_alternative_kept_iff, C09_unannotated_id (a schema without metadata entries is returned unchanged for every version), C09_spec_idem (filtering twice = once, for schemas whose metadata entries are flat), C09_no_version / C09_zero_version (no version, or 0: nothing filtered), C09_versioned_step and C09_cache_transparent (for EVERY history of get_versioned_schema requests on one Validator — any names, versions, order, repetition — each answer is a fresh Validator's answer; invariant: a cache entry is the loaded schema or its pruned form for its own key), with the premise PruneIdem executed for every schema × version class; C09_acyclic, C09_files_metaWF, C09_files_bounds (`decide +kernel` over Gen/Schemas.lean: the $ref graph is acyclic within the walk budget and resolves, every metadata entry is a flat dict with decimal bounds). Tied to validator.py by exact comparison of the fully expanded views for all 37 schema files × 39 version points and for random call histories on one Validator; oracles: the real versioned schema equals an independently written tree filter of the real version-less expansion; generated documents using each of the 89 annotated keywords are rejected exactly outside the range (fresh and reused Validator); exports and answers on a reused Validator equal a fresh one's.",
  note="Trusted: Lean kernel; hand model of the validator's version functions incl. jsonref's sharing of referenced documents (correspondence each run); Gen/Schemas regenerated; PruneIdem for the shared store is executed per schema × class, not yet kernel-proved (proved for reference-free schemas); KeysInj (name+str(version) collisions) is a hypothesis; float comparison as decimal comparison; jsonschema's verdict on the pruned schema is third-party (exercised by the keyword-document oracle).",
  ref="§6 C09"),
}
NOT_APPLICABLE = {}
ALL = [f"C{i:02d}" for i in range(1, 21)]

def main():
    checks = []
    for pid in ALL:
        if pid not in CHECKS:
            continue
        c = CHECKS[pid]
        checks.append({
            "property_id": pid,
            "quick_cmd": f"/venv/bin/python tools/check.py {pid} quick",
            "thorough_cmd": f"/venv/bin/python tools/check.py {pid} thorough",
            "evidence_file": f"evidence/{pid}.json",
            "replay_cmd_template": f"/venv/bin/python tools/check.py {pid} --replay {{path}}",
            "engine": "lean4+correspondence",
            "level_claimed": {"category": "proof", "text": c["text"], "design_ref": c["ref"]},
            "level_note": c["note"],
            "technique": c["technique"],
        })
    na = []
    for pid in ALL:
        if pid not in CHECKS:
            na.append({"property_id": pid, "reason": NOT_APPLICABLE.get(pid, "not yet claimed: the Lean model/theorems and check for this property are still being built (see DESIGN.md §6); the technique applies")})
    m = {
        "version": 1,
        "setup_cmd": "cd lean && lake build Mappy driver",
        "hooks": {"guard": "MAPPYFILE_VERIF", "enable": "no source hooks are needed: every stage is reachable through public objects; checks set MAPPYFILE_VERIF=1 for uniformity",
                  "baseline_off_cmd": BASELINE, "source_commits": [], "add_only": True},
        "engines": [{"name": "lean4+correspondence", "path": "lean/ + tools/", "serves_properties": sorted(CHECKS),
                     "kind_free_text": "Lean 4 models and theorems (lake project lean/Mappy), translator tools/vlib/translate*.py regenerating lean/Mappy/Gen from /repo, line-protocol driver (lean/Main.lean) for model-vs-implementation correspondence, Python oracles on the real code"}],
        "checks": checks,
        "not_applicable": na,
        "notes": "All checks: /venv/bin/python tools/check.py <Cxx> quick|thorough. Exit 0 clean, 1 + VIOLATION line on a violation, 2 on infrastructure failure. known_findings.json lists recorded genuine defects.",
    }
    with open(os.path.join(ROOT, "MANIFEST.json"), "w") as f:
        json.dump(m, f, indent=1, ensure_ascii=False)
    print("MANIFEST.json:", len(checks), "checks,", len(na), "unclaimed")

if __name__ == "__main__":
    main()
