#!/bin/bash
# usage: benigntest.sh <dir with patch.diff> [props...]  -- applies a behaviour-preserving change to /repo, runs the quick checks
# (all 20 unless listed), prints every check that does not exit 0 or prints VIOLATION, reverts.  Output: /tmp/benign_<name>.log
d=$(realpath "$1"); shift
props=${@:-C01 C02 C03 C04 C05 C06 C07 C08 C09 C10 C11 C12 C13 C14 C15 C16 C17 C18 C19 C20}
name=$(basename "$d")
cd /repo || exit 2
if ! git diff --quiet; then echo "/repo dirty"; exit 2; fi
git apply "$d/patch.diff" || { echo "PATCH DOES NOT APPLY: $d"; exit 3; }
cd /verif
log=/tmp/benign_$name.log; : > $log
for p in $props; do
  timeout 3000 /venv/bin/python tools/check.py $p quick > /tmp/benign_$name.$p.out 2>&1; rc=$?
  tail -1 /tmp/benign_$name.$p.out >> $log
  if [ $rc -ne 0 ] || grep -q "^VIOLATION" /tmp/benign_$name.$p.out; then echo "ALARM $name $p rc=$rc: $(grep -m2 '^VIOLATION' /tmp/benign_$name.$p.out)"; fi
done
git -C /repo checkout -- . ; git -C /repo status --short | head -3
echo "done $name"
