#!/venv/bin/python
"""Entry point: check.py <Cxx> <quick|thorough> | check.py <Cxx> --replay <file>"""
import importlib, os, sys, traceback
sys.path.insert(0, os.path.dirname(os.path.abspath(__file__)))
os.chdir(os.path.dirname(os.path.dirname(os.path.abspath(__file__))))
from vlib import core


def main():
    if len(sys.argv) < 3:
        print(__doc__); sys.exit(2)
    prop = sys.argv[1]
    replay = None
    if sys.argv[2] == "--replay":
        tier = "quick"; replay = sys.argv[3]
    else:
        tier = os.environ.get("VERIF_TIER") or sys.argv[2]
        if tier not in ("quick", "thorough"):
            tier = sys.argv[2]
    core.repo_check()
    ctx = core.Ctx(prop, tier, replay)
    try:
        mod = importlib.import_module(f"props.{prop}")
        mod.main(ctx)
    except SystemExit:
        raise
    except Exception as ex:
        tb = traceback.extract_tb(ex.__traceback__)
        inner = tb[-1].filename if tb else ""
        if any(f.filename.startswith(core.REPO + os.sep) for f in tb):
            # an exception escaped from the implementation where the harness expected none: that is an
            # observable change of behaviour, reported as a violation (last-resort net; oracles catch what they expect)
            ctx.violation("unexpected-exception:" + type(ex).__name__, f"implementation raised {type(ex).__name__}: {ex}",
                          {"traceback": traceback.format_exc()[-3000:]})
            core.finish(ctx, ["(check aborted by an exception escaping from the implementation)"], "aborted run")
        traceback.print_exc()
        print(f"INFRA: {prop} check crashed", file=sys.stderr)
        sys.exit(2)


if __name__ == "__main__":
    main()
