#!/bin/bash
# usage: intake_wt.sh <id> <Cxx>
id=$1; prop=$2
cd /verif; mkdir -p seeded/$id; cp /tmp/newseeds/$id/patch.diff /tmp/newseeds/$id/demo.py seeded/$id/
python3 - /tmp/newseeds/$id seeded/$id <<'PY'
import json,sys
src,dst=sys.argv[1:]
m=json.load(open(src+'/meta.json'))
out={"id":m.get("id"),"property":m.get("property"),"summary":m.get("summary"),"needs":m.get("needs"),"author_ran":m.get("ran"),"detected_by":{}}
json.dump(out,open(dst+'/meta.json','w'),indent=1,ensure_ascii=False)
PY
bash tools/seedwt.sh seeded/$id $prop 2>&1 | grep -v "^WARNING\|^KNOWN" | tail -3 | cut -c1-260
