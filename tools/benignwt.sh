#!/bin/bash
# usage: benignwt.sh <name> <worktree with the behaviour-preserving change applied> [props...]
# runs the quick checks against the worktree (MAPPY_REPO / PYTHONPATH), leaving /repo alone.  Output: /tmp/benign_<name>.log
name=$1; wt=$2; shift 2
props=${@:-C01 C02 C03 C04 C05 C06 C07 C08 C09 C10 C11 C12 C13 C14 C15 C16 C17 C18 C19 C20}
cd /verif
log=/tmp/benign_$name.log; : > $log
for p in $props; do
  MAPPY_REPO=$wt PYTHONPATH=$wt timeout 3000 /venv/bin/python tools/check.py $p quick > /tmp/benign_$name.$p.out 2>&1; rc=$?
  tail -1 /tmp/benign_$name.$p.out >> $log
  if [ $rc -ne 0 ] || grep -q "^VIOLATION" /tmp/benign_$name.$p.out; then echo "ALARM $name $p rc=$rc: $(grep -m2 '^VIOLATION' /tmp/benign_$name.$p.out)"; fi
done
echo "done $name"
