#!/bin/bash
# usage: seedtest.sh <dir with patch.diff [demo.py]> <Cxx> [tier]   -- applies the seeded change to /repo, runs demo + check, reverts.
d=$(realpath "$1"); prop=$2; tier=${3:-quick}
cd /repo || exit 2
if ! git diff --quiet; then echo "/repo dirty"; exit 2; fi
if ! git apply --check "$d/patch.diff" 2>/dev/null; then
  if ! git apply --3way "$d/patch.diff" 2>/dev/null; then echo "PATCH DOES NOT APPLY: $d"; git reset -q --hard HEAD; exit 3; fi
  git reset -q
else git apply "$d/patch.diff"; fi
if [ -f "$d/demo.py" ]; then (cd /tmp && PYTHONPATH=/repo /venv/bin/python "$d/demo.py" >/dev/null 2>&1; echo "demo exit (mutated): $?"); fi
cd /verif && timeout 3000 /venv/bin/python tools/check.py $prop $tier 2>&1 | tail -4; echo "check exit: ${PIPESTATUS[0]}"
git -C /repo checkout -- . ; git -C /repo status --short | head -3
