"""C02 — parsed dictionary follows the documented text-to-dict contract.
proof leg: Mappy.Props.C02 (type tag first; repeated keywords / repeatable blocks collected completely and in source order;
           singleton blocks nested; outer quotes only; booleans, ints, hex colours; key/value pairs) + C08_last_occurrence (last wins).
correspondence: MapfileToDict.transform vs the Lean transformer model on the real Lark tree of every rendering.
oracle: real loads(render(ir)) == the dictionary the documentation promises for the IR (G3, written from docs, not from the code),
        for schema-generated documents of every object type in plain and free layouts, with repeated POINTS, escaped quotes,
        duplicated keywords, repeated keywords, nested blocks to depth 5."""
from __future__ import annotations
import json
from collections import OrderedDict
from vlib import core, gen, trees, ppcommon

LEVEL_NOTE = [
    "Lean 4.33 kernel; axioms ⊆ {propext, Classical.choice, Quot.sound} (audited each run)",
    "Model/Transformer.lean hand model of transformer.py (correspondence on real Lark trees each run)",
    "that Lark builds the tree the grammar describes for a rendering is the parser gap: exercised by the oracle (real loads vs the promised dictionary), not proved",
    "`conservation` (nothing dropped / invented / re-attached) is established per call-back (C02_repeated_in_order, C02_plural_in_order, C02_singleton_nested, C08_last_occurrence), composed for one level and for whole trees by C01_level_roundtrip / C01_document_roundtrip (Props/C01Attr.lean: a block whose items are keyword lines with distinct plain keywords, singleton blocks and consecutive runs of repeatable blocks becomes `__type__` + exactly those entries in order, at every depth), and checked by the oracle on whole documents of every layout (interleaved repeatable blocks, repeated keywords, CONFIG, POINTS are covered by the per-call-back theorems only)",
    "float values are carried as Python's repr (supplied per case)",
]
RULE = ("schema-generated documents: every object type as root, keywords drawn from the schema with every admissible value shape, nesting ≤ 5 (thorough) / 3 (quick), "
        "plain and free layouts (per-token case, separators, quote style), extra repeated POINTS (float-first and int-first), strings ending in escaped quotes, "
        "duplicated keywords, repeated keywords; non-trivial = every document; distinct by text")


def extras(rng, b, depth=0):
    """add the shapes the plain generator does not produce"""
    for it in list(b.items):
        if it[0] == "block":
            extras(rng, it[2], depth + 1)
    r = rng.random()
    props = gen.raw(b.type)["properties"]
    if "points" in props and r < .6:
        for _ in range(rng.randint(1, 3)):
            first = rng.choice([1.5, 0.25, 3, 10])
            pairs = [(first, rng.randint(0, 9))] + [(rng.randint(0, 50), rng.choice([rng.randint(0, 50), 2.5])) for _ in range(rng.randint(0, 2))]
            b.items.insert(rng.randrange(len(b.items) + 1), ("points", "points", pairs))
    # characters that are line boundaries for str.splitlines() only, CRLF and a bare LF inside a quoted string: content, not layout
    for k in ("data", "template", "text", "title", "header"):
        if k in props and rng.random() < .12 and not any(len(it) > 1 and it[1] == k for it in b.items):
            v = rng.choice(["SELECT a\r\nFROM t", "first\u2028second", "nel\x85here", "page\x0cbreak", "fs\x1cgs", "vt\x0btab", "a\nb", "cr\rlf"])
            b.items.append(("attr", k, v, [(v, "qstr")], "string"))
    # list expressions: stored exactly as written (numbers with leading / trailing zeros or a sign, booleans, quoted items)
    if "expression" in props and rng.random() < .3 and not any(len(it) > 1 and it[1] == "expression" for it in b.items):
        src = rng.choice(["{70,960,00,17,13940}", "{01234,02139}", "{1.50,2.00}", "{+5,-3}", "{TRUE,false}", "{a,b c,d}", "{10,20}", "{1e3,.5}"])
        b.items.append(("attr", "expression", src, [(src, "raw")], "expression"))
    if "name" in props and rng.random() < .25:
        body = rng.choice(['layer \\"a\\"', 'x \\"', "it is \\'b\\'", 'The \\"Title\\"'])
        q = "'" if "\\'" in body else '"'
        b.items.append(("attr", "name", body, [(q + body + q, "raw")], "string"))
    if "metadata" in props and rng.random() < .2 and not any(len(it) > 1 and it[1] == "metadata" for it in b.items):
        b.items.append(("kv", "metadata", [("Title", 'The \\"T\\"'), ("wms_srs", "EPSG:4326"), ("TITLE", "again")]))
    # strings whose content is itself wrapped in the other kind of quotes: only the OUTER pair goes
    if "projection" in props and rng.random() < .25 and not any(it[0] == "projection" for it in b.items):
        b.items.append(("projection-raw", ["'init=epsg:3857'", "proj=utm", '"+zone=15"']))
    if "template" in props and rng.random() < .15 and not any(len(it) > 1 and it[1] == "template" for it in b.items):
        b.items.append(("attr", "template", "'quoted'", [("\"'quoted'\"", "raw")], "string"))
    # a non-repeatable keyword given twice: the last value, at the first position
    attrs = [it for it in b.items if it[0] == "attr" and it[4] != "string"]
    if attrs and rng.random() < .3:
        it = rng.choice(attrs)
        shs = [s for s in gen.shapes(props[it[1]], it[1]) if s[0] not in ("objlist", "object", "kv", "points")]
        if shs:
            gen.add_item(rng, b, it[1], rng.choice(shs), 0)


def explore(ctx, scale=1.0):
    import mappyfile
    from mappyfile.transformer import MapfileToDict
    rng = ctx.rng
    n = int((12000 if ctx.thorough else 900) * scale)
    reqs, keep = [], []
    types = gen.BLOCK_TYPES
    for i in range(n):
        t = types[i % len(types)] if i < 4 * len(types) else rng.choice(types + ["map", "layer", "class", "feature", "symbol"])
        depth = rng.choice([0, 1, 2, 3] + ([4, 5] if ctx.thorough else []))
        b = gen.gen_block(rng, t, depth=depth, max_items=rng.choice([3, 6, 10]))
        extras(rng, b)
        lay = gen.Layout(rng, plain=(i % 2 == 0))
        text, want = render_with_raw(b, lay)
        ctx.case(text, True, sample={"text": text[:200]} if rng.random() < .003 else None)
        ctx.count(f"root:{t}"); ctx.count("layout:" + ("plain" if lay.plain else "free")); ctx.count(f"depth={depth}")
        rep = {"text": text, "expected": json.loads(core.canon(want))}
        # ---- oracle: the real loader against the promised dictionary ----
        try:
            if i % 12 == 0:
                d = mappyfile.loads(text)
                ctx.count("api:loads")
            else:
                d = MapfileToDict().transform(trees.parser(False, True).parse(text))
        except Exception as ex:
            # the generator may hit the known first-keyword / lexer ambiguities (C19 / C05 findings): only count those
            ctx.count(f"unparseable ({type(ex).__name__}) — C19/C05 territory")
            continue
        got = gen.plain_dict(d)
        if core.canon(got) != core.canon(want):
            where = first_diff(json.loads(core.canon(want)), json.loads(core.canon(got)))
            ctx.violation(f"contract:{where[0]}", f"loads differs from the documented dictionary at {where[1]}: expected {str(where[2])[:80]!r}, got {str(where[3])[:80]!r}",
                          dict(rep, got=json.loads(core.canon(got)), path=where[1]))
        # ---- correspondence ----
        try:
            tree = trees.parser(False, False).parse(text)
        except Exception:
            continue
        if trees.ascii_case_safe(tree):
            reqs.append(trees.request(tree, False, False)); keep.append((text, trees.real_transform(tree, False, False)))
        else:
            ctx.count("corr:skipped non-ASCII case")
    for (text, real), ans in zip(keep, core.lean_call(reqs)):
        ctx.count("shape premise holds" if ans.get("shape") else "shape premise fails")
        if ans.get("err") == "UNSUPPORTED":
            ctx.count("corr:model UNSUPPORTED"); continue
        if trees.same(ans, real):
            ctx.corr_ok("transform")
        else:
            ctx.corr_diff("transform", {"text": text[:1500]}, json.dumps(ans)[:400], json.dumps(real)[:400])


def render_with_raw(b, lay):
    """gen.render / gen.expected, plus PROJECTION blocks whose strings are written with explicit nested quotes"""
    raws = []
    def strip(blk):
        for it in list(blk.items):
            if it[0] == "block":
                strip(it[2])
            elif it[0] == "projection-raw":
                raws.append((blk, it))
                blk.items[blk.items.index(it)] = ("projection", ["@@RAW%d@@" % len(raws)])
    strip(b)
    text = gen.render(b, lay)
    want = gen.expected(b)
    for n, (blk, it) in enumerate(raws, 1):
        written = " ".join(("'" + s + "'") if '"' in s else ('"' + s + '"') for s in it[1])
        for q in ('"', "'"):
            text = text.replace(q + "@@RAW%d@@" % n + q, written)
        def fix(d):
            if isinstance(d, dict):
                for k, v in d.items():
                    if k == "projection" and v == ["@@RAW%d@@" % n]:
                        d[k] = list(it[1])
                    else:
                        fix(v)
            elif isinstance(d, list):
                for v in d:
                    fix(v)
        fix(want)
    return text, want


def first_diff(a, b, path=()):
    if type(a) is not type(b):
        return (kindof(path), list(path), a, b)
    if isinstance(a, dict) and "d" in a and "d" in b:
        ka = [k for k, _ in a["d"]]; kb = [k for k, _ in b["d"]]
        if ka != kb:
            return ("keys", list(path), ka, kb)
        for (k, x), (_, y) in zip(a["d"], b["d"]):
            r = first_diff(x, y, path + (k,))
            if r:
                return r
        return None
    if isinstance(a, dict):
        for k in a:
            r = first_diff(a[k], b.get(k), path + (k,))
            if r:
                return r
        return None
    if isinstance(a, list):
        if len(a) != len(b):
            return (kindof(path) + ":length", list(path), f"{len(a)} items", f"{len(b)} items")
        for i, (x, y) in enumerate(zip(a, b)):
            r = first_diff(x, y, path + (i,))
            if r:
                return r
        return None
    return None if a == b else (kindof(path), list(path), a, b)


def kindof(path):
    keys = [p for p in path if isinstance(p, str) and p not in ("d", "t", "f")]
    return keys[-1] if keys else "root"


def main(ctx):
    if ctx.replay:
        print(open(ctx.replay).read()[:4000]); return
    core.proof_leg(ctx, ["Mappy.Props.C02", "Mappy.Props.C01Attr"])
    explore(ctx)
    core.finish(ctx, LEVEL_NOTE, RULE, search=lambda c: explore(c, scale=2.0))
