"""C05 — surface syntax does not change meaning (partial: Lark's tokenisation is the lexer gap).
proof leg: Mappy.Props.C05 (tree level: keyword case, token positions, quote style, bare words never reach the stored values).
correspondence: `transform` on the real trees of both renderings of each pair.
oracle: real loads on pairs of renderings of one token sequence — a schema-generated IR written plainly and written with random
        per-token case, separators (blanks, tabs, form feeds, LF, CRLF, # comments and /* */ comments with hostile bodies) and
        quote styles; corpus files with every between-token gap replaced by a random separator."""
from __future__ import annotations
import json
from vlib import core, gen, corpus, trees

LEVEL_NOTE = [
    "Lean 4.33 kernel; axioms ⊆ {propext, Classical.choice, Quot.sound} (audited each run)",
    "PARTIAL: the theorems are about the transformer (what is stored never depends on keyword case, token positions, quote style or bare-word quoting); that Lark's contextual regex lexer produces the same token kinds for two renderings (terminal priorities, look-aheads, comment terminals, the keyword mechanism) is third-party behaviour the model cannot exhibit — it is exercised on every pair by the oracle",
    "Model/Transformer.lean hand model (correspondence each run)",
    "rendering domain: a separator begins with a white-space character, or is a /* */ comment written flush behind a plain word, an integer or a quoted string (after a token holding '.' or '/' the slash of a flush comment is read as part of a path: recorded lexer quirk, outside the domain); the inside of {…} lists and of [binding] brackets is one lexical unit; case is varied on keywords, block types, END and TRUE/FALSE, not on enumerated values (stored as written — the difference C01 allows)",
]
RULE = ("pairs (plain rendering, wild rendering) of schema-generated documents of every object type; corpus files × random replacement of every between-token gap; "
        "comment bodies include form feeds, vertical tabs, NEL, U+2028, asterisk runs before the closing */, Mapfile-like text and quotes; "
        "non-trivial = every pair; distinct by the wild text")

HOSTILE_LINE = ["c", "page 1\fEXTENT 0 0 10 10", "x\x0bEND", "nel\x85NAME 'zzz'", "ls END END", "'unbalanced", 'say "hi', "/* not c */", "END", "####", ""]
HOSTILE_C = ["c", " extent ", "* extent *", "** banner **", "*", "***", "a\nb", "a\r\nEND\n", "/ slash /", "# hash\nNAME 'zzz'", " 'q\" ", "*/ x".replace("*/", "* /"), ""]


class Wild(gen.Layout):
    def __init__(self, rng):
        super().__init__(rng, plain=False)

    def kw(self, w):
        # AUTO (PROJECTION AUTO) is an enumerated *value*: stored as written, like TYPE polygon — not a keyword
        return w if w.upper() == "AUTO" else super().kw(w)

    def ws(self):
        return self.rng.choice([" ", "  ", "\t", " \t ", "\n", "\r\n", " \n  ", " \f", "\n\n", "\r\n\t"])

    def comment(self):
        r = self.rng
        if r.random() < .5:
            return "#" + r.choice(HOSTILE_LINE) + r.choice(["\n", "\r\n"])
        body = r.choice(HOSTILE_C)
        return "/*" + body + "*/"

    def sep(self):
        s = self.ws()
        for _ in range(self.rng.choice([0, 0, 1, 1, 2])):
            s += self.comment() + self.ws()
        return s

    def nl(self, ind):
        return self.sep()


def bare_words(rng, b):
    """values written as bare words where MapServer allows it (SYMBOL circle, NAME grid, GROUP roads): the reader has a
    special rule for the word after SYMBOL / NAME, which must not depend on how the keyword itself is spelled"""
    for it in list(b.items):
        if it[0] == "block":
            bare_words(rng, it[2])
    props = gen.raw(b.type)["properties"]
    for k, words in (("symbol", ["circle", "star", "x1", "sq-2"]), ("name", ["grid", "roads", "GRID", "layer1"]), ("group", ["roads", "g1"])):
        if k in props and b.type != "symbol" and rng.random() < .3 and not any(len(it) > 1 and it[1] == k for it in b.items):
            node = props[k]
            if "string" not in json.dumps(node):
                continue
            w = rng.choice(words)
            b.items.insert(rng.randrange(len(b.items) + 1), ("attr", k, w, [(w, "word")], "string"))


FLUSH = None


def flush_comments(rng, text):
    """a /* */ comment may be written directly behind a token, without white space: done for tokens that are a plain word, an
    integer or a quoted string (after a token holding '.' or '/' the lexer reads the slash as part of a path — the recorded
    quirk that stays outside the rendering domain).  Generated strings never hold '/*', so only layout is touched."""
    import re
    global FLUSH
    if FLUSH is None:
        FLUSH = re.compile(r"""(?:(?<=\s)|^)([A-Za-z0-9_]+|"[^"\n]*"|'[^'\n]*')[ \t]+(?=/\*)""")
    return FLUSH.sub(lambda m: m.group(1) if rng.random() < .5 else m.group(0), text)


def gaps_rerender(rng, text):
    """replace every non-empty gap between two tokens of a corpus text by a random separator (gaps inside {…} untouched)"""
    P = trees.parser(False, False)
    ip = P.lalr.parse_interactive(text)
    toks = list(ip.iter_parse())
    lay = Wild(rng)
    out, pos, depth = [], 0, 0
    for t in toks:
        gap = text[pos:t.start_pos]
        if gap and depth == 0:
            out.append(lay.sep())
        else:
            out.append(gap)
        out.append(text[t.start_pos:t.end_pos])
        if str(t) == "{":
            depth += 1
        elif str(t) == "}":
            depth = max(0, depth - 1)
        pos = t.end_pos
    out.append(text[pos:] if not text[pos:].strip() else lay.sep() + text[pos:])
    return "".join(out)


def explore(ctx, scale=1.0):
    import mappyfile
    from mappyfile.transformer import MapfileToDict
    rng = ctx.rng
    pairs = []
    n = int((8000 if ctx.thorough else 500) * scale)
    types = gen.BLOCK_TYPES
    for i in range(n):
        t = types[i % len(types)] if i < 2 * len(types) else rng.choice(types + ["map", "layer", "class"])
        b = gen.gen_block(rng, t, depth=rng.choice([0, 1, 2, 3]), max_items=rng.choice([3, 6, 9]))
        bare_words(rng, b)
        pairs.append((gen.render(b), flush_comments(rng, gen.render(b, Wild(rng))), "generated"))
    ctexts = corpus.texts()
    for _, text in (ctexts if ctx.thorough else rng.sample(ctexts, int(80 * scale))):
        for _ in range(3 if ctx.thorough else 1):
            try:
                pairs.append((text, gaps_rerender(rng, text), "corpus"))
            except Exception as ex:
                ctx.count(f"corpus:re-rendering failed ({type(ex).__name__})")
    reqs, keep = [], []
    P = trees.parser(False, True)          # expand_includes=True: the default path of loads (the texts hold no INCLUDE)
    for idx, (a, b, kind) in enumerate(pairs):
        if kind == "corpus" and "include" in a.lower():
            P_use = trees.parser(False, False)
        else:
            P_use = P
        try:
            da = MapfileToDict().transform(P_use.parse(a))
        except Exception as ex:
            ctx.count(f"{kind}:plain rendering unparseable ({type(ex).__name__}) — C19 territory")
            continue
        ctx.case(b, True, sample={"plain": a[:150], "wild": b[:250]} if rng.random() < .004 else None)
        ctx.count(f"pair:{kind}")
        ctx.count("wild:has # comment" if "#" in b else "wild:no # comment")
        rep = {"plain": a, "wild": b}
        try:
            if idx % 10 == 0:
                db = mappyfile.loads(b, expand_includes=(P_use is P))
                ctx.count("api:loads")
            else:
                db = MapfileToDict().transform(P_use.parse(b))
        except Exception as ex:
            ctx.violation(f"surface:rejected:{type(ex).__name__}", f"a re-rendering with other separators / case / quotes is rejected ({type(ex).__name__}) while the plain rendering loads", rep)
            continue
        if core.canon(gen.plain_dict(da)) != core.canon(gen.plain_dict(db)):
            ctx.violation("surface:differs", "two renderings of the same tokens (separators / comments / keyword case / quote style differ) load to different dictionaries", rep)
            continue
        # correspondence on the wild tree
        try:
            tree = trees.parser(False, False).parse(b)
            if trees.ascii_case_safe(tree):
                reqs.append(trees.request(tree, False, False)); keep.append((b, trees.real_transform(tree, False, False)))
        except Exception:
            pass
    for (text, real), ans in zip(keep, core.lean_call(reqs)):
        if ans.get("err") == "UNSUPPORTED":
            ctx.count("corr:model UNSUPPORTED"); continue
        if trees.same(ans, real):
            ctx.corr_ok("transform")
        else:
            ctx.corr_diff("transform", {"text": text[:1500]}, json.dumps(ans)[:400], json.dumps(real)[:400])


def main(ctx):
    if ctx.replay:
        print(open(ctx.replay).read()[:4000]); return
    core.proof_leg(ctx, ["Mappy.Props.C05"])
    explore(ctx)
    core.finish(ctx, LEVEL_NOTE, RULE, search=lambda c: explore(c, scale=2.0))
