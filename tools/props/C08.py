"""C08 — recorded positions and validation error locations are exact.
proof leg: Mappy.Props.C08 (attr records the keyword token's line/column and the value tokens' positions in order; the value
           and the position kept for a keyword both come from its last occurrence; create_message picks the keyword's /
           the object's / the nested block's own record; one message per error).
correspondence: `transform` with include_position on real trees of free-layout documents; `messages` (create_message on the
           real jsonschema error paths of faulted dictionaries).
oracle: every recorded (line, column) of a dictionary loaded with include_position points, in the caller's text, at the
        keyword it is recorded for (independent of Lark's counters); value positions are value starts in source order;
        every validation message of an injected fault carries the position of the faulted keyword / enclosing block."""
from __future__ import annotations
import copy, json, os
from vlib import core, gen, corpus, trees
from props import C13

LEVEL_NOTE = [
    "Lean 4.33 kernel; axioms ⊆ {propext, Classical.choice, Quot.sound} (audited each run)",
    "Model/Transformer.lean (attr / composite position records) and Model/Validator.lean (create_message) are hand models, tied by the `transform` (include_position on) and `messages` correspondences",
    "Lark's line/column counters are third-party: every recorded position is checked against the caller's text (line = 1 + number of LF before, column = 1 + distance to the previous LF) by the oracle, on every case",
    "jsonschema decides which paths are reported (validator gap); the model takes the reported paths as input",
    "C08_last_occurrence covers plain keywords (not CONFIG / POINTS / repeated keywords, whose records are lists or sub-dicts: correspondence and oracle only)",
]
RULE = ("schema-generated documents in free layouts (several keywords per line, values over several lines, tabs, form feeds, CRLF, lone CR, # and /* */ comments, "
        "duplicated keywords) and one-keyword-per-line layouts + corpus files; every recorded position; single faults (bad value at a keyword, unknown keyword in an object) "
        "at random depths; non-trivial = every document with ≥ 1 recorded position; distinct by text / (text, fault)")


def line_col_text(text, line, col):
    lines = text.split("\n")
    if not (isinstance(line, int) and isinstance(col, int)) or line < 1 or line > len(lines) or col < 1:
        return None
    return lines[line - 1][col - 1:]


def check_positions(ctx, text, d, rep, path=()):
    """walk a dictionary loaded with include_position: every record must point at its keyword in `text`"""
    bad = None
    if isinstance(d, dict):
        pd = d.get("__position__")
        t = d.get("__type__")
        if isinstance(pd, dict) and isinstance(t, str):
            ctx.count("positions:objects")
            here = line_col_text(text, pd.get("line"), pd.get("column"))
            if here is None or not here.upper().startswith(t.upper()):
                return ("object", list(path), t, pd.get("line"), pd.get("column"), (here or "")[:20])
            vals = pd.get("values")
            if vals:
                b = check_values(text, (pd.get("line"), pd.get("column")), vals)
                if b:
                    return ("object-values", list(path), t) + b
            for k, p in pd.items():
                if k in ("line", "column", "values"):
                    continue
                recs = p if isinstance(p, list) else ([p] if "line" in p else list(p.values()))
                word = "CONFIG" if k == "config" else k.upper()
                for r in recs:
                    if not isinstance(r, dict) or "line" not in r:
                        continue
                    ctx.count("positions:keywords")
                    here = line_col_text(text, r.get("line"), r.get("column"))
                    if here is None or not here.upper().startswith(word):
                        return ("keyword", list(path) + [k], word, r.get("line"), r.get("column"), (here or "")[:20])
                    if r.get("values"):
                        b = check_values(text, (r["line"], r["column"]), r["values"])
                        if b:
                            return ("keyword-values", list(path) + [k], word) + b
                        # the record must be the one of the occurrence that supplied the stored value
                        if not isinstance(p, list) and k in d and len(r["values"]) == 1:
                            b = value_matches(text, tuple(r["values"][0]), d[k])
                            if b:
                                return ("keyword-record-of-another-occurrence", list(path) + [k], word) + b
        for k, v in d.items():
            if k in ("__position__", "__comments__"):
                continue
            bad = check_positions(ctx, text, v, rep, path + (k,))
            if bad:
                return bad
    elif isinstance(d, list):
        for i, v in enumerate(d):
            bad = check_positions(ctx, text, v, rep, path + (i,))
            if bad:
                return bad
    return None


def check_values(text, start, vals):
    prev = tuple(start)
    for v in vals:
        v = tuple(v)
        here = line_col_text(text, v[0], v[1])
        if here is None or here[:1] in ("", " ", "\t", "\r", "\f"):
            return ("value-not-at-token", v, (here or "")[:10])
        if not v > prev:
            return ("values-out-of-order", prev, v)
        prev = v
    return None


def value_matches(text, pos, v):
    """the text at a value position must be the stored scalar"""
    import re
    here = line_col_text(text, pos[0], pos[1]) or ""
    if isinstance(v, bool):
        ok = here.upper().startswith("TRUE" if v else "FALSE")
    elif isinstance(v, (int, float)):
        m = re.match(r"[-+]?[0-9]*\.?[0-9]+(?:[eE][-+]?[0-9]+)?", here)
        try:
            ok = m is not None and float(m.group(0)) == float(v)
        except ValueError:
            ok = False
    elif isinstance(v, str):
        h = here[1:] if here[:1] in ("'", '"') and not v.startswith(here[:1]) else here
        first = v.split("\n")[0]
        ok = h.startswith(first) or h.lower().startswith(first.lower()) or v.startswith("(") or v.startswith("{") or v.startswith("[")
    else:
        return None
    return None if ok else ("stored", repr(v)[:40], "text-at-record", here[:40])


def objects(d, path=()):
    if isinstance(d, dict):
        if "__type__" in d and "__position__" in d:
            yield path, d
        for k, v in d.items():
            if k not in ("__position__", "__comments__"):
                yield from objects(v, path + (k,))
    elif isinstance(d, list):
        for i, v in enumerate(d):
            yield from objects(v, path + (i,))


def explore(ctx, scale=1.0):
    import mappyfile
    from mappyfile.validator import Validator
    from mappyfile.transformer import MapfileToDict
    rng = ctx.rng
    docs = C13.gen_documents(ctx, int((3000 if ctx.thorough else 400) * scale))
    ctexts = corpus.texts()
    docs += [(t, "corpus") for _, t in (ctexts if ctx.thorough else rng.sample(ctexts, 60))]
    # object blocks that exist once per parent, nested two and three levels down (every singleton object type under its parents)
    singles = []
    for pt in gen.object_types():
        for pk, pp in gen.raw(pt)["properties"].items():
            for sh in gen.shapes(pp, pk):
                if sh[0] == "object" and sh[1] and sh[1] not in ("metadata", "validation", "values", "connectionoptions") and (pt, pk) not in (("class", "symbol"), ("style", "symbol")):
                    singles.append((pt, pk, sh[1]))
    for pt, pk, ct in singles:
        for outer in ([("map", "layers")] if pt == "layer" else [("layer", "classes")] if pt == "class" else [("class", "styles")] if pt == "style" else [("class", "labels")] if pt == "label" else []):
            child = gen.gen_block(rng, ct, depth=0, max_items=3)
            mid = gen.gen_block(rng, pt, depth=0, max_items=3)
            mid.items.append(("block", pk, child, False))
            top = gen.Block(outer[0])
            top.items.append(("block", outer[1], mid, True))
            docs.insert(rng.randrange(len(docs) + 1), (gen.render(top), "nested-singleton"))
    V = Validator()
    treqs, tkeep, mreqs, mkeep = [], [], [], []
    for idx, (text, kind) in enumerate(docs):
        if kind != "corpus" and rng.random() < .3:
            # more separators the grammar accepts: form feed, lone CR, tab
            text = text.replace("\n  ", rng.choice(["\n\f  ", "\r  ", "\n\t", " \f "]), rng.randint(1, 3))
        rep = {"text": text}
        # ---- real load with positions: public loads for a part, shared parser for the rest ----
        try:
            if idx % 6 == 0:
                d = mappyfile.loads(text, include_position=True)
                ctx.count("api:loads")
            else:
                p = trees.parser(False, True)
                d = MapfileToDict(include_position=True).transform(p.parse(text))
                ctx.count("api:shared Parser(expand_includes=True).parse + MapfileToDict")
        except Exception as ex:
            ctx.count(f"{kind}:unparseable ({type(ex).__name__})")
            continue
        ctx.case(("pos", text), True, sample={"text": text[:200]} if rng.random() < .005 else None)
        ctx.count(f"doc:{kind}")
        bad = check_positions(ctx, text, d, rep)
        if bad:
            ctx.violation(f"position:{bad[0]}", f"recorded position does not point at its keyword in the text: {bad}", dict(rep, detail=[str(x) for x in bad]))
            continue
        # ---- correspondence: transformer with positions on the real tree ----
        try:
            tree = trees.parser(False, False).parse(text)
            if trees.ascii_case_safe(tree):
                treqs.append(trees.request(tree, True, False)); tkeep.append((text, trees.real_transform(tree, True, False)))
        except Exception:
            pass
        # ---- faults ----
        objs = list(objects(d))
        if not objs or isinstance(d, list):
            continue
        root_type = d.get("__type__")
        try:
            base = V.validate(copy.deepcopy(d), schema_name=root_type)
        except Exception as ex:
            ctx.violation(f"validate-raises:{type(ex).__name__}", f"validate raises {type(ex).__name__} on a dictionary produced by loads", rep)
            continue
        base_set = [(m["message"], m.get("line"), m.get("column")) for m in base]
        # two random faults, then (when the document has one) a directed fault in a singleton block nested two or more levels
        # down (MAP > LAYER > CLUSTER …): the message must carry that block's own position, not an ancestor's
        deep = [(p, o) for p, o in objs if len(p) >= 2 and isinstance(p[-1], str) and o.get("__type__") not in ("metadata", "validation", "values", "connectionoptions")]
        picks = [rng.choice(objs), rng.choice(objs)] + ([rng.choice(deep)] if deep else [])
        for n_pick, (path, o) in enumerate(picks):
            d2 = copy.deepcopy(d)
            o2 = d2
            for k in path:
                o2 = o2[k]
            simple = [k for k, v in o.items() if not k.startswith("__") and k in o["__position__"] and isinstance(o["__position__"][k], dict)
                      and "line" in o["__position__"][k] and not isinstance(v, (dict, list))]
            repeated = [k for k, v in o.items() if isinstance(v, list) and len(v) >= 1 and isinstance(o["__position__"].get(k), list)
                        and len(o["__position__"][k]) == len(v) and all(isinstance(x, str) for x in v)]
            if n_pick == 2:
                o2["zzunknown"] = 1
                want = (o["__position__"]["line"], o["__position__"]["column"])
                wkey = o["__type__"].upper()
                fault = f"nested-singleton unknown keyword in {'/'.join(map(str, path))}"
            elif repeated and rng.random() < .5:
                # a fault in ONE occurrence of a repeated keyword (PROCESSING, FORMATOPTION, …): the message must carry that occurrence's position
                k = rng.choice(repeated)
                i = rng.randrange(len(o[k]))
                o2[k][i] = 5
                want = (o["__position__"][k][i]["line"], o["__position__"][k][i]["column"])
                wkey = k.upper()
                fault = f"bad occurrence {i} of repeated keyword at {'/'.join(map(str, path + (k,)))}"
            elif simple and rng.random() < .6:
                k = rng.choice(simple)
                o2[k] = rng.choice([{"zz": 1}, [1, 2, 3, 4, 5, 6, 7, 8], "zz-not-a-value\n"]) if rng.random() < .7 else None
                if o2[k] is None:
                    o2[k] = [[1]]
                want = (o["__position__"][k]["line"], o["__position__"][k]["column"])
                wkey = k.upper()
                fault = f"bad value at {'/'.join(map(str, path + (k,)))}"
            else:
                o2["zzunknown"] = 1
                want = (o["__position__"]["line"], o["__position__"]["column"])
                wkey = o["__type__"].upper()
                fault = f"unknown keyword in {'/'.join(map(str, path)) or 'root'}"
            try:
                msgs = V.validate(copy.deepcopy(d2), schema_name=root_type)
            except Exception as ex:
                ctx.violation(f"validate-raises:{type(ex).__name__}", f"validate raises {type(ex).__name__} after: {fault}", dict(rep, fault=fault))
                continue
            new = [m for m in msgs if (m["message"], m.get("line"), m.get("column")) not in base_set]
            ctx.case(("fault", text, fault), True)
            ctx.count("fault:" + fault.split(" at ")[0].split(" in ")[0])
            if not new:
                ctx.count("fault:not reported as a new message (value happens to be admissible)")
            for m in new:
                if m["message"] != f"ERROR: Invalid value in {wkey}" or (m.get("line"), m.get("column")) != want:
                    ctx.violation("message-position", f"{fault}: message {m['message']!r} at {m.get('line')}:{m.get('column')}, expected {wkey} at {want[0]}:{want[1]}",
                                  dict(rep, fault=fault, messages=[[x["message"], x.get("line"), x.get("column")] for x in msgs][:6]))
                    break
            # ---- correspondence: create_message on the real error paths ----
            import jsonschema
            lower = V.convert_lowercase(d2)
            jsn = json.loads(json.dumps(lower))
            validator = V.get_schema_validator(root_type)
            paths = [list(e.absolute_path) for e in validator.iter_errors(jsn)][:8]
            if paths:
                real = []
                class E:  # create_message only reads .message
                    message = "x"
                for pth in paths:
                    try:
                        m = V.create_message(d2, pth, E, False)
                        r = {"key": m["message"].replace("ERROR: Invalid value in ", "")}
                        if "line" in m:
                            r["line"] = m["line"]; r["column"] = m["column"]
                        real.append(r)
                    except Exception as ex:
                        real.append({"err": type(ex).__name__})
                try:
                    mreqs.append({"op": "messages", "root": core.enc(d2), "paths": paths}); mkeep.append((text, fault, paths, real))
                except TypeError:
                    pass
    # ---------------- several roots in one call: each root's messages carry that root's own positions ----------------
    # (a list of root dictionaries is validated root by root; anything remembered from one root must not leak into the next)
    plain_docs = [t for t, k in docs if k in ("commented", "nested-singleton") and len(t) < 4000]
    for _ in range(int((300 if ctx.thorough else 40) * scale)):
        a, b = rng.choice(plain_docs), rng.choice(plain_docs)
        if rng.random() < .6:
            b = a                       # the same block twice: identical paths in both roots
        text = a.rstrip("\n") + "\n" + rng.choice(["", "\n", "# between\n"]) + b
        try:
            roots = mappyfile.loads(text, include_position=True)
        except Exception:
            continue
        if not isinstance(roots, list) or len(roots) < 2 or len({r.get("__type__") for r in roots}) != 1:
            continue
        rt = roots[0]["__type__"]
        faulted = []
        for r in roots:
            r2 = copy.deepcopy(r)
            cands = [(pth, o) for pth, o in objects(r2) if o.get("__type__") not in ("metadata", "validation", "values", "connectionoptions")]
            if rng.random() < .5 or len(cands) < 2:
                r2["zzunknown"] = 1
            else:
                pth, o = cands[min(1, len(cands) - 1)]
                o["zzunknown"] = 1
            faulted.append(r2)
        try:
            together = Validator().validate(copy.deepcopy(faulted), schema_name=rt)
            one_by_one = []
            for r2 in faulted:
                one_by_one += Validator().validate(copy.deepcopy(r2), schema_name=rt)
        except Exception as ex:
            ctx.violation(f"validate-raises:{type(ex).__name__}", f"validate raises {type(ex).__name__} on a list of root dictionaries", {"text": text})
            continue
        ctx.case(("roots", text), True); ctx.count("multi-root validate")
        key = lambda ms: [(m["message"], m.get("line"), m.get("column")) for m in ms]
        if key(together) != key(one_by_one):
            ctx.violation("message-position:roots", "validating a list of root dictionaries in one call gives other messages / positions than validating them one by one",
                          {"text": text, "together": key(together)[:8], "one_by_one": key(one_by_one)[:8]})
    for (text, real), ans in zip(tkeep, core.lean_call(treqs)):
        if ans.get("err") == "UNSUPPORTED":
            ctx.count("corr:model UNSUPPORTED"); continue
        if trees.same(ans, real):
            ctx.corr_ok("transform(pos)")
        else:
            ctx.corr_diff("transform(pos)", {"text": text[:1500]}, json.dumps(ans)[:400], json.dumps(real)[:400])
    for (text, fault, paths, real), ans in zip(mkeep, core.lean_call(mreqs)):
        for pth, a, r in zip(paths, ans, real):
            if "key" in a:
                a = dict(a, key=a["key"].upper())
            ok = (a == r) or ("err" in a and "err" in r)
            if ok:
                ctx.corr_ok("messages")
            else:
                ctx.corr_diff("messages", {"text": text[:800], "fault": fault, "path": pth}, json.dumps(a), json.dumps(r))


def main(ctx):
    if ctx.replay:
        print(open(ctx.replay).read()[:4000]); return
    core.proof_leg(ctx, ["Mappy.Props.C08"])
    explore(ctx)
    core.finish(ctx, LEVEL_NOTE, RULE, search=lambda c: explore(c, scale=2.0))
