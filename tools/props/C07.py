"""C07 — validation verdict equals the schema's verdict (partial: jsonschema's evaluation is third-party).
proof leg: Mappy.Props.C07 (lower-casing idempotent and blind to letter case; hidden keys ignored by the schema semantics for
           every object schema of the folder; list = concatenation; no messages ⇔ no errors; message construction total on every
           path the schema semantics can report — C07_messages_total).
correspondence: `errs` (Draft-4 subset semantics in Lean vs jsonschema.iter_errors: equal (path, keyword) multisets), `lowercase`,
           `messages` (create_message on the reported paths).
oracle: Validator.validate vs an independently built Draft4Validator (own $ref inlining): zero messages iff it reports nothing;
        one message per reported error naming the keyword / the object's type; injected faults (enum, range, arity, type, unknown
        keyword, missing required; single and double, also the same fault in two objects) each get their message; verdict
        unchanged by re-casing, by hidden keys, and equal for a list and its members; validate never raises."""
from __future__ import annotations
import collections, copy, json, os
from vlib import core, gen, corpus, trees

LEVEL_NOTE = [
    "Lean 4.33 kernel; axioms ⊆ {propext, Classical.choice, Quot.sound} (audited each run)",
    "PARTIAL: jsonschema's evaluation of the schema is third-party; Model/Schema.lean is a reference semantics of the Draft-4 subset the schemas use, tied to jsonschema by comparing (path, keyword) multisets on every case — the theorem C07_hidden_ignored is about that semantics",
    "Model/Validator.lean hand model of convert_lowercase / create_message / get_error_messages (correspondences each run)",
    "Gen/Schemas.lean and Gen/Patterns.lean regenerated (obligation C07_files_hidden_ok re-checked by the kernel; an unknown JSON-schema keyword or regular expression makes the translator refuse)",
    "numbers with exponents are outside the decimal parser of the model (not generated)",
    "ASCII lower-casing (documents with non-ASCII upper-case letters are compared by the oracle only)",
]
RULE = ("schema-generated dictionaries of every root type (validated with schema_name = root type) and corpus MAP dictionaries; 0, 1 and 2 injected faults at random "
        "objects of every depth / list index (bad enum word, out-of-range number, wrong arity, wrong type, unknown keyword, missing required keyword; the same fault in two objects); "
        "upper-/mixed-cased copies; copies loaded with __position__/__comments__; lists of roots; non-trivial = dictionary with ≥ 1 reported error; distinct by dictionary")

_resolved = {}


def resolved_schema(name):
    """the schema with every $ref inlined by this harness (independent of Validator's registry / jsonref)"""
    if name not in _resolved:
        def inline(x, depth=0):
            if isinstance(x, dict):
                if "$ref" in x and isinstance(x["$ref"], str):
                    return inline(gen.raw(x["$ref"]), depth + 1)
                return {k: inline(v, depth) for k, v in x.items()}
            if isinstance(x, list):
                return [inline(v, depth) for v in x]
            return x
        _resolved[name] = inline(gen.raw(name))
    return _resolved[name]


def lower_all(x):
    if isinstance(x, dict):
        return {k.lower(): lower_all(v) for k, v in x.items()}
    if isinstance(x, (list, tuple)):
        return [lower_all(v) for v in x]
    if isinstance(x, str):
        return x.lower()
    return x


def objects(d, path=()):
    if isinstance(d, dict):
        if "__type__" in d:
            yield path, d
        for k, v in d.items():
            if not k.startswith("__"):
                yield from objects(v, path + (k,))
    elif isinstance(d, list):
        for i, v in enumerate(d):
            yield from objects(v, path + (i,))


def recase(x, rng):
    """the same Mapfile dictionary (case-insensitive dict class, as loads builds it) with keys and string values re-cased"""
    from mappyfile.ordereddict import CaseInsensitiveOrderedDict
    f = rng.choice([str.upper, str.title, lambda s: "".join(c.upper() if i % 2 else c for i, c in enumerate(s))])
    def go(v):
        if isinstance(v, dict):
            out = CaseInsensitiveOrderedDict()
            for k, w in v.items():
                out[f(k) if f(k).lower() == k.lower() else k] = go(w)
            return out
        if isinstance(v, list):
            return [go(w) for w in v]
        if isinstance(v, tuple):
            return tuple(go(w) for w in v)
        if isinstance(v, str):
            # a re-spelling in another letter case only: for characters whose case mappings change the text ("ß" -> "SS", the
            # ligatures, dotted capital I) upper-casing is not one — the lower-cased form the validator judges would differ
            w = f(v)
            return w if w.lower() == v.lower() else v
        return v
    return go(x)


def inject(rng, d):
    """one fault; returns (description, expected message text) or None"""
    objs = list(objects(d))
    path, o = rng.choice(objs)
    t = o["__type__"]
    try:
        props = gen.raw(t)["properties"]
    except Exception:
        return None
    keys = [k for k in o if not k.startswith("__") and k in props and not isinstance(o[k], (dict,)) and not (isinstance(o[k], list) and o[k] and isinstance(o[k][0], dict))]
    r = rng.random()
    lists = [k for k in keys if isinstance(o[k], (list, tuple)) and len(o[k]) > 0]
    if lists and rng.random() < .35:
        # a fault INSIDE a list-valued keyword: one item of a flat list (SIZE, EXTENT, COLOR …), or one coordinate of one pair of
        # a list of pairs (POINTS, PATTERN): the error path then ends in one or in two indexes
        k = rng.choice(lists)
        v = [list(x) if isinstance(x, (list, tuple)) else x for x in o[k]]
        i = rng.randrange(len(v))
        if isinstance(v[i], list) and v[i]:
            if v[i] and isinstance(v[i][0], list):
                return None
            v[i][rng.randrange(len(v[i]))] = "four"
            kind = "nested-item"
        else:
            v[i] = "zz"
            kind = "item"
        o[k] = v
        return (f"{kind} fault at {'/'.join(map(str, path + (k, i)))}", f"ERROR: Invalid value in {k.upper()}")
    if keys and r < .6:
        k = rng.choice(keys)
        node, _ = gen.deref(props[k])
        kind = rng.choice(["type", "enum", "range", "arity", "overflow"])
        if kind == "overflow":
            # what loads gives for an overflowing literal (ANGLE 1e999): a float infinity — a dictionary like any other
            o[k] = rng.choice([float("inf"), float("-inf")])
        elif kind == "enum":
            o[k] = "zz-not-a-word"
        elif kind == "range":
            o[k] = rng.choice([-987654, 98765432])
        elif kind == "arity":
            o[k] = [1, 2, 3, 4, 5, 6, 7, 8, 9]
        else:
            o[k] = {"zz": 1}
        return (f"{kind} fault at {'/'.join(map(str, path + (k,)))}", f"ERROR: Invalid value in {k.upper()}")
    if r < .85 or not keys:
        o["zzunknown"] = 1
        return (f"unknown keyword in {'/'.join(map(str, path)) or 'root'}", f"ERROR: Invalid value in {t.upper()}")
    req = gen.raw(t).get("required", [])
    present = [k for k in req if k in o]
    if present:
        k = rng.choice(present)
        del o[k]
        return (f"missing required {k} in {'/'.join(map(str, path)) or 'root'}", f"ERROR: Invalid value in {t.upper()}")
    o["zzunknown2"] = "x"
    return (f"unknown keyword in {'/'.join(map(str, path)) or 'root'}", f"ERROR: Invalid value in {t.upper()}")


def explore(ctx, scale=1.0):
    import jsonschema
    from mappyfile.validator import Validator
    from mappyfile.transformer import MapfileToDict
    rng = ctx.rng
    V = Validator()
    docs = []
    for i in range(int((3000 if ctx.thorough else 260) * scale)):
        t = gen.BLOCK_TYPES[i % len(gen.BLOCK_TYPES)] if i < 3 * len(gen.BLOCK_TYPES) else rng.choice(gen.BLOCK_TYPES + ["map", "layer", "layer", "class", "style"])
        b = gen.gen_block(rng, t, depth=rng.choice([0, 1, 2, 3]), max_items=rng.choice([3, 6, 9]))
        docs.append((gen.expected(b), "generated", gen.render(b)))
    cd = [d for _, d in corpus.load_all() if isinstance(d, dict) and d.get("__type__") == "map"]
    for d in (cd if ctx.thorough else rng.sample(cd, int(50 * scale))):
        docs.append((gen.plain_dict(d), "corpus", None))
    ereqs, ekeep, lreqs, lkeep = [], [], [], []
    for idx, (d0, kind, text) in enumerate(docs):
        root = d0["__type__"]
        ind = jsonschema.Draft4Validator(resolved_schema(root))
        for nf in (0, 1, 2):
            d = copy.deepcopy(d0)
            faults = []
            for j in range(nf):
                if nf == 2 and j == 1 and rng.random() < .4 and faults and "unknown" in faults[0][0]:
                    # the same fault in a second object (equal message texts)
                    objs = [o for _, o in objects(d) if o.get("__type__") == faults[0][1].rsplit(" ", 1)[-1].lower() and "zzunknown" not in o]
                    if objs:
                        rng.choice(objs)["zzunknown"] = 1
                        faults.append(("unknown keyword (same as first) in another object", faults[0][1]))
                        continue
                f = inject(rng, d)
                if f:
                    faults.append(f)
            rep = {"root": root, "dict": json.loads(core.canon(d)), "faults": [f[0] for f in faults]}
            # ---- the implementation ----
            try:
                msgs = V.validate(copy.deepcopy(d), schema_name=root)
            except Exception as ex:
                ctx.violation(f"validate-raises:{type(ex).__name__}", f"validate raises {type(ex).__name__}: {str(ex)[:100]}", rep)
                continue
            texts = collections.Counter(m["message"] for m in msgs)
            # ---- independent verdict ----
            low = json.loads(json.dumps(lower_all(d)))
            errors = list(ind.iter_errors(low))
            ctx.case(("doc", core.canon(d)), bool(errors), sample={"root": root, "faults": [f[0] for f in faults]} if rng.random() < .004 else None)
            ctx.count(f"faults={nf}"); ctx.count(f"doc:{kind}"); ctx.count("reported-errors=" + ("0" if not errors else "1" if len(errors) == 1 else "2+"))
            for f in faults:
                ctx.count("fault:" + f[0].split(" at ")[0].split(" in ")[0])
            if (len(msgs) == 0) != (len(errors) == 0):
                ctx.violation("verdict", f"validate returns {len(msgs)} messages but the schema reports {len(errors)} errors", dict(rep, messages=[m["message"] for m in msgs][:5], errors=[e.message[:80] for e in errors][:5]))
                continue
            if len(msgs) != len(errors):
                ctx.violation("message-count", f"{len(errors)} schema errors but {len(msgs)} messages (one message per violation expected)", dict(rep, messages=[m["message"] for m in msgs][:8], errors=[e.message[:80] for e in errors][:8]))
                continue
            want = collections.Counter()
            for e in errors:
                p = list(e.absolute_path)
                tgt = low
                for k in p:
                    tgt = tgt[k]
                strs = [k for k in p if isinstance(k, str)]
                if isinstance(tgt, dict) and "__type__" in tgt and (not p or isinstance(p[-1], int)):
                    name = tgt["__type__"]          # the root, or an object of a list: named by its type
                elif p and isinstance(p[-1], str):
                    name = p[-1]                    # a keyword (or a nested singleton block, whose key is its type)
                else:
                    name = strs[-1]                 # an item of a list-valued keyword: the keyword
                want[f"ERROR: Invalid value in {str(name).upper()}"] += 1
            if want != texts:
                ctx.violation("message-key", f"messages {dict(texts)} do not name the failing keywords / objects {dict(want)}", dict(rep, errors=[[list(e.absolute_path), e.validator] for e in errors][:8]))
                continue
            # (whether an injected value is a violation at all is decided by the independent validator above: the
            #  message multiset must equal the multiset the reported errors call for — nothing is assumed about the fault)
            # ---- case, hidden keys, lists ----
            if rng.random() < .5:
                up = recase(d, rng)
                try:
                    t2 = collections.Counter(m["message"].upper() for m in V.validate(up, schema_name=root))
                    if t2 != collections.Counter(x.upper() for x in texts.elements()):
                        ctx.violation("case-sensitive", "the verdict changes when keys and string values are re-cased", dict(rep, recased=json.loads(core.canon(up)), before=dict(texts), after=dict(t2)))
                except Exception as ex:
                    ctx.violation(f"validate-raises:{type(ex).__name__}", f"validate raises {type(ex).__name__} on a re-cased dictionary", dict(rep, recased=json.loads(core.canon(up))))
                ctx.count("variant:recased")
            if text is not None and nf == 0 and rng.random() < .5:
                try:
                    dh = MapfileToDict(include_position=True, include_comments=True).transform(trees.parser(True, False).parse(text))
                    t3 = collections.Counter(m["message"] for m in V.validate(dh, schema_name=root))
                    if t3 != texts:
                        ctx.violation("hidden-keys-matter", "the verdict differs for the same document loaded with __position__/__comments__", dict(rep, text=text, before=dict(texts), after=dict(t3)))
                    ctx.count("variant:hidden keys")
                except Exception:
                    ctx.count("variant:hidden keys: text unparseable (C19 territory)")
            if rng.random() < .5:
                # a list of roots is judged root by root, whatever the neighbours look like: the unfaulted copy of the same document, and a
                # bare root of the same type (none of the first root's paths exist in it), before and after the faulted one
                from mappyfile.ordereddict import CaseInsensitiveOrderedDict
                bare = CaseInsensitiveOrderedDict(); bare["__type__"] = root
                for other, first in ((copy.deepcopy(d0), True), (bare, True), (bare, False)):
                    try:
                        m1 = V.validate(copy.deepcopy(other), schema_name=root)
                        pair = [copy.deepcopy(d), copy.deepcopy(other)] if first else [copy.deepcopy(other), copy.deepcopy(d)]
                        both = V.validate(pair, schema_name=root)
                    except Exception as ex:
                        ctx.violation(f"validate-raises:{type(ex).__name__}", f"validate raises {type(ex).__name__} on a list of two roots", rep); break
                    want = [m["message"] for m in msgs] + [m["message"] for m in m1] if first else [m["message"] for m in m1] + [m["message"] for m in msgs]
                    if [m["message"] for m in both] != want:
                        ctx.violation("list-not-concat", "validate of a list differs from validating its members one by one", rep); break
                ctx.count("variant:list of roots")
            # ---- correspondences ----
            if "Infinity" in json.dumps(low):
                ctx.count("corr:skipped non-finite number (outside the model's decimal numbers)")
            elif all(ord(c) < 128 for c in json.dumps(low, ensure_ascii=False)):
                real = collections.Counter((json.dumps(list(e.absolute_path)), e.validator) for e in V.get_schema_validator(root).iter_errors(low))
                ereqs.append({"op": "errs", "schema": root, "inst": core.enc(low)}); ekeep.append((rep, real))
                if rng.random() < .3:
                    src = json.loads(json.dumps(recase(d, rng)))
                    src = {k.upper() if i % 2 else k: v for i, (k, v) in enumerate(src.items())}
                    lreqs.append({"op": "lowercase", "v": core.enc(src)}); lkeep.append((rep, core.enc(json.loads(json.dumps(V.convert_lowercase(src))))))
            else:
                ctx.count("corr:skipped non-ASCII")
    for (rep, real), ans in zip(ekeep, core.lean_call(ereqs)):
        m = collections.Counter((json.dumps(p), k) for p, k in ans) if isinstance(ans, list) else None
        if m == real:
            ctx.corr_ok("errs")
        else:
            ctx.corr_diff("errs", rep, str(sorted((m - real).items()) if m is not None else ans)[:300], str(sorted((real - m).items()) if m is not None else real)[:300])
    for (rep, real), ans in zip(lkeep, core.lean_call(lreqs)):
        if ans == real:
            ctx.corr_ok("lowercase")
        else:
            ctx.corr_diff("lowercase", rep, json.dumps(ans)[:300], json.dumps(real)[:300])


def main(ctx):
    if ctx.replay:
        print(open(ctx.replay).read()[:4000]); return
    core.proof_leg(ctx, ["Mappy.Props.C07"])
    explore(ctx)
    core.finish(ctx, LEVEL_NOTE, RULE, search=lambda c: explore(c, scale=2.0))
