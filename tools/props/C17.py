"""C17 — Mapfile dicts behave as case-insensitive, insertion-ordered dicts.
proof leg: Mappy.Props.C17 (refinement of the code model to a plain ordered dict over lower-cased keys,
for every operation sequence).  correspondence: op sequences, real class vs Lean model.
oracle: real class vs an independent reference (OrderedDict on lower-cased keys + default rule),
plus copy/deepcopy/pickle class/equality/sharing checks on the real objects."""
from __future__ import annotations
import copy, itertools, json, pickle
from collections import OrderedDict
from vlib import core

LEVEL_NOTE = [
    "Lean 4.33 kernel; axioms ⊆ {propext, Classical.choice, Quot.sound} (audited per theorem each run)",
    "Model/CIDict.lean is a hand model of ordereddict.py; tied by the `cidict` op-sequence correspondence",
    "CPython 3.12 OrderedDict C methods call back into overridden __contains__/__getitem__/__setitem__ as modelled (setdefault, update, __init__ do; pop, get do not)",
    "string keys only; values opaque; lower = ASCII lower-casing (harness uses ASCII keys plus a separate non-ASCII oracle stream)",
    "aliasing (deepcopy shares nothing) is checked on the real objects, not in Lean",
]
RULE = ("operation sequences over mixed-case keys on dicts with/without default factory: exhaustive over a fixed op alphabet "
        "up to a length bound, then random up to length 200; non-trivial = sequence containing at least one mutating op; distinct by op list")

KEYS = ["ab", "Ab", "AB", "layers", "LAYERS", "x"]
SMALL_KEYS = ["ab", "aB", "Layers"]


def mk_values(rng):
    return [1, "v", 2.5, True, None, [1, 2], {"k": 1}, [], "W"]


def real_cls():
    from mappyfile.ordereddict import CaseInsensitiveOrderedDict
    return CaseInsensitiveOrderedDict


def construct_real(factory, init, kw):
    C = real_cls()
    args = []
    if factory:
        args.append(C)
        if init is not None:
            args.append(list(map(tuple, init)))
    else:
        if init is not None:
            args = [None, list(map(tuple, init))]
    return C(*args, **dict(kw or []))


def out_of(fn):
    try:
        return fn()
    except KeyError:
        return {"err": "KeyError"}
    except Exception as ex:  # any other exception kind is itself an observable
        return {"err": type(ex).__name__}


def run_real(factory, init, kw, ops):
    d = construct_real(factory, init, kw)
    outs = []
    for op in ops:
        o = op["o"]
        if o == "getitem":
            outs.append(out_of(lambda: {"v": core.enc(d[op["k"]])}))
        elif o == "setitem":
            d[op["k"]] = copy.deepcopy(op["_v"])
            outs.append("unit")
        elif o == "delitem":
            def f():
                del d[op["k"]]
                return "unit"
            outs.append(out_of(f))
        elif o == "contains":
            outs.append({"b": op["k"] in d})
        elif o == "get":
            outs.append({"v": core.enc(d.get(op["k"], op["_d"]))})
        elif o == "pop":
            if "_d" in op:
                outs.append(out_of(lambda: {"v": core.enc(d.pop(op["k"], op["_d"]))}))
            else:
                outs.append(out_of(lambda: {"v": core.enc(d.pop(op["k"]))}))
        elif o == "setdefault":
            outs.append(out_of(lambda: {"v": core.enc(d.setdefault(op["k"], copy.deepcopy(op["_d"])))}))
        elif o == "update":
            e = op.get("_e")
            kwd = dict(op.get("_kw") or [])
            if e is None:
                d.update(**kwd)
            else:
                d.update(list(map(tuple, e)) if op.get("_aslist") else OrderedDict(map(tuple, e)), **kwd)
            outs.append("unit")
        elif o == "items":
            outs.append({"items": core.enc(OrderedDict(d.items()))})
        elif o in ("copy", "deepcopy", "pickle"):
            old = d
            d = d.copy() if o == "copy" else copy.deepcopy(d) if o == "deepcopy" else pickle.loads(pickle.dumps(d))
            if type(d) is not type(old) or d.default_factory is not old.default_factory or not (d == old) or d is old:
                outs.append({"err": f"{o}-not-equal-same-class"})
            else:
                outs.append({"items": core.enc(OrderedDict(d.items()))})
        else:
            raise ValueError(o)
    return outs, core.enc(OrderedDict(d.items()))


class Ref:
    """Independent reference written from the property text: an ordinary ordered dict keyed by the
    lower-cased keys; missing object-list key => new empty list stored; other missing key => new empty
    dict stored when a factory exists, KeyError otherwise."""
    OBJECT_LISTS = {"layers", "classes", "styles", "symbols", "labels", "outputformats", "features",
                    "scaletokens", "composites", "joins"}

    def __init__(self, factory, init, kw):
        self.factory = factory
        self.d = OrderedDict()
        for k, v in list(init or []) + list(kw or []):
            self.d[k.lower()] = v

    def run(self, ops):
        outs = []
        d = self.d
        for op in ops:
            o = op["o"]
            k = op.get("k", "").lower()
            if o == "getitem":
                if k in d:
                    outs.append({"v": core.enc(d[k])})
                elif not self.factory:
                    outs.append({"err": "KeyError"})
                else:
                    d[k] = [] if k in self.OBJECT_LISTS else {}
                    outs.append({"v": core.enc(d[k])})
            elif o == "setitem":
                d[k] = copy.deepcopy(op["_v"]); outs.append("unit")
            elif o == "delitem":
                if k in d:
                    del d[k]; outs.append("unit")
                else:
                    outs.append({"err": "KeyError"})
            elif o == "contains":
                outs.append({"b": k in d})
            elif o == "get":
                outs.append({"v": core.enc(d.get(k, op["_d"]))})
            elif o == "pop":
                if k in d:
                    outs.append({"v": core.enc(d.pop(k))})
                elif "_d" in op:
                    outs.append({"v": core.enc(op["_d"])})
                else:
                    outs.append({"err": "KeyError"})
            elif o == "setdefault":
                if k not in d:
                    d[k] = copy.deepcopy(op["_d"])
                outs.append({"v": core.enc(d[k])})
            elif o == "update":
                for kk, vv in list(op.get("_e") or []) + list(op.get("_kw") or []):
                    d[kk.lower()] = vv
                outs.append("unit")
            elif o in ("items", "copy", "deepcopy", "pickle"):
                outs.append({"items": core.enc(d)})
        return outs, core.enc(d)


def wire_ops(ops):
    w = []
    for op in ops:
        x = {"o": op["o"]}
        if "k" in op:
            x["k"] = op["k"]
        if "_v" in op:
            x["v"] = core.enc(op["_v"])
        if "_d" in op:
            x["d"] = core.enc(op["_d"])
        if op["o"] == "update":
            if op.get("_e") is not None:
                x["e"] = {"d": [[k, core.enc(v)] for k, v in op["_e"]]}
            x["kw"] = {"d": [[k, core.enc(v)] for k, v in (op.get("_kw") or [])]}
        w.append(x)
    return w


def op_alphabet(keys):
    ops = []
    for k in keys:
        ops += [{"o": "getitem", "k": k}, {"o": "setitem", "k": k, "_v": 7}, {"o": "delitem", "k": k},
                {"o": "contains", "k": k}, {"o": "get", "k": k, "_d": None}, {"o": "pop", "k": k},
                {"o": "pop", "k": k, "_d": "dflt"}, {"o": "setdefault", "k": k, "_d": [1]},
                {"o": "update", "_e": [[k, 9], [k.swapcase(), 8]], "_kw": []}]
    ops += [{"o": "items"}, {"o": "copy"}, {"o": "deepcopy"}, {"o": "pickle"}]
    return ops


def random_ops(rng, n):
    vals = mk_values(rng)
    ops = []
    for _ in range(n):
        k = rng.choice(KEYS)
        c = rng.random()
        if c < 0.16: ops.append({"o": "getitem", "k": k})
        elif c < 0.34: ops.append({"o": "setitem", "k": k, "_v": rng.choice(vals)})
        elif c < 0.42: ops.append({"o": "delitem", "k": k})
        elif c < 0.50: ops.append({"o": "contains", "k": k})
        elif c < 0.57: ops.append({"o": "get", "k": k, "_d": rng.choice(vals)})
        elif c < 0.64: ops.append({"o": "pop", "k": k} if rng.random() < .5 else {"o": "pop", "k": k, "_d": rng.choice(vals)})
        elif c < 0.72: ops.append({"o": "setdefault", "k": k, "_d": rng.choice(vals)})
        elif c < 0.84:
            e = [[rng.choice(KEYS), rng.choice(vals)] for _ in range(rng.randint(0, 3))]
            kw = [[rng.choice(["ab", "Ab", "x", "Layers"]), rng.choice(vals)] for _ in range(rng.randint(0, 2))]
            kw = list(OrderedDict((k, v) for k, v in kw).items())
            op = {"o": "update", "_e": e if rng.random() < .85 else None, "_kw": [list(p) for p in kw], "_aslist": rng.random() < .5}
            if not op["_aslist"] and op["_e"] is not None:   # a plain dict cannot hold duplicate keys
                op["_e"] = [list(p) for p in OrderedDict((k, v) for k, v in op["_e"]).items()]
            ops.append(op)
        elif c < 0.90: ops.append({"o": "items"})
        else: ops.append({"o": rng.choice(["copy", "deepcopy", "pickle"])})
    return ops


MUTATING = {"setitem", "delitem", "pop", "setdefault", "update", "getitem"}


def check_sequences(ctx, seqs, tag):
    """seqs: list of (factory, init, kw, ops).  Runs real, reference and model; records differences."""
    reqs = []
    reals = []
    for factory, init, kw, ops in seqs:
        try:
            real = run_real(factory, init, kw, ops)
        except Exception as ex:
            real = ([{"err": "CRASH " + type(ex).__name__}], None)
        reals.append(real)
        ref = Ref(factory, init, kw).run(ops)
        ctx.case((factory, init, kw, json.dumps(wire_ops(ops))), any(o["o"] in MUTATING for o in ops),
                 sample={"factory": factory, "init": init, "ops": wire_ops(ops)[:6]} if len(ops) > 1 else None)
        ctx.count(f"{tag}:len={min(len(ops), 10) if len(ops) <= 10 else '>10'}")
        for o in ops:
            ctx.count("op:" + o["o"])
        if real != ref:
            # first differing op names the signature
            idx = next((i for i, (a, b) in enumerate(zip(real[0], ref[0])) if a != b), None)
            opname = ops[idx]["o"] if idx is not None else "final-state"
            ctx.violation(f"op:{opname}", f"real CaseInsensitiveOrderedDict differs from an ordered dict on lower-cased keys at op {idx} ({opname})",
                          {"factory": factory, "init": init, "kw": kw, "ops": wire_ops(ops), "real": real, "expected": ref})
        reqs.append({"op": "cidict", "factory": factory, "init": {"d": [[k, core.enc(v)] for k, v in (init or [])]},
                     "kw": {"d": [[k, core.enc(v)] for k, v in (kw or [])]}, "ops": wire_ops(ops)})
    try:
        answers = core.lean_call(reqs)
    except Exception as ex:
        ctx.broken.append({"kind": "driver", "detail": str(ex)[:300]})
        return
    for (factory, init, kw, ops), real, ans in zip(seqs, reals, answers):
        model = (ans.get("outs"), ans.get("final")) if "bad" not in ans else ("bad", ans)
        if list(model) != [real[0], real[1]]:
            ctx.corr_diff("cidict", {"factory": factory, "init": init, "kw": kw, "ops": wire_ops(ops)}, model, real)
        else:
            ctx.corr_ok("cidict")


def sharing_oracle(ctx, n):
    """deepcopy shares no mutable state; copy/deepcopy/pickle keep class, factory and equality."""
    C = real_cls()
    rng = ctx.rng
    for i in range(n):
        factory = rng.random() < .6
        d = C(C) if factory else C()
        for _ in range(rng.randint(0, 5)):
            k = rng.choice(KEYS)
            v = rng.choice([[1, [2]], {"a": [1]}, C(C, {"Q": [1, 2]}), 3, "s", [C(C, {"z": 1})]])
            d[k] = copy.deepcopy(v)
        before = core.canon(d)
        for how in ("copy", "deepcopy", "pickle"):
            c = d.copy() if how == "copy" else copy.deepcopy(d) if how == "deepcopy" else pickle.loads(pickle.dumps(d))
            ctx.case(("share", how, before), True)
            ok = type(c) is type(d) and c == d and list(c.keys()) == list(d.keys()) and c.default_factory is d.default_factory and c is not d
            # same behaviour: missing-key rule
            try:
                beh_c = out_of(lambda: core.enc(copy.deepcopy(c)["ZZ_missing"]))
                beh_d = out_of(lambda: core.enc(copy.deepcopy(d)["ZZ_missing"]))
                ok = ok and beh_c == beh_d
            except Exception:
                ok = False
            if not ok:
                ctx.violation(f"{how}:not-equal-same-class", f"{how} does not give an equal dict of the same class/behaviour", {"dict": before, "how": how})
            if how in ("deepcopy", "pickle"):
                def mutate(x):
                    if isinstance(x, list):
                        for y in x: mutate(y)
                        x.append("MUT")
                    elif isinstance(x, dict):
                        for y in list(x.values()): mutate(y)
                        x["mut"] = 1
                mutate(c)
                if core.canon(d) != before:
                    ctx.violation(f"{how}:shares-state", f"mutating a {how} changed the original", {"dict": before, "how": how})


def nonascii_oracle(ctx):
    """Real class vs reference with Python's own lower() on non-ASCII keys (outside the Lean model's ASCII lower)."""
    seqs = []
    for keys in (["É", "é", "Straße"], ["ÀB", "àb", "Ω"]):
        ops = []
        for k in keys:
            ops += [{"o": "setitem", "k": k, "_v": 1}, {"o": "contains", "k": k.upper()}, {"o": "getitem", "k": k.lower()}, {"o": "items"}]
        seqs.append((True, None, [], ops))
    for factory, init, kw, ops in seqs:
        real = run_real(factory, init, kw, ops)
        ref = Ref(factory, init, kw).run(ops)
        ctx.case(("nonascii", json.dumps(wire_ops(ops))), True)
        if real != ref:
            ctx.violation("op:nonascii", "non-ASCII key handling differs from lower-cased ordered dict", {"ops": wire_ops(ops), "real": real, "expected": ref})


def explore(ctx, scale=1.0):
    rng = ctx.rng
    inits = [None, [["ab", 1]], [["Ab", 1], ["aB", 2], ["Layers", [0]]]]
    # exhaustive small scope
    alpha = op_alphabet(SMALL_KEYS)
    maxlen = 3 if ctx.thorough else 2
    seqs = []
    for factory in (True, False):
        for init in inits:
            for n in range(1, maxlen + 1):
                if n == 3 and init is not inits[2]:
                    continue
                for combo in itertools.product(alpha, repeat=n):
                    seqs.append((factory, init, [], list(combo)))
    ctx.notes["exhaustive_sequences"] = len(seqs)
    ctx.notes["exhaustive_alphabet"] = len(alpha)
    ctx.notes["exhaustive_maxlen"] = maxlen
    check_sequences(ctx, seqs, "exh")
    # random long sequences
    n_rand = int((20000 if ctx.thorough else 1500) * scale)
    seqs = []
    for i in range(n_rand):
        factory = rng.random() < .6
        init = rng.choice(inits + [[[rng.choice(KEYS), rng.choice(mk_values(rng))] for _ in range(rng.randint(0, 4))]])
        kw = [[k, 5] for k in rng.sample(["ab", "Ab", "zz"], rng.randint(0, 2))] if init is not None or factory else []
        n = rng.choice([3, 5, 8, 13, 30, 80, 200]) if ctx.thorough else rng.choice([3, 5, 8, 13, 30, 100])
        seqs.append((factory, init, kw, random_ops(rng, n)))
    for i in range(0, len(seqs), 2000):
        check_sequences(ctx, seqs[i:i + 2000], "rnd")
    sharing_oracle(ctx, int((2000 if ctx.thorough else 200) * scale))
    nonascii_oracle(ctx)


def replay(ctx):
    data = json.load(open(ctx.replay))["replay"]
    print(json.dumps(data, indent=1)[:3000])


def main(ctx):
    if ctx.replay:
        return replay(ctx)
    core.proof_leg(ctx, ["Mappy.Props.C17"])
    explore(ctx)
    core.finish(ctx, LEVEL_NOTE, RULE, search=lambda c: explore(c, scale=3.0))
