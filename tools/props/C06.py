"""C06 — formatting options never change content.
proof leg: Mappy.Props.C06 (for every two option records agreeing on quote and separate_complex_types the printed
lines say the same thing; separate_complex is a stable partition).  correspondence: `pp` exact strings under many
option sets.  oracle: real loads(dumps(d, **opts)) against the default formatting, for option sets of the full product."""
from __future__ import annotations
import copy, json
from collections import OrderedDict
from vlib import core, corpus, gen, ppcommon

LEVEL_NOTE = [
    "Lean 4.33 kernel; axioms ⊆ {propext, Classical.choice, Quot.sound} (audited each run)",
    "Model/Printer.lean hand model of pprint.py/quoter.py (exact-string correspondence); Gen tables regenerated each run",
    "the theorem is about the printed token content; that Lark reads equal token sequences into equal dictionaries (parser/lexer gap) is exercised by the oracle on real loads",
    "quote: documents whose strings contain the output quote are the documented exclusion; newlinechar ' ' only without comments",
]
RULE = ("corpus and schema-generated documents × option sets drawn from indent 0..8 × spacer × quote × newlinechar(LF, CRLF, space) × "
        "end_comment × align_values × separate_complex_types; non-trivial = option set differing from the default in ≥ 2 options; "
        "distinct by (document, options)")


def is_block_valued(k, v):
    if isinstance(v, dict) and "__type__" in v:
        return True
    if isinstance(v, list) and v and all(isinstance(x, dict) for x in v):
        return True
    return k in ("projection", "points", "pattern")


def expected_separated(d):
    """the documented effect of separate_complex_types on a dictionary (independent of the code)"""
    if isinstance(d, dict):
        items = [(k, expected_separated(v)) for k, v in d.items()]
        simple = [(k, v) for k, v in items if not is_block_valued(k, v)]
        block = [(k, v) for k, v in items if is_block_valued(k, v)]
        return OrderedDict(simple + block)
    if isinstance(d, list):
        return [expected_separated(x) for x in d]
    return d


def documents(ctx, n_gen):
    docs = [(fn.replace(core.REPO + "/", ""), d) for fn, d in corpus.load_all()]
    rng = ctx.rng
    made = 0
    while made < n_gen:
        t = rng.choice(["map", "layer", "class", "style", "label", "web", "legend", "scalebar", "symbol"] + gen.BLOCK_TYPES)
        b = gen.gen_block(rng, t, depth=rng.randint(0, 3), max_items=rng.randint(1, 10))
        made += 1
        try:
            d = ppcommon.fast_loads(gen.render(b))
        except Exception:
            ctx.count("generated:unparseable (C19 territory)")
            continue
        docs.append((f"gen:{t}:{made}", d))
    return docs


def explore(ctx, scale=1.0):
    rng = ctx.rng
    docs = documents(ctx, int((2000 if ctx.thorough else 300) * scale))
    per_doc = 10 if ctx.thorough else 3
    alls = ppcommon.all_option_sets(newline_space=True)
    corr_cases = []
    for label, d in docs:
        plain = gen.plain_dict(d)
        base = ppcommon.real_pprint(d, ppcommon.DEFAULT)
        if "err" in base:
            ctx.count("default-dumps-raises (other properties)")
            continue
        try:
            d0 = gen.plain_dict(ppcommon.fast_loads(base["ok"]))
        except Exception as ex:
            ctx.count("default-output-unparseable (C01 territory)")
            continue
        optsets = ppcommon.sample_option_sets(rng, 4) + [rng.choice(alls) for _ in range(per_doc)]
        rng.shuffle(optsets)
        for opts in optsets[:per_doc]:
            if "\n" not in opts["newlinechar"] and opts["end_comment"]:
                ctx.count("skipped:newlinechar without a line break while comments are emitted (outside the quantifier)")
                continue
            if ppcommon.has_quote_conflict(plain, opts["quote"]) or ppcommon.has_quote_conflict(plain, '"'):
                ctx.count("skipped:string contains the output quote (documented exclusion)")
                continue
            ndiff = sum(1 for k in opts if opts[k] != ppcommon.DEFAULT[k])
            ctx.case((label, json.dumps(opts, sort_keys=True)), ndiff >= 2, sample={"doc": label, "opts": opts} if rng.random() < .002 else None)
            for k, v in opts.items():
                ctx.count(f"{k}={v!r}")
            real = ppcommon.real_pprint(d, opts)
            rep = {"doc": label, "opts": opts}
            if "err" in real:
                ctx.violation("dumps-raises:" + real["err"], "dumps raised under these options but not under the defaults", rep)
                continue
            try:
                d1 = gen.plain_dict(ppcommon.fast_loads(real["ok"]))
            except Exception as ex:
                rep["text"] = real["ok"][:1500]; rep["error"] = str(ex)[:300]
                ctx.violation("unparseable:" + sigopts(opts), "the formatted text is not accepted by loads", rep)
                continue
            want = expected_separated(d0) if opts["separate_complex_types"] else d0
            if core.canon(d1) != core.canon(want):
                rep["text"] = real["ok"][:1500]
                if opts["separate_complex_types"] and core.canon(sort_keys(d1)) == core.canon(sort_keys(d0)):
                    moved = first_order_difference(d1, want)
                    ctx.violation("sepcomplex:order:" + str(moved), "separate_complex_types moved a key it may not move (or failed to move a block)", rep)
                else:
                    ctx.violation("content-changed:" + sigopts(opts), "loading the formatted text gives a different dictionary than loading the default formatting", rep)
            corr_cases.append((label, d, {k: v for k, v in opts.items()}))
    for i in range(0, len(corr_cases), 1500):
        ppcommon.pp_correspondence(ctx, corr_cases[i:i + 1500])


def sigopts(opts):
    return ",".join(k for k in sorted(opts) if opts[k] != ppcommon.DEFAULT[k])


def sort_keys(d):
    if isinstance(d, dict):
        return OrderedDict(sorted((k, sort_keys(v)) for k, v in d.items()))
    if isinstance(d, list):
        return [sort_keys(x) for x in d]
    return d


def first_order_difference(a, b):
    if isinstance(a, dict) and isinstance(b, dict):
        if list(a.keys()) != list(b.keys()):
            for x, y in zip(a.keys(), b.keys()):
                if x != y:
                    return x
        for k in a:
            r = first_order_difference(a[k], b.get(k))
            if r:
                return r
    if isinstance(a, list) and isinstance(b, list):
        for x, y in zip(a, b):
            r = first_order_difference(x, y)
            if r:
                return r
    return None


def main(ctx):
    if ctx.replay:
        print(open(ctx.replay).read()[:4000]); return
    core.proof_leg(ctx, ["Mappy.Props.C06"])
    explore(ctx)
    core.finish(ctx, LEVEL_NOTE, RULE, search=lambda c: explore(c, scale=2.0))
