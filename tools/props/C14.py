"""C14 — kept comments are verbatim, never invented or duplicated, and stay attached.
proof leg: Mappy.Props.C14 (Parser._assign_comments conserves the comment multiset for every forest; a node takes exactly the
           comments up to its line; non-empty comment lists are hoisted verbatim under the keyword).
correspondence: `assign` (comment dict + tree with line numbers -> comments per node, vs Parser._assign_comments on the real tree),
           `transform` with include_comments on.
oracle: comment tokens of the source vs comment tokens of dumps(loads(s, include_comments=True)) read by an independent
        tokenizer: verbatim (each printed comment region = source comments joined by single blanks), no duplication, same content;
        placement of end-of-line comments of simple keywords and of comment lines above claimed openers; one Parser object reused."""
from __future__ import annotations
import collections, json, re
from vlib import core, gen, corpus, trees, ppcommon

LEVEL_NOTE = [
    "Lean 4.33 kernel; axioms ⊆ {propext, Classical.choice, Quot.sound} (audited each run)",
    "Model/Comments.lean hand model of Parser._assign_comments / comments_dict (tied by the `assign` correspondence on real trees with Lark's line numbers); Model/Transformer.lean for the hoisting (tied by `transform`)",
    "which line a node is on, and which comments the lexer call-back sees, are Lark's business (inputs of the model)",
    "the printer emitting each stored comment exactly once is covered by the printer model's exact-string correspondence (C16/C03) and by the oracle here, not by a theorem of this file",
    "placement clauses are checked only where the property claims them (end-of-line comments of simple, non-repeated, single-line keywords; comment lines directly above object / METADATA / VALIDATION / CONNECTIONOPTIONS openers)",
]
RULE = ("schema-generated documents in one-keyword-per-line layout with uniquely numbered # and /* */ comments at line ends and on lines of their own, loaded with "
        "include_comments (with and without include_position) through ONE reused Parser object and through loads; corpus files with their own comments; "
        "non-trivial = document with ≥ 1 comment; distinct by (text, flags)")

CLAIMED_OPENERS = set(t.upper() for t in gen.BLOCK_TYPES) | {"METADATA", "VALIDATION", "CONNECTIONOPTIONS"}
OTHER_OPENERS = {"VALUES", "PROJECTION", "POINTS", "PATTERN", "SYMBOLSET"}
UNCLAIMED_KEYS = {"PROCESSING", "FORMATOPTION", "COMPFILTER", "INCLUDE", "CONFIG", "END"}


def comment_regions(text):
    """independent tokenizer: [(line index, region text)] — the part of each line from the first comment start to the end of
    the line; C comments may span lines (then the region is the whole comment)."""
    out = []
    i, n, line = 0, len(text), 0
    quote = None
    while i < n:
        ch = text[i]
        if quote:
            if ch == "\\" and i + 1 < n and text[i + 1] == quote:
                i += 2; continue
            if ch == quote:
                quote = None
            if ch == "\n":
                line += 1
            i += 1; continue
        if ch in "'\"`":
            quote = ch; i += 1; continue
        if ch == "\n":
            line += 1; i += 1; continue
        if ch == "#":
            j = text.find("\n", i)
            j = n if j < 0 else j
            out.append((line, text[i:j].strip()))
            i = j; continue
        if ch == "/" and i + 1 < n and text[i + 1] == "*":
            j = text.find("*/", i + 2)
            j = n if j < 0 else j + 2
            # further C comments written directly behind this one (each may span lines) belong to the same region
            while True:
                m = j
                while m < n and text[m] in " \t":
                    m += 1
                if text.startswith("/*", m):
                    j2 = text.find("*/", m + 2)
                    j = n if j2 < 0 else j2 + 2
                else:
                    break
            # the rest of the line after the C comment(s) may hold more comments: take to end of line
            k = text.find("\n", j)
            k = n if k < 0 else k
            out.append((line, text[i:k].strip()))
            line += text.count("\n", i, k)
            i = k; continue
        if ch == "/" and i + 1 < n and text[i + 1] not in "* \n":
            # a /regex/ value: skip to the closing slash on this line
            j = text.find("/", i + 1)
            k = text.find("\n", i + 1)
            if j >= 0 and (k < 0 or j < k):
                i = j + 1; continue
        i += 1
    return out


def atoms_of(region):
    """split a comment region of the SOURCE into the comment tokens the lexer sees: '# …' runs to the end of the line,
    '/* … */' ends at '*/'"""
    out = []
    s = region
    while s:
        s = s.lstrip()
        if s.startswith("/*"):
            j = s.find("*/")
            j = len(s) if j < 0 else j + 2
            out.append(s[:j].strip()); s = s[j:]
        elif s.startswith("#"):
            out.append(s.strip()); s = ""
        else:
            # code after a C comment on the same line: not a comment
            m = re.search(r"#|/\*", s)
            if not m:
                break
            s = s[m.start():]
    return out


def decompose(region, pool):
    """can `region` be written as source comments joined by single blanks, using each at most pool[c] times? returns the list"""
    memo = {}
    def go(rest, used):
        if rest == "":
            return []
        key = (rest, tuple(sorted(used.items())))
        if key in memo:
            return memo[key]
        res = None
        for c in pool:
            if pool[c] - used.get(c, 0) <= 0:
                continue
            if rest == c or rest.startswith(c + " "):
                u2 = dict(used); u2[c] = u2.get(c, 0) + 1
                sub = go(rest[len(c) + 1:] if rest != c else "", u2)
                if sub is not None:
                    res = [c] + sub
                    break
        memo[key] = res
        return res
    return go(region, {})


def gen_commented(ctx, n):
    """one-keyword-per-line documents with uniquely numbered comments; returns (text, claims) where claims =
    [(comment text, 'eol'|'above', first word of the line it belongs to)]"""
    rng = ctx.rng
    out = []
    for i in range(n):
        t = rng.choice(["map", "layer", "class", "style", "label", "web", "legend", "scalebar", "layer", "map"] + gen.BLOCK_TYPES)
        b = gen.gen_block(rng, t, depth=rng.choice([0, 1, 2, 2]), max_items=7)
        if rng.random() < .5 and "metadata" in gen.raw(b.type)["properties"] and not any(it[1] == "metadata" for it in b.items if len(it) > 1):
            b.items.insert(rng.randrange(len(b.items) + 1), ("kv", "metadata", [(f"k{j}", gen.rstring(rng)) for j in range(rng.randint(1, 3))]))
        lines = (gen.symbolset_text(rng) if i % 13 == 7 else gen.render(b)).split("\n")   # every 13th document is a symbol file (SYMBOLSET root)
        firsts = [ln.split()[0].upper() if ln.split() else "" for ln in lines]
        count = collections.Counter(firsts)
        res, claims, k = [], [], 0
        in_kv = 0
        for ln, first in zip(lines, firsts):
            single = len(ln.split()) == 1        # `SYMBOL "x"` / `STYLE 1` are keywords, `SYMBOL` alone opens a block
            kind = ("opener" if first in CLAIMED_OPENERS and single else "other-opener" if first in OTHER_OPENERS and single else
                    "unclaimed" if first in UNCLAIMED_KEYS or in_kv or first[:1] in ("'", '"') else "keyword")
            if first in ("METADATA", "VALIDATION", "CONNECTIONOPTIONS", "VALUES", "PROJECTION", "POINTS", "PATTERN"):
                in_kv += 1
            elif first == "END" and in_kv:
                in_kv -= 1
            if kind == "opener" and rng.random() < .12:
                # the same comment text twice above one opener (a ruler above and below a title): both must be written
                k += 1
                ruler = rng.choice([f"# ------ {k} {i}", f"#=== {k}-{i}"])
                for c in (ruler, f"# title {k} {i}", ruler):
                    res.append("  " + c)
                    claims.append((c, "above", first))
            if rng.random() < .25:
                k += 1
                c = rng.choice([f"# note {k} {i}", f"/* block {k} {i} */", f"#n{k}-{i} with 'quotes' \"x\"",
                                f"/* table {k} {i}\n      scale     size\n      < 1:100     {k}  \n   */",
                                f"/* {k}-{i} first line,\n\t  second line */"])
                res.append(" " * rng.randint(0, 4) + c)
                if kind == "opener" and "\n" not in c:      # (a comment that spans lines is checked by the verbatim oracle only)
                    claims.append((c, "above", first))
            if rng.random() < .45:
                k += 1
                c = rng.choice([f"# c{k} {i}", f"#c{k}-{i} END", f"/* c{k} {i} */"])
                ln = ln + rng.choice([" ", "  ", "\t"]) + c
                if kind == "keyword" and count[first] == 1:
                    claims.append((c, "eol", first))
            res.append(ln)
        out.append(("\n".join(res), claims))
    return out


def wire_ct(node):
    from lark import Tree
    if isinstance(node, Tree):
        return {"n": str(node.data), "l": getattr(node.meta, "line", None), "e": getattr(node.meta, "end_line", None),
                "c": [wire_ct(c) for c in node.children]}
    return {"t": 1}


def real_attached(node, out):
    from lark import Tree
    for c in node.children:
        if isinstance(c, Tree):
            out.append([str(x) for x in getattr(c.meta, "comments", [])])
            real_attached(c, out)
    return out


def explore(ctx, scale=1.0):
    import mappyfile
    from mappyfile.transformer import MapfileToDict
    rng = ctx.rng
    docs = [(t, None) for _, t in corpus.texts() if "#" in t or "/*" in t]
    if not ctx.thorough:
        docs = rng.sample(docs, min(len(docs), int(100 * scale)))
    docs += gen_commented(ctx, int((4000 if ctx.thorough else 400) * scale))
    rng.shuffle(docs)
    # the minimal input of the recorded finding eol-join:multiline-c-after-hash, probed on every run
    docs.insert(0, ('LAYER\n  # first\n  /* a\n     b */\n  NAME "x"\nEND', []))
    P = trees.parser(True, False)           # ONE parser object for every document (the batch pattern)
    areqs, akeep, treqs, tkeep = [], [], [], []
    for idx, (text, claims) in enumerate(docs):
        kind = "corpus" if claims is None else "generated"
        src_regions = comment_regions(text)
        atoms = [a for _, r in src_regions for a in atoms_of(r)]
        pool = collections.Counter(atoms)
        for pos in ((False, True) if idx % 2 else (False,)):
            # ---- real: parse with comments on the shared parser; every 10th document also through loads ----
            try:
                tree = P.parse(text)
            except Exception as ex:
                ctx.count(f"{kind}:unparseable ({type(ex).__name__})")
                break
            if pos is False:
                comments = [[c.line, c.value.strip()] for c in P._comments]
                areqs.append({"op": "assign", "comments": comments, "kids": [wire_ct(c) for c in tree.children]})
                akeep.append((text, real_attached(tree, [])))
            if trees.ascii_case_safe(tree):
                tree2 = P.parse(text)
                treqs.append(trees.request(tree2, pos, True))
                tkeep.append((text, trees.real_transform(tree2, pos, True)))
            try:
                d = MapfileToDict(include_position=pos, include_comments=True).transform(P.parse(text))
                if idx % 10 == 0:
                    d2 = mappyfile.loads(text, include_comments=True, include_position=pos, expand_includes=False)
                    if core.canon(gen.plain_dict(d2)) != core.canon(gen.plain_dict(d)) or json.dumps(all_stored(d2)) != json.dumps(all_stored(d)):
                        ctx.violation("reused-parser-differs", "a reused Parser object gives another dictionary / other comments than loads", {"text": text})
                        continue
            except Exception as ex:
                try:
                    MapfileToDict().transform(trees.parser(False, False).parse(text))
                except Exception:
                    ctx.count(f"{kind}:does not load without comments either ({type(ex).__name__}) — C19 territory")
                    break
                ctx.violation(f"load-raises:{type(ex).__name__}", f"loading with include_comments raises {type(ex).__name__}", {"text": text, "include_position": pos})
                continue
            ctx.case((text, pos), bool(atoms), sample={"text": text[:200]} if rng.random() < .004 else None)
            ctx.count(f"doc:{kind}"); ctx.count(f"comments-in-source={min(len(atoms), 20) // 5 * 5}+")
            rep = {"text": text, "include_position": pos}
            if ppcommon.has_newline_value(gen.plain_dict(d)) or isinstance(d, list):
                ctx.count("skipped:multi-line string value / list root"); continue
            try:
                out = mappyfile.dumps(d)
                plain = mappyfile.dumps(MapfileToDict().transform(trees.parser(False, False).parse(text)))
            except Exception as ex:
                ctx.count(f"dumps fails ({type(ex).__name__}) — C03/C19 territory"); continue
            # ---- recorded defect: a multi-line /* */ comment joined behind a # comment on a keyword's line ----
            multi = [a for a in atoms if a.startswith("/*") and "\n" in a]
            hashes = [a for a in atoms if a.startswith("#")]
            hit = None
            for ln in out.split("\n"):
                for a in multi:
                    first = a.split("\n")[0].rstrip()
                    if ln.endswith(" " + first):
                        head = ln[:len(ln) - len(first)]
                        if any((" " + h + " ") in head for h in hashes):
                            hit = (ln.strip(), a)
            if hit:
                ctx.violation("eol-join:multiline-c-after-hash", f"the comments {hit[0]!r} … are written on one keyword line: the # comment swallows the opening of the "
                              "multi-line /* */ comment, whose continuation lines are then outside any comment (the output does not load)", dict(rep, printed=out[:3000]))
                continue
            # ---- verbatim + no duplication ----
            used = collections.Counter()
            bad = None
            for _, region in comment_regions(out):
                parts = decompose(region, pool)
                if parts is None:
                    bad = ("verbatim", region); break
                used.update(parts)
            if bad is None:
                for c, k in used.items():
                    if k > pool[c]:
                        bad = ("duplicated", c); break
            if bad:
                ctx.violation(f"comment:{bad[0]}", f"printed comment {bad[1]!r} is not (a blank-joined sequence of) source comments, each used at most as often as written",
                              dict(rep, printed=out[:3000], source_comments=atoms[:40]))
                continue
            # ---- same content ----
            try:
                back = MapfileToDict().transform(trees.parser(False, False).parse(out))
                want = MapfileToDict().transform(trees.parser(False, False).parse(plain))
                if core.canon(gen.plain_dict(back)) != core.canon(gen.plain_dict(want)):
                    ctx.violation("comment:content", "the output with comments loads to different content than the output without", dict(rep, printed=out[:3000]))
                    continue
            except Exception as ex:
                ctx.violation(f"comment:unparseable:{type(ex).__name__}", "the output with comments does not load", dict(rep, printed=out[:3000]))
                continue
            # ---- placement (claimed cases only) ----
            if claims:
                olines = out.split("\n")
                written = collections.Counter(c for c, _, _ in claims)
                seen = collections.Counter()
                for c, where, first in claims:
                    hits = [j for j, l in enumerate(olines) if c in l]
                    ctx.count(f"claim:{where}")
                    if len(hits) != written[c]:
                        ctx.violation(f"placement:{where}:lost", f"comment {c!r} ({where} {first}), written {written[c]} time(s), is printed {len(hits)} times", dict(rep, printed=out[:3000]))
                        break
                    j = hits[seen[c]]
                    seen[c] += 1
                    if where == "eol":
                        # the physical line may be the last line of a multi-line /* */ comment written earlier on the keyword's line
                        start = j
                        for a, region in comment_regions(out):
                            if a < j <= a + region.count("\n") and "*/" in region:
                                start = a
                        w = olines[start].split()
                        if not w or w[0].upper() != first or not olines[j].rstrip().endswith(c):
                            ctx.violation("placement:eol", f"comment {c!r} written at the end of the {first} line is printed on line {olines[j].strip()[:60]!r}", dict(rep, printed=out[:3000]))
                            break
                    else:
                        # directly above the opener: only comment lines between it and the opener line
                        in_comment = set()
                        for a, region in comment_regions(out):
                            if olines[a].strip().startswith(("#", "/*")):      # a comment line of its own (not a trailing comment)
                                in_comment.update(range(a, a + region.count("\n") + 1))
                        jj = j + 1
                        while jj < len(olines) and jj in in_comment:
                            jj += 1
                        w = olines[jj].split() if jj < len(olines) else []
                        if olines[j].strip() != c or not w or w[0].upper() != first:
                            ctx.violation("placement:above", f"comment line {c!r} written above {first} is printed above {(' '.join(w))[:40]!r}", dict(rep, printed=out[:3000]))
                            break
    for (text, real), ans in zip(akeep, core.lean_call(areqs)):
        if ans.get("attached") == real:
            ctx.corr_ok("assign")
        else:
            ctx.corr_diff("assign", {"text": text[:1500]}, json.dumps(ans.get("attached"))[:400], json.dumps(real)[:400])
    for (text, real), ans in zip(tkeep, core.lean_call(treqs)):
        if ans.get("err") == "UNSUPPORTED":
            ctx.count("corr:model UNSUPPORTED"); continue
        if trees.same(ans, real):
            ctx.corr_ok("transform(com)")
        else:
            ctx.corr_diff("transform(com)", {"text": text[:1500]}, json.dumps(ans)[:400], json.dumps(real)[:400])


def all_stored(d, out=None):
    if out is None:
        out = []
    if isinstance(d, dict):
        cm = d.get("__comments__")
        if cm:
            out.append(json.dumps(cm, sort_keys=True, default=str))
        for k, v in d.items():
            if k not in ("__comments__", "__position__"):
                all_stored(v, out)
    elif isinstance(d, list):
        for v in d:
            all_stored(v, out)
    return out


def main(ctx):
    if ctx.replay:
        print(open(ctx.replay).read()[:4000]); return
    core.proof_leg(ctx, ["Mappy.Props.C14"])
    explore(ctx)
    core.finish(ctx, LEVEL_NOTE, RULE, search=lambda c: explore(c, scale=2.0))
