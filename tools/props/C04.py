"""C04 — formatting is a deterministic normal form (idempotent).
proof leg: Mappy.Props.C04 (escape_quotes idempotent — un-escaping what was escaped gives the text back; formatting the value a
           reload gives back yields the same text, at every keyword for every value; the normal form is reached after one step;
           determinism).
correspondence: `quoter` (escape_quotes / standardise_quotes on strings with quotes and backslashes), `pp`.
oracle: for t = dumps(loads(src), **o): dumps(loads(t), **o) == t byte for byte and loads(t) == loads(dumps(loads(t))), over corpus
        and generated documents × formatter option sets; dumps twice on the same dictionary object gives the same text."""
from __future__ import annotations
import copy, json
from vlib import core, gen, corpus, trees, ppcommon

LEVEL_NOTE = [
    "Lean 4.33 kernel; axioms ⊆ {propext, Classical.choice, Quot.sound} (audited each run)",
    "C04_value_normal_form / C04_normV_idem / C04_escape_idem are about the printer and quoter models (tied by exact-string correspondences); that the dictionary read back from the text is `normV` of the original at every keyword is C01's value theorems plus the parser gap (exercised here on every case: the second pass must reproduce the first byte for byte)",
    "determinism: `pprint` is a Lean function of (options, tables, dictionary); CPython dict insertion order is the trusted counterpart",
    "newlinechar=' ' only for documents without comments; documented exclusion: values holding the output quote",
]
RULE = ("corpus files + generated documents (incl. strings with escaped quotes and backslash-quote runs at expression-capable keywords, list-valued keywords holding strings) after one "
        "formatting pass × option sets drawn from the full product (quick: 6 covering sets per document; thorough: 40 sets); non-trivial = every (document, option set); distinct by (text, options)")


def extras(rng, b):
    props = gen.raw(b.type)["properties"]
    for it in list(b.items):
        if it[0] == "block":
            extras(rng, it[2])
    if "colorrange" in props and rng.random() < .5 and not any(len(it) > 1 and it[1] == "colorrange" for it in b.items):
        b.items.append(("attr", "colorrange", ["#0000ff", "#ff0000"], [("#0000ff", "qstr"), ("#ff0000", "qstr")], "hexcolorrange"))
    # expressions from C10's generator (random operator trees with redundant parentheses; regular expressions as operands)
    for k in ("expression", "filter"):
        if k in props and rng.random() < .5 and not any(len(it) > 1 and it[1] == k for it in b.items):
            from props import C10
            t = C10.rand_tree(rng, rng.randint(1, 6))
            src = "(" + " ".join(C10.render(rng, t)) + ")"
            b.items.append(("attr", k, src, [(src, "raw")], "expression"))
    # quoted strings that span lines: their line breaks are content, whatever newlinechar is
    for k in ("data", "template", "header", "title", "connection"):
        if k in props and rng.random() < .15 and not any(len(it) > 1 and it[1] == k for it in b.items):
            v = rng.choice(["SELECT a\n  FROM t", "two\nlines\nthree", "x\n"])
            b.items.append(("attr", k, v, [(v, "qstr")], "string"))
    for k in ("text", "expression", "filter"):
        if k in props and rng.random() < .35 and not any(len(it) > 1 and it[1] == k for it in b.items):
            body = rng.choice(['a\\\\"b', 'say \\"hi\\"', "it\\'s", 'x\\\\\\"y', "plain text", 'tab\\there'])
            q = "'" if '"' in body and "'" not in body else '"' if '"' not in body else None
            if q:
                b.items.append(("attr", k, body, [(q + body + q, "raw")], "string"))


def explore(ctx, scale=1.0):
    import mappyfile
    from mappyfile.transformer import MapfileToDict
    from mappyfile.quoter import Quoter
    rng = ctx.rng
    docs = [(t, "corpus") for _, t in corpus.texts()]
    if not ctx.thorough:
        docs = rng.sample(docs, min(len(docs), int(60 * scale)))
    for i in range(int((1500 if ctx.thorough else 120) * scale)):
        b = gen.gen_block(rng, rng.choice(gen.BLOCK_TYPES + ["map", "layer", "class", "style", "label"]), depth=rng.choice([0, 1, 2]), max_items=8)
        extras(rng, b)
        docs.append((gen.render(b), "generated"))
    # small documents that are all expression (C10's random operator trees: divisions, regular expressions, redundant parentheses)
    from props import C10
    for i in range(int((2000 if ctx.thorough else 250) * scale)):
        t = C10.rand_tree(rng, rng.randint(2, 9))
        src = "(" + " ".join(C10.render(rng, t)) + ")"
        docs.append((rng.choice(["CLASS\n  EXPRESSION %s\nEND", "LAYER\n  FILTER %s\nEND", "CLASS\n  TEXT %s\nEND"]) % src, "expression"))
    # the enumerated word "end" (GEOMTRANSFORM) in every case, quoted, in nested blocks followed by more keywords: printed
    # bare it would close the block (seed C04-n8)
    for w in ("end", "END", "End", "eNd"):
        for q in ('"', "'"):
            docs.append((f'LAYER\n CLASS\n STYLE\n GEOMTRANSFORM {q}{w}{q}\n SYMBOL 1\n END\n NAME "c"\n END\n NAME "l"\nEND', "end-word"))
            docs.append((f'LAYER\n GEOMTRANSFORM {q}{w}{q}\n NAME "l"\nEND', "end-word"))
            docs.append((f'MAP\n LAYER\n CLASS\n STYLE\n GEOMTRANSFORM {q}{w}{q}\n COLOR 1 2 3\n END\n END\n END\n NAME "m"\nEND', "end-word"))
    P = trees.parser(False, False)
    n_sets = 40 if ctx.thorough else 6
    pp_cases, rl_cases = [], []
    for idx, (src, kind) in enumerate(docs):
        try:
            d0 = MapfileToDict().transform(P.parse(src))
        except Exception:
            ctx.count(f"{kind}:source unparseable (C19 territory)")
            continue
        if isinstance(d0, list):
            continue
        for o in ppcommon.sample_option_sets(rng, 2 if kind == "expression" and not ctx.thorough else n_sets, newline_space=True):
            if ppcommon.has_quote_conflict(gen.plain_dict(d0), o["quote"]):
                ctx.count("documented exclusion: value holds the output quote")
                continue
            if o["newlinechar"] == " " and ppcommon.has_newline_value(gen.plain_dict(d0)):
                continue
            rep = {"source": src, "options": o}
            r1 = ppcommon.real_pprint(d0, o, fresh=(idx % 9 == 0))
            if "err" in r1:
                ctx.count(f"first pass fails ({r1['err']}) — C03/C01 territory")
                continue
            t = r1["ok"]
            ctx.case((src, json.dumps(o, sort_keys=True)), True, sample={"source": src[:120], "options": o} if rng.random() < .001 else None)
            ctx.count("doc:" + kind); ctx.count(f"quote={o['quote']}"); ctx.count("newlinechar=" + repr(o["newlinechar"]))
            try:
                d1 = MapfileToDict().transform(P.parse(t))
            except Exception as ex:
                if kind == "end-word":
                    # none of the documented exclusions applies to these documents: t = dumps(d) must load, or dumps(loads(t)) != t
                    ctx.violation(f"formatted-text-unloadable:{type(ex).__name__}", "dumps produced text t that loads rejects, so dumps(loads(t)) cannot equal t", dict(rep, first=t[:2000]))
                    continue
                ctx.count(f"first pass output unparseable ({type(ex).__name__}) — C01/C06 territory")
                continue
            if len(rl_cases) < (4000 if ctx.thorough else 600):
                rl_cases.append((src[:200], gen.plain_dict(d0), gen.plain_dict(d1), o["separate_complex_types"]))
            r2 = ppcommon.real_pprint(d1, o)
            if r2 != r1:
                ctx.violation("not-idempotent", "formatting already formatted output changes it: dumps(loads(t)) != t for t = dumps(…)", dict(rep, first=t[:3000], second=str(r2.get("ok", r2))[:3000]))
                continue
            try:
                d2 = MapfileToDict().transform(P.parse(r2["ok"]))
            except Exception as ex:
                ctx.violation(f"second-pass-unparseable:{type(ex).__name__}", "the second formatting pass gives text that does not load", dict(rep, first=t[:2000]))
                continue
            if core.canon(gen.plain_dict(d1)) != core.canon(gen.plain_dict(d2)):
                ctx.violation("reload-not-stable", "loads(t) differs from loads(dumps(loads(t)))", dict(rep, first=t[:2000]))
                continue
            # same dictionary object, same options, twice
            if not o["separate_complex_types"]:
                same = copy.deepcopy(d1)
                try:
                    a, b2 = twice(same, o)
                    if a != b2:
                        ctx.violation("not-deterministic", "formatting the same dictionary object twice with the same options gives different text", dict(rep, first=a[:1500], second=b2[:1500]))
                except Exception:
                    pass
            if idx % 5 == 0 and len(pp_cases) < 300:
                pp_cases.append((src[:60], gen.plain_dict(d1), o))
    ppcommon.pp_correspondence(ctx, pp_cases)
    ppcommon.reload_correspondence(ctx, rl_cases)
    # ---------------- quoter correspondence ----------------
    alphabet = ['"', "'", "\\", "a", " ", "\\\\"]
    strings = set()
    for n in range(0, 6):
        for _ in range(200 if n > 2 else 40):
            strings.add("".join(rng.choice(alphabet) for _ in range(n)))
    reqs, keep = [], []
    for s in sorted(strings):
        for q in ('"', "'"):
            for wrap in (q + s + q, s):
                for fn in ("escape_quotes", "standardise_quotes"):
                    real = getattr(Quoter(quote=q), fn)(wrap)
                    twice_ = getattr(Quoter(quote=q), fn)(real)
                    reqs.append({"op": "quoter", "fn": fn, "quote": q, "s": wrap}); keep.append((fn, q, wrap, real))
                    ctx.evaluations += 1
                    if fn == "escape_quotes" and twice_ != real:
                        ctx.violation("escape-not-idempotent", f"escape_quotes applied twice differs from once on {wrap!r} (quote {q})", {"s": wrap, "quote": q, "once": real, "twice": twice_})
    for (fn, q, s, real), ans in zip(keep, core.lean_call(reqs)):
        if ans == real:
            ctx.corr_ok("quoter")
        else:
            ctx.corr_diff("quoter", {"fn": fn, "quote": q, "s": s}, json.dumps(ans), json.dumps(real))


def twice(d, o):
    from mappyfile.pprint import PrettyPrinter
    pp = PrettyPrinter(**o)
    return pp.pprint(d), pp.pprint(d)


def main(ctx):
    if ctx.replay:
        print(open(ctx.replay).read()[:4000]); return
    core.proof_leg(ctx, ["Mappy.Props.C04", "Mappy.Props.C04Doc", "Mappy.Props.C04Rel"])
    explore(ctx)
    core.finish(ctx, LEVEL_NOTE, RULE, search=lambda c: explore(c, scale=2.0))
