"""C18 — update / find helpers obey their documented laws.
proof leg: Mappy.Props.C18.  correspondence: update/find/findall/findunique/findkey, real vs Lean model on random
nested dictionaries (plain and Mapfile dicts).  oracle: independent reference written from the property text +
law checks (untouched keys, arguments unchanged, identity of the returned dict)."""
from __future__ import annotations
import copy, json
from collections import OrderedDict
from vlib import core

LEVEL_NOTE = [
    "Lean 4.33 kernel; axioms ⊆ {propext, Classical.choice, Quot.sound} (audited each run)",
    "Model/DictUtils.lean is a hand model of dictutils.py (after the two fix: commits to find/findall); tied by the update/find* correspondence",
    "domain: patch keys distinct under case folding when the target is a Mapfile dict; type-compatible patches (patch dict where d1 has a dict or nothing; patch object-list where d1 has a list or nothing); deletion markers only for keys that exist; bool Overwrite; values compared never mix bool with 0/1",
    "Mapfile dicts are modelled as uniformly case-insensitive; dicts created by update itself are plain (as in the code)",
    "aliasing between result and patch is not modelled; 'arguments unchanged' is checked on the real objects",
]
RULE = ("random nested dictionaries (plain and CaseInsensitiveOrderedDict) with random patches (scalars, nested dicts, object lists with None "
        "placeholders, '__delete__' markers, new keys, both overwrite modes) and random object lists for find*/findkey; non-trivial = patch "
        "with ≥2 entries or nesting / list with ≥2 items; distinct by canonical JSON of the arguments")

KEYS = ["a", "b", "name", "group", "x"]


def CI():
    from mappyfile.ordereddict import CaseInsensitiveOrderedDict
    return CaseInsensitiveOrderedDict


def mkdict(ci, pairs):
    if ci:
        C = CI()
        return C(C, pairs)
    return OrderedDict(pairs)


def rscalar(rng):
    return rng.choice([2, 3, 5, 0, "s", "road", "roads", "", 2.5, None, [1, 2], ["q"], True])


def rkey(rng, ci):
    k = rng.choice(KEYS)
    if not ci:
        return rng.choice([k, k.upper()]) if rng.random() < .3 else k
    return k


def rdict(rng, ci, depth):
    pairs = []
    for _ in range(rng.randint(0, 4)):
        k = rkey(rng, ci)
        c = rng.random()
        if depth > 0 and c < .25:
            v = rdict(rng, ci, depth - 1)
        elif depth > 0 and c < .45:
            v = [rdict(rng, ci, depth - 1) for _ in range(rng.randint(0, 3))]
            if rng.random() < .1 and v:
                v[rng.randrange(len(v))] = None
        else:
            v = rscalar(rng)
        pairs.append((k, v))
    return mkdict(ci, pairs)


def case_of(rng, k):
    return rng.choice([k, k.upper(), k.capitalize()])


def rpatch(rng, d1, ci, depth, compatible=True):
    """a patch for d1 (None = absent)"""
    pairs = []
    keys = list(d1.keys()) if isinstance(d1, dict) else []
    n = rng.randint(0, 4)
    for _ in range(n):
        if keys and rng.random() < .7:
            k0 = rng.choice(keys)
        else:
            k0 = rkey(rng, ci)
        present = isinstance(d1, dict) and k0 in d1
        cur = d1[k0] if present else None
        k = case_of(rng, k0) if ci else k0
        c = rng.random()
        if isinstance(cur, dict) and c < .6:
            v = rpatch(rng, cur, ci, depth - 1) if rng.random() < .8 else {"__delete__": True}
        elif isinstance(cur, list) and all(isinstance(x, (dict, type(None))) for x in cur) and c < .6:
            v = []
            for i in range(rng.randint(0, len(cur) + 2)):
                o = cur[i] if i < len(cur) else None
                cc = rng.random()
                if cc < .2: v.append(None)
                elif cc < .35: v.append({"__delete__": rng.choice([True, 1, "yes"])})
                else: v.append(rpatch(rng, o if isinstance(o, dict) else None, ci and isinstance(o, dict), depth - 1))
        elif not present and depth > 0 and c < .2:
            v = rpatch(rng, None, False, depth - 1)
        elif not present and depth > 0 and c < .35:
            v = [rpatch(rng, None, False, depth - 1) if rng.random() < .8 else None for _ in range(rng.randint(0, 2))]
        elif present and c < .75 and not isinstance(cur, (dict,)) :
            v = "__delete__"
        else:
            v = rscalar(rng)
            if isinstance(cur, (dict,)) or (isinstance(cur, list) and isinstance(v, list) and not v):
                v = 7
        pairs.append((k, v))
    # a plain patch dict has unique exact keys; for a Mapfile dict target the keys are also kept distinct
    # under case folding (DESIGN: dicts created earlier by the same update are plain, not modelled per object)
    out = OrderedDict()
    seen = set()
    for k, v in pairs:
        f = k.lower() if ci else k
        if f in seen:
            continue
        seen.add(f); out[k] = v
    return out


def truthy(x):
    return bool(x)


def is_ci(d):
    return isinstance(d, CI())


def ref_update(d1, d2, ow):
    """Reference written from the property text; functional (never mutates)."""
    if truthy(d2.get("__delete__", False)):
        return OrderedDict()
    ci = is_ci(d1)
    out = mkdict(ci, [(k, v) for k, v in d1.items()])
    for k, v in d2.items():
        kk = k.lower() if ci else k
        if isinstance(v, dict):
            if truthy(v.get("__delete__", False)):
                del out[kk]
            else:
                out[kk] = ref_update(out[kk] if kk in out else OrderedDict(), v, ow)
        elif isinstance(v, (list, tuple)) and all(isinstance(x, (dict, type(None))) for x in v):
            orig = list(out.get(kk, []))
            new = []
            for i in range(max(len(orig), len(v))):
                o = orig[i] if i < len(orig) else None
                n = v[i] if i < len(v) else None
                if o is None: o = OrderedDict()
                if n is None:
                    new.append(o); continue
                if truthy(n.get("__delete__", False)):
                    continue
                new.append(ref_update(o, n, ow) if isinstance(o, dict) else o)
            out[kk] = new
        elif v == "__delete__" and kk in out:
            del out[kk]
        elif ow or kk not in out:
            out[kk] = v
    return out


def plain(x):
    """structure only (dict class erased), for comparing with the reference"""
    if isinstance(x, dict):
        return OrderedDict((k, plain(v)) for k, v in x.items())
    if isinstance(x, list):
        return [plain(v) for v in x]
    if isinstance(x, tuple):
        return tuple(plain(v) for v in x)
    return x


def nontrivial_patch(p):
    return len(p) >= 2 or any(isinstance(v, (dict, list)) for v in p.values())


def update_cases(ctx, n):
    import mappyfile
    rng = ctx.rng
    reqs, keep = [], []
    for i in range(n):
        ci = rng.random() < .6
        d1 = rdict(rng, ci, 3)
        d2 = rpatch(rng, d1, ci, 3)
        if rng.random() < .03:
            d2["__delete__"] = rng.choice([True, False, 1])
        ow = rng.random() < .6
        a1, a2 = copy.deepcopy(d1), copy.deepcopy(d2)
        snap2 = core.canon(a2)
        try:
            expected = ("ok", core.canon(plain(ref_update(d1, d2, ow))))
        except Exception as ex:
            expected = ("ref-error", type(ex).__name__)
        try:
            r = mappyfile.update(a1, a2, ow)
            real = ("ok", core.canon(plain(r)))
            same_obj = r is a1
        except Exception as ex:
            real = ("err", type(ex).__name__); same_obj = None; r = None
        ctx.case(("update", ci, ow, core.canon(plain(d1)), snap2), nontrivial_patch(d2),
                 sample={"op": "update", "ci": ci, "overwrite": ow, "d1": json.loads(core.canon(plain(d1))), "d2": json.loads(snap2)} if nontrivial_patch(d2) and i % 50 == 0 else None)
        ctx.count("update:ci" if ci else "update:plain"); ctx.count("update:overwrite" if ow else "update:no-overwrite")
        for v in d2.values():
            ctx.count("patch:" + ("delete-str" if v == "__delete__" else "dict-delete" if isinstance(v, dict) and v.get("__delete__") else type(v).__name__))
        rep = {"fn": "update", "ci": ci, "overwrite": ow, "d1": json.loads(core.canon(plain(d1))), "d2": json.loads(snap2), "real": real, "expected": expected}
        if expected[0] == "ok":
            if real != expected:
                ctx.violation("update:result", "update(d1, d2) differs from the documented merge", rep)
            elif core.canon(a2) != snap2:
                ctx.violation("update:d2-modified", "update modified its patch argument", rep)
            elif not truthy(d2.get("__delete__", False)) and same_obj is False:
                ctx.violation("update:not-d1", "update did not return d1 itself", rep)
        else:
            ctx.count("update:outside-domain")
        reqs.append({"op": "update", "ci": ci, "ow": ow, "d1": core.enc(plain(d1)), "d2": core.enc(plain(d2))})
        keep.append((rep, real))
    answers = core.lean_call(reqs)
    for (rep, real), ans in zip(keep, answers):
        if "ok" in ans:
            model = ("ok", json.dumps(ans["ok"], ensure_ascii=False))
        elif "err" in ans:
            model = ("err", ans["err"])
        else:
            model = ("bad", ans)
        agree = (model == real) or (model[0] == "err" and real[0] == "err" and (model[1] == real[1] or (model[1] == "TypeError" and real[1] in ("TypeError", "AttributeError"))))
        if agree:
            ctx.corr_ok("update")
            if real[0] == "err": ctx.count("update:error-agreed:" + real[1])
        else:
            ctx.corr_diff("update", rep, model, real)


def rlist(rng, ci):
    items = []
    for _ in range(rng.randint(0, 6)):
        pairs = []
        if rng.random() < .75:
            pairs.append(("group", rng.choice(["roads", "road", "", "x", 0, 2, 3, None])))
        if rng.random() < .6:
            pairs.append(("name", rng.choice(["n1", "n2", "roads"])))
        if rng.random() < .3:
            pairs.append(("num", rng.choice([5, 3, 9, 3])))
        if rng.random() < .3:
            pairs.append(("color", rng.choice([[255, 0, 0], [0, 0, 0], [255, 0, 0], ["roads", "x"]])))     # list-valued keywords exist too
        rng.shuffle(pairs)
        items.append(mkdict(ci, pairs))
    return items


def find_cases(ctx, n):
    import mappyfile
    rng = ctx.rng
    reqs, keep = [], []
    for i in range(n):
        ci = rng.random() < .6
        lst = rlist(rng, ci)
        fn = rng.choice(["find", "findall", "findall", "findunique", "findkey"])
        key = rng.choice(["group", "GROUP", "name", "Name", "num", "missing", "color", "Color"])
        snap = core.canon(plain(lst))
        arg = copy.deepcopy(lst)
        rep = {"fn": fn, "ci": ci, "key": key, "lst": json.loads(snap)}
        exp_key = key.lower()
        def holds(it):
            return exp_key in it
        try:
            if fn == "find":
                value = rng.choice(["roads", "road", "", 0, 2, "n1", "zz", 5] + ([[255, 0, 0], [0, 0, 0], ["roads", "x"], ["n1", "n2"]] if rng.random() < .4 else []))
                rep["value"] = value
                real = ("ok", core.canon(plain(mappyfile.find(arg, key, value))))
                exp = next((it for it in lst if holds(it) and it[exp_key] == value), None)
                expected = ("ok", core.canon(plain(exp)))
                req = {"op": "find", "ci": ci, "key": key, "value": core.enc(value), "lst": core.enc(plain(lst))}
            elif fn == "findall":
                value = rng.choice(["roads", "road", "", 0, 2, "n1", ["roads", "x"], ("road", 2), [], ["n1", "n2", 0]])
                rep["value"] = core.enc(value)
                real = ("ok", core.canon(plain(mappyfile.findall(arg, key, value))))
                vals = list(value) if isinstance(value, (list, tuple)) else [value]
                exp = [it for it in lst if holds(it) and any(it[exp_key] == v and type(it[exp_key]) == type(v) for v in vals)]
                expected = ("ok", core.canon(plain(exp)))
                req = {"op": "findall", "ci": ci, "key": key, "value": core.enc(value), "lst": core.enc(plain(lst))}
            elif fn == "findunique":
                if key.lower() == "color":
                    key = "name"; exp_key = "name"; rep["key"] = key      # list values are not hashable: outside findunique's domain
                if key.lower() == "group":   # mixed str/int values are not sortable: use a homogeneous projection
                    for it in list(lst) + list(arg):
                        if "group" in it and not isinstance(it["group"], (str, type(None))):
                            it["group"] = str(it["group"])
                    snap = core.canon(plain(lst)); rep["lst"] = json.loads(snap)
                real = ("ok", core.canon(plain(mappyfile.findunique(arg, key))))
                exp = sorted({it[exp_key] for it in lst if holds(it) and it[exp_key] is not None})
                expected = ("ok", core.canon(exp))
                req = {"op": "findunique", "ci": ci, "key": key, "lst": core.enc(plain(lst))}
            else:
                d = mkdict(ci, [("layers", lst), ("name", "m")])
                arg = copy.deepcopy(d)
                snap = core.canon(plain(d))
                if lst and rng.random() < .8:
                    idx = rng.randrange(-len(lst), len(lst))
                    ks = list(lst[idx].keys())
                    path = ["layers", idx] + ([rng.choice(ks)] if ks and rng.random() < .7 else [])
                    if ci and len(path) == 3 and rng.random() < .5:
                        path[2] = path[2].upper()
                    if ci and rng.random() < .3:
                        path[0] = "LAYERS"
                else:
                    path = rng.choice([[], ["name"], ["layers"]])
                rep["path"] = path; rep["lst"] = json.loads(snap)
                real = ("ok", core.canon(plain(mappyfile.findkey(arg, *path))))
                x = d
                for pe in path:
                    x = x[pe.lower() if isinstance(pe, str) and ci else pe]
                expected = ("ok", core.canon(plain(x)))
                req = {"op": "findkey", "ci": ci, "d": core.enc(plain(d)), "path": path}
        except Exception as ex:
            real = ("err", type(ex).__name__)
            expected = ("ok", "?")
            req = None
        ctx.case((fn, ci, key, snap, json.dumps(rep.get("value", rep.get("path")), default=str)), len(lst) >= 2,
                 sample=rep if i % 100 == 0 else None)
        ctx.count("fn:" + fn)
        rep["real"] = real; rep["expected"] = expected
        if real != expected:
            ctx.violation(f"{fn}:result", f"{fn} result differs from its documented specification", rep)
        elif core.canon(plain(arg)) != snap:
            ctx.violation(f"{fn}:modified-items", f"{fn} modified the items it searched", rep)
        if req is not None:
            reqs.append(req); keep.append((rep, real))
    answers = core.lean_call(reqs)
    for (rep, real), ans in zip(keep, answers):
        model = ("ok", json.dumps(ans["ok"], ensure_ascii=False)) if "ok" in ans else ("err", ans.get("err", str(ans)))
        if model == real:
            ctx.corr_ok(rep["fn"])
        else:
            ctx.corr_diff(rep["fn"], rep, model, real)


def autocreate_oracle(ctx):
    """items that are auto-creating Mapfile dicts lacking the key are skipped and left unchanged (loaded documents)"""
    import mappyfile
    s = 'MAP LAYER NAME "l1" GROUP "roads" END LAYER NAME "l2" END LAYER NAME "l3" GROUP "road" END LAYER NAME "l4" MINSCALEDENOM 0 END END'
    d = mappyfile.loads(s)
    before = mappyfile.dumps(d)
    ctx.case("autocreate", True)
    try:
        r1 = mappyfile.findall(d["layers"], "group", "road")
        r2 = mappyfile.find(d["layers"], "group", "nothing")
        r3 = mappyfile.find(d["layers"], "minscaledenom", 0)
        r4 = mappyfile.findunique(d["layers"], "group")
    except Exception as ex:
        ctx.violation("find:loaded-doc", f"find helpers on a loaded document raised {type(ex).__name__}", {"text": s, "error": str(ex)})
        return
    ok = [x["name"] for x in r1] == ["l3"] and r2 is None and r3 is not None and r3["name"] == "l4" and r4 == ["road", "roads"]
    if not ok:
        ctx.violation("find:loaded-doc", "find helpers on a loaded document: wrong results", {"text": s, "findall": [x.get("name") for x in r1], "find0": None if r3 is None else r3.get("name"), "unique": r4})
    if mappyfile.dumps(d) != before:
        ctx.violation("find:modified-items", "find helpers modified a loaded document", {"text": s, "after": mappyfile.dumps(d)})


def explore(ctx, scale=1.0):
    n = int((100000 if ctx.thorough else 5000) * scale)
    for i in range(0, n, 5000):
        update_cases(ctx, min(5000, n - i))
        find_cases(ctx, min(5000, n - i))
    autocreate_oracle(ctx)


def main(ctx):
    if ctx.replay:
        print(open(ctx.replay).read()[:4000]); return
    core.proof_leg(ctx, ["Mappy.Props.C18"])
    explore(ctx)
    core.finish(ctx, LEVEL_NOTE, RULE, search=lambda c: explore(c, scale=3.0))
