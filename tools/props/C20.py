"""C20 — file, stream and command-line front ends agree with the string API (partial: file I/O, click, OS exit status).
proof leg: Mappy.Props.C20 (exit status 0 ⇔ every file parsed and validated; = number of problems when ≤ 255; one line per
           message; the three writers share one printer call; which options `format` passes on; UTF-8 round trip).
correspondence: `cli` — the model's exit status / echoed line count / success count vs real `mappyfile validate` subprocesses.
oracle: temp files with non-ASCII / astral values through save/open, dump/load, dumps/loads (equal dictionaries, equal characters);
        `mappyfile format` vs save(open(IN)); `mappyfile schema --version` vs the API's versioned schema; `mappyfile validate`
        over sets of valid, invalid (1…300 messages) and unparseable files: printed lines and exit status."""
from __future__ import annotations
import copy, io, json, os, shutil, subprocess, tempfile
from vlib import core, gen, ppcommon

LEVEL_NOTE = [
    "Lean 4.33 kernel; axioms ⊆ {propext, Classical.choice, Quot.sound} (audited each run)",
    "PARTIAL: the exit-status arithmetic, the line counts, the option record reaching the printer and the sharing of one printer call are modelled (Model/Cli.lean) and proved; what the model cannot exhibit — file-system I/O, Python's codecs and text-mode newline translation, click's argument parsing, the OS truncating the exit status — is exercised by real subprocess runs and file round trips",
    "osStatus (code mod 256) is the assumed OS behaviour; C20_utf8_roundtrip is about Lean core's UTF-8 codec (Python's is its trusted counterpart, exercised)",
]
RULE = ("generated documents with non-ASCII and astral-plane string values × save/open, dump/load, dumps/loads × formatter options; real `mappyfile format|validate|schema` "
        "subprocesses over file sets mixing valid, invalid (1…300 messages) and unparseable files, several versions; non-trivial = every round trip / run; distinct by content")

EXOTIC = ["Ünïcödé", "日本語", "𝄞 clef", "😀", "ß→∑", "a b", "Ελληνικά", "emoji 🗺 map", "tab\there",
          # characters that are line boundaries for str.splitlines() but not for the Mapfile lexer or for text-mode files
          "first\u2028second", "nel\x85here", "page\x0cbreak", "fs\x1cgs\x1d", "vt\x0btab", "ps\u2029end", "two\nlines"]
CLI = "/venv/bin/mappyfile"


def run_cli(args, cwd):
    env = dict(os.environ, PYTHONIOENCODING="utf-8", LC_ALL="C.UTF-8")
    p = subprocess.run([CLI] + args, cwd=cwd, capture_output=True, env=env, timeout=600)
    return p.returncode, p.stdout.decode("utf-8", "replace"), p.stderr.decode("utf-8", "replace")


def make_doc(rng, exotic=True):
    b = gen.gen_block(rng, rng.choice(["map", "layer", "class", "web"]), depth=rng.choice([0, 1, 2]), max_items=6)
    if exotic:
        skeys = [k for t, k, shs in gen.cells() if t == b.type and any(s[0] == "string" for s in shs) and not any(s[0] in ("expression", "regex", "binding", "enum") for s in shs)]
        used = {it[1] for it in b.items if len(it) > 1 and isinstance(it[1], str)}
        skeys = [k for k in skeys if k not in used]
        for k in rng.sample(skeys, min(len(skeys), rng.randint(1, 3))):
            v = rng.choice(EXOTIC)
            b.items.append(("attr", k, v, [(v, "qstr")], "string"))
    return b


def invalid_map(n_errors):
    """a MAP with n_errors validation messages (unknown keywords in n LAYERs) that still parses"""
    layers = "\n".join(f'  LAYER\n    NAME "l{i}"\n    TYPE POINT\n    ZZUNKNOWN{i} 1\n  END' for i in range(n_errors))
    return f'MAP\n  NAME "m"\n{layers}\nEND\n'


def explore(ctx, scale=1.0):
    import mappyfile
    from mappyfile.validator import Validator
    rng = ctx.rng
    tmp = tempfile.mkdtemp(prefix="mappy_c20_")
    try:
        # ---------------- file / stream / string round trips ----------------
        n = int((1500 if ctx.thorough else 60) * scale)
        for i in range(n):
            b = make_doc(rng)
            cr_value = rng.random() < .08
            if cr_value:
                sk = [it for it in b.items if it[0] == "attr" and it[4] == "string" and it[2] in EXOTIC]
                if sk:
                    j = b.items.index(sk[0])
                    b.items[j] = ("attr", sk[0][1], "line1\rline2", [("line1\rline2", "qstr")], "string")
                else:
                    cr_value = False
            text = gen.render(b)
            try:
                d = mappyfile.loads(text)
            except Exception:
                ctx.count("generated:unparseable (C19 territory)"); continue
            # the strings the generator wrote are the strings loads holds (the reference is the generator's own record, not a
            # first load, which a reader defect would corrupt in the same way on every path)
            meant = sorted(strings(gen.expected(b)))
            held = sorted(strings(gen.plain_dict(d)))
            if meant != held and not cr_value:
                diff = [x for x in meant if x not in held][:3]
                ctx.violation("value-changed-on-load", f"loads does not hold the string written in the text: {diff!r}", {"text": text, "missing": diff})
                continue
            o = rng.choice(ppcommon.sample_option_sets(rng, 6))
            if i % 3 == 0:
                o = dict(o, separate_complex_types=True)      # reorders the dictionary in place: every writer gets a fresh copy
            fn = os.path.join(tmp, f"r{i}.map")
            ctx.case(("roundtrip", text), True, sample={"text": text[:150], "options": o} if rng.random() < .01 else None)
            ctx.count("roundtrip")
            rep = {"text": text, "options": o}
            try:
                s = mappyfile.dumps(copy.deepcopy(d), **o)
            except Exception as ex:
                ctx.count(f"dumps fails ({type(ex).__name__}) — C03 territory"); continue
            mappyfile.save(copy.deepcopy(d), fn, **o)
            raw = open(fn, "rb").read().decode("utf-8")
            buf = io.StringIO()
            mappyfile.dump(copy.deepcopy(d), buf, **o)
            if not (raw == s == buf.getvalue()):
                ctx.violation("writers-differ", "save / dump / dumps do not write the same characters", dict(rep, save=raw[:400], dumps=s[:400], dump=buf.getvalue()[:400]))
                continue
            try:
                d_open = mappyfile.open(fn)
                with open(fn, encoding="utf-8") as fp:
                    d_load = mappyfile.load(fp)
                d_loads = mappyfile.loads(s)
            except Exception as ex:
                if ppcommon.has_quote_conflict(gen.plain_dict(d), o["quote"]):
                    ctx.count("documented exclusion: value holds the output quote"); continue
                ctx.violation(f"reload-raises:{type(ex).__name__}", "the written file does not load", rep)
                continue
            c = [core.canon(gen.plain_dict(x)) for x in (d_open, d_load, d_loads)]
            if not (c[0] == c[1] == c[2]):
                sig = "value-contains:\\r" if cr_value or "\r" in s else "loaders-differ"
                ctx.violation(sig, "open / load / loads give different dictionaries for the same UTF-8 content" + (" (a carriage return inside a string value is rewritten by text-mode reading)" if "\r" in s else ""), rep)
                continue
            # every string value survives
            vals_in = sorted(v for v in strings(gen.plain_dict(d)))
            vals_out = sorted(v for v in strings(gen.plain_dict(d_open)))
            if vals_in != vals_out and not ppcommon.has_quote_conflict(gen.plain_dict(d), o["quote"]):
                sig = "value-contains:\\r" if cr_value else "value-changed"
                ctx.violation(sig, "a string value does not survive save/open", dict(rep, before=vals_in[:8], after=vals_out[:8]))
        # ---------------- mappyfile format ----------------
        for i in range(int((60 if ctx.thorough else 8) * scale)):
            b = make_doc(rng)
            text = gen.render(b)
            src = os.path.join(tmp, f"f{i}.map"); out1 = os.path.join(tmp, f"f{i}.cli.map"); out2 = os.path.join(tmp, f"f{i}.api.map")
            with open(src, "w", encoding="utf-8", newline="") as f:
                f.write(text)
            indent = rng.choice([0, 2, 4, 7]); spacer = rng.choice([" ", "\\t"]); quote = rng.choice(['"', "'"]); nl = rng.choice(["\\n", "\\r\\n"])
            comments = rng.random() < .3
            try:
                d = mappyfile.open(src, include_comments=comments, include_position=True)
                mappyfile.save(d, out2, indent=indent, spacer=spacer.encode().decode("unicode_escape"), quote=quote, newlinechar=nl.encode().decode("unicode_escape"))
            except Exception:
                ctx.count("format:api fails (C19/C03 territory)"); continue
            rc, so, se = run_cli(["format", src, out1, f"--indent={indent}", f"--spacer={spacer}", f"--quote={quote}", f"--newlinechar={nl}"] + (["--comments"] if comments else []), tmp)
            ctx.case(("format", text, indent, spacer, quote, nl), True); ctx.count("cli:format")
            got = open(out1, "rb").read() if os.path.exists(out1) else None
            if rc != 0 or got != open(out2, "rb").read():
                ctx.violation("cli-format", f"`mappyfile format` (status {rc}) does not write what save(open(IN)) writes with the same options",
                              {"text": text, "args": [indent, spacer, quote, nl, comments], "stderr": se[-400:]})
        # ---------------- mappyfile schema ----------------
        for v in ([None, 7.6] if not ctx.thorough else [None, 5.0, 6.2, 7.6, 8.0, 8.2]):
            out = os.path.join(tmp, f"schema{v}.json")
            rc, so, se = run_cli(["schema", out] + ([f"--version={v}"] if v else []), tmp)
            want = json.dumps(Validator().get_versioned_schema(v), sort_keys=True, indent=4)
            ctx.case(("schema", v), True); ctx.count("cli:schema")
            if rc != 0 or open(out, encoding="utf-8").read() != want:
                ctx.violation("cli-schema", f"`mappyfile schema --version {v}` differs from the API's versioned schema (status {rc})", {"version": v, "stderr": se[-300:]})
        # ---------------- mappyfile validate ----------------
        creqs, ckeep = [], []
        runs = int((60 if ctx.thorough else 10) * scale)
        # the boundary of the status arithmetic, on every run: message counts and unparseable files whose sum (or capped sum)
        # lands on / next to a multiple of 256, in both file orders
        U, OK = ("unparseable", 0), ("valid", 0)
        VER = ("versioned", 0)      # valid without a version, one message under the CLI's default version: the verdict must use the version
        plans = [[("invalid", 255), U, OK], [U, ("invalid", 254), U], [("invalid", 256)], [("invalid", 300), U], [("invalid", 253), U, U, U],
                 [("invalid", 128), ("invalid", 128)], [("invalid", 255), OK], [VER], [OK, VER, VER]]
        if ctx.thorough:
            plans += [[U] * 256, [U] * 255 + [("invalid", 1)], [("invalid", 512)], [("invalid", 200), ("invalid", 56), OK]]
        for i in range(len(plans) + runs):
            d_run = os.path.join(tmp, f"v{i}")
            os.makedirs(d_run)
            files, outcomes = [], []
            plan = plans[i] if i < len(plans) else [(rng.choice(["valid", "invalid", "invalid", "unparseable"]), None) for _ in range(rng.randint(1, 4))]
            for j, (kind, k) in enumerate(plan):
                fn = os.path.join(d_run, f"m{j}.map")
                if kind == "valid":
                    txt = 'MAP\n  NAME "ok"\nEND\n'
                elif kind == "versioned":
                    txt = rng.choice(['MAP\n  NAME "v"\n  LAYER\n    NAME "l"\n    TYPE POINT\n    CLASS\n      COLOR 1 2 3\n    END\n  END\nEND\n',
                                      'MAP\n  NAME "v"\n  WEB\n    LOG "x"\n  END\nEND\n'])
                elif kind == "invalid":
                    if k is None:
                        k = rng.choice([1, 2, 3, 7, 255, 256, 257, 300]) if rng.random() < .5 else rng.randint(1, 40)
                    txt = invalid_map(k)
                else:
                    # a file that cannot be loaded, for whatever reason: a syntax error, bytes that are not UTF-8, an INCLUDE of a
                    # missing file, an INCLUDE of itself (MaxNested) — each is one problem, none may end the run
                    txt = rng.choice(['MAP\n  NAME "broken\nEND', "MAP NAME END END", "LAYER ; END", 'MAP "x" END',
                                      b'MAP\n  NAME "caf\xe9"\nEND\n', b'\xff\xfeM\x00A\x00P\x00', 'MAP\n  INCLUDE "no-such-file.map"\nEND\n',
                                      f'MAP\n  INCLUDE "m{j}.map"\nEND\n'])
                if isinstance(txt, bytes):
                    with open(fn, "wb") as f:
                        f.write(txt)
                else:
                    with open(fn, "w", encoding="utf-8") as f:
                        f.write(txt)
                files.append(fn)
                try:
                    dd = mappyfile.open(fn, include_position=True)
                    outcomes.append({"n": len(mappyfile.validate(dd, 8.2))})
                except Exception:
                    outcomes.append({"p": True})
            rc, so, se = run_cli(["validate"] + files, tmp)
            lines = [l for l in so.split("\n") if l.strip()]
            problems = sum(o.get("n", 1) for o in outcomes)
            all_ok = all(o.get("n") == 0 for o in outcomes)
            ctx.case(("validate", json.dumps(outcomes)), True, sample={"outcomes": outcomes, "status": rc} if i < 3 else None)
            ctx.count("cli:validate"); ctx.count(f"validate:problems={'0' if problems == 0 else '1-255' if problems <= 255 else '256+'}")
            rep = {"outcomes": outcomes, "status": rc, "stdout": so[-600:], "stderr": se[-300:]}
            if (rc == 0) != all_ok:
                ctx.violation("cli-exit:zero-iff", f"exit status {rc} with outcomes {outcomes}: 0 must mean every file parsed and validated", rep)
            elif problems <= 255 and rc != problems:
                ctx.violation("cli-exit:count", f"exit status {rc} but {problems} problems", rep)
            n_msg_lines = sum(1 for l in lines if "(Line:" in l)
            if n_msg_lines != sum(o.get("n", 0) for o in outcomes):
                ctx.violation("cli-lines", f"{n_msg_lines} message lines for {sum(o.get('n', 0) for o in outcomes)} validation messages", rep)
            creqs.append({"op": "cli", "outcomes": outcomes}); ckeep.append((rep, rc, len(lines)))
        for (rep, rc, nlines), ans in zip(ckeep, core.lean_call(creqs)):
            if ans.get("status") == rc and ans.get("lines") == nlines:
                ctx.corr_ok("cli")
            else:
                ctx.corr_diff("cli", rep, json.dumps(ans), json.dumps({"status": rc, "lines": nlines}))
    finally:
        shutil.rmtree(tmp, ignore_errors=True)


def strings(x):
    if isinstance(x, str):
        yield x
    elif isinstance(x, dict):
        for k, v in x.items():
            if k != "__type__":
                yield from strings(v)
    elif isinstance(x, (list, tuple)):
        for v in x:
            yield from strings(v)


def main(ctx):
    if ctx.replay:
        print(open(ctx.replay).read()[:4000]); return
    core.proof_leg(ctx, ["Mappy.Props.C20"])
    explore(ctx)
    core.finish(ctx, LEVEL_NOTE, RULE, search=lambda c: explore(c, scale=2.0))
