"""C12 — calls are pure, history-independent and safe to run concurrently (partial: real schedules are CPython's).
proof leg: Mappy.Props.C12 (memo caches of pure functions are schedule-transparent for every interleaving; a parse's comment
           dict depends on the parsed text only; the regenerated AST scan finds no shared mutable state) + C18_find_pure,
           C09_cache_transparent (imported).
oracle: deep equality of arguments before/after every public call; reused Parser / MapfileToDict / PrettyPrinter / Validator
        objects over random document sequences (failing parses, comments on/off, differing versions) vs fresh objects;
        16 threads calling the module-level API on different and identical inputs under a tiny switch interval vs the
        sequential results."""
from __future__ import annotations
import copy, io, json, sys, threading
from vlib import core, gen, corpus, trees, ppcommon
from props import C14

LEVEL_NOTE = [
    "Lean 4.33 kernel; axioms ⊆ {propext, Classical.choice, Quot.sound} (audited each run)",
    "PARTIAL: proved are the logic parts — purity of the query helpers on auto-creating dicts (C18_find_pure), per-Validator cache transparency (C09), that a parse's comment dict is rebuilt from the parsed text (Model/Conc.lean parseStep), that memoising caches of pure functions are transparent under every interleaving, and (regenerated each run by an AST scan of the package) that there is no global statement, mutated module-level container, class-level mutable attribute or mutated mutable default. What the model cannot exhibit: CPython's actual thread switch points and races inside Lark / jsonschema / re — exercised by a 16-thread stress run, never proved",
    "the models are pure functions, so 'arguments are not modified' is by construction in the model; on the real objects it is checked by deep comparison before/after every call",
]
RULE = ("argument snapshots around loads/dumps/dump/validate/find/findall/findunique/findkey on generated and corpus dictionaries; sequences of 3–12 documents through one reused "
        "Parser (comments on and off), MapfileToDict, PrettyPrinter and Validator object vs fresh objects; thread rounds of 16 threads × module-level API calls under "
        "sys.setswitchinterval(1e-6); non-trivial = every call / sequence / round; distinct by inputs")


def snap(x):
    return json.dumps(core.enc(x), ensure_ascii=False)


def docs_pool(ctx, n):
    rng = ctx.rng
    pool = [t for t, _ in C14.gen_commented(ctx, n)]
    pool += [t for _, t in rng.sample(corpus.texts(), min(30, len(corpus.texts()))) if len(t) < 8000]
    # values that are mutable containers holding strings (lists of hex colours, of attribute bindings, expressions, multi-line strings):
    # a callee that "normalises" such a value in place changes the caller's dictionary
    from props import C04
    for i in range(max(12, n // 3)):
        b = gen.gen_block(rng, rng.choice(["style", "class", "layer", "label", "map"]), depth=rng.choice([0, 1, 2]), max_items=6)
        C04.extras(rng, b)
        pool.append(gen.render(b))
    pool += ["STYLE\n  COLORRANGE \"#0000ff\" \"#ff0000\"\n  DATARANGE 0 10\nEND", "STYLE\n  SIZE [w]\n  OFFSET [x] [y]\nEND", "LABEL\n  SIZE [s]\n  OFFSET [ox] [oy]\n  COLOR [r] [g] [b]\nEND",
             "LAYER\n  PROCESSING \"A=1\"\n  PROCESSING \"B=2\"\n  PROJECTION\n    \"init=epsg:4326\"\n  END\nEND"]
    pool += ["MAP NAME 'x' END # MAP\n# trailing\n", "MAP\n LAYER # c1\n  NAME 'a' # c2\n END # LAYER\nEND # MAP", "LAYER NAME END", "MAP \"unterminated END", "CLASS\nEND # c\n# after"]
    return pool


def explore(ctx, scale=1.0):
    import mappyfile
    from mappyfile.parser import Parser
    from mappyfile.transformer import MapfileToDict
    from mappyfile.pprint import PrettyPrinter
    from mappyfile.validator import Validator
    rng = ctx.rng
    pool = docs_pool(ctx, int((300 if ctx.thorough else 60) * scale))

    def outcome(fn):
        try:
            return ("ok", fn())
        except Exception as ex:
            return ("err", type(ex).__name__)

    # ---------------- (1) arguments are not modified ----------------
    n_args = int((2000 if ctx.thorough else 250) * scale)
    P0 = trees.parser(False, False)
    for i in range(n_args):
        text = rng.choice(pool)
        try:
            d = MapfileToDict(include_position=rng.random() < .3).transform(P0.parse(text))
        except Exception:
            continue
        if isinstance(d, list):
            continue
        before = snap(d)
        call = rng.choice(["dumps", "dump", "validate", "findall", "find", "findunique", "findkey", "update-arg2"])
        ctx.case(("args", call, text), True); ctx.count("args:" + call)
        try:
            if call == "dumps":
                mappyfile.dumps(d, **dict(rng.choice(ppcommon.sample_option_sets(rng, 6)), separate_complex_types=False))
            elif call == "dump":
                mappyfile.dump(d, io.StringIO(), align_values=True)
            elif call == "validate":
                Validator().validate(d, schema_name=d.get("__type__", "map"), version=rng.choice([None, 7.6, 8.0]))
            elif call in ("findall", "find", "findunique"):
                lists = [v for v in d.values() if isinstance(v, list) and v and isinstance(v[0], dict)]
                if not lists:
                    continue
                lst = rng.choice(lists)
                key = rng.choice(["name", "group", "zz-missing", "type", "status"])
                b2 = snap(lst)
                if call == "findall":
                    mappyfile.findall(lst, key, "x", "y")
                elif call == "find":
                    mappyfile.find(lst, key, "x")
                else:
                    mappyfile.findunique(lst, key)
                if snap(lst) != b2:
                    ctx.violation(f"modified:{call}", f"{call} modified the list it searched", {"text": text, "key": key})
            elif call == "findkey":
                keys = [k for k, v in d.items() if isinstance(v, dict)]
                if keys:
                    mappyfile.findkey(d, rng.choice(keys))
            else:
                patch = {"name": "patched", "zz": {"a": 1}}
                b2 = snap(patch)
                mappyfile.update(copy.deepcopy(d), patch)
                if snap(patch) != b2:
                    ctx.violation("modified:update-patch", "update modified its second argument", {"text": text})
        except Exception:
            ctx.count("args:call raised (other properties' territory)")
        if snap(d) != before:
            ctx.violation(f"modified:{call}", f"{call} modified the dictionary passed to it", {"text": text, "call": call})

    # ---------------- (2) reused worker objects vs fresh ones ----------------
    n_seq = int((150 if ctx.thorough else 18) * scale)
    for s in range(n_seq):
        seq = [rng.choice(pool) for _ in range(rng.randint(3, 12 if ctx.thorough else 7))]
        com = rng.random() < .6
        Pr = Parser(include_comments=com, expand_includes=False)
        Tr = MapfileToDict(include_comments=com, include_position=rng.random() < .3)
        PPr = PrettyPrinter(indent=2, align_values=rng.random() < .5)
        Vr = Validator()
        ctx.case(("reuse", tuple(seq), com), True, sample={"sequence": [t[:60] for t in seq[:4]], "comments": com} if s < 2 else None)
        ctx.count(f"reuse:comments={'on' if com else 'off'}"); ctx.count(f"reuse:length={len(seq)}")
        for j, text in enumerate(seq):
            v = rng.choice([None, 5.6, 7.6, 8.0])
            def pipeline(P, T, PP, V):
                d = T.transform(P.parse(text))
                out = PP.pprint(d) if isinstance(d, dict) else ""
                msgs = V.validate(d, schema_name=(d.get("__type__", "map") if isinstance(d, dict) else "map"), version=v) if isinstance(d, dict) else []
                return snap(d), out, json.dumps([(m["message"], m["error"]) for m in msgs])
            reused = outcome(lambda: pipeline(Pr, Tr, PPr, Vr))
            fresh = outcome(lambda: pipeline(Parser(include_comments=com, expand_includes=False), MapfileToDict(include_comments=com, include_position=Tr.include_position),
                                             PrettyPrinter(indent=2, align_values=PPr.align_values), Validator()))
            if reused != fresh:
                which = "dict" if reused[0] != fresh[0] or reused[1][0] != fresh[1][0] else "print" if reused[1][1] != fresh[1][1] else "validate"
                ctx.violation(f"history:{which}", f"document {j + 1} of a sequence gives a different {which} result on reused worker objects than on fresh ones",
                              {"sequence": seq[:j + 1], "comments": com, "step": j, "version": v})
                break

    # ---------------- (2b) one Parser that expands INCLUDEs, reused across files some of which fail ----------------
    import tempfile, shutil, os
    tmp = tempfile.mkdtemp(prefix="mappy_c12_")
    try:
        files = {
            "ok.map": 'MAP\n  NAME "ok"\n  INCLUDE "lay.map"\nEND\n',
            "lay.map": 'LAYER\n  NAME "l"\n  TYPE POINT\n  INCLUDE "cls.map"\nEND\n',
            "cls.map": 'CLASS\n  NAME "c"\nEND\n',
            "plain.map": 'MAP\n  NAME "plain"\nEND\n',
            "missing.map": 'MAP\n  INCLUDE "miss1.map"\nEND\n',
            "miss1.map": 'LAYER\n  NAME "m"\n  INCLUDE "nowhere.map"\nEND\n',
            "deep.map": 'MAP\n  INCLUDE "d1.map"\nEND\n',
            "cycle.map": 'MAP\n  INCLUDE "cycle.map"\nEND\n',
            "broken.map": 'MAP\n  NAME "unterminated\nEND\n',
        }
        for i in range(1, 8):
            files[f"d{i}.map"] = f'LAYER\n  NAME "d{i}"\n  INCLUDE "d{i + 1}.map"\nEND\n' if i < 7 else 'CLASS\nEND\n'
        for fn, txt in files.items():
            with open(os.path.join(tmp, fn), "w", encoding="utf-8") as f:
                f.write(txt)
        roots = ["ok.map", "plain.map", "missing.map", "deep.map", "cycle.map", "broken.map", "lay.map"]
        def parse_one(P, fn):
            tree = P.parse_file(os.path.join(tmp, fn))
            return snap(MapfileToDict().transform(tree))
        for sidx in range(int((40 if ctx.thorough else 8) * scale)):
            seq = [rng.choice(roots) for _ in range(rng.randint(3, 8))]
            if sidx == 0:
                seq = ["ok.map", "missing.map", "ok.map", "deep.map", "ok.map", "cycle.map", "lay.map"]
            Pr = Parser(expand_includes=True)
            ctx.case(("reuse-includes", tuple(seq)), True); ctx.count("reuse:includes")
            for j, fn in enumerate(seq):
                reused = outcome(lambda: parse_one(Pr, fn))
                fresh = outcome(lambda: parse_one(Parser(expand_includes=True), fn))
                if reused != fresh:
                    ctx.violation("history:includes", f"file {j + 1} of a sequence ({fn}) gives a different result on a reused Parser than on a fresh one "
                                  f"(after earlier files that failed inside an INCLUDE)", {"sequence": seq[:j + 1], "files": files, "reused": str(reused)[:200], "fresh": str(fresh)[:200]})
                    break
    finally:
        shutil.rmtree(tmp, ignore_errors=True)

    # ---------------- (3) threads ----------------
    rounds = int((5 if ctx.thorough else 1) * scale)
    texts = [t for t in pool if len(t) < 3000][:40]
    versions = [7.6, 5.6, 6.0, 6.2, 6.4, 7.0, 7.2, 7.4, 8.0, 8.2, 8.4, 5.4]
    def work(text, com, ver=7.6):
        d = mappyfile.loads(text, include_comments=com, expand_includes=False)
        out = mappyfile.dumps(d) if isinstance(d, dict) else ""
        msgs = mappyfile.validate(d, ver) if isinstance(d, dict) and d.get("__type__") == "map" else []
        names = mappyfile.findall(d.get("layers", []), "name", "a") if isinstance(d, dict) else []
        return snap(d), out, len(msgs), len(names)
    old = sys.getswitchinterval()
    for r in range(rounds):
        jobs = []
        for t in range(16):
            same = t % 2 == 0
            jobs.append([(texts[0] if same else rng.choice(texts), rng.random() < .7) for _ in range(6 if ctx.thorough else 3)])
        # the threads go FIRST, with a version this process has not validated against yet (a shared schema cache would be cold:
        # the widest race window); the sequential reference is computed afterwards
        ver = versions[(ctx.seed + r) % len(versions)] if hasattr(ctx, "seed") else versions[r % len(versions)]
        results = [None] * 16
        def runner(i):
            results[i] = [outcome(lambda a=a, c=c: work(a, c, ver)) for a, c in jobs[i]]
        sys.setswitchinterval(1e-6)
        try:
            ths = [threading.Thread(target=runner, args=(i,)) for i in range(16)]
            for th in ths:
                th.start()
            for th in ths:
                th.join()
        finally:
            sys.setswitchinterval(old)
        expected = [[outcome(lambda a=a, c=c: work(a, c, ver)) for a, c in job] for job in jobs]
        ctx.case(("threads", r), True); ctx.count("thread-rounds"); ctx.count("thread-calls", sum(len(j) for j in jobs))
        for i in range(16):
            if results[i] != expected[i]:
                k = next(k for k, (a, b) in enumerate(zip(results[i], expected[i])) if a != b)
                ctx.violation("threads", "a call of the module-level API gives a different result when other threads are running than sequentially",
                              {"text": jobs[i][k][0], "include_comments": jobs[i][k][1], "version": ver, "thread": i, "round": r})
                break


def search(ctx):
    """a broken obligation (e.g. shared state found by the scan): stress the thread and reuse oracles harder"""
    explore(ctx, scale=4.0)


def main(ctx):
    if ctx.replay:
        print(open(ctx.replay).read()[:4000]); return
    core.proof_leg(ctx, ["Mappy.Props.C12"], need_driver=False)
    explore(ctx)
    core.finish(ctx, LEVEL_NOTE, RULE, search=search)
