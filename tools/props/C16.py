"""C16 — pretty-printer layout contract.
proof leg: Mappy.Props.C16 (stack-discipline layout reader accepts every printed object, for all dictionaries and all
option records; alignment column).  correspondence: `pp` exact strings.  oracle: an independent line reader over real
dumps output."""
from __future__ import annotations
import copy, json
from vlib import core, corpus, gen, ppcommon

LEVEL_NOTE = [
    "Lean 4.33 kernel; axioms ⊆ {propext, Classical.choice, Quot.sound} (audited each run)",
    "Model/Printer.lean is a hand model of pprint.py + quoter.py, Gen/Props.lean and Gen/Vocab.lean are regenerated from the schemas and tokens.py each run; tied by exact-string `pp` correspondence",
    "Python float division in compute_aligned_max_indent modelled as Nat division; str.upper/strip modelled on ASCII (cases with other characters are not compared)",
    "the text-level reader (oracle) skips comment lines and documents with line breaks inside string values, as the property allows",
]
RULE = ("corpus dictionaries (with and without comments) and schema-generated documents × formatter option sets drawn from the 864 "
        "(indent 0..8 × spacer × quote × newline × 3 booleans); non-trivial = document with nesting depth ≥ 2; distinct by (document, options)")


def documents(ctx, n_gen):
    import mappyfile
    docs = []
    for fn, d in corpus.load_all(include_comments=True, include_position=False):
        docs.append((fn.replace(core.REPO + "/", ""), d))
    rng = ctx.rng
    types = gen.BLOCK_TYPES
    made = 0
    while made < n_gen:
        t = rng.choice(["map", "layer", "class", "style", "label", "web", "legend", "scalebar"] + types)
        b = gen.gen_block(rng, t, depth=rng.randint(0, 3), max_items=rng.randint(1, 10))
        text = gen.render(b)
        try:
            d = ppcommon.fast_loads(text)
        except Exception:
            ctx.count("generated:unparseable (C19 territory)")
            made += 1
            continue
        docs.append((f"gen:{t}:{made}", d))
        made += 1
    return docs


def depth_of(d):
    if isinstance(d, dict):
        return 1 + max([depth_of(v) for v in d.values()] + [0]) if "__type__" in d else 0
    if isinstance(d, list):
        return max([depth_of(v) for v in d] + [0])
    return 0


def explore(ctx, scale=1.0):
    import mappyfile
    rng = ctx.rng
    docs = documents(ctx, int((3000 if ctx.thorough else 500) * scale))
    per_doc = 12 if ctx.thorough else 4
    corr_cases = []
    for label, d in docs:
        if isinstance(d, list):
            continue
        optsets = ppcommon.sample_option_sets(rng, 6, newline_space=False)
        rng.shuffle(optsets)
        for opts in optsets[:per_doc]:
            ctx.case((label, json.dumps(opts, sort_keys=True)), depth_of(d) >= 2,
                     sample={"doc": label, "opts": opts} if rng.random() < .002 else None)
            ctx.count(f"indent={opts['indent']}"); ctx.count("align" if opts["align_values"] else "no-align")
            ctx.count("end_comment" if opts["end_comment"] else "no-end_comment")
            real = ppcommon.real_pprint(d, opts)
            if "err" in real:
                ctx.violation("dumps-raises:" + real["err"], "dumps raised on a loaded document", {"doc": label, "opts": opts})
                continue
            text = real["ok"]
            if d.get("__type__") in ("metadata", "validation", "connectionoptions", "values"):
                ctx.count("skipped:root key/value block (outside the 19 block types)")
            elif not ppcommon.has_newline_value(d):
                probs = ppcommon.read_layout(text, opts)
                if opts["align_values"]:
                    probs += ppcommon.read_alignment(text, opts)
                for p in probs[:1]:
                    sig = "layout:" + p[0]
                    if p[0] == "kv-no-separator":
                        sig = "kv-key-in-ignore-list"
                    ctx.violation(sig, f"printed text breaks the layout contract: {p}", {"doc": label, "opts": opts, "problem": list(map(str, p)), "text": text[:2000]})
            else:
                ctx.count("skipped:multi-line string value")
            corr_cases.append((label, d, opts))
    for i in range(0, len(corr_cases), 1500):
        ppcommon.pp_correspondence(ctx, corr_cases[i:i + 1500])
    # targeted probe of the (fixed) alignment defect in key/value blocks
    d = mappyfile.loads('LAYER CONNECTIONOPTIONS "values" "v" "a" "b" END END')
    o = dict(ppcommon.DEFAULT, align_values=True)
    text = mappyfile.dumps(d, **o)
    ctx.case(("probe-kv-ignore", "values"), True)
    for p in ppcommon.read_alignment(text, o):
        if p[0] == "kv-no-separator":
            ctx.violation("kv-key-in-ignore-list", "align_values prints a key/value pair without separator when the key is one of the printer's ignore-list words",
                          {"text": text})


def main(ctx):
    if ctx.replay:
        print(open(ctx.replay).read()[:4000]); return
    core.proof_leg(ctx, ["Mappy.Props.C16"])
    explore(ctx)
    core.finish(ctx, LEVEL_NOTE, RULE, search=lambda c: explore(c, scale=2.0))
