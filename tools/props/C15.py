"""C15 — INCLUDE expansion equals textual substitution, bounded at 5 levels.
proof leg: Mappy.Props.C15 (load_includes model ⇔ depth-bounded textual substitution; limit, missing file, cycles).
correspondence: Parser.load_includes vs the Lean model on include trees materialised in a temp dir.
oracle: open/load/loads of the cut document vs loads of the original single text; depth, cycles, missing files, working
directory independence, expand_includes=False."""
from __future__ import annotations
import copy, io, json, os, shutil, tempfile
from vlib import core, gen, ppcommon

LEVEL_NOTE = [
    "Lean 4.33 kernel; axioms ⊆ {propext, Classical.choice, Quot.sound} (audited each run)",
    "Model/Includes.lean hand model of Parser.load_includes/_get_include_filename; tied by the `includes` correspondence",
    "the file system and os.path (abspath/join/dirname/isabs, text-mode newline translation, getcwd) are parameters of the model; the harness supplies them from the real OS",
    "that parsing the expanded text equals parsing the single text is Lark's job (the expanded strings are compared exactly, the dictionaries by the oracle)",
]
RULE = ("include trees cut out of schema-generated documents at item boundaries (fan-out ≤ 4, depth 0..7, nested sub-directories, relative and "
        "absolute names, quoted/unquoted, trailing # comments, keyword case, LF/CRLF), loaded through open/load/loads from two working directories; "
        "plus cyclic, missing-file and expand_includes=False variants; non-trivial = tree with ≥ 1 include; distinct by file contents")


class Tree:
    def __init__(self):
        self.files = {}     # relative path -> text
        self.depth = 0
        self.count = 0


def include_line(rng, name, absolute_dir=None):
    kw = rng.choice(["INCLUDE", "include", "Include", "  INCLUDE", "\tinclude"])
    target = os.path.join(absolute_dir, name) if absolute_dir else name
    style = rng.random()
    if absolute_dir:
        style = style * .7      # an unquoted absolute path starts with "/" and cannot be lexed as data (it looks like a regex)
    if style < .4:
        t = f'"{target}"'
    elif style < .7:
        t = f"'{target}'"
    else:
        t = target
    tail = rng.choice(["", "", " # included part", "  #x", " "])
    return f"{kw} {t}{tail}", target


def cut(rng, tree, block, depth_left, level, rootdir, chain):
    """move slices of the block's items (and of nested blocks) into include files, recursively"""
    if depth_left <= 0:
        return 0
    reached = 0
    n_cuts = rng.randint(0, 2) if not chain else 1
    for _ in range(n_cuts):
        if not block.items:
            break
        i = rng.randrange(len(block.items))
        twins = [x for x in range(len(block.items) - 1) if block.items[x][0] == "block" and block.items[x + 1][0] == "block"
                 and render_items([block.items[x]]) == render_items([block.items[x + 1]])]
        if twins and rng.random() < .7:
            i = rng.choice(twins)
        j = rng.randint(i + 1, min(len(block.items), i + 3))
        twin = (i + 1 < len(block.items) and block.items[i][0] == "block" and block.items[i + 1][0] == "block"
                and render_items([block.items[i]]) == render_items([block.items[i + 1]]))
        if twin:
            j = i + 1           # two identical repeatable blocks: ONE file, included twice
        piece = block.items[i:j]
        if any(it[0] == "include" for it in piece):
            continue
        tree.count += 1
        name = rng.choice(["", "inc/", "sub/dir/", "sub/dir/deeper/"]) + f"part{tree.count}.map"
        holder = gen.Block("x")
        holder.items = piece
        sub_depth = cut(rng, tree, holder, depth_left - 1, level + 1, rootdir, chain)
        for it in list(holder.items):
            if it[0] == "block":
                sub_depth = max(sub_depth, cut(rng, tree, it[2], depth_left - 1, level + 1, rootdir, False))
        text = render_items(holder.items)
        if rng.random() < .15:
            # a comment line holding characters that are line breaks only for str.splitlines (FF, VT, NEL, U+2028):
            # for the lexer the comment runs to the next LF, so the document is unchanged
            text = text + "\n# note" + rng.choice(["\x0c", "\x0b", "\x85", "\u2028", "\x1c"]) + 'NAME "zzz" TEMPLATE "zzz"'
        if rng.random() < .3:
            text = text.replace("\n", "\r\n")
        tree.files[name] = text
        line, target = include_line(rng, name, rootdir if rng.random() < .2 else None)
        if twin:
            line2, _ = include_line(rng, name, None)
            block.items[i:i + 2] = [("include", target, line), ("include", name, line2)]
        else:
            block.items[i:j] = [("include", target, line)]
        reached = max(reached, 1 + sub_depth)
    return reached


def empty_includes(rng, tree, block):
    """INCLUDE lines whose file is empty (or holds only blanks / a comment): substituting nothing leaves the document as it is"""
    for it in list(block.items):
        if it[0] == "block":
            empty_includes(rng, tree, it[2])
    if rng.random() < .2:
        tree.count += 1
        name = f"empty{tree.count}.map"
        tree.files[name] = rng.choice(["", "", "\n", "  \n", "# nothing here\n"])
        line, target = include_line(rng, name, None)
        block.items.insert(rng.randrange(len(block.items) + 1), ("include", target, line))


def render_items(items):
    holder = gen.Block("x")
    holder.items = items
    text = gen.render(holder)
    lines = text.split("\n")
    return "\n".join(l[2:] if l.startswith("  ") else l for l in lines[1:-1])


HOSTILE = ["tiles/*.tif", "image/*", "a */ b", "/* not a comment", "INCLUDE 'x.map'", "include other.map", "# not a comment", "say 'hi' /*", "*/"]


def hostile_strings(rng, b):
    """string values that look like comment openers / closers or INCLUDE directives to a line-based scan"""
    for it in list(b.items):
        if it[0] == "block":
            hostile_strings(rng, it[2])
    props = gen.raw(b.type)["properties"]
    cands = [k for k in ("data", "template", "name", "group", "header", "footer", "tileindex", "text", "title") if k in props
             and any(sh[0] == "string" for sh in gen.shapes(props[k], k)) and not any(len(it) > 1 and it[1] == k for it in b.items)]
    if cands and rng.random() < .5:
        k = rng.choice(cands)
        v = rng.choice(HOSTILE)
        b.items.insert(rng.randrange(len(b.items) + 1), ("attr", k, v, [(v, "qstr")], "string"))


def build_tree(rng, want_depth):
    t = rng.choice(["map", "layer", "class"])
    b = gen.gen_block(rng, t, depth=2, max_items=6)
    hostile_strings(rng, b)
    # two identical repeatable blocks side by side (the same CLASS / STYLE / LAYER written twice): may become one file included twice
    reps = [i for i, it in enumerate(b.items) if it[0] == "block" and len(it) > 3 and it[3]]
    if reps and rng.random() < .5:
        i = rng.choice(reps)
        b.items.insert(i + 1, copy.deepcopy(b.items[i]))
    original = gen.render(b)
    tree = Tree()
    work = copy.deepcopy(b)
    return b, original, tree, work


def materialise(root, tree, root_text):
    for name, text in tree.files.items():
        p = os.path.join(root, name)
        os.makedirs(os.path.dirname(p), exist_ok=True)
        with open(p, "w", encoding="utf-8", newline="") as f:
            f.write(text)
    # decoys: for an INCLUDE written inside a file that lives in a sub-folder, a file of the same relative name next to the
    # INCLUDING file (relative names resolve against the ROOT Mapfile's directory, so these must never be read)
    for name, text in tree.files.items():
        d = os.path.dirname(name)
        if not d:
            continue
        for line in text.replace("\r\n", "\n").split("\n"):
            st = line.strip()
            if st.lower().startswith("include"):
                parts = st.split("#")[0].split()
                if len(parts) >= 2:
                    target = parts[1].strip("'").strip('"')
                    dp = os.path.join(root, d, target)
                    if not os.path.isabs(target) and not os.path.exists(dp):
                        os.makedirs(os.path.dirname(dp), exist_ok=True)
                        with open(dp, "w", encoding="utf-8") as f:
                            f.write('NAME "decoy-next-to-the-including-file"\n')
    with open(os.path.join(root, "root.map"), "w", encoding="utf-8", newline="") as f:
        f.write(root_text)


def outcome(fn):
    try:
        return ("ok", core.canon(gen.plain_dict(fn())))
    except RecursionError:
        return ("err", "RecursionError")
    except Exception as ex:
        return ("err", type(ex).__name__)


def explore(ctx, scale=1.0):
    import mappyfile
    from mappyfile.parser import Parser
    rng = ctx.rng
    n = int((3000 if ctx.thorough else 200) * scale)
    base = tempfile.mkdtemp(prefix="mappy_c15_")
    other_cwd = tempfile.mkdtemp(prefix="mappy_c15_cwd_")
    old_cwd = os.getcwd()
    reqs, keep = [], []
    parser = Parser()
    try:
        for i in range(n):
            root = os.path.join(base, f"t{i}")
            os.makedirs(root)
            want_depth = rng.choice([0, 1, 2, 3, 4, 5, 5, 6, 7])
            b, original, tree, work = build_tree(rng, want_depth)
            try:
                expected = ("ok", core.canon(gen.plain_dict(ppcommon.fast_loads(original))))
            except Exception:
                ctx.count("generated:unparseable (C19 territory)")
                continue
            depth = cut(rng, tree, work, want_depth, 0, root, chain=True) if want_depth else 0
            variant = rng.choice(["plain"] * 6 + ["cycle", "missing", "noexpand"])
            if variant == "plain":
                empty_includes(rng, tree, work)
            if variant == "cycle" and tree.files:
                victim = rng.choice(sorted(tree.files))
                tree.files[victim] += "\n" + include_line(rng, victim)[0]
            if variant == "missing" and tree.files:
                victim = rng.choice(sorted(tree.files))
                del tree.files[victim]
            root_text = gen.render(work)
            if rng.random() < .2:
                root_text = root_text.replace("\n", "\r\n")
            materialise(root, tree, root_text)
            root_map = os.path.join(root, "root.map")
            ctx.case((root_text, json.dumps(tree.files, sort_keys=True), variant), bool(tree.count),
                     sample={"root": root_text[:300], "files": {k: v[:80] for k, v in list(tree.files.items())[:3]}, "variant": variant, "depth": depth} if rng.random() < .02 else None)
            ctx.count(f"depth={depth}"); ctx.count("variant:" + variant); ctx.count(f"files={min(len(tree.files), 6)}")
            rep = {"root_text": root_text, "files": tree.files, "variant": variant, "depth": depth, "original": original}
            # ---- oracle on the real code ----
            results = {}
            # the public functions build a new Parser per call (0.3 s); every 8th tree goes through them, the others
            # through the same Parser methods (parse_file / load / parse) on one shared Parser object
            public = (i % 8 == 0)
            from mappyfile.transformer import MapfileToDict
            def api_open():
                return mappyfile.open(root_map) if public else MapfileToDict().transform(parser.parse_file(root_map))
            def api_load():
                with open(root_map, encoding="utf-8") as fp:
                    return mappyfile.load(fp) if public else MapfileToDict().transform(parser.load(fp))
            def api_loads():
                text = open(root_map, encoding="utf-8").read()
                return mappyfile.loads(text) if public else MapfileToDict().transform(parser.parse(text))
            ctx.count("through public open/load/loads" if public else "through shared Parser.parse_file/load/parse")
            for cwd in (root, other_cwd):
                os.chdir(cwd)
                results[("open", cwd == root)] = outcome(api_open)
                results[("load", cwd == root)] = outcome(api_load)
                if cwd == root:
                    results[("loads", True)] = outcome(api_loads)
            os.chdir(old_cwd)
            rep["results"] = {f"{k[0]}@{'rootdir' if k[1] else 'othercwd'}": v[0] + ":" + (v[1] if v[0] == "err" else "dict") for k, v in results.items()}
            if variant == "plain" or (variant in ("cycle", "missing") and not tree.count):
                if depth <= 5:
                    for k, v in results.items():
                        if v != expected:
                            ctx.violation(f"expansion:{k[0]}:{'rootdir' if k[1] else 'othercwd'}", f"{k[0]} of the cut document differs from loading the single text (depth {depth})", rep)
                            break
                else:
                    for k, v in results.items():
                        if v[0] != "err" or v[1] == "RecursionError":
                            ctx.violation("depth>5-accepted", f"include nesting {depth} deep was not rejected", rep)
                            break
            elif variant == "cycle":
                for k, v in results.items():
                    if v[0] != "err" or v[1] == "RecursionError":
                        ctx.violation("cycle-accepted", "cyclic inclusion did not raise an error", rep)
                        break
            elif variant == "missing":
                # the missing file may be unreachable when an outer part is at depth > 5; any error is accepted then
                for k, v in results.items():
                    if v[0] != "err":
                        ctx.violation("missing-file-accepted", "a missing include file did not raise an error", rep)
                        break
                    if depth <= 5 and v[1] not in ("FileNotFoundError", "OSError", "IOError", "ValueError"):
                        ctx.violation("missing-file-error-type", f"a missing include file raised {v[1]}, not an I/O error", rep)
                        break
            elif variant == "noexpand":
                try:
                    d = mappyfile.loads(root_text, expand_includes=False)
                    names = []
                    def walk(x):
                        if isinstance(x, dict):
                            for kk, vv in x.items():
                                if kk == "include":
                                    names.extend(vv)
                                else:
                                    walk(vv)
                        elif isinstance(x, list):
                            for vv in x:
                                walk(vv)
                    walk(d)
                    out = mappyfile.dumps(d)
                    d2 = mappyfile.loads(out, expand_includes=False)
                    direct = [it[1] for it in all_items(work) if it[0] == "include"]
                    printed = [l.strip() for l in out.split("\n") if l.strip().startswith("INCLUDE")]
                    ok = sorted(names) == sorted(strip_abs(direct, root)) and core.canon(gen.plain_dict(d)) == core.canon(gen.plain_dict(d2)) \
                        and len(printed) == len(names)
                    if not ok:
                        ctx.violation("noexpand", "with expand_includes=False the directives are not kept as data / written back unchanged",
                                      dict(rep, names=names, printed=printed))
                except Exception as ex:
                    # only an INCLUDE matter if the same text without its INCLUDE lines is accepted
                    without = "\n".join(l for l in root_text.replace("\r\n", "\n").split("\n") if not l.strip().lower().startswith("include"))
                    try:
                        ppcommon.fast_loads(without)
                        ctx.violation("noexpand:raises", f"expand_includes=False: {type(ex).__name__}", rep)
                    except Exception:
                        ctx.count("noexpand: text unparseable even without its INCLUDE lines (C19 territory)")
            # ---- correspondence: expanded text ----
            try:
                real = {"ok": parser.load_includes(open(root_map, encoding="utf-8").read(), fn=root_map)}
            except RecursionError:
                real = {"err": "RecursionError"}
            except Exception as ex:
                real = {"err": "IOError" if isinstance(ex, OSError) else type(ex).__name__}
            files, resolve = [], {}
            texts = {"root.map": open(root_map, encoding="utf-8").read()}
            for name in tree.files:
                pth = os.path.join(root, name)
                texts[name] = open(pth, encoding="utf-8").read()
                files.append([os.path.abspath(pth), texts[name]])
            for text in texts.values():
                for line in text.split("\n"):
                    if line.strip().lower().startswith("include"):
                        try:
                            nm = parser._get_include_filename(line)
                        except Exception:
                            continue
                        if nm is None:
                            continue
                        resolve[nm] = nm if os.path.isabs(nm) else os.path.abspath(os.path.join(root, nm))
            reqs.append({"op": "includes", "files": files, "resolve": [[k, v] for k, v in resolve.items()], "nested": 0, "text": texts["root.map"]})
            keep.append((rep, real))
    finally:
        os.chdir(old_cwd)
        shutil.rmtree(base, ignore_errors=True)
        shutil.rmtree(other_cwd, ignore_errors=True)
    # INCLUDE lines that name no file stay where they are (the parser then reports the syntax error)
    for text in ("MAP\nINCLUDE\nEND", "MAP\n  include   # nothing\n  NAME 'x'\nEND", "INCLUDE", "LAYER\nINCLUDE\t\nINCLUDE\nEND"):
        try:
            real = {"ok": parser.load_includes(text, fn=os.path.join(old_cwd, "root.map"))}
        except Exception as ex:
            real = {"err": "IOError" if isinstance(ex, OSError) else type(ex).__name__}
        reqs.append({"op": "includes", "files": [], "resolve": [], "nested": 0, "text": text})
        keep.append(({"root_text": text, "files": {}, "variant": "nameless INCLUDE line", "depth": 0}, real))
    answers = core.lean_call(reqs)
    for (rep, real), ans in zip(keep, answers):
        if ans == real:
            ctx.corr_ok("includes")
        else:
            ctx.corr_diff("includes", {k: rep[k] for k in ("root_text", "files", "variant", "depth")}, str(ans)[:300], str(real)[:300])
    # include-name extraction on hand-made lines
    lines = ['INCLUDE "a.map"', "include 'b c.map' # x", "  Include  plain.map", 'INCLUDE "q.map"#c', "INCLUDE 'x.map' 'y.map'", 'include\t"t.map"', "INCLUDE", "  include   # nothing", "INCLUDE\t", "include#x.map"]
    ans = core.lean_call([{"op": "include_name", "line": l} for l in lines])
    for l, a in zip(lines, ans):
        try:
            real = {"ok": parser._get_include_filename(l)}
        except Exception as ex:
            real = {"err": type(ex).__name__}
        ctx.evaluations += 1
        if a == real:
            ctx.corr_ok("include_name")
        else:
            ctx.corr_diff("include_name", l, a, real)


def all_items(block):
    for it in block.items:
        yield it
        if it[0] == "block":
            yield from all_items(it[2])


def strip_abs(names, root):
    return list(names)


def main(ctx):
    if ctx.replay:
        print(open(ctx.replay).read()[:4000]); return
    core.proof_leg(ctx, ["Mappy.Props.C15"])
    explore(ctx)
    core.finish(ctx, LEVEL_NOTE, RULE, search=lambda c: explore(c, scale=3.0))
