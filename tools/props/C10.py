"""C10 — expression rewriting preserves structure.
proof leg: Mappy.Props.C10 (normal forms balanced, one group, grammar-derivable as `re e` with the same operator tree,
fixpoint, leaves in order; ladder rules of mapfile.lark pinned to the derivation relation by decide obligations).
correspondence: model string vs the real transformer on real Lark expression trees (exact).
oracle: abstract expression trees rendered with required + random parentheses and random operator spellings; the stored
string, read by an independent precedence parser, has the same operator tree and leaves; it is one group and a fixpoint."""
from __future__ import annotations
import itertools, json, re
from vlib import core, ppcommon

LEVEL_NOTE = [
    "Lean 4.33 kernel; axioms ⊆ {propext, Classical.choice, Quot.sound} (audited each run); the Ladder.* obligations are `decide` over the regenerated Gen/Grammar.lean",
    "Model/Expr.lean hand model of the expression call-backs of transformer.py (after the outer-parentheses fix commit); tied by exact-string `exprnorm` correspondence on real Lark trees",
    "function-call arguments are operands (not nested expressions); operands are opaque; numbers are carried as Python prints them",
    "that Lark's LALR parser derives exactly the tree the ladder prescribes (shift preference) is exercised by the oracle and the correspondence, not proved",
    "'%' is a comparison operator in mapfile.lark but listed with * / ^ in the property text: not generated",
]
RULE = ("abstract expression trees: exhaustive over all shapes with ≤ N operators from {OR, AND, NOT, comparison, + or -, * or / or ^, unary -} with operator "
        "spellings and redundant parentheses drawn at random per tree, then random trees up to 40 operators; in CLASS EXPRESSION, LAYER FILTER, "
        "CLASS TEXT, STYLE GEOMTRANSFORM, CLUSTER GROUP/FILTER; non-trivial = ≥ 2 operators; distinct by source text")

CMP_OPS = ["=", "==", "!=", "<", "<=", ">", ">=", "~", "~*", "=*", "IN", "EQ", "NE", "LT", "LE", "GT", "GE", "LIKE", "eq", "in", "Like"]
PREC = {"or": 0, "and": 1, "not": 2, "cmp": 3, "add": 4, "sub": 4, "mul": 5, "div": 5, "pow": 5, "neg": 6, "atom": 7, "call": 7}
SPELL = {"add": "+", "sub": "-", "mul": "*", "div": "/", "pow": "^"}


def rand_operand(rng):
    c = rng.random()
    if c < .4:
        return ("atom", "[" + rng.choice(["a", "name", "pop_2020", "x1"]) + "]")
    if c < .6:
        return ("atom", str(rng.randint(1, 500)))     # not 0: "- 0" is stored as -0 and read back as the integer 0
    if c < .7:
        return ("atom", repr(rng.choice([2.5, 0.25, 100.125])))
    if c < .8:
        return ("atom", '"' + rng.choice(["x", "road a", "(b)", "a)", "[q]"]) + '"')
    if c < .88:
        return ("atom", "'" + rng.choice(["y", "it s", "(", "z z"]) + "'")
    if c < .93:
        return ("atom", rng.choice(["{01234,02345}", "{1.50,+2}", "{a,b}", "{true,7}", "{10,20}"]))
    return ("call", rng.choice(["length", "tostring", "round"]), [rng.choice(["[a]", "'[n]'", '"%.2f"', "2", "[b]"]) for _ in range(rng.randint(1, 3))])


REGEXES = ["/^a.*$/", "/road|rail/i", "/x(y)z/", r"/^a\)/", "/(ab/", r"/\(\d+\)/", "/a b/"]


def rand_tree(rng, n_ops, level=0):
    """a random abstract tree with n_ops operators; `level` restricts which operators may appear (0 bool … 2 arithmetic)"""
    if n_ops == 0:
        return rand_operand(rng)
    kinds = []
    if level == 0:
        kinds += ["or", "and", "not", "cmp", "cmp"]
    kinds += ["add", "sub", "mul", "div", "pow", "neg"]
    k = rng.choice(kinds)
    if k in ("neg", "not"):
        return (k, rand_tree(rng, n_ops - 1, 0 if k == "not" else 2))
    left = rng.randint(0, n_ops - 1)
    if k in ("add", "sub", "mul", "div", "pow") and n_ops >= 3 and rng.random() < .2:
        # an arithmetic operator whose operands are parenthesised comparisons / boolean groups: ([a] > 1) + ([b] > 1)
        l = rand_tree(rng, max(1, left), 0)
        r = rand_tree(rng, max(1, n_ops - 1 - max(1, left)), 0)
        return (k, l, r)
    if k in ("or", "and"):
        return (k, rand_tree(rng, left, 0), rand_tree(rng, n_ops - 1 - left, 0))
    if k == "cmp":
        if rng.random() < .15:
            # a regular expression as the right operand (its text may hold parentheses, balanced or not)
            return ("cmp", rng.choice(["~", "~*", "~", "=", "LIKE"]), rand_tree(rng, n_ops - 1, 2), ("atom", rng.choice(REGEXES)))
        if n_ops >= 2 and rng.random() < .25:
            # a chain of comparisons, [a] = 1 = [b]: the grammar groups it to the left
            l = ("cmp", rng.choice(CMP_OPS), rand_tree(rng, max(0, left - 1), 2), rand_tree(rng, 0, 2))
            return ("cmp", rng.choice(CMP_OPS), l, rand_tree(rng, max(0, n_ops - 2 - max(0, left - 1)), 2))
        return ("cmp", rng.choice(CMP_OPS), rand_tree(rng, left, 2), rand_tree(rng, n_ops - 1 - left, 2))
    return (k, rand_tree(rng, left, 2), rand_tree(rng, n_ops - 1 - left, 2))


def all_shapes(n_ops, level=0):
    """every tree shape with exactly n_ops operators (one representative spelling per operator class)"""
    if n_ops == 0:
        yield ("atom", "[a]")
        return
    kinds = (["or", "and", "not", "cmp"] if level == 0 else []) + ["add", "mul", "neg"]
    for k in kinds:
        if k in ("neg", "not"):
            for t in all_shapes(n_ops - 1, 0 if k == "not" else 2):
                yield (k, t)
            continue
        sub = 0 if k in ("or", "and") else 2
        for left in range(n_ops):
            for l in all_shapes(left, sub):
                for r in all_shapes(n_ops - 1 - left, sub):
                    yield ("cmp", "=", l, r) if k == "cmp" else (k, l, r)


def kind(t):
    return t[0]


def respell(rng, t):
    """randomise operator spellings and operands of a shape"""
    k = t[0]
    if k == "atom":
        return rand_operand(rng)
    if k == "call":
        return t
    if k in ("neg", "not"):
        return (k, respell(rng, t[1]))
    if k == "cmp":
        return ("cmp", rng.choice(CMP_OPS), respell(rng, t[2]), respell(rng, t[3]))
    if k in ("add", "sub"):
        return (rng.choice(["add", "sub"]), respell(rng, t[1]), respell(rng, t[2]))
    if k in ("mul", "div", "pow"):
        return (rng.choice(["mul", "div", "pow"]), respell(rng, t[1]), respell(rng, t[2]))
    return (k, respell(rng, t[1]), respell(rng, t[2]))


def render(rng, t, extra=0.25):
    """source tokens of the tree under MapServer's precedence, with the parentheses required + random redundant ones"""
    k = t[0]
    def wrap(toks):
        return ["("] + toks + [")"]
    def sub(child, min_prec):
        toks = render(rng, child, extra)
        need = PREC[child[0]] < min_prec
        if need or rng.random() < extra:
            toks = wrap(toks)
            if rng.random() < extra / 3:
                toks = wrap(toks)
        return toks
    if k == "atom":
        return [t[1]]
    if k == "call":
        return [t[1] + "(" + ",".join(t[2]) + ")"]
    if k == "neg":
        return ["-"] + sub(t[1], PREC["neg"])
    if k == "not":
        return [rng.choice(["NOT", "not", "!", "Not"])] + sub(t[1], PREC["cmp"])
    if k == "cmp":
        return sub(t[2], PREC["cmp"]) + [t[1]] + sub(t[3], PREC["cmp"] + 1)
    if k in ("or", "and"):
        op = rng.choice(["OR", "or", "||"] if k == "or" else ["AND", "and", "&&"])
        p = PREC[k]
        # NOT may stand unparenthesised as an operand of AND / OR
        return sub(t[1], p) + [op] + sub(t[2], p + 1)
    p = PREC[k]
    return sub(t[1], p) + [SPELL[k]] + sub(t[2], p + 1)


TOKEN_RE = re.compile(r"""\s*(?:(?P<str>"[^"]*"|'[^']*'|`[^`]*`)|(?P<bind>\[[^\]]*\])|(?P<lst>\{[^}]*\})|(?P<num>[0-9]+(?:\.[0-9]+)?)|"""
                      r"""(?P<op>>=|<=|==|!=|=\*|~\*|&&|\|\||[=<>~!+\-*/^(),])|(?P<word>[A-Za-z_][A-Za-z0-9_]*))""")


def tokenize(s):
    out, i = [], 0
    s = s.strip()
    while i < len(s):
        while i < len(s) and s[i].isspace():
            i += 1
        # a slash in operand position (after an operator, an opening parenthesis, a comma or at the start) opens a regular
        # expression literal, which the lexer ends at the next slash; in operator position it is the division sign
        prev = out[-1] if out else None
        operand_pos = prev is None or prev in ("(", ",") or (TOKEN_RE.match(prev) and TOKEN_RE.match(prev).lastgroup == "op" and prev != ")") \
            or prev.upper() in ("AND", "OR", "NOT", "IN", "EQ", "NE", "LT", "LE", "GT", "GE", "LIKE")
        if i < len(s) and s[i] == "/" and operand_pos:
            j = s.find("/", i + 1)
            if j > 0:
                j += 1
                if j < len(s) and s[j] == "i":
                    j += 1
                out.append(s[i:j]); i = j
                continue
        m = TOKEN_RE.match(s, i)
        if not m or m.end() == i:
            raise ValueError(f"cannot tokenize at {i}: {s[i:i+20]!r}")
        out.append(m.group(m.lastgroup))
        i = m.end()
    return out


class P:
    """independent reader of expression text under MapServer's precedence (OR < AND < NOT < comparison < + - < * / ^ < unary -)"""
    CMP = {"=", "==", "!=", "<", "<=", ">", ">=", "~", "~*", "=*"}
    CMPW = {"IN", "EQ", "NE", "LT", "LE", "GT", "GE", "LIKE"}

    def __init__(self, toks):
        self.t = toks; self.i = 0

    def peek(self):
        return self.t[self.i] if self.i < len(self.t) else None

    def eat(self):
        x = self.t[self.i]; self.i += 1; return x

    def p_or(self):
        l = self.p_and()
        while self.peek() is not None and self.peek().upper() in ("OR", "||"):
            self.eat(); l = ("or", l, self.p_and())
        return l

    def p_and(self):
        l = self.p_not()
        while self.peek() is not None and self.peek().upper() in ("AND", "&&"):
            self.eat(); l = ("and", l, self.p_not())
        return l

    def p_not(self):
        if self.peek() is not None and self.peek().upper() in ("NOT", "!"):
            self.eat(); return ("not", self.p_not())
        return self.p_cmp()

    def is_cmp(self, x):
        return x is not None and (x in self.CMP or x.upper() in self.CMPW)

    def p_cmp(self):
        l = self.p_sum()
        while self.is_cmp(self.peek()):
            op = self.eat(); l = ("cmp", op, l, self.p_sum())
        return l

    def p_sum(self):
        l = self.p_prod()
        while self.peek() in ("+", "-"):
            op = self.eat(); l = ("add" if op == "+" else "sub", l, self.p_prod())
        return l

    def p_prod(self):
        l = self.p_unary()
        while self.peek() in ("*", "/", "^"):
            op = self.eat(); l = ({"*": "mul", "/": "div", "^": "pow"}[op], l, self.p_unary())
        return l

    def p_unary(self):
        if self.peek() == "-":
            self.eat(); return ("neg", self.p_unary())
        return self.p_atom()

    def p_atom(self):
        x = self.eat()
        if x == "(":
            e = self.p_or()
            if self.eat() != ")":
                raise ValueError("expected )")
            return e
        if re.match(r"[A-Za-z_]", x) and self.peek() == "(":
            self.eat()
            args = []
            while True:
                args.append(self.eat())
                y = self.eat()
                if y == ")":
                    break
                if y != ",":
                    raise ValueError("bad call")
            return ("call", x, args)
        return ("atom", x)


def read_shape(text):
    p = P(tokenize(text))
    e = p.p_or()
    if p.i != len(p.t):
        raise ValueError("trailing tokens")
    return e


def canon_shape(t):
    k = t[0]
    if k in ("atom",):
        return ("atom", t[1])
    if k == "call":
        return ("call", t[1], list(t[2]))
    if k in ("neg", "not"):
        return (k, canon_shape(t[1]))
    if k == "cmp":
        return ("cmp", t[1], canon_shape(t[2]), canon_shape(t[3]))
    return (k, canon_shape(t[1]), canon_shape(t[2]))


def leaves_of(tokens):
    out = []
    for x in tokens:
        if x in ("(", ")"):
            continue
        u = x.upper()
        out.append({"&&": "AND", "||": "OR", "!": "NOT", "AND": "AND", "OR": "OR", "NOT": "NOT"}.get(u, x))
    return out


def is_one_group(s):
    """on the TOKENS of the independent tokenizer (strings, bindings, regular expressions and calls are single tokens)"""
    try:
        toks = tokenize(s)
    except ValueError:
        return False
    if not toks or toks[0] != "(" or toks[-1] != ")":
        return False
    depth = 0
    for i, t in enumerate(toks):
        if t == "(":
            depth += 1
        elif t == ")":
            depth -= 1
            if depth == 0 and i < len(toks) - 1:
                return False
    return depth == 0


# ---- Lark tree -> model E ------------------------------------------------------------------
def tree_to_E(node):
    from lark import Tree
    from lark.lexer import Token
    if isinstance(node, Token):
        return {"k": "atom", "s": str(node)}
    d = node.data
    ch = node.children
    if d == "expression":
        return {"k": "paren", "e": tree_to_E(ch[0])}
    if d in ("or_test", "and_test"):
        return {"k": "or" if d == "or_test" else "and", "l": tree_to_E(ch[0]), "r": tree_to_E(ch[1])}
    if d == "comparison":
        return {"k": "cmp", "op": str(ch[1].children[0]), "l": tree_to_E(ch[0]), "r": tree_to_E(ch[2])}
    if d in ("add", "sub", "mul", "div", "power"):
        return {"k": "bin", "op": "pow" if d == "power" else d, "l": tree_to_E(ch[0]), "r": tree_to_E(ch[1])}
    if d == "neg":
        return {"k": "neg", "e": tree_to_E(ch[0])}
    if d == "not_expression":
        return {"k": "not", "e": tree_to_E(ch[0])}
    if d == "func_call":
        args = []
        for a in ch[1].children:
            e = tree_to_E(a)
            if e["k"] != "atom":
                raise ValueError("non-operand function argument")
            args.append(e["s"])
        return {"k": "call", "n": str(ch[0]), "args": args}
    if d == "attr_bind":
        return {"k": "atom", "s": "[" + str(ch[0]) + "]"}
    if d == "int":
        return {"k": "atom", "s": str(int(str(ch[0])))}
    if d == "float":
        return {"k": "atom", "s": str(float(str(ch[0])))}
    if d in ("string", "regexp", "runtime_var", "path"):
        return {"k": "atom", "s": str(ch[0])}
    if d in ("true", "false"):
        return {"k": "atom", "s": "True" if d == "true" else "False"}
    if d == "list":
        # a list literal {a,b,c}: an operand, kept as it is written (items joined by commas, blanks between items dropped)
        def item(c):
            return str(c) if isinstance(c, Token) else str(c.children[0]) if len(c.children) == 1 and isinstance(c.children[0], Token) else None
        items = [item(c) for c in ch]
        if any(i is None for i in items):
            raise ValueError("structured list item")
        return {"k": "atom", "s": "{" + ",".join(items) + "}"}
    raise ValueError(f"unsupported node {d}")


CONTEXTS = [("CLASS", "EXPRESSION", lambda d: d["expression"]), ("LAYER", "FILTER", lambda d: d["filter"]),
            ("CLASS", "TEXT", lambda d: d["text"]), ("STYLE", "GEOMTRANSFORM", lambda d: d["geomtransform"]),
            ("CLUSTER", "GROUP", lambda d: d["group"]), ("CLUSTER", "FILTER", lambda d: d["filter"])]


def n_ops(t):
    if t[0] in ("atom", "call"):
        return 0
    return 1 + sum(n_ops(x) for x in t[1:] if isinstance(x, tuple))


def check_tree(ctx, parser, t, reqs, keep):
    from mappyfile.transformer import MapfileToDict
    import mappyfile
    rng = ctx.rng
    toks = ["("] + render(rng, t) + [")"]
    src = " ".join(toks)
    block, kw, get = rng.choice(CONTEXTS)
    text = f"{block} {kw} {src} END"
    ctx.case(src, n_ops(t) >= 2, sample={"source": text} if rng.random() < .001 else None)
    ctx.count(f"ops={min(n_ops(t), 12)}"); ctx.count("ctx:" + kw)
    rep = {"text": text}
    try:
        tree = parser.parse(text)
    except Exception as ex:
        ctx.violation("rejects-valid-expression", f"loads rejected a valid expression: {type(ex).__name__}", rep)
        return
    # the expression subtree of the real parse (before the transformer rewrites tokens)
    try:
        expr_node = next(n for n in tree.iter_subtrees_topdown() if n.data == "expression")
        E = tree_to_E(expr_node)
    except Exception as ex:
        E = None
        ctx.count("corr:tree-not-convertible")
    try:
        d = MapfileToDict().transform(tree)
        stored = get(d)
    except Exception as ex:
        ctx.violation("transform-raises", f"transform raised {type(ex).__name__}", rep)
        return
    rep["stored"] = stored
    if E is not None:
        reqs.append({"op": "exprnorm", "e": E})
        keep.append((rep, stored))
    # (d) one group
    if not isinstance(stored, str) or not is_one_group(stored):
        ctx.violation("not-one-group", "the stored string is not one parenthesised group", rep)
        return
    # (b) same operator tree, (c) same leaves in order
    try:
        got = canon_shape(read_shape(stored))
    except Exception as ex:
        ctx.violation("stored-unreadable", f"the stored string cannot be read as an expression: {ex}", rep)
        return
    want = canon_shape(t)
    def norm_ops(s):
        k = s[0]
        if k == "cmp":
            return ("cmp", s[1], norm_ops(s[2]), norm_ops(s[3]))
        if k in ("atom", "call"):
            return s
        return (k,) + tuple(norm_ops(x) for x in s[1:])
    if norm_ops(got) != norm_ops(want):
        rep["shape_stored"] = repr(got)[:600]; rep["shape_source"] = repr(want)[:600]
        ctx.violation("regrouped", "the stored string denotes a different operator tree than the source", rep)
        return
    if leaves_of(tokenize(stored)) != leaves_of(tokenize(src)):
        ctx.violation("leaves-changed", "operands / operator spellings are not unchanged and in order", rep)
        return
    # (a) fixpoint through dumps/loads
    try:
        out = mappyfile.dumps(d)
        d2 = MapfileToDict().transform(parser.parse(out))
        if get(d2) != stored:
            rep["reparsed"] = get(d2)
            ctx.violation("not-a-fixpoint", "re-parsing the normalised string yields a different string", rep)
    except Exception as ex:
        rep["error"] = str(ex)[:300]
        ctx.violation("stored-unparseable", f"the written expression is not accepted by loads: {type(ex).__name__}", rep)


def explore(ctx, scale=1.0):
    from mappyfile.parser import Parser
    rng = ctx.rng
    parser = Parser()
    reqs, keep = [], []
    max_exh = 4 if ctx.thorough else 3
    n_exh = 0
    for n in range(0, max_exh + 1):
        shapes = list(all_shapes(n))
        if len(shapes) > (60000 if ctx.thorough else 4000):
            shapes = rng.sample(shapes, 60000 if ctx.thorough else 4000)
            ctx.notes[f"shapes_ops_{n}"] = f"sampled {len(shapes)}"
        else:
            ctx.notes[f"shapes_ops_{n}"] = f"all {len(shapes)}"
        for sh in shapes:
            check_tree(ctx, parser, respell(rng, sh), reqs, keep)
            n_exh += 1
    for i in range(int((20000 if ctx.thorough else 1500) * scale)):
        n = rng.choice([1, 2, 3, 5, 8, 13, 20, 40])
        check_tree(ctx, parser, rand_tree(rng, n), reqs, keep)
    # verbatim clauses: list expressions, regexes, bindings keep their elements
    import mappyfile
    for text, key, want in [('CLASS EXPRESSION {a b,c} END', "expression", "{a b,c}"), ("CLASS EXPRESSION /^r.*d$/ END", "expression", "/^r.*d$/"),
                            ("CLASS EXPRESSION /x y/i END", "expression", "/x y/i"), ("STYLE SIZE [size_field] END", "size", "[size_field]"),
                            ('CLASS EXPRESSION {3,25,7.5} END', "expression", "{3,25,7.5}")]:
        ctx.case(text, False)
        try:
            got = mappyfile.loads(text)[key]
            d2 = mappyfile.loads(mappyfile.dumps(mappyfile.loads(text)))[key]
        except Exception as ex:
            got = d2 = f"{type(ex).__name__}"
        if got != want or d2 != want:
            ctx.violation("verbatim:" + key, "list expression / regex / binding not kept verbatim", {"text": text, "stored": got, "reparsed": d2})
    ans = core.lean_call(reqs)
    for (rep, stored), a in zip(keep, ans):
        if a.get("str") == stored and a.get("fixpoint") is True:
            ctx.corr_ok("exprnorm")
        else:
            ctx.corr_diff("exprnorm", rep, a, stored)


def main(ctx):
    if ctx.replay:
        print(open(ctx.replay).read()[:4000]); return
    core.proof_leg(ctx, ["Mappy.Props.C10"])
    explore(ctx)
    core.finish(ctx, LEVEL_NOTE, RULE, search=lambda c: explore(c, scale=3.0))
