"""C13 — position and comment bookkeeping is transparent.
proof leg: Mappy.Props.C13 (composite / key-value call-backs and the whole single-pass pipeline: the flagged run's
           dictionaries are the plain run's plus __position__ / __comments__, at every depth, for every tree of grammar shape).
correspondence: MapfileToDict.transform vs the Lean transformer model on real Lark trees (corpus + generated documents with
           comments, duplicated keywords, key/value blocks) under the four include_position × include_comments combinations.
oracle: real loads/open/load under the four combinations: hidden keys aside the dictionaries are identical to the plain
        load; dumps of the flagged dictionary minus its comment text equals dumps of the plain dictionary (several option sets)."""
from __future__ import annotations
import copy, io, json, os, re, tempfile
from vlib import core, gen, corpus, trees, ppcommon

LEVEL_NOTE = [
    "Lean 4.33 kernel; axioms ⊆ {propext, Classical.choice, Quot.sound} (audited each run)",
    "Model/Transformer.lean hand model of transformer.py (all call-backs, CommentsTransformer, Canonize); tied by the `transform` correspondence on real Lark trees, four flag combinations",
    "C13_position_transparent (single pass) and C13_comments_transparent (two-pass CommentsTransformer pipeline) cover every tree satisfying the decidable grammar-shape premises shapeRootB / shapeCRootB (evaluated on every real tree each run and linked to the inductive premises by shapeItem_of_B / shapeC_of_B); one direction: a successful flagged load implies the plain load succeeds with the stripped result",
    "keys / block types / attribute names starting with `__` are answered UNSUPPORTED by the model (not comparable); Python's str.lower = ASCII lower on the compared trees (checked per case)",
    "that the parser builds the same tree with propagate_positions / lexer call-backs on is Lark's business: exercised by the oracle",
    "printer side: C03_hidden_keys_silent (Props/C03) is the kernel-checked statement that __position__ never prints; comment-text removal is an oracle",
]
RULE = ("corpus files + schema-generated documents (one-keyword-per-line and free layouts with # and /* */ comments, duplicated keywords with differing values, "
        "key/value blocks with short keys) × 4 flag combinations × loads/open/load; printing under default and align_values option sets; "
        "non-trivial = document holding ≥ 1 comment or loaded with a flag on; distinct by (text, flags)")

HIDDEN = ("__position__", "__comments__")
COMBOS = [(False, False), (True, False), (False, True), (True, True)]


def strip_hidden(x):
    if isinstance(x, dict):
        return {k: strip_hidden(v) for k, v in x.items() if k not in HIDDEN}
    if isinstance(x, list):
        return [strip_hidden(v) for v in x]
    if isinstance(x, tuple):
        return tuple(strip_hidden(v) for v in x)
    return x


def all_comments(d, out=None):
    """(block comments, joined attribute comments) stored in a dictionary"""
    if out is None:
        out = ([], [])
    if isinstance(d, dict):
        cm = d.get("__comments__")
        if isinstance(cm, dict):
            for k, v in cm.items():
                vs = v if isinstance(v, list) else [v]
                if not all(isinstance(x, str) for x in vs):
                    raise ValueError(f"comments-shape: __comments__[{k!r}] is neither a string nor a list of strings: {v!r}"[:200])
                if k == "__type__":
                    out[0].extend(vs)
                elif vs:
                    out[1].append(" ".join(vs))
        elif isinstance(cm, list):
            out[0].extend(cm)
        for k, v in d.items():
            if k not in HIDDEN:
                all_comments(v, out)
    elif isinstance(d, list):
        for v in d:
            all_comments(v, out)
    return out


def remove_comment_text(text, d, nl):
    """delete from printed text the comment text stored in d (independent of mappyfile): end-of-line comments and comment lines"""
    blocks, attrs = all_comments(d)
    for c in sorted(set(attrs), key=len, reverse=True):
        # PROJECTION comments are printed (joined) on a line of their own inside the block
        text = re.sub(r"(^|(?<=" + re.escape(nl) + r"))[ \t]*" + re.escape(c.strip()) + r"(" + re.escape(nl) + r"|$)", "", text)
        text = re.sub(re.escape(" " + c) + r"(?=" + re.escape(nl) + r"|$)", "", text)
    for c in sorted(set(blocks), key=len, reverse=True):
        text = re.sub(r"(^|(?<=" + re.escape(nl) + r"))[ \t]*" + re.escape(c.strip()) + r"(" + re.escape(nl) + r"|$)", "", text)
    return text


def gen_documents(ctx, n):
    """(text, kind) — plain layout with injected comments and duplicated keywords, and free layouts"""
    rng = ctx.rng
    out = []
    types = gen.BLOCK_TYPES
    for i in range(n):
        t = rng.choice(["map", "layer", "class", "style", "label", "web", "legend", "scalebar", "feature"] + types)
        b = gen.gen_block(rng, t, depth=rng.choice([0, 1, 2, 2]), max_items=7)
        # duplicate a simple keyword with another value
        attrs = [it for it in b.items if it[0] == "attr"]
        if attrs and rng.random() < .5:
            it = rng.choice(attrs)
            shs = [s for s in gen.shapes(gen.raw(b.type)["properties"][it[1]], it[1]) if s[0] not in ("objlist", "object", "kv", "points")]
            if shs:
                gen.add_item(rng, b, it[1], rng.choice(shs), 0)
        # several POINTS blocks in one FEATURE (one recorded position per block)
        if "points" in gen.raw(b.type)["properties"] and b.type == "feature" and rng.random() < .6:
            for _ in range(rng.randint(2, 4)):
                pairs = [(rng.randint(0, 50), rng.randint(0, 50)) for _ in range(rng.randint(1, 3))]
                b.items.insert(rng.randrange(len(b.items) + 1), ("points", "points", pairs))
        # a key/value block with short keys
        if rng.random() < .4 and "metadata" in gen.raw(b.type)["properties"]:
            b.items.insert(rng.randrange(len(b.items) + 1), ("kv", "metadata", [(rng.choice(["a", "wms_t", "k1"]), gen.rstring(rng)) for _ in range(rng.randint(1, 3))]))
        if i % 3 == 2:
            if rng.random() < .3:
                # a quoted string that spans lines (LF, CRLF, a lone CR): content, whatever the bookkeeping flags
                props = gen.raw(b.type)["properties"]
                cands = [k for k in ("data", "template", "text", "header", "footer", "title") if k in props and any(sh[0] == "string" for sh in gen.shapes(props[k], k))
                         and not any(len(it) > 1 and it[1] == k for it in b.items)]
                if cands:
                    v = rng.choice(["SELECT a\r\n  FROM t\r\n WHERE x", "two\nlines", "cr\ronly", "mixed\r\nand\nboth"])
                    b.items.append(("attr", rng.choice(cands), v, [(v, "qstr")], "string"))
            text = gen.render(b, gen.Layout(rng, plain=False))
            out.append((text, "free-layout"))
            continue
        lines = (gen.symbolset_text(rng) if i % 11 == 5 else gen.render(b)).split("\n")   # every 11th document is a symbol file (SYMBOLSET root)
        res = []
        k = 0
        for ln in lines:
            if rng.random() < .25:
                k += 1
                res.append(" " * rng.randint(0, 4) + rng.choice([f"# note {k}", f"/* block {k} */", f"#n{k} with 'quotes' \"x\""]))
            if rng.random() < .45:
                k += 1
                ln = ln + rng.choice([f" # c{k}", f"  #c{k} END", f" /* c{k} */", f" # a{k} # b{k}"])
            res.append(ln)
        out.append(("\n".join(res), "commented"))
    return out


def explore(ctx, scale=1.0):
    import mappyfile
    rng = ctx.rng
    docs = [(t, "corpus") for _, t in corpus.texts()]
    if not ctx.thorough:
        docs = rng.sample(docs, min(len(docs), int(120 * scale)))
    docs += gen_documents(ctx, int((3000 if ctx.thorough else 300) * scale))
    option_sets = [ppcommon.DEFAULT, dict(ppcommon.DEFAULT, align_values=True), dict(ppcommon.DEFAULT, indent=2, align_values=True, quote="'")]   # no end_comment: its "# TYPE" text cannot be told from a source comment of the same text
    reqs, keep = [], []
    tmpdir = tempfile.mkdtemp(prefix="mappy_c13_")
    try:
        for idx, (text, kind) in enumerate(docs):
            try:
                plain_tree = trees.parser(False, False).parse(text)
            except Exception:
                ctx.count(f"{kind}:unparseable (C19 territory)")
                continue
            ncom = text.count("#") + text.count("/*")
            ctx.count(f"doc:{kind}")
            # ---------- correspondence on the real trees ----------
            safe = trees.ascii_case_safe(plain_tree)
            for pos, com in COMBOS:
                try:
                    tree = trees.parser(com, False).parse(text)
                except Exception:
                    continue
                if not safe:
                    ctx.count("corr:skipped non-ASCII case")
                    continue
                req = trees.request(tree, pos, com)
                real = trees.real_transform(tree, pos, com)
                reqs.append(req); keep.append((text, pos, com, real))
            # ---------- oracle on the public API ----------
            api = rng.choice(["loads", "open", "load"]) if idx % 8 == 0 else "shared-parser"
            def load(pos, com):
                if api == "shared-parser":
                    # the public functions build a new Parser per call (0.3 s): most documents go through one shared
                    # Parser per include_comments setting and a fresh MapfileToDict, as loads does internally
                    from mappyfile.transformer import MapfileToDict
                    return MapfileToDict(include_position=pos, include_comments=com).transform(trees.parser(com, False).parse(text))
                if api == "loads":
                    return mappyfile.loads(text, include_position=pos, include_comments=com, expand_includes=False)
                fn = os.path.join(tmpdir, f"d{idx}.map")
                with open(fn, "w", encoding="utf-8", newline="") as f:
                    f.write(text)
                if api == "open":
                    return mappyfile.open(fn, include_position=pos, include_comments=com, expand_includes=False)
                with open(fn, encoding="utf-8", newline="") as f:
                    return mappyfile.load(f, include_position=pos, include_comments=com, expand_includes=False)
            try:
                d00 = load(False, False)
            except Exception as ex:
                ctx.count(f"{kind}:plain load fails ({type(ex).__name__})")
                continue
            c00 = core.canon(gen.plain_dict(d00))
            for pos, com in COMBOS[1:]:
                ctx.case((text, pos, com), True, sample={"text": text[:200], "flags": [pos, com], "api": api} if rng.random() < .004 else None)
                ctx.count(f"flags:pos={int(pos)},com={int(com)}"); ctx.count("api:" + api)
                rep = {"text": text, "include_position": pos, "include_comments": com, "api": api}
                try:
                    d = load(pos, com)
                except Exception as ex:
                    ctx.violation(f"flags:raises:{type(ex).__name__}", f"{api} with include_position={pos}, include_comments={com} raises {type(ex).__name__} on a text the plain load accepts", rep)
                    continue
                if core.canon(strip_hidden(gen.plain_dict(d))) != c00:
                    ctx.violation("flags:content", f"{api}(include_position={pos}, include_comments={com}) differs from the plain load in more than the hidden keys", rep)
                    continue
                # printing
                if ppcommon.has_newline_value(d00):
                    continue
                for o in option_sets:
                    try:
                        want = mappyfile.dumps(d00, **o)
                    except Exception:
                        break
                    try:
                        got = mappyfile.dumps(d, **o)
                    except Exception as ex:
                        ctx.violation(f"print:raises:{type(ex).__name__}", f"dumps of a dictionary loaded with flags raises {type(ex).__name__}", dict(rep, options=o))
                        break
                    if "__position__" in got or "__comments__" in got:
                        ctx.violation("print:hidden-key-printed", "dumps prints bookkeeping data", dict(rep, options=o))
                        break
                    try:
                        got2 = remove_comment_text(got, d, o["newlinechar"]) if com else got
                    except ValueError as ex:
                        ctx.violation("flags:comments-shape", str(ex), dict(rep, options=o))
                        break
                    if got2 != want:
                        ctx.violation("print:differs" + (":align" if o.get("align_values") else ""),
                                      "dumps of the dictionary loaded with bookkeeping differs from dumps of the plain dictionary in more than comment text",
                                      dict(rep, options=o, plain=want[:1500], flagged=got[:1500], flagged_minus_comments=got2[:1500]))
                        break
    finally:
        import shutil
        shutil.rmtree(tmpdir, ignore_errors=True)
    answers = core.lean_call(reqs)
    for (text, pos, com, real), ans in zip(keep, answers):
        ctx.count("shape premise holds" if ans.get("shape") else "shape premise fails")
        if ans.get("err") == "UNSUPPORTED":
            ctx.count("corr:model UNSUPPORTED")
            continue
        if trees.same(ans, real):
            ctx.corr_ok("transform")
        else:
            ctx.corr_diff("transform", {"text": text[:1500], "pos": pos, "com": com}, json.dumps(ans)[:400], json.dumps(real)[:400])


def main(ctx):
    if ctx.replay:
        print(open(ctx.replay).read()[:4000]); return
    core.proof_leg(ctx, ["Mappy.Props.C13"])
    explore(ctx)
    core.finish(ctx, LEVEL_NOTE, RULE, search=lambda c: explore(c, scale=2.0))
