"""C09 — version-aware validation follows minVersion / maxVersion.
proof leg: Mappy.Props.C09 (range test; walk = specification filter on expanded trees; unannotated untouched; idempotence;
           cache transparency of one Validator under PruneIdem; obligations over the regenerated schema folder).
correspondence: `vrun` — expanded view of get_versioned_schema / get_expanded_schema for every schema file × version class,
           random call histories on one Validator, and the PruneIdem premise executed for every schema × class.
oracle: (a) the real versioned schema = an independently written tree filter of the real version-less expansion;
        (b) documents using each annotated keyword are rejected exactly outside its range;
        (c) call histories on one reused Validator (exports and validate verdicts) vs fresh Validators."""
from __future__ import annotations
import copy, glob, json, os
from decimal import Decimal
from vlib import core, gen

LEVEL_NOTE = [
    "Lean 4.33 kernel; axioms ⊆ {propext, Classical.choice, Quot.sound} (audited each run)",
    "Model/Versioning.lean hand model of is_valid_for_version / get_versioned_properties / get_versioned_schema / get_expanded_schema incl. the shared-document store that jsonref proxies form; tied by the `vrun` correspondence",
    "Gen/Schemas.lean regenerated from mappyfile/schemas/*.json on every run (obligations C09_acyclic, C09_files_metaWF, C09_files_bounds re-checked by the kernel)",
    "C09_cache_transparent_files is unconditional for the regenerated folder (C09_prune_idem is kernel-proved for every well-formed folder, C09_files_wf by decide +kernel); hypotheses left: KeysInj (name+str(version) identifies the request) and versions in [0, 1000]; the PruneIdem premise is additionally executed on the model for every schema × class",
    "versions are compared as thousandths; Python compares the nearest doubles (monotone rounding; bounds have ≤ 3 decimals — refused otherwise)",
    "jsonschema's verdict on the pruned schema is third-party (validator gap): exercised by oracle (b)",
]
RULE = ("every schema file × version in {none, 0, each bound −0.1 / −0.04 / −0.01 / at / +0.01 / +0.04 / +0.1, 1000}; call histories of length ≤ 30 on one Validator; every annotated "
        "keyword × object type × the same versions as a generated document; non-trivial = a versioned request that removes at least one entry; distinct by (schema, version, history)")


def plain(x):
    if isinstance(x, dict):
        return {k: plain(v) for k, v in x.items()}
    if isinstance(x, list):
        return [plain(v) for v in x]
    return x


def schema_names():
    return sorted(os.path.basename(f)[:-5] for f in glob.glob(os.path.join(gen.schema_dir(), "*.json")))


def bounds():
    bs = set()
    def walk(x):
        if isinstance(x, dict):
            md = x.get("metadata")
            if isinstance(md, dict):
                for k in ("minVersion", "maxVersion"):
                    if k in md:
                        bs.add(Decimal(repr(md[k])) if isinstance(md[k], float) else Decimal(md[k]))
            for v in x.values():
                walk(v)
        elif isinstance(x, list):
            for v in x:
                walk(v)
    for n in schema_names():
        walk(gen.raw(n))
    return sorted(bs)


def version_points():
    pts = {Decimal("0.0"), Decimal("1000.0"), Decimal("1000.1"), Decimal("0.1")}
    for b in bounds():
        pts |= {b - Decimal("0.1"), b, b + Decimal("0.1")}
        # and just off the bound (a version is compared as it is, not rounded to one decimal)
        pts |= {b - Decimal("0.01"), b + Decimal("0.01"), b + Decimal("0.04"), b - Decimal("0.04")}
    out = [None]
    for p in sorted(pts):
        if p < 0:
            continue
        f = float(str(p))
        out.append(f)
    return out


def wire_ver(v):
    if v is None:
        return None
    m = Decimal(repr(float(v))) * 1000
    assert m == m.to_integral_value(), v
    return {"milli": int(m), "key": str(v)}


def in_range(md, v):
    return md.get("minVersion", 0.0) <= v <= md.get("maxVersion", 1000.0)


def spec_filter(x, v):
    """independent statement of the property on a fully expanded tree: every annotated entry / alternative is
    available exactly in its range, at every depth; everything else is untouched"""
    if isinstance(x, dict):
        out = {}
        for k, val in x.items():
            if isinstance(val, dict):
                md = val.get("metadata")
                if isinstance(md, dict) and not in_range(md, v):
                    continue
            out[k] = spec_filter(val, v)
        return out
    if isinstance(x, list):
        out = []
        for val in x:
            if isinstance(val, dict):
                md = val.get("metadata")
                if isinstance(md, dict) and not in_range(md, v):
                    continue
            out.append(spec_filter(val, v))
        return out
    return x


def real_view(V, op, name, v):
    try:
        if op == "versioned":
            return {"ok": core.enc(plain(V.get_versioned_schema(v, name)))}
        return {"ok": core.enc(plain(V.get_expanded_schema(name, v)))}
    except Exception as ex:
        return {"err": "IOError" if isinstance(ex, OSError) else type(ex).__name__}


def explore(ctx, scale=1.0):
    from mappyfile.validator import Validator
    rng = ctx.rng
    names = schema_names()
    points = version_points()
    ctx.notes["bounds"] = [str(b) for b in bounds()]
    ctx.notes["version_points"] = len(points)
    # ---------------- (1) single calls: correspondence + oracle (a) ----------------
    reqs, keep = [], []
    for n in names:
        base = None
        try:
            base = plain(Validator().get_expanded_schema(n))
        except Exception:
            pass
        for v in points:
            V = Validator()
            real = real_view(V, "versioned", n, v)
            removed = False
            if "ok" in real and base is not None and isinstance(base, dict) and "properties" in base:
                got = plain(V.get_versioned_schema(v, n))
                if v:
                    want = dict(base)
                    want["properties"] = spec_filter(base["properties"], v)
                else:
                    want = base
                removed = want != base
                if core.canon(got) != core.canon(want):
                    where = first_diff(want, got)
                    ctx.violation(f"filter:{n}:{where[0]}", f"get_versioned_schema({v}, {n!r}) differs from filtering the expanded schema by minVersion/maxVersion at {where[1]}",
                                  {"schema": n, "version": v, "path": where[1], "expected": str(where[2])[:300], "observed": str(where[3])[:300]})
            ctx.case(("single", n, v), removed, sample={"schema": n, "version": v} if removed and rng.random() < .01 else None)
            ctx.count("single:removes-entries" if removed else "single:nothing-removed")
            reqs.append({"op": "vrun", "fuel": 40, "ops": [{"o": "versioned", "name": n, "ver": wire_ver(v)},
                                                         {"o": "versioned", "name": n, "ver": wire_ver(v)}]})
            keep.append((n, v, real))
    answers = core.lean_call(reqs)
    for (n, v, real), ans in zip(keep, answers):
        if ans[0] == real:
            ctx.corr_ok("vrun:single")
        else:
            ctx.corr_diff("vrun:single", {"schema": n, "version": v}, json.dumps(ans[0])[:300], json.dumps(real)[:300])
        # the PruneIdem premise of C09_cache_transparent, executed on the model for this schema × class
        if ans[0] == ans[1]:
            ctx.corr_ok("model:PruneIdem")
        else:
            ctx.corr_diff("model:PruneIdem", {"schema": n, "version": v}, json.dumps(ans[1])[:300], json.dumps(ans[0])[:300])
    # ---------------- (2) histories on one Validator: correspondence + oracle (c) ----------------
    n_hist = int((400 if ctx.thorough else 40) * scale)
    obj_names = [n for n in names if isinstance(gen.raw(n), dict) and "properties" in gen.raw(n)]
    fresh_cache = {}
    def fresh(op, n, v):
        k = (op, n, v)
        if k not in fresh_cache:
            fresh_cache[k] = real_view(Validator(), op, n, v)
        return fresh_cache[k]
    reqs, keep = [], []
    for h in range(n_hist):
        V = Validator()
        pool_n = rng.sample(obj_names, rng.randint(1, 3)) + ([rng.choice(names)] if rng.random() < .2 else [])
        pool_v = rng.sample(points, min(len(points), rng.randint(2, 4))) + [None]
        ops, reals = [], []
        for _ in range(rng.randint(2, 30 if ctx.thorough else 14)):
            op = rng.choice(["versioned", "versioned", "expanded"])
            n = rng.choice(pool_n); v = rng.choice(pool_v)
            ops.append({"o": op, "name": n, "ver": wire_ver(v)})
            r = real_view(V, op, n, v)
            reals.append(r)
            if op == "versioned":
                f = fresh("versioned", n, v)
                if r != f:
                    ctx.violation("history:versioned", f"get_versioned_schema({v}, {n!r}) on a reused Validator differs from a fresh Validator's answer",
                                  {"history": ops, "step": len(ops) - 1})
            elif v is None:
                # the version-less export must never be affected by versioned requests
                f = fresh("expanded", n, None)
                if r != f:
                    ctx.violation("history:export", f"the version-less expanded schema {n!r} changed after versioned requests on the same Validator",
                                  {"history": ops, "step": len(ops) - 1})
        ctx.case(("hist", json.dumps(ops)), True, sample={"history": ops[:5]} if h < 2 else None)
        ctx.count(f"history-length={min(len(ops) // 5 * 5, 30)}+")
        reqs.append({"op": "vrun", "fuel": 40, "ops": ops})
        keep.append((ops, reals))
    answers = core.lean_call(reqs)
    for (ops, reals), ans in zip(keep, answers):
        if ans == reals:
            ctx.corr_ok("vrun:history")
        else:
            i = next(i for i, (a, b) in enumerate(zip(ans, reals)) if a != b)
            ctx.corr_diff("vrun:history", {"history": ops, "step": i}, json.dumps(ans[i])[:300], json.dumps(reals[i])[:300])
    # ---------------- (3) oracle (b): documents using an annotated keyword ----------------
    annotated = []
    for t in gen.object_types():
        for k, p in gen.raw(t)["properties"].items():
            md = p.get("metadata") if isinstance(p, dict) else None
            if isinstance(md, dict) and ("minVersion" in md or "maxVersion" in md):
                annotated.append((t, k, md))
    ctx.notes["annotated_keywords"] = len(annotated)
    shape_of = {(t, k): shs for t, k, shs in gen.cells()}
    reuse = Validator()
    for t, k, md in annotated:
        shs = [s for s in shape_of.get((t, k), []) if s[0] not in ("objlist", "object", "kv", "points")]
        d = None
        if shs:
            for _ in range(5):
                b = gen.gen_block(rng, t, depth=0, max_items=1, want=(k, rng.choice(shs)))
                d = gen.expected(b)
                if k in d:
                    break
        if not d or k not in d:
            ctx.count("keyword-docs:no simple value shape (covered by the schema comparison only)")
            continue
        for v in points:
            if not v:
                continue
            near = any(abs(v - md.get(b, -99)) < 0.11 for b in ("minVersion", "maxVersion"))
            if not near and rng.random() > (.3 if ctx.thorough else .05):
                continue
            for V in (Validator(), reuse):
                msgs = V.validate(copy.deepcopy(d), schema_name=t, version=v)
                unexpected = any(not_allowed(m["error"], k) for m in msgs)
                ctx.case(("kwdoc", t, k, v, V is reuse), True)
                ctx.count("keyword-docs:in-range" if in_range(md, v) else "keyword-docs:out-of-range")
                if unexpected == in_range(md, v):
                    ctx.violation(f"keyword:{t}/{k}", f"{t.upper()} {k.upper()} (range {md}) is {'rejected' if unexpected else 'accepted'} for version {v}"
                                  + (" on a reused Validator" if V is reuse else ""),
                                  {"type": t, "keyword": k, "metadata": md, "version": v, "document": gen.plain_dict(d), "reused_validator": V is reuse,
                                   "messages": [m["error"] for m in msgs][:5]})
            # version-less validation never knows about versions
            msgs0 = reuse.validate(copy.deepcopy(d), schema_name=t)
            if any(not_allowed(m["error"], k) for m in msgs0):
                ctx.violation(f"keyword-noversion:{t}/{k}", f"{t.upper()} {k.upper()} rejected without a version", {"type": t, "keyword": k, "document": gen.plain_dict(d)})
    verdict_oracle(ctx, rng)
    annotations_on_refs(ctx)


def annotations_on_refs(ctx):
    """(e) a version annotation written beside a `$ref` is dropped together with every other sibling when the reference is
    expanded: such an annotation can never be honoured.  Scan of the raw schema files + the concrete consequence."""
    from mappyfile.validator import Validator
    def walk(x, path):
        if isinstance(x, dict):
            md = x.get("metadata")
            if "$ref" in x and isinstance(md, dict) and ("minVersion" in md or "maxVersion" in md):
                yield path, md
            for k, v in x.items():
                yield from walk(v, path + [k])
        elif isinstance(x, list):
            for i, v in enumerate(x):
                yield from walk(v, path + [i])
    for t in gen.object_types():
        for path, md in walk(gen.raw(t), []):
            ctx.case(("annotation-on-ref", t, json.dumps(path)), True)
            v = (md.get("minVersion", 1.0) - 0.1) if "minVersion" in md else (md["maxVersion"] + 0.1)
            node = plain(Validator().get_versioned_schema(v, t))
            try:
                for pe in path:
                    node = node[pe]
                still_there = True
            except (KeyError, IndexError, TypeError):
                still_there = False
            if still_there:
                ctx.violation(f"annotation-on-ref:{t}:{'/'.join(map(str, path))}",
                              f"{t}.json {'/'.join(map(str, path))} carries {md} beside a $ref: the annotation is dropped by reference expansion — "
                              f"the entry is still in the schema for version {v}", {"schema": t, "path": path, "metadata": md, "version": v})


def verdict_oracle(ctx, rng):
    """(d) with a version, the verdict is Draft-4 validation against the versioned schema — nothing else may change (the
    validator class, the treatment of unannotated keywords): real validate(d, t, v) vs an independently instantiated
    Draft4Validator on a plain copy of the versioned schema, for fragments of every object type"""
    import jsonschema
    from mappyfile.validator import Validator
    V = Validator()
    n = 400 if ctx.thorough else 60
    for i in range(n):
        t = rng.choice(gen.BLOCK_TYPES + ["layer", "class", "style", "label"])
        b = gen.gen_block(rng, t, depth=rng.choice([0, 1, 2]), max_items=8)
        d = gen.expected(b)
        if rng.random() < .5:
            # numeric keywords at the edge of their range (0 where the schema says exclusiveMinimum, -1, a float at an integer keyword)
            props = gen.raw(t)["properties"]
            nums = [k for k, p in props.items() if isinstance(p, dict) and p.get("type") in ("number", "integer") and not k.startswith("__")]
            for k in rng.sample(nums, min(len(nums), 3)):
                d[k] = rng.choice([0, -1, 1.0, 2.5, 10 ** 6])
        v = rng.choice([5.6, 6.0, 7.0, 7.6, 8.0, 8.4])
        try:
            msgs = V.validate(copy.deepcopy(d), schema_name=t, version=v)
            got = sorted(m["error"] for m in msgs)
        except Exception as ex:
            got = f"raises {type(ex).__name__}"
        low = json.loads(json.dumps(V.convert_lowercase(copy.deepcopy(d))))
        ind = jsonschema.Draft4Validator(plain(Validator().get_versioned_schema(v, t)))
        want = sorted("ERROR: Invalid value in " + "x" for _ in ind.iter_errors(low))
        ctx.case(("verdict", t, v, core.canon(d)), True); ctx.count("verdict-docs")
        if isinstance(got, str) or len(got) != len(want):
            ctx.violation(f"versioned-verdict:{t}", f"validate({t}, version={v}) gives {got if isinstance(got, str) else str(len(got)) + ' messages'} but Draft-4 validation against the versioned schema reports {len(want)} errors",
                          {"type": t, "version": v, "document": gen.plain_dict(d), "messages": got if isinstance(got, str) else got[:6]})
            return


def not_allowed(msg, k):
    """jsonschema's wording for a key that the (pruned) object schema does not know"""
    return f"'{k}'" in msg and ("unexpected" in msg or "not match any of the regexes" in msg)


def first_diff(a, b, path=()):
    if type(a) is not type(b):
        return (".".join(map(str, path[:3])), list(path), a, b)
    if isinstance(a, dict):
        for k in a:
            if k not in b:
                return (".".join(map(str, path[:3] + (k,))), list(path) + [k], a[k], "<missing>")
        for k in b:
            if k not in a:
                return (".".join(map(str, path[:3] + (k,))), list(path) + [k], "<missing>", b[k])
        for k in a:
            r = first_diff(a[k], b[k], path + (k,))
            if r:
                return r
        return None
    if isinstance(a, list):
        if len(a) != len(b):
            return (".".join(map(str, path[:3])), list(path), f"{len(a)} items", f"{len(b)} items")
        for i, (x, y) in enumerate(zip(a, b)):
            r = first_diff(x, y, path + (i,))
            if r:
                return r
        return None
    if a != b:
        return (".".join(map(str, path[:3])), list(path), a, b)
    return None


def main(ctx):
    if ctx.replay:
        print(open(ctx.replay).read()[:4000]); return
    core.proof_leg(ctx, ["Mappy.Props.C09", "Mappy.Props.C09Classes"])
    explore(ctx)
    core.finish(ctx, LEVEL_NOTE, RULE, search=lambda c: explore(c, scale=3.0))
