"""C03 — pretty-printed text says exactly what the dictionary says.
proof leg: Mappy.Props.C03 (hidden keys silent; lexical class of every value shape, universally in the value, with the
decide-checked obligation over the regenerated schema tables; empty dict refused).
correspondence: format_value over every cell × shape × both quotes, quoter functions, `pp`.
oracle: an independent expectation of the printed lines (written from the property text) against real dumps of
schema-generated documents and of dictionaries edited through random dict-API histories."""
from __future__ import annotations
import copy, io, json, os, tempfile
from collections import OrderedDict
from vlib import core, gen, ppcommon

LEVEL_NOTE = [
    "Lean 4.33 kernel; axioms ⊆ {propext, Classical.choice, Quot.sound} (audited each run); C03_table is `decide +kernel` over the regenerated Gen.props/Gen.shapes",
    "Model/Printer.lean + Model/Quoter.lean hand models (format_value / quoter / pp exact-string correspondence each run); Gen/Props, Gen/Shapes, Gen/Vocab regenerated from the schemas and tokens.py",
    "lexical-class theorems are stated with the model's quoter predicates as hypotheses (in_brackets, in_parenthesis, …); strings that merely look like expressions/bindings/regexes at expression-capable keywords are the documented exclusion",
    "COMPOP (takes a string) and GEOMTRANSFORM \"end\" (END is reserved) are quoted on purpose; list-valued keywords with bindings are outside the generated shapes",
]
RULE = ("every (object type, keyword, admissible shape) cell × both quotes through format_value; schema-generated documents printed under the "
        "default and 2 other option sets and compared line by line with an independent expectation; dict-API edit histories "
        "(set/replace/delete keyword, insert/remove/swap child objects, update(), snippet assignment, reads of missing keys); "
        "non-trivial = document with ≥ 3 keywords or an edit history with ≥ 2 edits; distinct by content")


def stripped_lines(text, opts):
    return [l.lstrip(" \t") for l in text.split(opts["newlinechar"])]


def compare_lines(ctx, label, b, d, opts, what):
    real = ppcommon.real_pprint(d, opts)
    q = opts["quote"]
    want = [t for _, t in gen.expected_lines(b, q, opts["end_comment"])]
    rep = {"doc": label, "opts": opts, "source": gen.render(b)[:1500]}
    if "err" in real:
        ctx.violation(f"dumps-raises:{real['err']}", f"{what}: dumps raised {real['err']}", rep)
        return False
    got = stripped_lines(real["ok"], opts)
    if opts["align_values"]:
        # alignment pads with blanks between keyword and value: compare with single blanks
        import re
        got = [re.sub(r"^(\S+) +", r"\1 ", l) if not l.startswith(("'", '"')) else re.sub(r"^((['\"]).*?\2) +", r"\1 ", l) for l in got]
    if got != want:
        i = next((i for i, (a, c) in enumerate(zip(got, want)) if a != c), min(len(got), len(want)))
        rep["got_line"] = got[i] if i < len(got) else None
        rep["want_line"] = want[i] if i < len(want) else None
        key = (rep["want_line"] or rep["got_line"] or "").split(" ")[0].lower()
        ctx.violation(f"line:{b.type}/{key}", f"{what}: printed line differs from what the dictionary says", rep)
        return False
    return True


def gen_docs(ctx, n):
    rng = ctx.rng
    docs = []
    cells = gen.cells()
    # every cell × shape once, then random documents
    todo = [(t, k, sh) for t, k, shs in cells for sh in shs]
    rng.shuffle(todo)
    for t, k, sh in todo[: n // 2]:
        docs.append((f"cell:{t}.{k}:{sh[0]}", gen.gen_block(rng, t, depth=1, max_items=3, want=(k, sh))))
    while len(docs) < n:
        t = rng.choice(["map", "layer", "class", "style", "label"] + gen.BLOCK_TYPES)
        docs.append((f"rnd:{t}", gen.gen_block(rng, t, depth=rng.randint(0, 3), max_items=rng.randint(1, 9))))
    return docs


def loaded(ctx, b):
    try:
        return ppcommon.fast_loads(gen.render(b))
    except Exception:
        ctx.count("generated:unparseable (C19 territory)")
        return None


def printed_docs(ctx, n):
    rng = ctx.rng
    corr = []
    for label, b in gen_docs(ctx, n):
        d = loaded(ctx, b)
        if d is None:
            continue
        if core.canon(gen.plain_dict(d)) != core.canon(gen.expected(b)):
            ctx.count("generated:dict differs from contract (C02 territory)")
            continue
        for opts in [ppcommon.DEFAULT, dict(ppcommon.DEFAULT, quote="'", end_comment=True, indent=2),
                     dict(ppcommon.DEFAULT, align_values=True, spacer="\t", indent=1, newlinechar="\r\n")]:
            if ppcommon.has_quote_conflict(gen.plain_dict(d), opts["quote"]):
                ctx.count("skipped:string contains the output quote (documented exclusion)")
                continue
            ctx.case((label, gen.render(b), opts["quote"], opts["align_values"]), len(b.items) >= 3,
                     sample={"doc": label, "source": gen.render(b)[:300]} if rng.random() < .003 else None)
            for it in b.items:
                if it[0] == "attr":
                    ctx.count("shape:" + it[4])
            compare_lines(ctx, label, b, d, opts, "loaded document")
            corr.append((label, d, opts))
    ppcommon.pp_correspondence(ctx, corr[:3000])


# ---- edit histories ---------------------------------------------------------------------------
def edit_histories(ctx, n):
    import mappyfile
    rng = ctx.rng
    for i in range(n):
        t = rng.choice(["map", "layer", "class"])
        b = gen.gen_block(rng, t, depth=2, max_items=5)
        d = loaded(ctx, b)
        if d is None or core.canon(gen.plain_dict(d)) != core.canon(gen.expected(b)):
            continue
        hist = []
        expect_error = False
        for step in range(rng.randint(1, 6)):
            op = rng.choice(["set", "set", "delete", "append-child", "remove-child", "swap-children", "update", "snippet", "read-missing"])
            # pick a target block (IR block + dict object)
            targets = [(b, d)]
            for it in b.items:
                if it[0] == "block" and it[3]:
                    lst = d[it[1]]
                    kids = [x for x in b.items if x[0] == "block" and x[1] == it[1]]
                    for j, kid in enumerate(kids):
                        targets.append((kid[2], lst[j]))
            tb, td = rng.choice(targets)
            props = gen.raw(tb.type)["properties"]
            if op in ("set", "update", "snippet"):
                cands = [(k, sh) for k in props if k not in gen.SKIP_KEYS for sh in gen.shapes(props[k], k)
                         if sh[0] in ("enum", "string", "int", "number", "bool", "binding", "expression", "regex", "hexcolor", "numlist")]
                k, sh = rng.choice(cands)
                if k in ("config", "projection", "points", "pattern") + gen.REPEATED + gen.KV_BLOCKS:
                    continue
                v = gen.value_for(rng, sh, k)
                if v is None:
                    continue
                val, toks, tag = v
                item = ("attr", k, val, toks, tag)
                existing = [x for x in tb.items if x[0] == "attr" and x[1] == k]
                if any(x[1] == k and x[0] != "attr" for x in tb.items):
                    continue
                if existing:
                    tb.items[tb.items.index(existing[0])] = item
                else:
                    tb.items.append(item)
                if op == "set":
                    td[rng.choice([k, k.upper()])] = copy.deepcopy(val)
                elif op == "update":
                    mappyfile.update(td, {k: copy.deepcopy(val)})
                else:
                    sb = gen.Block(tb.type); sb.items = [item]
                    sn = loaded(ctx, sb)
                    if sn is None or k not in sn:
                        tb.items.remove(item) if not existing else None
                        if existing: tb.items[tb.items.index(item)] = existing[0]
                        continue
                    td[k] = sn[k]
                hist.append((op, tb.type, k, tag))
            elif op == "delete":
                attrs = [x for x in tb.items if x[0] == "attr"]
                if not attrs:
                    continue
                x = rng.choice(attrs)
                tb.items.remove(x)
                if rng.random() < .5:
                    del td[x[1]]
                else:
                    td.pop(x[1].upper())
                hist.append((op, tb.type, x[1]))
            elif op in ("append-child", "remove-child", "swap-children"):
                lists = [(k, sh[1]) for k in props for sh in gen.shapes(props[k], k) if sh[0] == "objlist" and sh[1]]
                if not lists:
                    continue
                k, ct = rng.choice(lists)
                kids = [x for x in tb.items if x[0] == "block" and x[1] == k]
                if op == "append-child":
                    cb = gen.gen_block(rng, ct, depth=0, max_items=3)
                    cd = loaded(ctx, cb)
                    if cd is None or core.canon(gen.plain_dict(cd)) != core.canon(gen.expected(cb)):
                        continue
                    td[k].append(cd)       # auto-creates the list when missing
                    tb.items.append(("block", k, cb, True))
                elif op == "remove-child" and kids:
                    j = rng.randrange(len(kids))
                    del td[k][j]
                    anchor = tb.items.index(kids[0])     # the list key keeps its place in the dictionary whichever child goes
                    tb.items.remove(kids[j])
                    if j == 0 and len(kids) > 1:
                        tb.items.remove(kids[1])
                        tb.items.insert(anchor, kids[1])
                    if not td[k]:
                        del td[k]
                elif op == "swap-children" and len(kids) >= 2:
                    j = rng.randrange(len(kids) - 1)
                    td[k][j], td[k][j + 1] = td[k][j + 1], td[k][j]
                    a, c = tb.items.index(kids[j]), tb.items.index(kids[j + 1])
                    tb.items[a], tb.items[c] = tb.items[c], tb.items[a]
                else:
                    continue
                hist.append((op, tb.type, k))
            elif op == "read-missing":
                missing = [k for k in props if k not in gen.SKIP_KEYS and k not in td and
                           all(sh[0] in ("enum", "string", "int", "number", "bool") for sh in gen.shapes(props[k], k)) and gen.shapes(props[k], k)]
                if not missing:
                    continue
                k = rng.choice(missing)
                _ = td[k]            # a read of a missing keyword on an auto-creating Mapfile dict
                expect_error = True
                hist.append((op, tb.type, k))
                break
        if not hist:
            continue
        ctx.case(("hist", gen.render(b), json.dumps(hist)), len(hist) >= 2, sample={"history": hist} if rng.random() < .01 else None)
        for h in hist:
            ctx.count("edit:" + h[0])
        opts = rng.choice([ppcommon.DEFAULT, dict(ppcommon.DEFAULT, quote="'")])
        if ppcommon.has_quote_conflict(gen.plain_dict(d), opts["quote"]):
            continue
        if expect_error:
            real = ppcommon.real_pprint(d, opts)
            if real.get("err") != "ValueError":
                ctx.violation("empty-dict-written", "a dictionary holding an empty auto-created dict was written instead of refused",
                              {"history": hist, "output": str(real)[:600]})
        else:
            compare_lines(ctx, "edited", b, d, opts, f"after edits {hist}")


def format_value_corr(ctx):
    """format_value: every cell × shape × a few values × both quotes, model vs real"""
    from mappyfile.pprint import PrettyPrinter
    rng = ctx.rng
    reqs, reals = [], []
    pps = {q: PrettyPrinter(quote=q) for q in ('"', "'")}
    extra = ["(a b)", "[x]", "{a,b}", "/re/", "/re/i", "NOT (x)", "'q'i", "\"q\"i", " lead", "end", "it's", 'say "hi"', "", "auto", "#ffeedd", "\\", "a\\'b", "( [a] > 1 )"]
    for t, k, shs in gen.cells():
        vals = []
        for sh in shs:
            for _ in range(2):
                v = gen.value_for(rng, sh, k)
                if v is not None:
                    vals.append(v[0])
        vals += rng.sample(extra, 5) + [rng.choice([3, 2.5, True, [1, 2], ["a", 1.5], None, {}])]
        for q in ('"', "'"):
            props = pps[q].get_attribute_properties(t, k)
            for v in vals:
                try:
                    out = pps[q].format_value(k, props, copy.deepcopy(v))
                    real = {"ok": out if isinstance(out, str) else str(out)}
                except Exception as ex:
                    real = {"err": type(ex).__name__}
                if not ppcommon.ascii_lower_ok({"v": v}):
                    continue
                reqs.append({"op": "format_value", "type": t, "attr": k, "quote": q, "value": core.enc(v)})
                reals.append((t, k, q, v, real))
    ans = core.lean_call(reqs)
    for (t, k, q, v, real), a in zip(reals, ans):
        ctx.evaluations += 1
        if a.get("err") == "UNSUPPORTED":
            ctx.count("format_value:model-unsupported"); continue
        if a == real:
            ctx.corr_ok("format_value")
        else:
            ctx.corr_diff("format_value", {"type": t, "attr": k, "quote": q, "value": core.enc(v)}, a, real)


def quoter_corr(ctx):
    from mappyfile.quoter import Quoter
    rng = ctx.rng
    alphabet = ['"', "'", "\\", "/", "(", ")", "[", "]", "{", "}", " ", "a", "i", "\t"]
    strings = [""]
    import itertools
    for n in (1, 2, 3):
        strings += ["".join(p) for p in itertools.product(alphabet[:9] + ["a", "i"], repeat=n)] if n < 3 else ["".join(rng.choice(alphabet) for _ in range(rng.randint(3, 8))) for _ in range(1500)]
    fns = ["add_quotes", "add_altquotes", "in_quotes", "escape_quotes", "remove_quotes", "in_brackets", "in_parenthesis", "in_braces", "in_slashes", "standardise_quotes"]
    reqs, reals = [], []
    for q in ('"', "'"):
        Q = Quoter(q)
        for s in strings:
            for fn in fns:
                reqs.append({"op": "quoter", "fn": fn, "quote": q, "s": s})
                reals.append(getattr(Q, fn)(s))
    ans = core.lean_call(reqs)
    for r, real, a in zip(reqs, reals, ans):
        ctx.evaluations += 1
        if a == real:
            ctx.corr_ok("quoter")
        else:
            ctx.corr_diff("quoter", r, a, real)


def hidden_keys_oracle(ctx, n):
    """keys of the form __name__ are never printed: injecting them anywhere changes nothing"""
    rng = ctx.rng
    for i in range(n):
        b = gen.gen_block(rng, rng.choice(["map", "layer", "class"]), depth=2, max_items=5)
        d = loaded(ctx, b)
        if d is None:
            continue
        base = ppcommon.real_pprint(d, ppcommon.DEFAULT)
        d2 = copy.deepcopy(d)
        def inject(x):
            if isinstance(x, dict):
                for v in list(x.values()):
                    inject(v)
                if "__type__" in x:
                    x[rng.choice(["__position__", "__foo__", "__x__"])] = rng.choice([{"line": 1, "column": 2}, "text", 5, ["a"]])
            elif isinstance(x, list):
                for v in x:
                    inject(v)
        inject(d2)
        ctx.case(("hidden", gen.render(b)), True)
        out = ppcommon.real_pprint(d2, ppcommon.DEFAULT)
        if out != base:
            ctx.violation("hidden-key-printed", "adding hidden __name__ keys changed the printed text", {"source": gen.render(b)[:800], "with_hidden": str(out)[:800]})


def focused_search(ctx):
    """a broken format_value correspondence names cells: print documents that hold the same keyword in two object types
    (both orders, as a list of roots and nested where the schema allows) and compare with the independent expectation"""
    rng = ctx.rng
    cells = {(b["case"]["type"], b["case"]["attr"]) for b in ctx.broken if b.get("op") == "format_value" and isinstance(b.get("case"), dict)}
    by_attr = {}
    for t, k, shs in gen.cells():
        by_attr.setdefault(k, []).append((t, shs))
    for t, k in sorted(cells)[:40]:
        others = [(t2, shs) for t2, shs in by_attr.get(k, []) if t2 != t]
        mine = [shs for t2, shs in by_attr.get(k, []) if t2 == t]
        if not mine:
            continue
        for t2, shs2 in others[:6]:
            for sh1 in mine[0]:
                for sh2 in shs2:
                    for order in (0, 1):
                        b1 = gen.gen_block(rng, t, depth=0, max_items=1, want=(k, sh1))
                        b2 = gen.gen_block(rng, t2, depth=0, max_items=1, want=(k, sh2))
                        pair = [b1, b2] if order == 0 else [b2, b1]
                        ds = [loaded(ctx, x) for x in pair]
                        if any(d is None for d in ds):
                            continue
                        real = ppcommon.real_pprint(ds, ppcommon.DEFAULT, fresh=True)
                        want = [tx for x in pair for _, tx in gen.expected_lines(x, '"')]
                        ctx.case(("focus", gen.render(pair[0]), gen.render(pair[1])), True)
                        if "err" in real or stripped_lines(real["ok"], ppcommon.DEFAULT) != want:
                            ctx.violation(f"line:{t}/{k}", "two objects printed in one call: a printed line differs from what the dictionaries say",
                                          {"sources": [gen.render(x) for x in pair], "output": str(real)[:1200], "want": want})
                            return


def explore(ctx, scale=1.0):
    printed_docs(ctx, int((6000 if ctx.thorough else 900) * scale))
    edit_histories(ctx, int((5000 if ctx.thorough else 400) * scale))
    hidden_keys_oracle(ctx, int((500 if ctx.thorough else 60) * scale))
    format_value_corr(ctx)
    quoter_corr(ctx)


def main(ctx):
    if ctx.replay:
        print(open(ctx.replay).read()[:4000]); return
    core.proof_leg(ctx, ["Mappy.Props.C03"])
    explore(ctx)
    def search(c):
        focused_search(c)
        if not c.violations:
            explore(c, scale=2.0)
    core.finish(ctx, LEVEL_NOTE, RULE, search=search)
