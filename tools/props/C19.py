"""C19 — grammar, keyword tables and schemas describe one vocabulary.
proof leg: Mappy.Props.C19 (`decide +kernel` obligations over the regenerated tables: every block type has a schema and a printer
           table; singleton / plural slots agree between transformer vocabulary, auto-creating dict and every parent schema, with the
           exception list pinned; every schema keyword is found by the printer look-up; every declared default is valid for its own
           keyword, exception pinned; every symbol.json keyword may follow SYMBOL) + C11_roots_accepted.
oracle / exhaustive enumeration on the real code: every (object type, keyword, position first/middle/last, admissible value shape):
        loads gives the documented dictionary, dumps prints the keyword, the output reloads to the same dictionary, validate has no
        message about the keyword; every block type and key/value block printed and re-parsed at the root; create(type, version) for
        every type × version prints, reloads and validates apart from missing required keywords."""
from __future__ import annotations
import copy, json
from vlib import core, gen, trees

LEVEL_NOTE = [
    "Lean 4.33 kernel; axioms ⊆ {propext, Classical.choice, Quot.sound} (audited each run)",
    "the obligations quantify over finite generated tables (Gen/*.lean, regenerated from /repo on every run) and are discharged by `decide +kernel`; the exception lists inside the theorems are the known findings — a new inconsistency breaks the obligation",
    "C19_defaults_valid uses the Draft-4 subset semantics of Model/Schema.lean (tied to jsonschema by C07's `errs` correspondence)",
    "the enumeration over (type, keyword, position, shape) is execution of the real code, not kernel-checked: it is exhaustive over the finite product the property names",
    "value representatives are drawn from the schema (enum words, ranges, lengths respected); a cell passes when some representative of the shape passes every step",
]
RULE = ("the finite product object type × schema keyword × position {first, middle, last} × admissible value shape (≈1,700 minimal documents), up to 4 value representatives each; "
        "every block type / key-value block at the root; create(type, version) for 19 types × 6 versions; non-trivial = every document; distinct by (type, keyword, position, shape)")

VERSIONS = [None, 5.0, 6.0, 7.6, 8.0, 8.2]


def fit(node, val):
    """push a generated scalar into the range / length the schema asks for"""
    node, _ = gen.deref(node)
    alts = [node] + [gen.deref(a)[0] for k in ("oneOf", "anyOf", "allOf") for a in (node.get(k) or [])]
    if isinstance(val, bool):
        return val
    if isinstance(val, (int, float)):
        for a in alts:
            if isinstance(a, dict):
                lo, hi = a.get("minimum"), a.get("maximum")
                if lo is not None and val < lo:
                    val = lo
                if hi is not None and val > hi:
                    val = hi
        return val
    if isinstance(val, str):
        for a in alts:
            if isinstance(a, dict) and a.get("type") == "string" and "maxLength" in a and "pattern" not in a:
                return val[:a["maxLength"]]
    return val


def build(rng, t, k, sh, pos):
    props = gen.raw(t)["properties"]
    b = gen.Block(t)
    gen.add_item(rng, b, k, sh, 1)
    if not b.items:
        return None
    main = []
    for it in b.items:
        if it[0] == "attr":
            v = fit(props[k], it[2])
            if v != it[2]:
                it = ("attr", it[1], v, [(repr(v) if not isinstance(v, str) else v, it[3][0][1])], it[4])
        main.append(it)
    others = []
    prefer = [x for x in ("name", "status", "debug", "template", "minscaledenom", "type", "group") if x in props and x != k]
    # at least two neighbours, so that "middle" really has a keyword on both sides: fall back to any other simple keyword of the type
    extra = [x for x in sorted(props) if x not in prefer and x != k and not x.startswith("__") and x not in ("include", "config", "points", "pattern", "projection") and x not in gen.BLOCK_TYPES
             and any(s0[0] in ("enum", "int", "number", "bool", "string", "intlit") for s0 in gen.shapes(props[x], x))]
    extra += [x for x in sorted(props) if x not in prefer and x not in extra and x != k and x not in gen.BLOCK_TYPES
              and any(s0[0] == "numlist" for s0 in gen.shapes(props[x], x))]
    for kk in (prefer + extra)[:2]:
        shs2 = [s for s in gen.shapes(props[kk], kk) if s[0] not in ("objlist", "object", "kv", "points", "expression", "regex", "binding", "pattern", "?", "array?", "strlist")]
        if shs2:
            bb = gen.Block(t)
            gen.add_item(rng, bb, kk, shs2[0], 0)
            others += bb.items
    b.items = main + others if pos == "first" else others + main if pos == "last" else others[:1] + main + others[1:]
    return b


def steps(text, want, t, k, P, V):
    """None when every step passes, else (step, detail)"""
    import mappyfile
    from mappyfile.transformer import MapfileToDict
    try:
        d = MapfileToDict().transform(P.parse(text))
    except Exception as ex:
        return ("parse", type(ex).__name__)
    if core.canon(gen.plain_dict(d)) != core.canon(want):
        return ("contract", "loads differs from the documented dictionary")
    try:
        out = mappyfile.dumps(d)
    except Exception as ex:
        return ("print", type(ex).__name__)
    if k is not None and not any(l.strip().upper().startswith(k.upper()) for l in out.split("\n")):
        return ("print", "keyword not printed")
    try:
        d2 = MapfileToDict().transform(P.parse(out))
    except Exception as ex:
        return ("reload", type(ex).__name__)
    if core.canon(gen.plain_dict(d2)) != core.canon(gen.plain_dict(d)):
        return ("reload", "content differs")
    if isinstance(d, dict) and t is not None:
        msgs = V.validate(d, schema_name=t)
        about = [m for m in msgs if "required" not in m["error"] and (k is None or m["message"].endswith(" " + k.upper()) or f"'{k}'" in m["error"])]
        if about:
            return ("validate", about[0]["error"][:80])
    return None


def explore(ctx, scale=1.0):
    import mappyfile
    from mappyfile.validator import Validator
    from mappyfile.transformer import MapfileToDict
    rng = ctx.rng
    P = trees.parser(False, True)
    V = Validator()
    # ---------------- every cell × position × shape ----------------
    for t, k, shs in gen.cells():
        for sh in shs:
            if sh[0] in ("objlist", "object"):
                continue
            for pos in ("first", "middle", "last"):
                last = None
                tried = 0
                for attempt in range(4):
                    b = build(rng, t, k, sh, pos)
                    if b is None:
                        break
                    tried += 1
                    text = gen.render(b)
                    last = (steps(text, gen.expected(b), t, k, P, V), text)
                    if last[0] is None:
                        break
                if not tried:
                    ctx.count("cell:no representative (nested object shapes are covered below)")
                    continue
                ctx.case(("cell", t, k, sh[0], pos), True, sample={"text": last[1][:120]} if rng.random() < .002 else None)
                ctx.count(f"cell-shape:{sh[0]}"); ctx.count(f"position:{pos}")
                if last[0] is not None:
                    step, detail = last[0]
                    ctx.violation((f"cell:{t}/{k}/{pos}" + (f":{sh[1]}" if sh[0] == "enum" else "")) if step == "parse" else f"cell:{t}/{k}/{step}",
                                  f"{t.upper()} {k.upper()} ({sh[0]}, {pos} keyword): {step} — {detail}", {"type": t, "keyword": k, "shape": sh[0], "position": pos, "text": last[1]})
    # ---------------- nested object types in every parent context ----------------
    for t in gen.object_types():
        for k, p in gen.raw(t)["properties"].items():
            for sh in gen.shapes(p, k):
                if sh[0] in ("objlist", "object") and sh[1]:
                    if (t, k) in (("class", "symbol"), ("style", "symbol")):
                        continue        # the inline SYMBOL: checked on its own below (stored under `symbols`)
                    b = gen.Block(t)
                    child = gen.gen_block(rng, sh[1], depth=0, max_items=2)
                    if sh[1] == "querymap":     # the recorded STYLE NORMAL ambiguity belongs to the cell enumeration (see the root clause)
                        child.items = [it for it in child.items if not (it[0] == "attr" and it[1] == "style")]
                    b.items.append(("block", k, child, sh[0] == "objlist"))
                    text = gen.render(b)
                    r = steps(text, gen.expected(b), t, None, P, V)
                    ctx.case(("nested", t, k), True); ctx.count("nested-context")
                    if r is not None:
                        ctx.violation(f"nested:{t}/{k}/{r[0]}", f"{sh[1].upper()} inside {t.upper()} under `{k}`: {r[0]} — {r[1]}", {"parent": t, "key": k, "text": text})
    # ---------------- every cell as first (thorough: also last) keyword of its block INSIDE every parent context ----------------
    # (at the root the opener can only be a block; inside a parent `TYPE keyword …` may also be read as a keyword of the parent
    #  followed by a new block, so the first keyword of a nested block is where the keyword tables matter)
    contexts = {}
    for pt in gen.object_types():
        for pk, pp in gen.raw(pt)["properties"].items():
            for sh in gen.shapes(pp, pk):
                if sh[0] in ("objlist", "object") and sh[1] and (pt, pk) not in (("class", "symbol"), ("style", "symbol")):
                    contexts.setdefault(sh[1], []).append((pt, pk, sh[0] == "objlist"))
    for t, k, shs in gen.cells():
        for sh in shs:
            if sh[0] in ("objlist", "object"):
                continue
            for pt, pk, is_list in contexts.get(t, []):
                for pos in (("first", "last") if ctx.thorough else ("first",)):
                    last = None
                    for attempt in range(3):
                        b = build(rng, t, k, sh, pos)
                        if b is None:
                            break
                        parent = gen.Block(pt)
                        parent.items.append(("block", pk, b, is_list))
                        text = gen.render(parent)
                        last = (steps(text, gen.expected(parent), None, k, P, V), text)
                        if last[0] is None:
                            break
                    if last is None:
                        continue
                    ctx.case(("nested-cell", pt, t, k, sh[0], pos), True); ctx.count(f"nested-cell:{pos}")
                    if last[0] is not None:
                        step, detail = last[0]
                        ctx.violation((f"nested-{pos}:{pt}/{t}/{k}" + (f":{sh[1]}" if sh[0] == "enum" else "")) if step == "parse" else f"nested-cell:{pt}/{t}/{k}/{step}",
                                      f"{t.upper()} {k.upper()} ({sh[0]}) as {pos} keyword of a {t.upper()} inside {pt.upper()}: {step} — {detail}",
                                      {"parent": pt, "type": t, "keyword": k, "shape": sh[0], "position": pos, "text": last[1]})
    # the inline SYMBOL of a STYLE / CLASS: stored under `symbols`, which the parent schema does not know
    for parent in ("style", "class"):
        text = f'{parent.upper()}\n  SYMBOL\n    TYPE ELLIPSE\n    NAME "x"\n  END\nEND'
        d = MapfileToDict().transform(P.parse(text))
        msgs = V.validate(d, schema_name=parent)
        ctx.case(("inline-symbol", parent), True); ctx.count("inline-symbol")
        if msgs:
            ctx.violation(f"parent-schema:{parent}/symbol", f"an inline SYMBOL block in {parent.upper()} is stored under `symbols`, which {parent}.json rejects: {msgs[0]['error'][:80]}", {"text": text})
    # ---------------- the root ----------------
    for t in gen.BLOCK_TYPES + ["metadata", "validation", "connectionoptions", "symbolset"]:
        if t in ("metadata", "validation", "connectionoptions"):
            text = f'{t.upper()}\n  "FLATTEN_NESTED" "YES"\n  "native_data" "a b"\nEND'
        elif t == "symbolset":
            text = 'SYMBOLSET\n  SYMBOL\n    NAME "a"\n    TYPE ELLIPSE\n  END\nEND'
        else:
            b = gen.gen_block(rng, t, depth=0, max_items=2)
            # the root clause is about the block type; the recorded keyword ambiguity (QUERYMAP STYLE NORMAL followed by another
            # keyword, cell:querymap/style/*:normal) belongs to the cell enumeration above and is kept out of this document
            if t == "querymap":
                b.items = [it for it in b.items if not (it[0] == "attr" and it[1] == "style")]
            text = gen.render(b)
        ctx.case(("root", t), True); ctx.count("root")
        try:
            d = mappyfile.loads(text)
            out = mappyfile.dumps(d)
            d2 = mappyfile.loads(out)
            ok = core.canon(gen.plain_dict(d)) == core.canon(gen.plain_dict(d2)) and d.get("__type__") == t
            why = "reload differs" if not ok else ""
        except Exception as ex:
            ok, why = False, type(ex).__name__
        if not ok:
            ctx.violation(f"root:{t}", f"{t.upper()} cannot be parsed, printed and re-parsed at the root ({why})", {"text": text})
    # empty POINTS / PATTERN blocks
    for text, sig in (("FEATURE\n  POINTS\n  END\nEND", "empty:points"), ("STYLE\n  PATTERN\n  END\nEND", "empty:pattern")):
        ctx.case(("empty", sig), True)
        try:
            mappyfile.loads(text)
        except Exception as ex:
            ctx.violation(sig, f"an empty {sig.split(':')[1].upper()} block raises {type(ex).__name__}", {"text": text})
    # ---------------- create(type, version) ----------------
    from props import C09
    creqs, ckeep = [], []
    for t in gen.BLOCK_TYPES:
        for v in VERSIONS + [4.0, 5.2, 5.4, 5.6, 6.2, 6.4, 7.0, 7.2, 7.601, 8.4]:
            try:
                real = {"ok": core.enc(dict(mappyfile.create(t, v)))}
            except Exception as ex:
                real = {"err": type(ex).__name__}
            creqs.append({"op": "create", "fuel": 40, "type": t, "ver": C09.wire_ver(v)}); ckeep.append((t, v, real))
    try:
        for (t, v, real), ans in zip(ckeep, core.lean_call(creqs)):
            if ans == real:
                ctx.corr_ok("create")
            else:
                ctx.corr_diff("create", {"type": t, "version": v}, json.dumps(ans)[:400], json.dumps(real)[:400])
    except Exception as ex:
        ctx.broken.append({"kind": "driver", "detail": str(ex)[:300]})
    # create is a function of (type, version): what a caller does to one created object (editing a list-valued default in place)
    # must not show in the next one
    for t in gen.BLOCK_TYPES:
        for v in (None, 7.6):
            try:
                first = mappyfile.create(t, v)
                snap = json.dumps(core.enc(dict(first)))
                for k, val in list(first.items()):
                    if isinstance(val, list):
                        val.append(99999); val[0] = "edited"
                    elif isinstance(val, dict):
                        val["edited"] = 1
                again = json.dumps(core.enc(dict(mappyfile.create(t, v))))
            except Exception as ex:
                ctx.violation(f"create-raises:{t}", f"create({t!r}, {v}) raises {type(ex).__name__}", {"type": t, "version": v}); continue
            ctx.case(("create-history", t, v), True); ctx.count("create-history")
            if again != snap:
                ctx.violation(f"create-history:{t}", f"create({t!r}, {v}) returns other defaults after a caller edited an earlier created object in place", {"type": t, "version": v, "first": snap[:400], "again": again[:400]})
    for t in gen.BLOCK_TYPES:
        for v in VERSIONS:
            ctx.case(("create", t, v), True); ctx.count("create")
            try:
                d = mappyfile.create(t, v)
                out = mappyfile.dumps(d)
                d2 = mappyfile.loads(out)
                msgs = V.validate(d2, schema_name=t, version=v)
                bad = [m for m in msgs if "required" not in m["error"]]
                why = bad[0]["message"] + " — " + bad[0]["error"][:60] if bad else ""
                bad_key = bad[0]["message"].rsplit(" ", 1)[-1].lower() if bad else ""
            except Exception as ex:
                why, bad_key = type(ex).__name__, "raises"
            if why:
                ctx.violation(f"default:{t}/{bad_key}", f"create({t!r}, {v}) does not print / reload / validate: {why}", {"type": t, "version": v})


def main(ctx):
    if ctx.replay:
        print(open(ctx.replay).read()[:4000]); return
    core.proof_leg(ctx, ["Mappy.Props.C19", "Mappy.Props.C19Create", "Mappy.Props.C19CreateAll"])
    explore(ctx)
    core.finish(ctx, LEVEL_NOTE, RULE, search=lambda c: explore(c, scale=1.0))
