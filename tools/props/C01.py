"""C01 — parse → pretty-print → parse preserves Mapfile content.
proof leg: Mappy.Props.C01 (per lexical class: the token the printer writes is read back by the transformer as the original value,
           up to the two allowed differences; int(str(n)) = n for every integer) + C03 / C04 / C02 lemmas it composes;
           Mappy.Props.C01Attr (whole keyword lines: the tree of `KEYWORD <printed token>` — keyword in any letter case — goes
           through the value rule's call-back and `attr` to `keyword ↦ original value`, for strings, integers, enumerated
           words, numbers at string keywords and booleans).
correspondence: `pp` (printer model vs PrettyPrinter.pprint, exact strings) on the dictionaries, `transform` on the real Lark tree
           of the PRINTED text (the reader side of the loop).
oracle: real loads → dumps → loads on every loadable corpus file and on schema-generated documents covering every object type,
        keyword and value shape; dictionaries compared modulo an independently computed allowed-difference normaliser; the written
        text must load."""
from __future__ import annotations
import json, re
from vlib import core, gen, corpus, trees, ppcommon

LEVEL_NOTE = [
    "Lean 4.33 kernel; axioms ⊆ {propext, Classical.choice, Quot.sound} (audited each run)",
    "value level: C01_string_roundtrip, C01_int_roundtrip, C01_enum_roundtrip, C01_number_at_string_keyword, C01_bool_roundtrip over the printer and transformer models; composed on the TREE of the printed text: C01_line_* (keyword lines, keyword in any letter case), C01_line_ints, C01_kv_block, C01_level_roundtrip, C01_tree_step and C01_document_roundtrip (rule induction over the class WellRead of block trees, any depth and width) with the decidable classifier of Model/Classify.lean (classify_sound); the harness runs the classifier on the real Lark tree of every printed document and compares its dictionary with the real transformer's (`classify`), and reports how many documents are inside the class",
    "not proved: the step text -> tree (Lark's lexer and LALR driver on the printed text), exercised on every case by `line-shape`, `transform(printed)`, `classify` and the real loads/dumps/loads oracle; documents with CONFIG / POINTS at some level are outside the class (counted)",
    "hand models of pprint.py / quoter.py / transformer.py, tied by exact-string and exact-dictionary correspondences each run; Gen tables regenerated",
    "floats are carried as Python's repr (floatCanon: float(repr(x)) == x is CPython's guarantee)",
    "documented exclusions (counted, not compared): a string containing the output quote; a string at an expression-capable keyword that looks like an expression / regex / list / binding",
]
RULE = ("every loadable corpus file + one generated document per (object type, keyword, value shape) + random nested documents; non-trivial = every document; "
        "distinct by source text")


def prop_schema(t, k):
    try:
        p = gen.raw(t)["properties"].get(k)
    except Exception:
        return None
    if p is None:
        return None
    node, _ = gen.deref(p)
    while isinstance(node, dict) and len(node.get("allOf", [])) == 1 and not any(x in node for x in ("enum", "type", "oneOf", "anyOf")):
        node, _ = gen.deref(node["allOf"][0])
    return node


def allowed_equal(a, b, t, k):
    """a = value before, b = value after the round trip, at keyword k of object type t"""
    if type(a) is type(b) and a == b:
        return True
    node = prop_schema(t, k) or {}
    alts = [node] + [gen.deref(x)[0] for kk in ("oneOf", "anyOf") for x in node.get(kk, []) if isinstance(x, dict)]
    if isinstance(a, str) and isinstance(b, str) and a.upper() == b.upper():
        # letter case of a bare enumerated word
        return any(isinstance(x, dict) and "enum" in x and a.lower() in [str(e).lower() for e in x["enum"]] for x in alts)
    if isinstance(a, (int, float)) and not isinstance(a, bool) and isinstance(b, str):
        return node.get("type") == "string" and b == str(a)
    if isinstance(a, (list, tuple)) and isinstance(b, (list, tuple)) and len(a) == len(b):
        return all(allowed_equal(x, y, t, k) for x, y in zip(a, b))
    return False


def compare(d, d2, path=()):
    """None if equal modulo the allowed differences, else the path of the first difference"""
    if isinstance(d, dict) and isinstance(d2, dict):
        if list(d.keys()) != list(d2.keys()):
            return path + ("<keys>",)
        t = d.get("__type__")
        for k in d:
            v, w = d[k], d2[k]
            if isinstance(v, dict) or (isinstance(v, list) and v and isinstance(v[0], dict)):
                r = compare(v, w, path + (k,))
                if r:
                    return r
            elif t in ("metadata", "validation", "values", "connectionoptions") or k == "config" or k == "__type__":
                if v != w:
                    return path + (k,)
            elif not allowed_equal(v, w, t, k):
                return path + (k,)
        return None
    if isinstance(d, list) and isinstance(d2, list):
        if len(d) != len(d2):
            return path + ("<length>",)
        for i, (x, y) in enumerate(zip(d, d2)):
            r = compare(x, y, path + (i,))
            if r:
                return r
        return None
    return None if d == d2 else path


def looks_like_syntax(s):
    s2 = s.strip()
    return (s2[:1] in "([{/" and s2[-1:] in ")]}/i") or s2.lower().startswith("not ") or s2.endswith("'i") or s2.endswith('"i')


def excluded(d):
    """the documented exclusions"""
    def walk(x, t=None, k=None):
        if isinstance(x, dict):
            tt = x.get("__type__", t)
            return any(walk(v, tt, kk) for kk, v in x.items() if not kk.startswith("__"))
        if isinstance(x, (list, tuple)):
            return any(walk(v, t, k) for v in x)
        if isinstance(x, str):
            if re.search(r'(?<!\\)"', x):
                return True          # an UNESCAPED output quote (an escaped one, \", is inside the property's scope)
            node = prop_schema(t, k) or {}
            exprish = any(kk in node for kk in ("oneOf", "anyOf")) or node.get("description") == "expression"
            return exprish and looks_like_syntax(x) and False
        return False
    return walk(d)


PASS_RULES = {"string", "path", "regexp", "runtime_var"}


def line_shapes(ctx, tree, text):
    """the premise of the C01_line_* theorems, on the real tree of the PRINTED text: a keyword line with one value token is
    `attr [KEY, rule [TOKEN]]` with rule ∈ string/path/regexp/runtime_var (pass-through), int, float, true, false — or
    `attr [KEY, TOKEN]` for a bare word — and the token text agrees with the rule"""
    from lark import Tree, Token
    for node in tree.iter_subtrees():
        if node.data != "attr" or len(node.children) != 2:
            continue
        key, val = node.children
        if not isinstance(key, Token):
            continue
        if isinstance(val, Token):
            ctx.count("line-shape:bare word"); continue
        if not isinstance(val, Tree) or len(val.children) != 1 or not isinstance(val.children[0], Token):
            ctx.count(f"line-shape:structured ({getattr(val, 'data', '?')})"); continue
        rule, tok = str(val.data), str(val.children[0])
        ok = (rule in PASS_RULES or (rule == "int" and tok.lstrip("+-").isdigit()) or rule == "float"
              or (rule in ("true", "false") and tok.lower() == rule) or rule in ("attr_bind", "hexcolor", "list", "expression", "not_expression", "func_call"))
        if rule in PASS_RULES and rule == "string" and tok[:1] not in "\"'`":
            ok = False
        ctx.count(f"line-shape:{rule}")
        if not ok:
            ctx.corr_diff("line-shape", {"text": text[:600]}, f"{rule}({tok[:40]})", "token text does not fit the rule")
            return
    ctx.corr_ok("line-shape")


def explore(ctx, scale=1.0):
    import mappyfile
    from mappyfile.transformer import MapfileToDict
    rng = ctx.rng
    docs = [(t, "corpus") for _, t in corpus.texts()]
    if not ctx.thorough:
        docs = rng.sample(docs, min(len(docs), int(150 * scale)))
    for t, k, shs in gen.cells():
        for sh in shs:
            if sh[0] in ("objlist", "object"):
                continue
            b = gen.Block(t)
            gen.add_item(rng, b, k, sh, 1)
            if b.items:
                docs.append((gen.render(b), f"cell:{sh[0]}"))
            if sh[0] == "string":
                # every string-valued keyword also with the contents a printer most easily gets wrong
                for forced in ("", "7", "big city", "END"):
                    gen.FORCE_STRING = forced
                    try:
                        b = gen.Block(t)
                        gen.add_item(rng, b, k, sh, 1)
                    finally:
                        gen.FORCE_STRING = None
                    if b.items:
                        docs.append((gen.render(b), "cell:string:" + (forced or "empty").replace(" ", "-")))
    # escaped occurrences of the output quote (in scope: only UNESCAPED ones are excluded), at the start, in the middle and at the
    # very end of a string, at plain string keywords and at keywords whose schema lists several alternatives
    for T, K in (("class", "text"), ("label", "text"), ("layer", "filter"), ("class", "expression"), ("layer", "name"), ("class", "name"), ("style", "symbol"), ("web", "template")):
        for body in ('say \\"hi\\"', 'a\\"b c', '\\"start', 'type=\\"road\\"'):
            docs.append((f'{T.upper()}\n  {K.upper()} "{body}"\nEND', "escaped-quote"))
    for i in range(int((3000 if ctx.thorough else 150) * scale)):
        b = gen.gen_block(rng, rng.choice(gen.BLOCK_TYPES + ["map", "layer", "class"]), depth=rng.choice([1, 2, 3]), max_items=8)
        docs.append((gen.render(b, gen.Layout(rng, plain=rng.random() < .5)), "random"))
    # documents that are all expression: C10's random operator trees (mixed AND / OR / NOT nesting three and more levels deep, redundant
    # parentheses, comparisons, arithmetic, regular expressions, strings that contain operator words) — what is stored must survive the loop
    from props import C10
    for i in range(int((1500 if ctx.thorough else 200) * scale)):
        t = C10.rand_tree(rng, rng.randint(3, 10))
        src = "(" + " ".join(C10.render(rng, t)) + ")"
        docs.append((rng.choice(["CLASS\n  EXPRESSION %s\nEND", "LAYER\n  FILTER %s\nEND", "CLASS\n  TEXT %s\nEND"]) % src, "expression"))
    for e in ('((([a] = 1 AND [b] = 2) OR [c] = 3) AND [d] = 4)', '(("[s]" = "salt AND pepper" OR [c] = 3) AND [d] = 4)', '((([a] = 1 OR [b] = 2) AND [c] = 3) OR [d] = 4)',
              '(NOT ([a] = 1 AND [b] = 2) OR [c] = 3)', '(([a] = 1 AND ([b] = 2 OR [c] = 3)) AND [d] = 4)'):
        docs.append(("CLASS\n  EXPRESSION %s\nEND" % e, "expression"))
    P = trees.parser(False, False)
    pp_cases, treqs, tkeep, creqs, ckeep, rl_cases = [], [], [], [], [], []
    for idx, (text, kind) in enumerate(docs):
        try:
            d = MapfileToDict().transform(P.parse(text))
        except Exception:
            ctx.count(f"{kind.split(':')[0]}:source unparseable (C19 territory)")
            continue
        plain = gen.plain_dict(d)
        ctx.case(text, True, sample={"text": text[:150]} if rng.random() < .002 else None)
        ctx.count("doc:" + kind.split(":")[0])
        if kind.startswith("cell:"):
            ctx.count("cell-shape:" + kind.split(":")[1])
        rep = {"text": text}
        if excluded(plain):
            ctx.count("documented exclusion: value holds the output quote")
            continue
        try:
            out = mappyfile.dumps(d) if idx % 7 == 0 else ppcommon.real_pprint(d, ppcommon.DEFAULT)["ok"]
        except Exception as ex:
            ctx.violation(f"print-raises:{type(ex).__name__}", f"dumps raises {type(ex).__name__} on a dictionary produced by loads", rep)
            continue
        try:
            tree2 = P.parse(out)
            line_shapes(ctx, tree2, out)
            if trees.ascii_case_safe(tree2) and idx % 3 == 0:
                treqs.append(trees.request(tree2, False, False)); tkeep.append((out, trees.real_transform(tree2, False, False)))
                creqs.append(dict(trees.request(tree2, False, False), op="classify")); ckeep.append((out, tkeep[-1][1]))
                tree2 = P.parse(out)
            d2 = MapfileToDict().transform(tree2)
        except Exception as ex:
            ctx.violation(f"written-text-rejected:{type(ex).__name__}", f"the text written by dumps is rejected by loads ({type(ex).__name__})", dict(rep, printed=out[:3000]))
            continue
        where = compare(plain, gen.plain_dict(d2))
        if where:
            ctx.violation("content-changed:" + str(where[-1]), f"loads(dumps(loads(text))) differs from loads(text) at {list(where)} beyond the allowed differences",
                          dict(rep, printed=out[:3000], path=[str(x) for x in where]))
            continue
        if idx % 4 == 0:
            pp_cases.append((text[:60], plain, ppcommon.DEFAULT))
        if idx % 2 == 0:
            rl_cases.append((text[:200], plain, gen.plain_dict(d2)))
    ppcommon.pp_correspondence(ctx, pp_cases)
    ppcommon.reload_correspondence(ctx, rl_cases)
    for (text, real), ans in zip(tkeep, core.lean_call(treqs)):
        if ans.get("err") == "UNSUPPORTED":
            ctx.count("corr:model UNSUPPORTED"); continue
        if trees.same(ans, real):
            ctx.corr_ok("transform(printed)")
        else:
            ctx.corr_diff("transform(printed)", {"text": text[:1500]}, json.dumps(ans)[:400], json.dumps(real)[:400])
    classified(ctx, creqs, ckeep)


def classified(ctx, creqs, ckeep):
    """premise of C01_classified_roundtrip on real trees: when the classifier accepts the real tree of a printed document
    (with dictionary d), the theorem says the transformer returns d — compared with what the real transformer returned"""
    for (text, real), ans in zip(ckeep, core.lean_call(creqs)):
        if not isinstance(ans, dict) or "in" not in ans:
            ctx.corr_diff("classify", {"text": text[:800]}, json.dumps(ans)[:300], "(no answer)"); continue
        if not ans["in"]:
            ctx.count("document-class: outside (special blocks, repeated keywords, CONFIG, POINTS … at some level)"); continue
        ctx.count("document-class: inside (C01_document_roundtrip applies)")
        if "ok" in real and len(ans["d"]) == 1 and ans["d"][0] == real["ok"]:
            ctx.corr_ok("classify")
        elif "ok" in real and len(ans["d"]) != 1:
            ctx.count("document-class: several roots (not compared)")
        else:
            ctx.corr_diff("classify", {"text": text[:1500]}, json.dumps(ans["d"])[:400], json.dumps(real)[:400])


def main(ctx):
    if ctx.replay:
        print(open(ctx.replay).read()[:4000]); return
    core.proof_leg(ctx, ["Mappy.Props.C01", "Mappy.Props.C01Attr", "Mappy.Props.C01Class", "Mappy.Props.C04Doc", "Mappy.Props.C04Rel"])
    explore(ctx)
    core.finish(ctx, LEVEL_NOTE, RULE, search=lambda c: explore(c, scale=2.0))
