"""C11 — any input is either parsed or rejected with a parse error, promptly (partial: Lark / re running time and exceptions).
proof leg: Mappy.Props.C11 (the re-typing hook is total incl. the empty value stack and touches two token types only; every one of
           the 19 block types is a root alternative of the regenerated grammar) + Mappy.Props.C15 (INCLUDE expansion terminates).
correspondence: `retype` — (previous token text, token type, token text) harvested from real parses vs the type the real hook gave.
oracle: real parse+transform of mutated / soup / unterminated / long repetitive inputs: result is a dict / list, or an exception of
        the Lark family (I/O or ValueError only from INCLUDE lines) whose line/column lie inside the text; CPU time within a generous
        affine bound and growth ratio on doubling families; the 19 block types at the root."""
from __future__ import annotations
import json, time
from vlib import core, gen, corpus, trees

LEVEL_NOTE = [
    "Lean 4.33 kernel; axioms ⊆ {propext, Classical.choice, Quot.sound} (audited each run)",
    "PARTIAL: proved is mappyfile's own part — the re-typing hook (Model/Retype.lean, tied by the `retype` correspondence), the root alternatives of the regenerated grammar tables, termination of INCLUDE expansion (C15). What the model cannot exhibit: the running time of Lark's lexer/LALR driver and of Python's regex engine on the grammar's terminals, and that Lark itself raises only LarkError subclasses and wraps call-back exceptions in VisitError — exercised on every generated input with CPU-time bounds, never proved",
    "time bounds are generous (≥ 20× the measured cost on this image) and use CPU time; a time-out is an infrastructure failure (exit 2), not a violation, unless the input is tiny",
]
RULE = ("token-level mutations (delete, duplicate, swap, truncate, splice) of corpus and generated Mapfiles, token soups over the vocabulary, stray characters, unterminated "
        "strings / regexes / comments, doubling families of repetitive inputs (nesting and operator chains ≤ 100); non-trivial = input that is rejected or differs from its base; distinct by text")

VOCAB = ["MAP", "LAYER", "CLASS", "STYLE", "END", "NAME", "TYPE", "POINT", "SYMBOL", "GRID", "METADATA", "PROJECTION", "POINTS", "PATTERN", "CONFIG",
         "VALUES", "VALIDATION", '"x"', "'y'", "1", "2.5", "-3", "[a]", "(", ")", "{", "}", ",", "AND", "OR", "NOT", "=", ">", "+", "*", "/re/", "#c\n",
         "/*c*/", "TRUE", "FALSE", "AUTO", "255 0 0", '"#ff0000"', "%v%", "`e`", "a/b.map", "EXPRESSION", "FILTER", "TEXT", "COLOR", "INCLUDE", "SYMBOLSET",
         ";", "$", "@", "?", "\\", '"', "'", "\x00", "é", "𝄞"]


def include_error(ex):
    """the two errors C15 describes for INCLUDE lines: an I/O error for a missing file, the MaxNested error for deep / cyclic inclusion"""
    return isinstance(ex, OSError) or (isinstance(ex, ValueError) and not isinstance(ex, UnicodeError) and "nested include" in str(ex).lower())


def lark_family(ex):
    from lark.exceptions import LarkError
    return isinstance(ex, LarkError)


class Hang(Exception):
    """the call did not come back within the watchdog's limit"""


def run_one(text, P, limit=60):
    """parse + transform under a watchdog (SIGALRM): a call that does not come back is reported with its input, not waited for"""
    import signal
    from mappyfile.transformer import MapfileToDict
    def on_alarm(signum, frame):
        raise Hang(f"no result after {limit} s")
    old = signal.signal(signal.SIGALRM, on_alarm)
    signal.alarm(limit)
    t0 = time.process_time()
    try:
        d = MapfileToDict().transform(P.parse(text))
        res = ("ok", type(d).__name__)
    except Hang as ex:
        res = ("err", ex)
    except Exception as ex:
        res = ("err", getattr(ex, "orig_exc", None) if isinstance(getattr(ex, "orig_exc", None), Hang) else ex)   # (Lark wraps call-back exceptions)
    finally:
        signal.alarm(0)
        signal.signal(signal.SIGALRM, old)
    return res, time.process_time() - t0


def tokens_of(text):
    P = trees.parser(False, False)
    try:
        ip = P.lalr.parse_interactive(text)
        return [text[t.start_pos:t.end_pos] for t in ip.iter_parse()]
    except Exception:
        return text.split()


def mutate(rng, toks):
    toks = list(toks)
    if not toks:
        return toks
    for _ in range(rng.randint(1, 3)):
        op = rng.choice(["delete", "duplicate", "swap", "truncate", "splice", "insert"])
        i = rng.randrange(len(toks))
        if op == "delete":
            del toks[i]
        elif op == "duplicate":
            toks.insert(i, toks[i])
        elif op == "swap" and len(toks) > 1:
            j = rng.randrange(len(toks)); toks[i], toks[j] = toks[j], toks[i]
        elif op == "truncate":
            toks = toks[:max(1, i)]
        elif op == "splice":
            j = rng.randrange(len(toks)); toks[i:i] = toks[j:j + rng.randint(1, 5)]
        else:
            toks.insert(i, rng.choice(VOCAB))
        if not toks:
            break
    return toks


def explore(ctx, scale=1.0):
    import mappyfile
    rng = ctx.rng
    P = trees.parser(False, True)
    bases = [t for _, t in corpus.texts() if len(t) < 6000]
    for i in range(40):
        bases.append(gen.render(gen.gen_block(rng, rng.choice(gen.BLOCK_TYPES), depth=2, max_items=6)))
    inputs = []
    n = int((40000 if ctx.thorough else 2500) * scale)
    for i in range(n):
        r = rng.random()
        base = rng.choice(bases)
        if r < .5:
            inputs.append((" ".join(mutate(rng, tokens_of(base) if len(base) < 3000 else base.split())), "mutation"))
        elif r < .7:
            inputs.append((" ".join(rng.choice(VOCAB) for _ in range(rng.randint(1, 40))), "soup"))
        elif r < .85:
            cut = rng.randrange(len(base) + 1)
            inputs.append((base[:cut] + rng.choice(['"abc', "'abc", "/re", "/* c", "`x", "%v", "[a", "(1 = ", "{a,", '"a\\', "\\\\"]), "unterminated"))
        else:
            cut = rng.randrange(len(base) + 1)
            inputs.append((base[:cut] + rng.choice([";", "$", "@", "?", "\x00", "§", "\\"]) + base[cut:], "stray-char"))
    slow = []
    for text, kind in inputs:
        res, dt = run_one(text, P)
        has_include = "include" in text.lower()
        nontrivial = res[0] == "err"
        ctx.case(text, nontrivial, sample={"text": text[:120], "kind": kind} if rng.random() < .002 else None)
        ctx.count(f"input:{kind}")
        if res[0] == "ok":
            ctx.count("outcome:parsed")
            if res[1] not in ("CaseInsensitiveOrderedDict", "list", "DefaultOrderedDict", "dict", "OrderedDict"):
                ctx.violation("result-type", f"loads returned a {res[1]}", {"text": text})
        else:
            ex = res[1]
            ctx.count("outcome:" + type(ex).__name__)
            if lark_family(ex):
                line, col = getattr(ex, "line", None), getattr(ex, "column", None)
                if type(ex).__name__ in ("UnexpectedToken", "UnexpectedCharacters") and line is not None and line >= 1:
                    nlines = text.count("\n") + 1
                    if not (1 <= line <= nlines + 1 and col is not None and col >= 1):
                        ctx.violation("error-position", f"{type(ex).__name__} at line {line} column {col} outside the {nlines}-line text", {"text": text})
            elif has_include and include_error(ex):
                ctx.count("outcome:INCLUDE line (I/O or MaxNested error is expected)")
            else:
                ctx.violation(f"escapes:{type(ex).__name__}", f"loads raised {type(ex).__name__} ({str(ex)[:80]}) instead of a Lark parse error", {"text": text, "kind": kind})
        if dt > 1.0 + 0.004 * len(text):
            slow.append((dt, text))
            ctx.violation("slow", f"{dt:.1f} s CPU for a {len(text)}-character input", {"text": text})
    # ---------------- doubling families ----------------
    fams = {
        "nested blocks": lambda k: "MAP " + "LAYER CLASS STYLE END END END " * k + "END",
        "unterminated dq + backslash pairs": lambda k: 'MAP NAME "' + "\\\\" * k,
        "unterminated sq + backslash pairs": lambda k: "MAP NAME '" + "\\\\" * k,
        "slash run": lambda k: "MAP NAME " + "/" * k,
        "open regex": lambda k: "CLASS EXPRESSION /" + "a*" * k,
        "operator chain": lambda k: "CLASS EXPRESSION (" + " + ".join(["[a]"] * min(k, 100)) + ") END",
        "paren nesting": lambda k: "CLASS EXPRESSION " + "(" * min(k, 100) + "[a] = 1" + ")" * min(k, 100) + " END",
        "comment run": lambda k: "MAP " + "/* x */ " * k + "#" * k + "\nEND",
        "unquoted run": lambda k: "MAP NAME " + "a-" * k + " END",
        "quoted pairs": lambda k: "METADATA " + '"k" "v" ' * k + "END",
        "open c-comment": lambda k: "MAP /* " + "* " * k,
        "backtick": lambda k: "MAP NAME `" + "x`" * k,
    }
    for name, f in fams.items():
        prev = None
        for k in (4, 8, 12, 16, 20, 24, 28, 32, 64, 128, 256, 512):
            text = f(k)
            res, dt = run_one(text, P)
            ctx.case((name, k), True)
            ctx.count("family:" + name)
            if res[0] == "err" and not lark_family(res[1]) and not isinstance(res[1], RecursionError):
                ctx.violation(f"escapes:{type(res[1]).__name__}", f"{name} (k={k}) raised {type(res[1]).__name__}", {"text": text[:500], "family": name, "k": k})
                break
            if dt > 1.0 + 0.004 * len(text) or (prev and prev > 0.05 and dt > 6 * prev and k <= 32):
                ctx.violation("slow", f"family '{name}': {dt:.2f} s CPU at k={k} ({len(text)} characters), previous size took {prev or 0:.3f} s — not proportional to the input length",
                              {"family": name, "k": k, "text": text[:300], "seconds": dt, "previous_seconds": prev})
                break
            prev = dt
    # ---------------- accepted expressions with an unpaired quote / slash somewhere inside a token ----------------
    odd = ['( "[name]" IN {O\'Brien,Smith} )', '( "[file]" = /data )', '( [a] ~ /x\\/ )', '( "[n]" = "it\'s" )', "( '[n]' = 'say \"hi' )",
           '( [a] > 1 AND "[b]" IN {a"b,c} )', '( "%my\'var%" = 1 )', '( [p] = ./a/b )', '( length("[n]") > 2 AND [q] ~* /^a\\)/ )']
    for e in odd:
        for tmpl in ("CLASS\n  EXPRESSION %s\nEND", "LAYER\n  FILTER %s\nEND", "CLASS\n  TEXT %s\nEND"):
            text = tmpl % e
            res, dt = run_one(text, P, limit=20)
            ctx.case(("odd-expression", text), True); ctx.count("odd-expression")
            if res[0] == "err" and not lark_family(res[1]):
                ctx.violation(f"escapes:{type(res[1]).__name__}", f"{type(res[1]).__name__} ({str(res[1])[:60]}) on an expression with an unpaired quote / slash inside a token", {"text": text})
            elif dt > 1.0 + 0.004 * len(text):
                ctx.violation("slow", f"{dt:.2f} s CPU for a {len(text)}-character expression", {"text": text, "seconds": dt})
    # ---------------- every short token sequence over a representative alphabet (what sits at the very start of the input:
    # the re-typing hook and the error handler look back at the parser's stacks, which are nearly empty there) ----------------
    import itertools
    alpha = ["MAP", "LAYER", "CLASS", "STYLE", "SYMBOL", "symbol", "GRID", "grid", "END", "NAME", "TYPE", "FEATURE", "POINTS", "IMAGEMODE", "OUTPUTFORMAT",
             "PROJECTION", "METADATA", "PATTERN", "CONFIG", "INCLUDE", "CLASSITEM", "foo", "circle", '"x"', "1", "2.5", "[a]", "(", "/re/", "AUTO", "#c\n", "/*c*/", "{", ","]
    # the degenerate inputs first: nothing at all, blanks, a byte-order mark, a lone comment opener, a NUL
    seqs = [("",), (" ",), ("\n",), ("\ufeff",), ("\ufeff\n",), ("\ufeffMAP END",), ("#",), ("/*",), ("\x00",), ("\r",), ("\t\n \r\n",)]
    seqs += [(a,) for a in alpha] + list(itertools.product(alpha, repeat=2))
    triples = list(itertools.product(alpha, repeat=3))
    seqs += triples if ctx.thorough else rng.sample(triples, int(4000 * scale))
    if ctx.thorough:
        seqs += [tuple(rng.choice(alpha) for _ in range(4)) for _ in range(int(20000 * scale))]
    for sq in seqs:
        text = " ".join(sq)
        res, dt = run_one(text, P, limit=20)
        ctx.case(("short", text), res[0] == "err"); ctx.count(f"short-sequence:{len(sq)}")
        if res[0] == "err" and not lark_family(res[1]) and not ("include" in text.lower() and include_error(res[1])):
            ctx.violation(f"escapes:{type(res[1]).__name__}", f"loads raised {type(res[1]).__name__} ({str(res[1])[:60]}) on the {len(sq)}-token input {text!r}", {"text": text})
        elif res[0] == "err" and type(res[1]).__name__ in ("UnexpectedToken", "UnexpectedCharacters"):
            line, col = getattr(res[1], "line", None), getattr(res[1], "column", None)
            if line is not None and line >= 1 and not (line <= text.count("\n") + 2 and col is not None and col >= 1):
                ctx.violation("error-position", f"{type(res[1]).__name__} at line {line} column {col} outside the text {text!r}", {"text": text})
    # ---------------- lines that start with INCLUDE (the pre-scan of load_includes runs before, and outside, the parser's error funnel) ----------------
    tails = ["", " ", "\t", "'", '"', '"roads.map', "'roads.map", ' "a b.map"', " 'a#b.map'", ' "x.map" "y.map"', " x\\", " 'unterminated", ' "un"terminated"', " # only a comment",
             "#nospace", ' "a.map" # c "', " `x`", " [a]", " (", " /re/", ' ""', " ''", "d\"", "s 'x", " \x00", " é'"]
    for tail in tails:
        for tmpl in ("INCLUDE%s", "include%s\n", "MAP\nINCLUDE%s\nEND", "MAP\n  NAME \"a\nInclude%s\nb\"\nEND", "LAYER\n  METADATA\n    \"k\" \"two\ninclude%s\"\n  END\nEND"):
            text = tmpl % tail
            res, dt = run_one(text, P, limit=20)
            ctx.case(("include-line", text), res[0] == "err"); ctx.count("include-line")
            if res[0] == "err" and not lark_family(res[1]) and not include_error(res[1]):
                ctx.violation(f"escapes:{type(res[1]).__name__}", f"loads raised {type(res[1]).__name__} ({str(res[1])[:60]}) on a text with a line that starts with INCLUDE", {"text": text})
    # ---------------- the 19 block types at the root ----------------
    for t in gen.BLOCK_TYPES:
        for text in (f"{t.upper()} END", f"{t.lower()}\nend", f"{t.upper()} END {t.upper()} END"):
            try:
                d = mappyfile.loads(text) if t == "map" else __import__("mappyfile.transformer", fromlist=["x"]).MapfileToDict().transform(P.parse(text))
                ok = (d["__type__"] == t) if isinstance(d, dict) else all(x["__type__"] == t for x in d)
            except Exception as ex:
                ok = False
            ctx.case(("root", text), True); ctx.count("root-block")
            if not ok:
                ctx.violation(f"root:{t}", f"{text!r} is not accepted as a partial Mapfile", {"text": text})
    # ---------------- correspondence: the re-typing hook ----------------
    reqs, keep = [], []
    from lark import Token, Tree
    for text in rng.sample(bases, min(len(bases), 60 if not ctx.thorough else len(bases))) + ["SYMBOL name END", "GRID END", "MAP SYMBOL antialias END", "STYLE SYMBOL circle END", "LAYER NAME grid END", "SYMBOL NAME GRID END",
                                                                                                      "style Symbol circle size 3 end", "CLASS STYLE symbol star COLOR 1 2 3 END END", "LAYER Name\nGRID\n TYPE POINT END",
                                                                                                      'MAP OUTPUTFORMAT IMAGEMODE FEATURE NAME "x" END END', "map outputformat imagemode feature end layer feature points 1 1 end end end end",
                                                                                                      "OUTPUTFORMAT IMAGEMODE FEATURE END", "LAYER FEATURE POINTS 1 2 END END END"]:
        Pp = trees.parser(False, False)
        try:
            tree = Pp.parse(text)
        except Exception:
            continue
        final = {t.start_pos: t.type for t in trees.tokens(tree)}
        ip = Pp.lalr.parse_interactive(text)
        try:
            for t in ip.iter_parse():
                st = ip.parser_state.value_stack
                prev = st[-1] if st else None
                prev_text = str(prev) if isinstance(prev, Token) else None
                if t.start_pos in final:
                    reqs.append({"op": "retype", "prev": prev_text, "type": t.type, "text": str(t.value)})
                    keep.append((text[:200], prev_text, t.type, str(t.value), final[t.start_pos]))
                    t.type = final[t.start_pos]
        except Exception:
            pass
    for k, ans in zip(keep, core.lean_call(reqs)):
        if ans == k[4]:
            ctx.corr_ok("retype")
        else:
            ctx.corr_diff("retype", {"text": k[0], "prev": k[1], "type": k[2], "token": k[3]}, ans, k[4])


def main(ctx):
    if ctx.replay:
        print(open(ctx.replay).read()[:4000]); return
    core.proof_leg(ctx, ["Mappy.Props.C11", "Mappy.Props.C15"])
    explore(ctx)
    core.finish(ctx, LEVEL_NOTE, RULE, search=lambda c: explore(c, scale=2.0))
