"""Grammar part of the translator (filled in below as models need it)."""
