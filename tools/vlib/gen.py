"""G1/G2/G3 — schema-driven Mapfile documents: an IR generated from the JSON schemas of /repo, an independent
renderer to Mapfile text (with layout choices), and the dictionary the documented contract promises."""
from __future__ import annotations
import glob, json, os, re
from collections import OrderedDict
from . import core

_schemas = {}


def schema_dir():
    return os.path.join(core.REPO, "mappyfile", "schemas")


def raw(name):
    if name not in _schemas:
        with open(os.path.join(schema_dir(), name if name.endswith(".json") else name + ".json"), encoding="utf-8") as f:
            _schemas[name] = json.load(f)
    return _schemas[name]


def object_types():
    out = []
    for f in sorted(glob.glob(os.path.join(schema_dir(), "*.json"))):
        n = os.path.basename(f)[:-5]
        s = raw(n)
        if isinstance(s, dict) and s.get("type") == "object" and s.get("properties") and "__type__" in s["properties"]:
            out.append(n)
    return out


BLOCK_TYPES = ["class", "cluster", "composite", "feature", "grid", "join", "label", "layer", "leader", "legend", "map",
               "outputformat", "querymap", "reference", "scalebar", "scaletoken", "style", "web", "symbol"]
KV_BLOCKS = ("metadata", "validation", "values", "connectionoptions")
REPEATED = ("processing", "formatoption", "compfilter")
SKIP_KEYS = ("__type__", "__comments__", "__position__", "include")
BAD_WORDS = {"true", "false", "end", "null"}
UNQUOTED_RE = re.compile(r"^[a-z0-9_\-:]+$", re.I)


def deref(node):
    """follow $ref (a sibling-free reference) to (node, file name)"""
    name = None
    seen = 0
    while isinstance(node, dict) and "$ref" in node and seen < 10:
        name = node["$ref"].replace(".json", "")
        node = raw(name)
        seen += 1
    return node, name


def shapes(node, ctx=""):
    """value shapes admitted by a property schema -> list of tuples"""
    node, ref = deref(node)
    if not isinstance(node, dict):
        return []
    out = []
    if ref is not None and node.get("type") == "object":
        if ref in KV_BLOCKS:
            return [("kv", ref)]
        return [("object", ref)]
    for key in ("oneOf", "anyOf", "allOf"):
        if key in node:
            for alt in node[key]:
                out += shapes(alt, ctx)
            return dedup(out)
    if "enum" in node:
        for w in node["enum"]:
            if isinstance(w, str):
                out.append(("enum", w))
            elif isinstance(w, bool):
                out.append(("bool",))
            elif isinstance(w, int):
                out.append(("intlit", w))
        return dedup(out)
    t = node.get("type")
    if isinstance(t, list):
        # Draft 4: a list of type names — the union of the alternatives
        for ti in t:
            out += shapes(dict(node, type=ti), ctx)
        return dedup(out)
    if t == "string":
        pat = node.get("pattern", "")
        if pat.startswith("^\\[("):
            return [("binding",)]
        if pat.startswith("^\\(("):
            return [("expression",)]
        if pat.startswith("^/("):
            return [("regex",)]
        if pat.startswith("^#("):
            return [("hexcolor",)]
        if pat.startswith("^'#(") :
            return [("hexcolor",)]
        if pat:
            return [("pattern", pat)]
        if node.get("description") == "expression":
            return [("string",), ("expression",)]
        if "maxLength" in node or "minLength" in node:
            return [("string", node.get("minLength", 0), node.get("maxLength"))]
        return [("string",)]
    if t in ("number", "integer"):
        lo = node.get("minimum")
        hi = node.get("maximum")
        if node.get("exclusiveMinimum") is True and lo is not None:
            lo = lo + 1
        return [("int" if t == "integer" else "number", lo, hi)]
    if t == "boolean":
        return [("bool",)]
    if t == "array":
        items, iref = deref(node.get("items", {}))
        if isinstance(items, dict) and items.get("type") == "object":
            return [("objlist", iref)]
        if isinstance(items, dict) and items.get("type") == "array":
            return [("points",)]
        it = items.get("type") if isinstance(items, dict) else None
        lo, hi = node.get("minItems"), node.get("maxItems")
        if it in ("number", "integer"):
            return [("numlist", it, lo, hi, items.get("minimum"), items.get("maximum"))]
        if it == "string":
            return [("strlist", lo, hi)]
        return [("array?", json.dumps(node)[:60])]
    if t == "object":
        return [("kv", ctx)]
    return [("?", json.dumps(node)[:60])]


def dedup(xs):
    out = []
    for x in xs:
        if x not in out:
            out.append(x)
    return out


def cells():
    """[(type, keyword, [shapes])] for every object schema"""
    out = []
    for t in object_types():
        for k, p in raw(t)["properties"].items():
            if k in SKIP_KEYS:
                continue
            out.append((t, k, shapes(p, k)))
    return out


# ---------------------------------------------------------------------------------------------
# values: (python value the contract promises, list of source tokens)
# a token is (text, kind) with kind in word|num|qstr|raw   (qstr text is the unquoted content)
# ---------------------------------------------------------------------------------------------
SAFE = "abcdefghijklmnopqrstuvwxyzABCDEFGHIJKLMNOPQRSTUVWXYZ0123456789"


FORCE_STRING = None     # set by a check that wants a particular string content at the next string-valued keyword


def rstring(rng, fancy=True):
    if fancy:
        # the classes a printer / reader is most likely to get wrong: the empty string, strings that look like numbers,
        # strings that look like keywords
        c = rng.random()
        if c < .03:
            return ""
        if c < .06:
            return rng.choice(["7", "12.5", "-3", "0", "1e3"])
        if c < .08:
            return rng.choice(["END", "on", "true", "Layer", "AUTO"])
        if c < .11:
            # near misses of other lexical classes: '#' + 4, 5 or 7 hex digits is no colour, a lone bracket no binding,
            # a date / version / percentage no number
            return rng.choice(["#BEEF", "#ABCDE", "#ABCDEF1", "#GG0000", "#AbCd", "2020-01-02", "1.2.3", "50%", "1e", "0x1F", ".5.", "a]", "[b", "%x", "x%"])
    n = rng.randint(1, 10)
    alphabet = SAFE + (" _-.:/%é𝄞,;=" if fancy else "")
    s = "".join(rng.choice(alphabet) for _ in range(n)).strip()
    # free strings start with a letter or digit: a string that starts like an expression, binding, list or regular
    # expression ("(", "[", "{", "/") is the documented exclusion at expression-capable keywords
    s = rng.choice(SAFE) + s
    if fancy:
        c = rng.random()
        if c < .06:
            s = " " + s                      # leading blank
        elif c < .12:
            s = s + rng.choice([" ", "  "])  # trailing blank(s)
        elif c < .16:
            s = "'" + s + "'"                # content wrapped in the other quote character
        elif c < .18:
            s = s + "'"
    return s


EXPRS = [
    ('([name] = "x")', '( [name] = "x" )'),
    ("([pop] > 100 AND [pop] <= 5000)", "( ( [pop] > 100 ) AND ( [pop] <= 5000 ) )"),
    ("([a] + 2 * [b] >= 10)", "( [a] + 2 * [b] >= 10 )"),
    ("(NOT ([x] eq 'y') OR [z] != 3)", "( NOT ( [x] eq 'y' ) OR ( [z] != 3 ) )"),
    ('("[type]" in "a,b")', '( "[type]" in "a,b" )'),
    ("(length('[n]') < 4)", "( (length('[n]')) < 4 )"),
]


def value_for(rng, shape, key):
    """-> (python value, tokens, shape tag) or None when the shape is not generated"""
    k = shape[0]
    if k == "enum":
        w = shape[1]
        if w.lower() in BAD_WORDS:
            return None
        if not UNQUOTED_RE.match(w):
            return w, [(w, "qstr")], "enum-quoted"
        up = w.upper()
        return up, [(up, "word")], "enum"
    if k == "intlit":
        return shape[1], [(str(shape[1]), "num")], "int"
    if k == "string":
        s = rstring(rng) if FORCE_STRING is None else FORCE_STRING
        if len(shape) == 3:
            # the schema bounds the length (WRAP is one character): stay inside, like every other generated value
            lo, hi = shape[1] or 0, shape[2]
            if hi is not None and len(s) > hi:
                s = s[:hi]
            while len(s) < lo:
                s += "x"
            if hi is not None and hi <= 2 and rng.random() < .5:
                # length-bounded values are where a case mapping that changes the length shows: characters whose lower() keeps
                # the length but whose casefold() / upper() does not ("ß" -> "ss", "ŉ", ligatures), and plain non-ASCII letters
                s = rng.choice(["ß", "ŉ", "ﬁ", "é", "Ω", "ǰ", "x", "|", " "])[:hi]
                while len(s) < lo:
                    s += "x"
        return s, [(s, "qstr")], "string"
    if k == "binding":
        a = rng.choice(["name", "Attr_1", "pop2020"])
        return f"[{a}]", [(f"[{a}]", "raw")], "binding"
    if k == "expression" and key == "expression" and rng.random() < .15:
        # a list expression (CLASS / LABEL EXPRESSION {a,b,c}, compared with CLASSITEM; the printer writes braces bare at
        # the EXPRESSION keyword only): kept exactly as written, whatever its items look like
        src = rng.choice(["{70,960,00,17,13940}", "{01234,02139}", "{1.50,2.00}", "{+5,-3}", "{TRUE,false}", "{a,b c,d}", "{10,20}"])
        return src, [(src, "raw")], "expression"
    if k == "expression":
        src, norm = rng.choice(EXPRS)
        return norm, [(src, "raw")], "expression"
    if k == "regex":
        # regular expressions, and the case-insensitive string comparisons 'text'i / "text"i (written as they are, whatever the output quote)
        r = rng.choice(["/^a.*$/", "/[0-9]+/", "/road|rail/"] + (["'hawaii'i", '"Road"i'] if key in ("expression", "filter") else []))
        return r, [(r, "raw")], "regex"
    if k == "hexcolor":
        h = rng.choice(["#ff0000", "#AAbb00", "#abc", "#11223344"])
        return h.lower(), [(h, "qstr")], "hexcolor"
    if k in ("int", "number"):
        lo = shape[1] if shape[1] is not None else -50
        hi = shape[2] if shape[2] is not None else 500
        lo, hi = int(max(lo, -10**6)), int(min(hi, 10**6))
        if hi < lo:
            hi = lo
        n = rng.randint(lo, hi)
        if k == "number" and rng.random() < .12:
            # floats that Python writes in exponent notation (|x| < 1e-4 or >= 1e16)
            cands = [f for f in (1e-05, 5e-05, 2.5e-07, 1e+16, 1.5e+17, -5e-05) if lo <= f <= hi]
            if cands:
                f = rng.choice(cands)
                return f, [(rng.choice([repr(f), "%.8f" % f if abs(f) < 1 else repr(f)]), "num")], "float"
        if k == "number" and rng.random() < .5 and n < hi:
            f = n + rng.choice([0.5, 0.25, 0.125])
            return f, [(repr(f), "num")], "float"
        return n, [(str(n), "num")], "int"
    if k == "bool":
        b = rng.random() < .5
        return b, [("TRUE" if b else "FALSE", "word")], "bool"
    if k == "numlist":
        _, it, lo, hi, mn, mx = shape
        n = lo if lo is not None else (hi if hi is not None else 2)
        if n not in (2, 3, 4, 6):
            return None
        mn = 0 if mn is None else mn
        mx = 255 if mx is None else mx
        vals = []
        for _ in range(n):
            x = rng.randint(int(mn), int(mx))
            if it == "number" and n in (2, 4) and rng.random() < .4 and x < mx:
                x = x + 0.5
            vals.append(x)
        return vals, [(repr(v), "num") for v in vals], f"numlist{n}"
    if k == "strlist":
        lo, hi = shape[1], shape[2]
        if lo == 2 and hi == 2:
            if key in ("offset", "polaroffset"):
                return ["[a]", "[b]"], [("[a]", "raw"), ("[b]", "raw")], "bindpair"
            if key == "colorrange":
                return ["#ff0000", "#00ff00"], [("#ff0000", "qstr"), ("#00FF00", "qstr")], "hexpair"
            return None
        return None
    return None


class Block:
    def __init__(self, type_):
        self.type = type_
        self.items = []   # ("attr", key, value, tokens, tag) | ("block", key, Block, plural?) | ("kv", key, pairs) |
                          # ("repeated", key, str) | ("config", k, v) | ("projection", list|'AUTO') | ("points", key, pairs)


SINGLETONS = {"cluster", "connectionoptions", "grid", "leader", "legend", "metadata", "pattern", "projection", "querymap",
              "reference", "scalebar", "validation", "values", "web"}


def plural(s):
    return s + "es" if s.endswith("s") else s + "s"


def gen_block(rng, type_, depth=2, max_items=8, want=None):
    """a random block of the given type; `want` = (keyword, shape) that must be included"""
    b = Block(type_)
    props = raw(type_)["properties"]
    keys = [k for k in props if k not in SKIP_KEYS]
    chosen = rng.sample(keys, min(len(keys), rng.randint(1, max_items)))
    if want and want[0] not in chosen:
        chosen.insert(rng.randrange(len(chosen) + 1), want[0])
    required = raw(type_).get("required", [])
    for r in required:
        if r not in chosen and r in props:
            chosen.append(r)
    for k in chosen:
        shs = shapes(props[k], k)
        if want and want[0] == k:
            shs = [want[1]]
        if not shs:
            continue
        sh = rng.choice(shs)
        add_item(rng, b, k, sh, depth, max_items)
    return b


def add_item(rng, b, k, sh, depth, max_items=6):
    kind = sh[0]
    if k == "config":
        for _ in range(rng.randint(1, 2)):
            b.items.append(("config", rng.choice(["MS_ERRORFILE", "proj_lib", "CGI_CONTEXT_URL"]), rstring(rng, False)))
        if rng.random() < .4:
            # the settings the schema enumerates, values in any letter case
            kk, vv = rng.choice([("ON_MISSING_DATA", ["FAIL", "ignore", "Log"]), ("MS_NONSQUARE", ["YES", "no", "Yes"])])
            if not any(it[0] == "config" and it[1] == kk for it in b.items):
                b.items.append(("config", kk, rng.choice(vv)))
        return
    if k == "projection":
        if rng.random() < .2:
            b.items.append(("projection", "AUTO"))
        else:
            b.items.append(("projection", [rng.choice(["init=epsg:4326", "proj=utm", "zone=15", "+proj=longlat +datum=WGS84"]) for _ in range(rng.randint(1, 3))]))
        return
    if k in REPEATED:
        for _ in range(rng.randint(1, 3)):
            b.items.append(("repeated", k, rng.choice(["BANDS=1,2,3", "SCALE=AUTO", "GAMMA=0.75", "radius=10"])))
        return
    if kind == "kv" or k in KV_BLOCKS:
        pairs = OrderedDict()
        for _ in range(rng.randint(0, 3)):
            pairs[rng.choice(["wms_title", "ows_srs", "Key-1", "qstring", "default_x"])] = rstring(rng)
        b.items.append(("kv", k, list(pairs.items())))
        return
    if kind == "points" and k not in ("points", "pattern"):
        return
    if k in ("points", "pattern"):
        # integers, short floats, and floats with many decimals / tiny floats (coordinates are written as they are)
        pairs = [(rng.choice([rng.randint(0, 50), rng.randint(0, 50), 61.3985512, 0.1234567, 2.5e-07]),
                  rng.choice([rng.randint(0, 50), 2.5, 45.1234567, 1.0000001])) for _ in range(rng.randint(1, 3))]
        b.items.append(("points", k, pairs))
        return
    if kind == "objlist":
        if depth <= 0 or sh[1] is None:
            return
        for _ in range(rng.randint(1, 2)):
            b.items.append(("block", k, gen_block(rng, sh[1], depth - 1, max(2, max_items // 2)), True))
        return
    if kind == "object":
        if depth <= 0 or sh[1] is None or k == "symbol":
            return
        b.items.append(("block", k, gen_block(rng, sh[1], depth - 1, max(2, max_items // 2)), False))
        return
    v = value_for(rng, sh, k)
    if v is None:
        return
    val, toks, tag = v
    b.items.append(("attr", k, val, toks, tag))


# ---------------------------------------------------------------------------------------------
# G3: the dictionary the documented contract promises for an IR block
# ---------------------------------------------------------------------------------------------
def expected(b: Block) -> OrderedDict:
    d = OrderedDict()
    d["__type__"] = b.type
    for it in b.items:
        kind = it[0]
        if kind == "attr":
            d[it[1]] = it[2]
        elif kind == "block":
            _, k, child, is_list = it
            if is_list:
                d.setdefault(k, []).append(expected(child))
            else:
                d[k] = expected(child)
        elif kind == "kv":
            kv = d[it[1]] if it[1] in d and False else OrderedDict()
            for kk, vv in it[2]:
                kv[kk.lower()] = vv
            kv["__type__"] = it[1]
            d[it[1]] = kv
        elif kind == "repeated":
            d.setdefault(it[1], []).append(it[2])
        elif kind == "include":
            d.setdefault("include", []).append(it[1])
        elif kind == "config":
            d.setdefault("config", OrderedDict())[it[1].lower()] = it[2]
        elif kind == "projection":
            d["projection"] = ["AUTO"] if it[1] == "AUTO" else list(it[1])
        elif kind == "points":
            pts = [tuple(p) for p in it[2]]
            k = it[1]
            if k not in d:
                d[k] = pts
            elif d[k] and isinstance(d[k][0], tuple):
                d[k] = [d[k], pts]
            else:
                d[k].append(pts)
    return d


# ---------------------------------------------------------------------------------------------
# G2: renderer with layout choices
# ---------------------------------------------------------------------------------------------
class Layout:
    """how to write the tokens: plain = one keyword per line, upper-case keywords, double quotes"""
    def __init__(self, rng=None, plain=True):
        self.rng = rng
        self.plain = plain

    def kw(self, w):
        if self.plain or w.upper() == "AUTO":
            # AUTO (PROJECTION AUTO) is an enumerated *value*, stored as written: its case is not varied
            return w.upper()
        return self.rng.choice([w.upper(), w.lower(), w.capitalize(), "".join(self.rng.choice([c.upper(), c.lower()]) for c in w)])

    def sep(self):
        if self.plain:
            return " "
        return self.rng.choice([" ", "  ", "\t", " \t ", "\n", "\r\n", " \n  ", "\f", " # c\n", " /* c */ ", "\n# full line\n"])

    def nl(self, ind):
        if self.plain:
            return "\n" + "  " * ind
        return self.rng.choice(["\n" + "  " * ind, "\r\n" + "\t" * ind, " ", "\n\n", " # x\n" + " " * ind, " /* y */ "])

    def q(self, s):
        if self.plain or '"' in s or "'" in s:
            return '"' + s + '"' if '"' not in s else "'" + s + "'"
        return self.rng.choice(['"' + s + '"', "'" + s + "'"])


def tok_text(lay, t):
    text, kind = t
    if kind == "qstr":
        return lay.q(text)
    if kind == "word" and text in ("TRUE", "FALSE"):
        return lay.kw(text)          # the boolean words are keywords: any letter case
    return text


def render(b: Block, lay: Layout = None, ind=0) -> str:
    lay = lay or Layout()
    out = [lay.kw(b.type)]
    for it in b.items:
        kind = it[0]
        out.append(lay.nl(ind + 1))
        if kind == "attr":
            out.append(lay.kw(it[1]) + lay.sep() + lay.sep().join(tok_text(lay, t) for t in it[3]))
        elif kind == "block":
            out.append(render(it[2], lay, ind + 1))
        elif kind == "kv":
            out.append(lay.kw(it[1]))
            for kk, vv in it[2]:
                out.append(lay.nl(ind + 2) + lay.q(kk) + lay.sep() + lay.q(vv))
            out.append(lay.nl(ind + 1) + lay.kw("END"))
        elif kind == "repeated":
            out.append(lay.kw(it[1]) + lay.sep() + lay.q(it[2]))
        elif kind == "config":
            out.append(lay.kw("CONFIG") + lay.sep() + lay.q(it[1]) + lay.sep() + lay.q(it[2]))
        elif kind == "projection":
            out.append(lay.kw("PROJECTION"))
            if it[1] == "AUTO":
                out.append(lay.nl(ind + 2) + lay.kw("AUTO"))
            else:
                for s in it[1]:
                    out.append(lay.nl(ind + 2) + lay.q(s))
            out.append(lay.nl(ind + 1) + lay.kw("END"))
        elif kind == "include":
            out.append(it[2])          # a ready-made INCLUDE line
        elif kind == "points":
            out.append(lay.kw(it[1]))
            for x, y in it[2]:
                out.append(lay.nl(ind + 2) + repr(x) + lay.sep() + repr(y))
            out.append(lay.nl(ind + 1) + lay.kw("END"))
    out.append(lay.nl(ind) + lay.kw("END"))
    return "".join(out)


def plain_dict(x):
    """dict class erased, hidden bookkeeping keys (__position__, __comments__) removed"""
    if isinstance(x, dict):
        return OrderedDict((k, plain_dict(v)) for k, v in x.items() if k not in ("__position__", "__comments__"))
    if isinstance(x, list):
        return [plain_dict(v) for v in x]
    if isinstance(x, tuple):
        return tuple(plain_dict(v) for v in x)
    return x


# ---------------------------------------------------------------------------------------------
# independent expectation of the printed text: the lines (indentation stripped) an IR block must print as,
# each value in the lexical class MapServer requires.  Written from the property text, not from pprint.py.
# ---------------------------------------------------------------------------------------------
def q_(s, q):
    return q + s + q


def value_text(val, tag, q):
    if tag in ("string", "enum-quoted", "hexcolor"):
        return q_(val, q)
    if tag in ("enum", "binding", "expression", "regex"):
        return val
    if tag in ("int", "float"):
        return repr(val)
    if tag == "bool":
        return "TRUE" if val else "FALSE"
    if tag.startswith("numlist"):
        return " ".join(repr(v) for v in val)
    if tag == "hexpair":
        return " ".join(q_(v, q) for v in val)
    if tag == "bindpair":
        return " ".join(val)
    raise ValueError(tag)


def expected_lines(b: Block, q='"', end_comment=False):
    """[(depth, text)] for the block, grouped the way the dictionary groups repeated blocks/keywords"""
    slots = OrderedDict()   # key -> ("attr", text) | ("blocks", [Block]) | ("block", Block) | ("kv", pairs) | ("rep", [str]) | ...
    for it in b.items:
        kind = it[0]
        if kind == "attr":
            # COMPOP takes a string in MapServer although the schema enumerates its values
            tag = "string" if it[1] == "compop" and it[4] == "enum" else it[4]
            slots[it[1]] = ("attr", value_text(it[2], tag, q))
        elif kind == "block":
            _, k, child, is_list = it
            if is_list:
                if k in slots and slots[k][0] == "blocks":
                    slots[k][1].append(child)
                else:
                    slots[k] = ("blocks", [child])
            else:
                slots[k] = ("block", child)
        elif kind == "kv":
            pairs = OrderedDict()
            for kk, vv in it[2]:
                pairs[kk.lower()] = vv
            slots[it[1]] = ("kv", list(pairs.items()))
        elif kind == "repeated":
            if it[1] in slots:
                slots[it[1]][1].append(it[2])
            else:
                slots[it[1]] = ("rep", [it[2]])
        elif kind == "config":
            if "config" not in slots:
                slots["config"] = ("config", OrderedDict())
            slots["config"][1][it[1].lower()] = it[2]
        elif kind == "projection":
            slots["projection"] = ("projection", it[1])
        elif kind == "points":
            if it[1] in slots:
                slots[it[1]][1].append(it[2])
            else:
                slots[it[1]] = ("points", [it[2]])
    def end(name):
        return "END" + (f" # {name.upper()}" if end_comment else "")
    out = [(0, b.type.upper())]
    for k, (kind, x) in slots.items():
        K = k.upper()
        if kind == "attr":
            out.append((1, f"{K} {x}"))
        elif kind == "blocks":
            for child in x:
                out += [(d + 1, t) for d, t in expected_lines(child, q, end_comment)]
        elif kind == "block":
            out += [(d + 1, t) for d, t in expected_lines(x, q, end_comment)]
        elif kind == "kv":
            out.append((1, K))
            out += [(2, f"{q_(kk, q)} {q_(vv, q)}") for kk, vv in x]
            out.append((1, end(k)))
        elif kind == "rep":
            out += [(1, f"{K} {q_(s, q)}") for s in x]
        elif kind == "config":
            out += [(1, f"CONFIG {q_(kk.upper(), q)} {q_(vv, q)}") for kk, vv in x.items()]
        elif kind == "projection":
            out.append((1, K))
            if x == "AUTO":
                out.append((2, "AUTO"))
            else:
                out += [(2, q_(s, q)) for s in x]
            out.append((1, end(k)))
        elif kind == "points":
            for pts in x:
                out.append((1, K))
                out += [(2, f"{repr(a)} {repr(c)}") for a, c in pts]
                out.append((1, end(k)))
    out.append((0, end(b.type)))
    return out


def symbolset_text(rng, n=None):
    """a symbol file: the SYMBOLSET root (its own grammar alias, not one of the 19 block types) holding SYMBOL blocks"""
    n = n if n is not None else rng.randint(0, 3)
    body = []
    for _ in range(n):
        body += ["  " + l for l in render(gen_block(rng, "symbol", depth=0, max_items=5)).split("\n")]
    return "\n".join(["SYMBOLSET"] + body + ["END"])
