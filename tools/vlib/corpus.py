"""G5 — corpus loader: the .map files shipped under /repo/tests and /repo/docs."""
from __future__ import annotations
import glob, io, logging, os
from . import core

_cache = {}


def map_files():
    fs = []
    for root in ("tests", "docs"):
        fs += glob.glob(os.path.join(core.REPO, root, "**", "*.map"), recursive=True)
    return sorted(fs)


def load_all(include_comments=False, include_position=False):
    """[(path, text_after_include_expansion_or_None, dict)] for every corpus file that loads offline."""
    key = (include_comments, include_position)
    if key in _cache:
        return _cache[key]
    from mappyfile.parser import Parser
    from mappyfile.transformer import MapfileToDict
    logging.getLogger("mappyfile").setLevel(logging.CRITICAL)
    out = []
    skipped = 0
    parser = Parser(include_comments=include_comments)   # one parser for the whole corpus (construction costs ~0.3 s)
    for fn in map_files():
        try:
            ast = parser.parse_file(fn)
            d = MapfileToDict(include_position=include_position, include_comments=include_comments).transform(ast)
        except Exception:
            skipped += 1
            continue
        out.append((fn, d))
    _cache[key] = out
    _cache[("skipped",) + key] = skipped
    return out


def texts():
    """[(path, expanded text)] for the loadable files (INCLUDEs expanded by the real parser)."""
    if "texts" in _cache:
        return _cache["texts"]
    from mappyfile.parser import Parser
    logging.getLogger("mappyfile").setLevel(logging.CRITICAL)
    p = Parser()
    out = []
    for fn in map_files():
        try:
            t = p.load_includes(p.open_file(fn), fn=fn)
            p.parse(t)
        except Exception:
            continue
        out.append((fn, t))
    _cache["texts"] = out
    return out
