"""Real Lark trees <-> the wire format of the Lean transformer model (op `transform`), and the real transform."""
from __future__ import annotations
import logging
from . import core

_parsers = {}


def parser(include_comments=False, expand_includes=True):
    from mappyfile.parser import Parser
    k = (include_comments, expand_includes)
    if k not in _parsers:
        logging.getLogger("mappyfile").setLevel(logging.CRITICAL)
        _parsers[k] = Parser(include_comments=include_comments, expand_includes=expand_includes)
    return _parsers[k]


def wire(node):
    """Lark Tree / Token -> JSON for the driver. Must be called before the tree is transformed (tokens are mutated)."""
    from lark import Tree, Token
    if isinstance(node, Tree):
        m = getattr(node.meta, "comments", None) if hasattr(node, "_meta") or True else None
        out = {"n": str(node.data), "c": [wire(c) for c in node.children]}
        try:
            cm = node.meta.comments
            out["m"] = [str(x) for x in cm]
        except AttributeError:
            pass
        return out
    if isinstance(node, Token):
        return {"t": node.type, "s": str(node), "l": node.line, "c": node.column}
    raise TypeError(type(node))


def tokens(node, out=None):
    from lark import Tree, Token
    if out is None:
        out = []
    if isinstance(node, Tree):
        for c in node.children:
            tokens(c, out)
    elif isinstance(node, Token):
        out.append(node)
    return out


def floats(node):
    fl = {}
    for t in tokens(node):
        if t.type == "SIGNED_FLOAT":
            try:
                fl[str(t)] = repr(float(str(t)))
            except ValueError:
                pass
    return [[k, v] for k, v in fl.items()]


def ascii_case_safe(node):
    """the model lower-cases ASCII only: true when Python's str.lower agrees with it on every token of the tree"""
    for t in tokens(node):
        s = str(t)
        if s.lower() != "".join(chr(ord(c) + 32) if "A" <= c <= "Z" else c for c in s):
            return False
    return True


def request(tree, pos, com):
    return {"op": "transform", "pos": bool(pos), "com": bool(com), "floats": floats(tree), "tree": wire(tree)}


def real_transform(tree, pos, com):
    """{'ok': encoded dict} | {'err': exception class of the call-back}"""
    from mappyfile.transformer import MapfileToDict
    from lark.exceptions import VisitError
    try:
        d = MapfileToDict(include_position=pos, include_comments=com).transform(tree)
    except VisitError as ex:
        return {"err": type(ex.orig_exc).__name__}
    except Exception as ex:
        return {"err": type(ex).__name__}
    try:
        return {"ok": core.enc(d)}
    except TypeError:
        return {"err": "UNSUPPORTED"}


def same(model, real):
    """model answer vs real answer: dictionaries exactly; errors by ok/err only (Lark wraps every call-back exception)"""
    if "ok" in model and "ok" in real:
        return model["ok"] == real["ok"]
    return ("err" in model) and ("err" in real)
