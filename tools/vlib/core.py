"""Shared machinery of every check: context, proof leg (translate + lake build + axiom audit + grep),
Lean driver calls, known findings, verdict, evidence.  See DESIGN.md §4-5."""
from __future__ import annotations
import fcntl, hashlib, json, os, random, re, subprocess, sys, time, traceback

ROOT = os.path.dirname(os.path.dirname(os.path.dirname(os.path.abspath(__file__))))
LEAN = os.environ.get("VERIF_LEAN_DIR") or os.path.join(ROOT, "lean")
REPO = os.environ.get("MAPPY_REPO", "/repo")
ALLOWED_AXIOMS = {"propext", "Classical.choice", "Quot.sound"}
FORBIDDEN = re.compile(r"\bsorry\b|\badmit\b|^\s*axiom\s|native_decide|bv_decide|implemented_by|\bunsafe\s|maxHeartbeats\s+0|\bextern\b")
os.environ.setdefault("MAPPYFILE_VERIF", "1")


def repo_check():
    import mappyfile
    p = os.path.realpath(mappyfile.__file__)
    if not p.startswith(os.path.realpath(REPO) + os.sep):
        print(f"INFRA: mappyfile imported from {p}, expected under {REPO}", file=sys.stderr)
        sys.exit(2)


class Ctx:
    def __init__(self, prop: str, tier: str, replay: str | None = None):
        self.prop = prop
        self.tier = tier
        self.thorough = tier == "thorough"
        self.seed = int(os.environ.get("VERIF_SEED", "0") or 0)
        self.rng = random.Random(f"{prop}-{self.seed}")
        self.t0 = time.time()
        self.replay = replay
        self.evaluations = 0
        self.nontrivial: set = set()
        self.samples: list = []
        self.dist: dict = {}
        self.violations: list = []      # dicts: signature, what, replay
        self.known_hits: dict = {}      # signature -> what
        self.broken: list = []          # broken obligations / correspondences
        self.proof: dict = {}
        self.assumptions: list = []
        self.notes: dict = {}
        self.findings = load_findings()
        self.corr = {}                  # op -> [compared, differences]

    # -- bookkeeping --------------------------------------------------------------------
    def count(self, key: str, n: int = 1):
        self.dist[key] = self.dist.get(key, 0) + n

    def case(self, fingerprint, nontrivial: bool = True, sample=None):
        self.evaluations += 1
        if nontrivial:
            h = hashlib.sha1(repr(fingerprint).encode("utf-8", "replace")).digest()[:8]
            self.nontrivial.add(h)
        if sample is not None and len(self.samples) < 6:
            self.samples.append(sample)

    def violation(self, signature: str, what: str, replay: dict):
        """An oracle violation on the real code.  Known signatures are remembered, others reported."""
        for f in self.findings:
            if f.get("property") == self.prop and f.get("status") == "known" and sig_match(f["signature"], signature):
                self.known_hits.setdefault(f["signature"], f.get("what", what))
                self.count("known-finding-hits")
                return False
        if len(self.violations) < 50:
            self.violations.append({"signature": signature, "what": what, "replay": replay})
        return True

    def corr_diff(self, op: str, case, model, impl):
        """A correspondence difference (model vs implementation): a broken tie, not yet a violation."""
        c = self.corr.setdefault(op, [0, 0])
        c[1] += 1
        if len(self.broken) < 20:
            self.broken.append({"kind": "correspondence", "op": op, "case": case, "model": model, "impl": impl})

    def corr_ok(self, op: str, n: int = 1):
        c = self.corr.setdefault(op, [0, 0])
        c[0] += n

    def elapsed(self):
        return time.time() - self.t0


def sig_match(pattern: str, sig: str) -> bool:
    if pattern.endswith("*"):
        return sig.startswith(pattern[:-1])
    return pattern == sig


def load_findings():
    p = os.path.join(ROOT, "known_findings.json")
    if not os.path.exists(p):
        return []
    with open(p) as f:
        return json.load(f)["findings"]


# ---------------------------------------------------------------------------------------
# proof leg
# ---------------------------------------------------------------------------------------
class Lock:
    def __init__(self, name="build"):
        self.path = os.path.join(LEAN, f".{name}.lock")

    def __enter__(self):
        self.f = open(self.path, "w")
        fcntl.flock(self.f, fcntl.LOCK_EX)

    def __exit__(self, *a):
        fcntl.flock(self.f, fcntl.LOCK_UN)
        self.f.close()


def strip_comments(src: str) -> str:
    # remove /- ... -/ (nested) and -- comments
    out, i, depth = [], 0, 0
    while i < len(src):
        if src.startswith("/-", i):
            depth += 1; i += 2; continue
        if depth and src.startswith("-/", i):
            depth -= 1; i += 2; continue
        if depth:
            i += 1; continue
        if src.startswith("--", i):
            j = src.find("\n", i)
            i = len(src) if j < 0 else j
            continue
        out.append(src[i]); i += 1
    return "".join(out)


def import_closure(module: str) -> list[str]:
    seen, todo = [], [module]
    while todo:
        m = todo.pop()
        if m in seen or not m.startswith("Mappy"):
            continue
        p = os.path.join(LEAN, m.replace(".", "/") + ".lean")
        if not os.path.exists(p):
            continue
        seen.append(m)
        for line in open(p, encoding="utf-8"):
            mm = re.match(r"\s*(?:public\s+)?import\s+([\w.]+)", line)
            if mm:
                todo.append(mm.group(1))
    return seen


def theorem_names(module: str) -> list[str]:
    p = os.path.join(LEAN, module.replace(".", "/") + ".lean")
    src = strip_comments(open(p, encoding="utf-8").read())
    ns = []
    names = []
    for line in src.splitlines():
        m = re.match(r"\s*namespace\s+([\w.]+)", line)
        if m:
            ns.append(m.group(1)); continue
        m = re.match(r"\s*end\s+([\w.]+)\s*$", line)
        if m and ns and ns[-1] == m.group(1):
            ns.pop(); continue
        m = re.match(r"\s*(?:private\s+|protected\s+)?theorem\s+([\w.']+)", line)
        if m:
            names.append(".".join(ns + [m.group(1)]))
    return names


def run(cmd, cwd=None, timeout=3600, env=None, input=None):
    p = subprocess.run(cmd, cwd=cwd, timeout=timeout, env=env, input=input, capture_output=True, text=True)
    return p.returncode, p.stdout + p.stderr


def proof_leg(ctx: Ctx, modules: list[str], need_driver: bool = True):
    """Regenerate Gen/, build the property's theorem files (and the driver), audit axioms and
    forbidden constructs.  Never raises; records broken obligations in ctx.broken."""
    from . import translate
    t0 = time.time()
    info = {"modules": modules, "theorems": {}, "obligations": 0, "discharged": 0}
    with Lock():
        try:
            tinfo = translate.run()
            info["translate"] = tinfo
        except translate.Refused as ex:
            ctx.broken.append({"kind": "translator", "detail": str(ex)})
            info["translate"] = {"refused": str(ex)}
        targets = list(modules) + (["driver"] if need_driver else [])
        rc, out = run(["lake", "build"] + targets, cwd=LEAN, timeout=3000)
        info["build_rc"] = rc
        if rc != 0:
            errs = [l for l in out.splitlines() if "error" in l][:10]
            # which modules failed?
            failed = re.findall(r"✖ \[\d+/\d+\] (?:Building|Built) ([\w.]+)", out)
            failed_targets = [m for m in failed if m in modules or any(m in import_closure(x) for x in modules)]
            driver_only = failed and not failed_targets
            ctx.broken.append({"kind": "proof-build", "failed_modules": failed, "errors": errs, "driver_only": bool(driver_only)})
            info["build_errors"] = errs
            if need_driver and not os.path.exists(driver_path()):
                pass
    # forbidden constructs in the closure
    closure = []
    for m in modules:
        for c in import_closure(m):
            if c not in closure:
                closure.append(c)
    bad = []
    for m in closure:
        p = os.path.join(LEAN, m.replace(".", "/") + ".lean")
        src = strip_comments(open(p, encoding="utf-8").read())
        for n, line in enumerate(src.splitlines(), 1):
            if FORBIDDEN.search(line):
                bad.append(f"{m}: {line.strip()[:80]}")
    info["closure"] = closure
    if bad:
        ctx.broken.append({"kind": "forbidden-construct", "detail": bad[:10]})
    # axiom audit
    names = []
    for m in modules:
        names += theorem_names(m)
    info["obligations"] = len(names)
    if info.get("build_rc") == 0 and names:
        audit = "\n".join(f"import {m}" for m in modules) + "\n" + "\n".join(f"#print axioms {n}" for n in names) + "\n"
        apath = os.path.join(LEAN, f".audit_{ctx.prop}_{os.getpid()}.lean")
        with open(apath, "w") as f:
            f.write(audit)
        try:
            rc, out = run(["lake", "env", "lean", apath], cwd=LEAN, timeout=1200)
        finally:
            os.unlink(apath)
        flat = re.sub(r"\s+", " ", out)
        for n in names:
            m = re.search(r"'" + re.escape(n) + r"' (does not depend on any axioms|depends on axioms: \[([^\]]*)\])", flat)
            if not m:
                info["theorems"][n] = None
                continue
            ax = [] if m.group(2) is None else [a.strip() for a in m.group(2).split(",") if a.strip()]
            info["theorems"][n] = ax
        okc = 0
        for n, ax in info["theorems"].items():
            if ax is None or not set(ax) <= ALLOWED_AXIOMS:
                ctx.broken.append({"kind": "axiom-audit", "theorem": n, "axioms": ax})
            else:
                okc += 1
        info["discharged"] = okc if not bad else 0
    if ctx.thorough and info.get("build_rc") == 0:
        with Lock():
            rc, out = run(["lake", "env", "leanchecker"] + modules, cwd=LEAN, timeout=3000)
        info["leanchecker_rc"] = rc
        if rc != 0:
            ctx.broken.append({"kind": "leanchecker", "detail": out[-500:]})
    info["wall_s"] = round(time.time() - t0, 2)
    ctx.proof = info
    return info


def driver_path():
    return os.path.join(LEAN, ".lake", "build", "bin", "driver")


def lean_call(requests: list[dict], timeout=3000) -> list[dict]:
    """Run the Lean driver on a batch of requests (one JSON per line)."""
    if not requests:
        return []
    data = "\n".join(json.dumps(r, ensure_ascii=False) for r in requests) + "\n"
    exe = driver_path()
    if os.path.exists(exe):
        cmd = [exe]
    else:
        cmd = ["lake", "env", "lean", "--run", "Main.lean"]
    p = subprocess.run(cmd, cwd=LEAN, input=data.encode("utf-8"), capture_output=True, timeout=timeout)
    lines = p.stdout.decode("utf-8").split("\n")    # not splitlines(): answers may hold NEL / U+2028 / FF inside strings
    if lines and lines[-1] == "":
        lines.pop()
    if len(lines) != len(requests):
        raise RuntimeError(f"driver returned {len(lines)} answers for {len(requests)} requests; rc={p.returncode} stderr={p.stderr[-400:]!r}")
    return [json.loads(l) for l in lines]


# ---------------------------------------------------------------------------------------
# J encoding of Python values (wire format of Mappy.Wire)
# ---------------------------------------------------------------------------------------
def enc(v):
    if v is None or isinstance(v, bool) or isinstance(v, str):
        return v
    if isinstance(v, int):
        return v
    if isinstance(v, float):
        return {"f": repr(v)}
    if isinstance(v, tuple):
        return {"t": [enc(x) for x in v]}
    if isinstance(v, list):
        return [enc(x) for x in v]
    if isinstance(v, dict):
        return {"d": [[k, enc(x)] for k, x in v.items()]}
    raise TypeError(f"cannot encode {type(v)}")


def dec(v, dict_cls=dict):
    if isinstance(v, list):
        return [dec(x, dict_cls) for x in v]
    if isinstance(v, dict):
        if "f" in v:
            return float(v["f"])
        if "t" in v:
            return tuple(dec(x, dict_cls) for x in v["t"])
        if "d" in v:
            return dict_cls((k, dec(x, dict_cls)) for k, x in v["d"])
        raise ValueError(v)
    return v


def canon(v):
    """Canonical comparable form of a Python value: distinguishes int/float/bool, list/tuple, keeps dict order."""
    return json.dumps(enc(v), ensure_ascii=False)


# ---------------------------------------------------------------------------------------
# verdict + evidence
# ---------------------------------------------------------------------------------------
def finish(ctx: Ctx, level_note: list[str], rule: str, search=None):
    """Decide, write replays/evidence, print VIOLATION / KNOWN-FINDING lines, exit."""
    prop = ctx.prop
    os.makedirs(os.path.join(ROOT, "replays"), exist_ok=True)
    os.makedirs(os.path.join(ROOT, "evidence"), exist_ok=True)
    lines = []
    exit_code = 0
    if ctx.broken and not ctx.violations and search is not None:
        # broken obligation / correspondence: look for a concrete failing input on the real code
        try:
            search(ctx)
        except Exception:
            ctx.notes["search_error"] = traceback.format_exc()[-800:]
    reported = 0
    seen_sigs = set()
    for v in ctx.violations:
        if v["signature"] in seen_sigs:
            continue
        seen_sigs.add(v["signature"])
        h = hashlib.sha1((v["signature"] + json.dumps(v["replay"], sort_keys=True, default=str)).encode()).hexdigest()[:10]
        path = os.path.join(ROOT, "replays", f"{prop}-{h}.json")
        with open(path, "w") as f:
            json.dump({"property": prop, "signature": v["signature"], "what": v["what"], "replay": v["replay"],
                       "replay_cmd": f"/venv/bin/python tools/check.py {prop} --replay replays/{prop}-{h}.json",
                       "broken": ctx.broken[:5]}, f, indent=1, default=str)
        lines.append(f"VIOLATION property={prop} replay={path}")
        reported += 1
        exit_code = 1
        if reported >= 5:
            break
    if ctx.broken and not ctx.violations:
        h = hashlib.sha1(json.dumps(ctx.broken, sort_keys=True, default=str).encode()).hexdigest()[:10]
        path = os.path.join(ROOT, "replays", f"{prop}-broken-{h}.json")
        with open(path, "w") as f:
            json.dump({"property": prop, "what": "proof obligation or correspondence no longer checks; no failing input found on the implementation",
                       "broken": ctx.broken}, f, indent=1, default=str)
        lines.append(f"VIOLATION property={prop} replay={path} no-failing-input-found")
        exit_code = 1
    for sig, what in sorted(ctx.known_hits.items()):
        lines.append(f"KNOWN-FINDING: property={prop} {sig}: {what}")
    proof = ctx.proof or {}
    cov = {
        "obligations": proof.get("obligations", 0),
        "discharged": proof.get("discharged", 0),
        "checker_cmd": "lake build " + " ".join(proof.get("modules", [])) + " && lake env lean <#print axioms audit>" + (" && lake env leanchecker" if ctx.thorough else ""),
        "trusted_base": level_note,
        "theorems": proof.get("theorems", {}),
        "proof_wall_s": proof.get("wall_s"),
        "translate": proof.get("translate"),
        "evaluations": ctx.evaluations,
        "distinct_nontrivial": len(ctx.nontrivial),
        "rule": rule,
        "samples": ctx.samples[:6] or ["(none)"],
        "input_distribution": dict(sorted(ctx.dist.items())),
        "correspondence": {k: {"compared": v[0] + v[1], "differences": v[1]} for k, v in ctx.corr.items()},
        "broken": ctx.broken[:5],
        "known_findings_reproduced": sorted(ctx.known_hits),
        "notes": ctx.notes,
    }
    ev = {"property_id": prop, "tier": ctx.tier, "seed": ctx.seed, "level": "proof", "coverage": cov,
          "assumptions": ctx.assumptions or level_note, "wall_s": round(ctx.elapsed(), 2),
          "violations": len(seen_sigs) + (1 if (ctx.broken and not ctx.violations) else 0)}
    with open(os.path.join(ROOT, "evidence", f"{prop}.json"), "w") as f:
        json.dump(ev, f, indent=1, default=str, ensure_ascii=False)
    for l in lines:
        print(l)
    print(f"{prop} {ctx.tier}: obligations {cov['discharged']}/{cov['obligations']}, evaluations {ctx.evaluations} "
          f"({len(ctx.nontrivial)} distinct non-trivial), corr {cov['correspondence']}, violations {ev['violations']}, "
          f"known {len(ctx.known_hits)}, {ev['wall_s']}s")
    sys.stdout.flush()
    sys.exit(exit_code)
