"""Shared by the printer properties (C03/C04/C06/C13/C14/C16): formatter option sets, the `pp` correspondence,
and an independent line reader of printed Mapfiles (not mappyfile code)."""
from __future__ import annotations
import copy, itertools, json, re
from . import core


def all_option_sets(newline_space=True):
    out = []
    for indent, spacer, quote, nl, ec, al, sc in itertools.product(range(0, 9), [" ", "\t"], ['"', "'"],
                                                                   ["\n", "\r\n"] + ([" "] if newline_space else []),
                                                                   [False, True], [False, True], [False, True]):
        out.append(dict(indent=indent, spacer=spacer, quote=quote, newlinechar=nl, end_comment=ec, align_values=al,
                        separate_complex_types=sc))
    return out


DEFAULT = dict(indent=4, spacer=" ", quote='"', newlinechar="\n", end_comment=False, align_values=False, separate_complex_types=False)


def sample_option_sets(rng, n, newline_space=False):
    """n option sets covering every single option value at least once (first few), then random ones"""
    alls = all_option_sets(newline_space)
    base = [DEFAULT,
            dict(indent=0, spacer="\t", quote="'", newlinechar="\r\n", end_comment=True, align_values=True, separate_complex_types=True),
            dict(indent=1, spacer="\t", quote='"', newlinechar="\n", end_comment=True, align_values=True, separate_complex_types=False),
            dict(indent=8, spacer=" ", quote="'", newlinechar="\r\n", end_comment=False, align_values=True, separate_complex_types=True),
            dict(indent=3, spacer=" ", quote='"', newlinechar="\n", end_comment=False, align_values=True, separate_complex_types=False),
            dict(indent=2, spacer=" ", quote="'", newlinechar="\n", end_comment=True, align_values=False, separate_complex_types=True)]
    out = base[:n]
    while len(out) < n:
        out.append(rng.choice(alls))
    return out


def has_quote_conflict(d, quote):
    """the documented exclusion: a string value containing the output quote character"""
    import re
    def walk(x):
        if isinstance(x, str):
            # the delimiters of a case-insensitive comparison string ('text'i / "text"i) are syntax, written as they are; an
            # ESCAPED quote is not a conflict either (the documentation excludes unescaped occurrences only)
            m = re.match(r"""^(["'])(.*)\1i$""", x, re.S)
            if m:
                x = m.group(2)
            return re.search(r"(?<!\\)" + re.escape(quote), x) is not None
        if isinstance(x, dict):
            return any(walk(k) or walk(v) for k, v in x.items() if k not in ("__position__",))
        if isinstance(x, (list, tuple)):
            return any(walk(v) for v in x)
        return False
    return walk(d)


def has_newline_value(d):
    def walk(x):
        if isinstance(x, str):
            return "\n" in x or "\r" in x
        if isinstance(x, dict):
            return any(walk(v) for k, v in x.items() if k != "__position__")
        if isinstance(x, (list, tuple)):
            return any(walk(v) for v in x)
        return False
    return walk(d)


_shared_validator = None


def real_pprint(d, opts, fresh=False):
    """the real PrettyPrinter.pprint on a copy of d.  Unless `fresh`, the printer's Validator (a memoising schema
    loader) is shared between calls for speed; every 50th call uses a fresh one."""
    global _shared_validator
    from mappyfile.pprint import PrettyPrinter
    try:
        pp = PrettyPrinter(**opts)
        real_pprint.calls = getattr(real_pprint, "calls", 0) + 1
        if not fresh and real_pprint.calls % 50:
            if _shared_validator is None:
                _shared_validator = pp.validator
            else:
                pp.validator = _shared_validator
        return {"ok": pp.pprint(copy.deepcopy(d))}
    except Exception as ex:
        return {"err": type(ex).__name__}


_parser = None


def fast_loads(text, **kw):
    """loads through one reused Parser (construction costs 0.25 s); comments/position off"""
    global _parser
    from mappyfile.parser import Parser
    from mappyfile.transformer import MapfileToDict
    if _parser is None:
        _parser = Parser()
    return MapfileToDict(**kw).transform(_parser.parse(text))


def ascii_lower_ok(d):
    """Python's lower()/upper()/strip() agree with the model's ASCII versions on every string of d"""
    def ok(s):
        return all(ord(c) < 128 or (c.lower() == c and c.upper() == c and not c.isspace()) for c in s)
    def walk(x):
        if isinstance(x, str):
            return ok(x)
        if isinstance(x, dict):
            return all(ok(k) and walk(v) for k, v in x.items())
        if isinstance(x, (list, tuple)):
            return all(walk(v) for v in x)
        return True
    return walk(d)


def pp_correspondence(ctx, cases, op="pp"):
    """cases: [(label, dict, opts)].  Compares Lean `pprint` with the real PrettyPrinter.pprint (exact strings)."""
    reqs, keep = [], []
    for label, d, opts in cases:
        if not ascii_lower_ok(d):
            ctx.count("pp-corr:skipped-nonascii-case")
            continue
        try:
            e = core.enc(d)
        except TypeError:
            ctx.count("pp-corr:skipped-unencodable")
            continue
        reqs.append({"op": "pp", "opts": opts, "d": e})
        keep.append((label, d, opts, real_pprint(d, opts)))
    try:
        answers = core.lean_call(reqs)
    except Exception as ex:
        ctx.broken.append({"kind": "driver", "detail": str(ex)[:300]})
        return
    for (label, d, opts, real), ans in zip(keep, answers):
        if ans.get("err") == "UNSUPPORTED":
            ctx.count("pp-corr:model-unsupported")
            continue
        if ans == real:
            ctx.corr_ok(op)
        else:
            diff = None
            if "ok" in ans and "ok" in real:
                nl = opts["newlinechar"]
                for a, b in itertools.zip_longest(ans["ok"].split(nl), real["ok"].split(nl)):
                    if a != b:
                        diff = {"model_line": a, "real_line": b}
                        break
            ctx.corr_diff(op, {"label": label, "opts": opts, "first_difference": diff}, str(ans)[:200], str(real)[:200])


def reload_correspondence(ctx, cases, op="reload"):
    """cases: [(label, plain dict that was printed, plain dict the real loads gave back for the printed text[, separate_complex_types])].
    Compares Lean `normDoc` (Model/Reload.lean: the dictionary a reload gives back, about which C04_document_normal_form is
    proved) with what the real printer + parser + transformer gave, exactly (keys, order, nesting, value types)."""
    reqs, keep = [], []
    for case in cases:
        label, d, back = case[:3]
        sep = bool(case[3]) if len(case) > 3 else False
        if not ascii_lower_ok(d):
            ctx.count(f"{op}-corr:skipped-nonascii-case")
            continue
        try:
            reqs.append({"op": "reload", "d": core.enc(d), "sep": sep})
        except TypeError:
            ctx.count(f"{op}-corr:skipped-unencodable")
            continue
        keep.append((label, d, back))
    try:
        answers = core.lean_call(reqs)
    except Exception as ex:
        ctx.broken.append({"kind": "driver", "detail": str(ex)[:300]})
        return
    for (label, d, back), ans in zip(keep, answers):
        if isinstance(ans, dict) and "bad" in ans:
            ctx.corr_diff(op, {"label": label}, str(ans)[:200], "(no answer)")
        elif ans == core.enc(back):
            ctx.corr_ok(op)
        else:
            ctx.corr_diff(op, {"label": label, "printed_dict": json.dumps(core.enc(d))[:1500]}, json.dumps(ans)[:600], json.dumps(core.enc(back))[:600])


# ---------------------------------------------------------------------------------------------
# independent line reader of printed output
# ---------------------------------------------------------------------------------------------
OPENER_RE = re.compile(r"^[A-Z]+$")


def read_layout(text, opts):
    """Checks the C16 layout contract on printed text. Returns a list of problems (empty = fine).
    Lines that are comments are skipped.  Not applicable to newlinechar without a line break."""
    nl = opts["newlinechar"]
    unit = opts["spacer"] * opts["indent"]
    problems = []
    stack = []          # (indent string, name)
    blocks = {}         # id of open block -> list of (key, value column) for alignment
    lines = text.split(nl)
    for no, line in enumerate(lines, 1):
        if "\n" in line or "\r" in line:
            problems.append(("stray-line-break", no, line))
            continue
        body = line.lstrip(" \t") if unit else line
        ind = line[: len(line) - len(body)]
        if body.startswith("#") or body.startswith("/*"):
            continue
        if body == "":
            problems.append(("blank-line", no, line)); continue
        first = body.split(" ", 1)[0]
        if first == "END" and (body == "END" or body.startswith("END # ")):
            if not stack:
                problems.append(("end-without-opener", no, line)); continue
            oind, name = stack.pop()
            if ind != oind:
                problems.append(("end-indentation", no, line))
            if opts["end_comment"]:
                if body != f"END # {name}":
                    problems.append(("end-comment", no, line))
            elif body != "END":
                problems.append(("end-comment-unexpected", no, line))
            continue
        expected_ind = unit * len(stack)
        if ind != expected_ind:
            problems.append(("indentation", no, line))
        if OPENER_RE.match(body) and body != "AUTO":
            stack.append((ind, body))
        # anything else is a keyword / pair line
    if stack:
        problems.append(("unclosed-block", len(lines), stack[-1][1]))
    return problems


KEYLINE_RE = re.compile(r"^([A-Z][A-Z0-9_]*)( +)(\S.*)$")


def read_alignment(text, opts):
    """With align_values: inside one object the values of the simple keyword lines start in one column, the first
    multiple of max(1, indent) past the longest such keyword (CONFIG lines and key/value blocks excepted)."""
    nl = opts["newlinechar"]
    problems = []
    stack = []   # per open block: list of (lineno, key, column)
    kv = []      # whether the open block is a key/value style block
    def close(entries):
        if not entries:
            return
        cols = {c for _, _, c in entries}
        longest = max(len(k) for _, k, _ in entries)
        i = max(1, opts["indent"])
        want = (longest // i + 1) * i
        if cols != {want}:
            problems.append(("alignment", entries[0][0], f"columns {sorted(cols)} expected {want}"))
    for no, line in enumerate(text.split(nl), 1):
        body = line.lstrip(" \t")
        if body.startswith("#") or body.startswith("/*") or not body:
            continue
        if body == "END" or body.startswith("END # "):
            if stack:
                close(stack.pop()); kv.pop()
            continue
        if OPENER_RE.match(body) and body != "AUTO":
            stack.append([]); kv.append(body in ("METADATA", "VALIDATION", "VALUES", "CONNECTIONOPTIONS", "PROJECTION", "POINTS", "PATTERN"))
            continue
        if stack and not kv[-1]:
            m = KEYLINE_RE.match(body)
            if m and m.group(1) != "CONFIG":
                stack[-1].append((no, m.group(1), len(m.group(1)) + len(m.group(2))))
            elif not m and not body.startswith("CONFIG"):
                problems.append(("no-separator", no, body[:60]))
        elif stack and kv[-1] and body.startswith(('"', "'")):
            # key/value pair: at least one blank between the two strings
            q = body[0]
            end = body.find(q, 1)
            if end > 0 and end + 1 < len(body) and body[end + 1] != " ":
                problems.append(("kv-no-separator", no, body[:60]))
    return problems
