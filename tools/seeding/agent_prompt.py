import sys
pid, hint_code, avoid, ways = sys.argv[1:5]
print(f"""You are helping to evaluate a verification harness by producing ONE realistic, subtle bug (a "seeded change") in the open-source Python library geographika/mappyfile, whose git repository is at /repo (do NOT edit /repo itself, and do not look at anything under /verif).

Work only in your own scratch git worktree. Create it with:
  git -C /repo worktree add --detach /tmp/wt/n-{pid} HEAD
and use the interpreter `/venv/bin/python` with `PYTHONPATH=/tmp/wt/n-{pid}` so that your modified copy is imported (check with `python -c "import mappyfile; print(mappyfile.__file__)"`).

The property your change must BREAK is described in the file /tmp/prop_{pid}.txt — read it first. Then read the relevant code in your worktree ({hint_code}).

Requirements for the change:
1. It is a small source change to mappyfile (a few lines, in one or two places) of the kind a developer could plausibly make as a refactor, optimisation, tidy-up or "fix" — not an obviously malicious or silly edit.
2. With the change, the package still imports and the EXISTING test suite still passes exactly as before: run `cd /tmp/wt/n-{pid} && PYTHONPATH=/tmp/wt/n-{pid} /venv/bin/python -m pytest -q -p no:cacheprovider --timeout=900 tests docs/examples` before and after (one test, tests/test_map_collection.py::test_maps, fails on the unmodified tree already; that is expected: "1 failed, 249 passed").
3. The change breaks the property ({ways}), but only manifests under something SPECIFIC — a particular value shape, option, keyword, block type, nesting depth, order of operations — not on the ordinary inputs the test-suite uses. Avoid these already-used ideas: {avoid}. Pick a different mechanism.
4. Write a demonstration program /tmp/newseeds/{pid}-n1/demo.py (pure Python, importing mappyfile) that exits 0 on the unmodified code and exits non-zero (assertion failure) with your change applied. It must exercise only the public API.

Deliverables, all in the directory /tmp/newseeds/{pid}-n1/ (create it):
- patch.diff  : output of `git -C /tmp/wt/n-{pid} diff` (must apply cleanly to /repo HEAD with `git apply`)
- demo.py     : the demonstration
- meta.json   : {{"id": "{pid}-n1", "property": "{pid}", "summary": "<what was changed and why it looks innocent>", "needs": "<exactly what is needed for the bug to manifest>", "ran": "<the commands you ran and their results, incl. the suite result before and after and demo exit codes before and after>"}}

Verify yourself: suite result unchanged with the patch; demo exit 0 without the patch and non-zero with it. When done, remove your worktree: `git -C /repo worktree remove --force /tmp/wt/n-{pid}`. Reply with a 5-line summary.""")
