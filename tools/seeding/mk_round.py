import json, glob, sys, os, subprocess
props = {json.loads(l)['id']: json.loads(l) for l in open('/verif/properties.jsonl')}
suffix = sys.argv[1]
for pid in sys.argv[2:]:
    p = props[pid]
    avoid = []
    for d in sorted(glob.glob(f'/verif/seeded/{pid}-*')):
        try:
            m = json.load(open(d + '/meta.json'))
            avoid.append((m.get('summary') or '')[:220].replace('\n', ' '))
        except Exception:
            pass
    files = p['anchors'].get('files', []) if isinstance(p['anchors'], dict) else p['anchors']
    hint = ", ".join(files)
    ways = "the property as stated in the file stops holding for some particular input / option / history; prefer a change that needs something specific to manifest: a multi-step sequence of operations, a reused object, two cooperating sites that each look fine alone, a particular option combination, or an unusual-but-valid input"
    txt = subprocess.run(['python3', '/tmp/agent_prompt.py', pid, hint, " ;; ".join(avoid) or "(none)", ways], capture_output=True, text=True).stdout
    txt = txt.replace(f"{pid}-n1", f"{pid}-{suffix}").replace(f"/tmp/wt/n-{pid}", f"/tmp/wt/{suffix}-{pid}")
    open(f'/tmp/ap_{pid}_{suffix}.txt', 'w').write(txt)
    print(pid, len(txt), len(avoid))
