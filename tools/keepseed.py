#!/usr/bin/env python3
"""keepseed.py <src dir> [caught_by_check result ...] : copy a confirmed seeded change into /verif/seeded/<id>/"""
import json, os, shutil, sys
src = sys.argv[1].rstrip("/")
sid = os.path.basename(src)
dst = os.path.join("/verif/seeded", sid)
os.makedirs(dst, exist_ok=True)
for f in ("patch.diff", "demo.py"):
    shutil.copy(os.path.join(src, f), os.path.join(dst, f))
meta = json.load(open(os.path.join(src, "meta.json")))
conf = json.load(open(os.path.join(src, "confirm.json"))) if os.path.exists(os.path.join(src, "confirm.json")) else {}
old = json.load(open(os.path.join(dst, "meta.json"))) if os.path.exists(os.path.join(dst, "meta.json")) else {}
out = {"id": sid, "property": meta.get("property"), "summary": meta.get("summary"), "needs": meta.get("needs"),
       "author_ran": meta.get("ran"),
       "confirmed_by_me": {"how": "tools/confirmseed.sh in a scratch worktree of /repo at base_commit (removed afterwards)", **conf},
       "detected_by": old.get("detected_by", {})}
for a in sys.argv[2:]:
    k, v = a.split("=", 1)
    out["detected_by"][k] = v
json.dump(out, open(os.path.join(dst, "meta.json"), "w"), indent=1, ensure_ascii=False)
print("kept", sid, out["detected_by"])
