#!/bin/bash
# usage: seedwt.sh <dir with patch.diff [demo.py]> <Cxx> [tier] -- like seedtest.sh, but applies the seeded change to a scratch
# worktree and points the check at it (MAPPY_REPO / PYTHONPATH), leaving /repo alone (for use while other runs read /repo).
d=$(realpath "$1"); prop=$2; tier=${3:-quick}; id=$(basename "$d")
wt=/tmp/sw/$id
mkdir -p /tmp/sw; git -C /repo worktree remove --force $wt >/dev/null 2>&1
git -C /repo worktree add --detach $wt HEAD >/dev/null 2>&1 || { echo "cannot create worktree"; exit 2; }
if ! git -C $wt apply "$d/patch.diff" 2>/dev/null; then
  if ! git -C $wt apply --3way "$d/patch.diff" >/dev/null 2>&1; then echo "PATCH DOES NOT APPLY: $d"; git -C /repo worktree remove --force $wt; exit 3; fi
fi
if [ -f "$d/demo.py" ]; then (cd /tmp && PYTHONPATH=$wt /venv/bin/python "$d/demo.py" >/dev/null 2>&1; echo "demo exit (mutated): $?"); fi
cd /verif && MAPPY_REPO=$wt PYTHONPATH=$wt timeout 3000 /venv/bin/python tools/check.py $prop $tier 2>&1 | tail -4; echo "check exit: ${PIPESTATUS[0]}"
git -C /repo worktree remove --force $wt
# the generated tables must describe /repo again
cd /verif && /venv/bin/python -c "import sys; sys.path.insert(0,'tools'); from vlib import translate; translate.run()" >/dev/null 2>&1
