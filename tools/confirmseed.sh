#!/bin/bash
# usage: confirmseed.sh <seed dir> : confirms in a scratch worktree (at the seed's base commit) that the suite passes with the
# change, and that demo.py passes without / fails with it.  Writes <seed dir>/confirm.json. Removes the worktree.
d=$(realpath "$1"); id=$(basename "$d"); base=${2:-e53c638}
wt=/tmp/wt/confirm-$id
git -C /repo worktree add -q --detach "$wt" "$base" || exit 2
cd "$wt"
PYTHONPATH=$wt /venv/bin/python "$d/demo.py" >/dev/null 2>&1; clean=$?
if git apply "$d/patch.diff"; then applied=true; else applied=false; fi
PYTHONPATH=$wt /venv/bin/python "$d/demo.py" >/dev/null 2>&1; mut=$?
suite=$(PYTHONPATH=$wt /venv/bin/python -m pytest -q -p no:cacheprovider --timeout=900 tests docs/examples 2>&1 | tail -1)
where=$(PYTHONPATH=$wt /venv/bin/python -c "import mappyfile;print(mappyfile.__file__)")
cd /; git -C /repo worktree remove --force "$wt"
python3 - "$d" "$clean" "$mut" "$suite" "$applied" "$base" "$where" <<'PY'
import json,sys
d,clean,mut,suite,applied,base,where=sys.argv[1:]
json.dump({"base_commit":base,"patch_applied":applied=="true","demo_exit_clean":int(clean),"demo_exit_mutated":int(mut),"suite_with_change":suite.strip(),"module_path":where},open(d+"/confirm.json","w"),indent=1)
print(d, clean, mut, suite.strip())
PY
