#!/bin/bash
# usage: intakeseed.sh <dir under /tmp/newseeds> <Cxx> : confirm a freshly authored seed (suite passes with it, demo 0/!=0),
# copy it to /verif/seeded/<id>/, run the property's quick check against it and record the outcome in meta.json.
src=$(realpath "$1"); prop=$2; id=$(basename "$src")
dst=/verif/seeded/$id
mkdir -p "$dst"; cp "$src/patch.diff" "$src/demo.py" "$dst/"
python3 - "$src" "$dst" <<'PY'
import json,sys
src,dst=sys.argv[1:]
m=json.load(open(src+'/meta.json'))
out={"id":m.get("id"),"property":m.get("property"),"summary":m.get("summary"),"needs":m.get("needs"),"author_ran":m.get("ran"),"detected_by":{}}
json.dump(out,open(dst+'/meta.json','w'),indent=1,ensure_ascii=False)
PY
mkdir -p /tmp/wt
bash /verif/tools/confirmseed.sh "$dst" HEAD || exit 2
python3 /verif/tools/markseed.py "$id" >/dev/null
bash /verif/tools/seedtest.sh "$dst" "$prop" 2>&1 | grep -v "^KNOWN" | tail -4
