#!/usr/bin/env python3
"""markseed.py <seed id> <check>=<result> ... : record which check detected a seeded change (and fold confirm.json into meta.json)"""
import json, os, sys
d = os.path.join("/verif/seeded", sys.argv[1])
m = json.load(open(os.path.join(d, "meta.json")))
cp = os.path.join(d, "confirm.json")
if os.path.exists(cp):
    m["confirmed_by_me"] = {"how": "tools/confirmseed.sh in a scratch worktree of /repo at base_commit (removed afterwards)", **json.load(open(cp))}
    os.unlink(cp)
m.setdefault("detected_by", {})
for a in sys.argv[2:]:
    k, v = a.split("=", 1)
    m["detected_by"][k] = v
json.dump(m, open(os.path.join(d, "meta.json"), "w"), indent=1, ensure_ascii=False)
print(sys.argv[1], m["detected_by"])
