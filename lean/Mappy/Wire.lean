/-
  JSON wire format of the line protocol (driver side).  Not part of any theorem's import closure.
  J encoding: null/true/false/integer/string as themselves, float = {"f": "<repr>"},
  tuple = {"t": [...]}, dict = {"d": [[k, v], ...]} (Lean.Json objects are sorted maps, so
  ordered dicts travel as pair arrays), list = [...].
-/
import Lean.Data.Json
import Mappy.Base
open Lean

namespace Mappy.Wire

def s2l (s : String) : Str := s.toList
def l2s (s : Str) : String := String.ofList s

partial def toJ : Json → Except String J
  | .null => pure .null
  | .bool b => pure (.bool b)
  | .num n => if n.exponent = 0 then pure (.int n.mantissa) else throw s!"non-integer number {n}"
  | .str s => pure (.str (s2l s))
  | .arr a => do pure (.list (← a.toList.mapM toJ))
  | .obj o => do
      match o.get? "f" with
      | some (.str s) => pure (.flt (s2l s))
      | _ =>
      match o.get? "t" with
      | some (.arr a) => pure (.tup (← a.toList.mapM toJ))
      | _ =>
      match o.get? "d" with
      | some (.arr a) =>
          let kvs ← a.toList.mapM fun p => do
            match p with
            | .arr #[.str k, v] => pure (s2l k, ← toJ v)
            | _ => throw "bad dict pair"
          pure (.dict kvs)
      | _ => throw "bad object"

partial def ofJ : J → Json
  | .null => .null
  | .bool b => .bool b
  | .int n => .num (JsonNumber.fromInt n)
  | .flt s => Json.mkObj [("f", .str (l2s s))]
  | .str s => .str (l2s s)
  | .list xs => .arr (xs.map ofJ).toArray
  | .tup xs => Json.mkObj [("t", .arr (xs.map ofJ).toArray)]
  | .dict kvs => Json.mkObj [("d", .arr (kvs.map fun (k, v) => Json.arr #[.str (l2s k), ofJ v]).toArray)]

def ofRes (f : α → Json) : Res α → Json
  | .ok a => Json.mkObj [("ok", f a)]
  | .error e => Json.mkObj [("err", .str e.name)]

def getStr (j : Json) (k : String) : Except String Str := do
  match j.getObjVal? k with
  | .ok (.str s) => pure (s2l s)
  | _ => throw s!"missing string field {k}"

def getBool (j : Json) (k : String) : Except String Bool := do
  match j.getObjVal? k with
  | .ok (.bool b) => pure b
  | _ => throw s!"missing bool field {k}"

def getNat (j : Json) (k : String) : Except String Nat := do
  match j.getObjVal? k with
  | .ok (.num n) => if n.exponent = 0 && n.mantissa ≥ 0 then pure n.mantissa.toNat else throw s!"bad nat {k}"
  | _ => throw s!"missing nat field {k}"

def getInt (j : Json) (k : String) : Except String Int := do
  match j.getObjVal? k with
  | .ok (.num n) => if n.exponent = 0 then pure n.mantissa else throw s!"bad int {k}"
  | _ => throw s!"missing int field {k}"

def getJ (j : Json) (k : String) : Except String J := do
  match j.getObjVal? k with
  | .ok v => toJ v
  | _ => throw s!"missing field {k}"

def getArr (j : Json) (k : String) : Except String (List Json) := do
  match j.getObjVal? k with
  | .ok (.arr a) => pure a.toList
  | _ => throw s!"missing array field {k}"

def getFields (j : Json) (k : String) : Except String Fields := do
  match ← getJ j k with
  | .dict kvs => pure kvs
  | _ => throw s!"field {k} is not a dict"

end Mappy.Wire
