/-
  C09 — version classes: the version filter looks at the version only through comparisons with the bounds written in the
  schemas.  Two versions on the same side of every bound get the same verdict for every object and alternative, hence the
  same pruned `properties` — for EVERY pair of versions, not for sampled points.
-/
import Mappy.Lemmas.VersionStore
import Mappy.Props.C09
import Mappy.Gen.Schemas

namespace Mappy.Versioning

/-- `v` and `w` are on the same side of `b` -/
def SameSide (v w b : Int) : Prop := (v < b ↔ w < b) ∧ (b < v ↔ b < w)

/-- … of every bound in `B` -/
def Agree (B : List Int) (v w : Int) : Prop := ∀ b ∈ B, SameSide v w b

/-- the bounds of an object's own `metadata` entry (defaults 0 and 1000 included) are listed in `B` -/
def metaIn (B : List Int) (kvs : Fields) : Bool :=
  match lookup metaKey kvs with
  | some (.dict md) => B.contains (minOf md) && B.contains (maxOf md)
  | _ => true

mutual
/-- every inline object the local filter can look at (any depth, inside lists too; referenced documents aside) has its
bounds in `B` -/
def boundsIn (B : List Int) : J → Bool
  | .dict kvs => (refOfFields kvs).isSome || (metaIn B kvs && boundsInF B kvs)
  | .list xs => boundsInL B xs
  | _ => true
def boundsInF (B : List Int) : Fields → Bool
  | [] => true
  | (_, x) :: r => boundsIn B x && boundsInF B r
def boundsInL (B : List Int) : List J → Bool
  | [] => true
  | x :: r => boundsIn B x && boundsInL B r
end

/-- **C09_valid_by_side** — the range test depends on the version only through the side of the two bounds it is on -/
theorem C09_valid_by_side (B : List Int) (v w : Int) (hA : Agree B v w) (kvs : Fields) (h : metaIn B kvs = true) :
    isValid v kvs = isValid w kvs := by
  unfold isValid
  unfold metaIn at h
  split
  · rename_i md hmd
    simp only [hmd, Bool.and_eq_true, List.contains_iff_mem] at h
    have h1 := hA _ h.1
    have h2 := hA _ h.2
    have e1 : decide (v < minOf md) = decide (w < minOf md) := by simp only [decide_eq_decide]; exact h1.1
    have e2 : decide (v > maxOf md) = decide (w > maxOf md) := by simp only [decide_eq_decide]; exact h2.2
    rw [e1, e2]
  · rfl

mutual
/-- the local filter of a document is the same for two versions in one class -/
theorem lFields_agree (B : List Int) (v w : Int) (hA : Agree B v w) (rv : Str → Bool) :
    (d : Fields) → boundsInF B d = true → lFields v rv d = lFields w rv d
  | [], _ => by simp only [lFields]
  | (k, .dict kvs) :: r, h => by
    simp only [boundsInF, boundsIn, Bool.and_eq_true, Bool.or_eq_true] at h
    have ihr := lFields_agree B v w hA rv r h.2
    simp only [lFields]
    cases hr : refOfFields kvs with
    | some u => simp only [ihr]
    | none =>
      have hk : metaIn B kvs = true ∧ boundsInF B kvs = true := by
        rcases h.1 with h1 | h1
        · simp [hr] at h1
        · exact h1
      simp only [C09_valid_by_side B v w hA kvs hk.1, lFields_agree B v w hA rv kvs hk.2, ihr]
  | (k, .list xs) :: r, h => by
    simp only [boundsInF, boundsIn, Bool.and_eq_true] at h
    simp only [lFields, lList_agree B v w hA rv xs h.1, lFields_agree B v w hA rv r h.2]
  | (k, .null) :: r, h | (k, .bool _) :: r, h | (k, .int _) :: r, h | (k, .flt _) :: r, h
  | (k, .str _) :: r, h | (k, .tup _) :: r, h => by
    simp only [boundsInF, boundsIn, Bool.true_and] at h
    simp only [lFields, lFields_agree B v w hA rv r h]
theorem lList_agree (B : List Int) (v w : Int) (hA : Agree B v w) (rv : Str → Bool) :
    (xs : List J) → boundsInL B xs = true → lList v rv xs = lList w rv xs
  | [], _ => by simp only [lList]
  | .dict kvs :: es, h => by
    simp only [boundsInL, boundsIn, Bool.and_eq_true, Bool.or_eq_true] at h
    have ihr := lList_agree B v w hA rv es h.2
    simp only [lList]
    cases hr : refOfFields kvs with
    | some u => simp only [ihr]
    | none =>
      have hk : metaIn B kvs = true ∧ boundsInF B kvs = true := by
        rcases h.1 with h1 | h1
        · simp [hr] at h1
        · exact h1
      simp only [C09_valid_by_side B v w hA kvs hk.1, lFields_agree B v w hA rv kvs hk.2, ihr]
  | .null :: es, h | .bool _ :: es, h | .int _ :: es, h | .flt _ :: es, h
  | .str _ :: es, h | .tup _ :: es, h | .list _ :: es, h => by
    simp only [boundsInL, boundsIn, Bool.and_eq_true] at h
    simp only [lList, lList_agree B v w hA rv es (by first | exact h.2 | exact h)]
end

/-- references are judged alike by two versions of one class when every document's own bounds are in `B` -/
theorem refValid_agree (B : List Int) (v w : Int) (hA : Agree B v w) (files : Store)
    (hB : ∀ u doc, lookup u files = some (.dict doc) → metaIn B doc = true) (u : Str) :
    refValid v files u = refValid w files u := by
  unfold refValid
  split
  · rename_i doc hl; exact C09_valid_by_side B v w hA doc (hB u doc hl)
  · rfl

/-- **C09_version_classes** — for EVERY well-formed schema folder, EVERY two versions in range that lie on the same side of
every bound in `B`, every budget and every `properties` dict whose inline objects take their bounds from `B`: the version
filter returns the same pruned dict.  (What it returns for one representative of a class it returns for the whole class;
the classes are cut by the bounds written in the schemas and nothing else.) -/
theorem C09_version_classes (B : List Int) (v w : Int) (hv : inRange v) (hw : inRange w) (hA : Agree B v w)
    (files : Store) (hwf : ∀ f ∈ files, wf f.2 = true)
    (hB : ∀ u doc, lookup u files = some (.dict doc) → metaIn B doc = true)
    (n : Nat) (d : Fields) (hd : boundsInF B d = true) :
    (fFields v (follow v n) files d).1 = (fFields w (follow w n) files d).1 := by
  have hrv : refValid w files = refValid v files := by
    funext u; exact (refValid_agree B v w hA files hB u).symm
  have h1 := C09_walk_is_local_filter v hv n files d (refValid v files) (inv_files v files hwf)
  have h2 := C09_walk_is_local_filter w hw n files d (refValid v files) (hrv ▸ inv_files w files hwf)
  rw [h1, h2]
  exact lFields_agree B v w hA (refValid v files) d hd

/-! ### the regenerated schema folder -/

mutual
/-- every number written as `minVersion` / `maxVersion` anywhere in a document, in thousandths -/
def boundsJ : J → List Int
  | .dict kvs => boundsF kvs
  | .list xs => boundsL xs
  | _ => []
def boundsF : Fields → List Int
  | [] => []
  | (k, v) :: r =>
    (if k = minKey || k = maxKey then (match numMilli v with | some n => [n] | none => []) else []) ++ boundsJ v ++ boundsF r
def boundsL : List J → List Int
  | [] => []
  | x :: r => boundsJ x ++ boundsL r
end

/-- the distinct version bounds of the folder -/
def folderBounds : List Int := (boundsF Gen.files).eraseDups


/-- … with the two defaults of the range test -/
def allBounds : List Int := 0 :: 1000000 :: folderBounds

theorem boundsIn_of_lookup (B : List Int) : (d : Fields) → boundsInF B d = true → ∀ k x, lookup k d = some x → boundsIn B x = true
  | [], _, k, x, h => by simp [lookup] at h
  | (k', y) :: r, hb, k, x, h => by
    simp only [boundsInF, Bool.and_eq_true] at hb
    simp only [lookup] at h
    split at h
    · injection h with h; subst h; exact hb.1
    · exact boundsIn_of_lookup B r hb.2 k x h

/-- **C09_files_bounds_in** — every schema file of the regenerated folder is a plain object (no reference at its top) and
every version bound the filter can meet in it — at any depth — is one of the folder's bounds -/
theorem C09_files_bounds_in : ∀ f ∈ Gen.files,
    (match f.2 with
     | .dict doc => (refOfFields doc).isNone && metaIn allBounds doc && boundsInF allBounds doc
     | _ => false) = true := by decide +kernel

theorem files_metaIn (u : Str) (doc : Fields) (hl : lookup u Gen.files = some (.dict doc)) : metaIn allBounds doc = true := by
  have := C09_files_bounds_in (u, .dict doc) (mem_of_lookup Gen.files u _ hl)
  simp only [Bool.and_eq_true] at this
  exact this.1.2

/-- **C09_version_classes_files** — on the schema folder of this tree, for EVERY two versions in range on the same side of
every bound written in the folder (and of the defaults 0 and 1000), every schema file and every budget:
`get_versioned_properties` returns the same pruned `properties`.  Nothing but the written bounds separates versions. -/
theorem C09_version_classes_files (v w : Int) (hv : inRange v) (hw : inRange w) (hA : Agree allBounds v w)
    (n : Nat) (name : Str) (doc props : Fields) (hl : lookup name Gen.files = some (.dict doc))
    (hp : lookup propsKey doc = some (.dict props)) (hnr : refOfFields props = none) :
    (fFields v (follow v n) Gen.files props).1 = (fFields w (follow w n) Gen.files props).1 := by
  have hf := C09_files_bounds_in (name, .dict doc) (mem_of_lookup Gen.files name _ hl)
  simp only [Bool.and_eq_true] at hf
  have hb := boundsIn_of_lookup allBounds doc hf.2 propsKey _ hp
  simp only [boundsIn, hnr, Option.isSome_none, Bool.false_or, Bool.and_eq_true] at hb
  exact C09_version_classes allBounds v w hv hw hA Gen.files C09_files_wf (fun u d h => files_metaIn u d h) n props hb.2

/-! ### every version has a representative among finitely many points -/

/-- the representative of `v`: `v` itself when it is a bound, else one above the largest bound below it, else one below
all bounds -/
def rep (B : List Int) (v : Int) : Int :=
  if B.contains v then v
  else match B.filter (· ≤ v) with
    | [] => B.foldl min v - 1
    | s :: r => r.foldl max s + 1

theorem foldl_max_ge (a : Int) : (l : List Int) → a ≤ l.foldl max a ∧ ∀ x ∈ l, x ≤ l.foldl max a
  | [] => by simp
  | y :: r => by
    have ih := foldl_max_ge (max a y) r
    simp only [List.foldl_cons]
    refine ⟨Int.le_trans (Int.le_max_left a y) ih.1, ?_⟩
    intro x hx
    rcases List.mem_cons.mp hx with rfl | hx
    · exact Int.le_trans (Int.le_max_right a x) ih.1
    · exact ih.2 x hx

theorem foldl_max_mem (a : Int) : (l : List Int) → l.foldl max a = a ∨ l.foldl max a ∈ l
  | [] => by simp
  | y :: r => by
    simp only [List.foldl_cons]
    rcases foldl_max_mem (max a y) r with h | h
    · rw [h]
      rcases Int.le_total a y with hle | hle
      · right; rw [Int.max_eq_right hle]; exact List.mem_cons_self ..
      · left; exact Int.max_eq_left hle
    · right; exact List.mem_cons_of_mem _ h

theorem foldl_min_le (a : Int) : (l : List Int) → l.foldl min a ≤ a ∧ ∀ x ∈ l, l.foldl min a ≤ x
  | [] => by simp
  | y :: r => by
    have ih := foldl_min_le (min a y) r
    simp only [List.foldl_cons]
    refine ⟨Int.le_trans ih.1 (Int.min_le_left a y), ?_⟩
    intro x hx
    rcases List.mem_cons.mp hx with rfl | hx
    · exact Int.le_trans ih.1 (Int.min_le_right a x)
    · exact ih.2 x hx

/-- **C09_representative** — every version is in the class of its representative -/
theorem C09_representative (B : List Int) (v : Int) : Agree B v (rep B v) := by
  intro b hb
  unfold rep
  by_cases hc : B.contains v = true
  · simp only [hc, if_true]; exact ⟨Iff.rfl, Iff.rfl⟩
  · simp only [hc, if_false, Bool.false_eq_true]
    have hvb : v ≠ b := fun e => hc (by rw [e]; exact List.contains_iff_mem.mpr hb)
    cases hs : B.filter (· ≤ v) with
    | nil =>
      -- every bound is above v
      have hgt : v < b := by
        have : ¬ b ≤ v := fun hle => by
          have : b ∈ B.filter (· ≤ v) := List.mem_filter.mpr ⟨hb, by simpa using hle⟩
          rw [hs] at this; simp at this
        omega
      have hmin := (foldl_min_le v B).2 b hb
      have hmin2 := (foldl_min_le v B).1
      simp only
      refine ⟨⟨fun _ => by omega, fun _ => hgt⟩, ⟨fun h => by omega, fun h => by omega⟩⟩
    | cons s r =>
      simp only
      have hall : ∀ x ∈ s :: r, x ∈ B ∧ x ≤ v := fun x hx => by
        have := List.mem_filter.mp (hs ▸ hx); exact ⟨this.1, by simpa using this.2⟩
      have hge := foldl_max_ge s r
      have hm : r.foldl max s ∈ s :: r := by
        rcases foldl_max_mem s r with h | h
        · rw [h]; exact List.mem_cons_self ..
        · exact List.mem_cons_of_mem _ h
      have hmle := (hall _ hm).2
      have hmB := (hall _ hm).1
      have hmne : r.foldl max s ≠ v := fun e => hc (by rw [← e]; exact List.contains_iff_mem.mpr hmB)
      by_cases hbv : b ≤ v
      · have hbin : b ∈ s :: r := hs ▸ List.mem_filter.mpr ⟨hb, by simpa using hbv⟩
        have hbm : b ≤ r.foldl max s := by
          rcases List.mem_cons.mp hbin with rfl | h
          · exact hge.1
          · exact hge.2 b h
        refine ⟨⟨fun h => by omega, fun h => by omega⟩, ⟨fun _ => by omega, fun _ => by omega⟩⟩
      · refine ⟨⟨fun _ => by omega, fun _ => by omega⟩, ⟨fun h => by omega, fun h => by omega⟩⟩

/-- the finitely many representatives: every bound, every bound plus one, and one point below all bounds -/
theorem rep_mem (B : List Int) (v : Int) :
    rep B v ∈ B ∨ (∃ b ∈ B, rep B v = b + 1) ∨ (∀ b ∈ B, rep B v < b) := by
  unfold rep
  by_cases hc : B.contains v = true
  · simp only [hc, if_true]; exact Or.inl (List.contains_iff_mem.mp hc)
  · simp only [hc, if_false, Bool.false_eq_true]
    cases hs : B.filter (· ≤ v) with
    | nil =>
      right; right
      intro b hb
      have := (foldl_min_le v B).2 b hb
      simp only; omega
    | cons s r =>
      right; left
      have hm : r.foldl max s ∈ s :: r := by
        rcases foldl_max_mem s r with h | h
        · rw [h]; exact List.mem_cons_self ..
        · exact List.mem_cons_of_mem _ h
      exact ⟨_, (List.mem_filter.mp (hs ▸ hm)).1, rfl⟩

end Mappy.Versioning

namespace Mappy.Versioning

/-- finitely many points, one for every class: one below all bounds, every bound, every bound plus one thousandth -/
def classPoints (B : List Int) : List Int := (B.foldl min 0 - 1) :: (B ++ B.map (· + 1))

/-- **C09_points_exhaustive** — for EVERY list of bounds and EVERY version there is a point among the finitely many
`classPoints` that lies on the same side of every bound: what holds at those points holds, as far as the filter can tell,
at every version -/
theorem C09_points_exhaustive (B : List Int) (v : Int) : ∃ r ∈ classPoints B, Agree B v r := by
  rcases rep_mem B v with h | ⟨b, hb, h⟩ | h
  · exact ⟨rep B v, by simp [classPoints, h], C09_representative B v⟩
  · refine ⟨rep B v, ?_, C09_representative B v⟩
    simp only [classPoints, List.mem_cons, List.mem_append, List.mem_map]
    exact Or.inr (Or.inr ⟨b, hb, h.symm⟩)
  · refine ⟨B.foldl min 0 - 1, by simp [classPoints], ?_⟩
    intro b hb
    have hA := C09_representative B v b hb
    have hlt := h b hb
    have hmin := (foldl_min_le 0 B).2 b hb
    have hv : v < b := hA.1.mpr hlt
    exact ⟨⟨fun _ => by omega, fun _ => hv⟩, ⟨fun hh => by omega, fun hh => by omega⟩⟩

/-- the regenerated folder: 16 bounds (14 written, 2 defaults), 33 points -/
example : (classPoints allBounds).length = 33 := by decide +kernel

end Mappy.Versioning

namespace Mappy.Versioning
/-- non-vacuity: 7.65 and 7.7 lie between the same written bounds, 7.6 and 7.65 do not (7.6 is a bound) -/
instance (B : List Int) (v w : Int) : Decidable (Agree B v w) := by unfold Agree SameSide; infer_instance
example : Agree allBounds 7650 7700 ∧ ¬ Agree allBounds 7600 7650 := by decide +kernel
end Mappy.Versioning
