/-
  C01 — parse → print → parse preserves content (value level + structure lemmas; the step "Lark reads the printed text
  back as the tokens the printer wrote" is the parser gap, exercised on every case by the check).
  For each lexical class: what the transformer stores for the token the printer writes is the original value, up to
  the two allowed differences (`Printer.normV`: enumerated words upper-cased, numbers at string-typed keywords as
  decimal strings).
-/
import Mappy.Model.Printer
import Mappy.Model.Transformer
import Mappy.Props.C03
import Mappy.Props.C04
import Mappy.Props.C02

namespace Mappy.RoundTrip
open Mappy Mappy.Printer Mappy.Quoter Mappy.Transformer

/-! ### integers: `int(str(n)) = n` -/

def digitFold (acc : Option Nat) (c : Char) : Option Nat :=
  match acc with
  | some a => if '0' ≤ c ∧ c ≤ '9' then some (a * 10 + (c.toNat - 48)) else none
  | none => none

theorem parseNatD_eq (s : Str) (h : s ≠ []) : parseNatD s = s.foldl digitFold (some 0) := by
  unfold parseNatD
  have : s.isEmpty = false := by cases s <;> simp_all
  simp only [this, Bool.false_eq_true, if_false]
  rfl

theorem digitChar_range (d : Nat) (h : d < 10) : '0' ≤ d.digitChar ∧ d.digitChar ≤ '9' := by
  have : d = 0 ∨ d = 1 ∨ d = 2 ∨ d = 3 ∨ d = 4 ∨ d = 5 ∨ d = 6 ∨ d = 7 ∨ d = 8 ∨ d = 9 := by omega
  rcases this with rfl | rfl | rfl | rfl | rfl | rfl | rfl | rfl | rfl | rfl <;> decide

theorem fold_toDigits (n : Nat) : ∀ a, (Nat.toDigits 10 n).foldl digitFold (some a) = some (a * 10 ^ (Nat.toDigits 10 n).length + n) := by
  induction n using Nat.strongRecOn with
  | _ n ih =>
    intro a
    by_cases h : n < 10
    · rw [Nat.toDigits_of_lt_base h]
      have hr := digitChar_range n h
      simp only [List.foldl_cons, List.foldl_nil, digitFold, hr, and_self, if_true, List.length_cons, List.length_nil]
      rw [Nat.toNat_digitChar_sub_48_of_lt_ten h]
    · have h10 : 10 ≤ n := by omega
      rw [Nat.toDigits_of_base_le (by decide) h10, List.foldl_append, ih (n / 10) (by omega) a]
      have hd : n % 10 < 10 := by omega
      have hr := digitChar_range (n % 10) hd
      simp only [List.foldl_cons, List.foldl_nil, digitFold, hr, and_self, if_true, List.length_append, List.length_cons,
        List.length_nil]
      rw [Nat.toNat_digitChar_sub_48_of_lt_ten hd]
      congr 1
      rw [Nat.pow_succ, ← Nat.mul_assoc]
      generalize a * 10 ^ (Nat.toDigits 10 (n / 10)).length = Y
      have := Nat.div_add_mod n 10
      omega

theorem natStr_eq (n : Nat) : natStr n = Nat.toDigits 10 n := by
  simp [natStr]

theorem parseNatD_natStr (n : Nat) : Transformer.parseNatD (natStr n) = some n := by
  rw [natStr_eq, parseNatD_eq _ Nat.toDigits_ne_nil, fold_toDigits n 0]
  simp

theorem natStr_head (n : Nat) : ∃ c r, natStr n = c :: r ∧ '0' ≤ c ∧ c ≤ '9' := by
  rw [natStr_eq]
  induction n using Nat.strongRecOn with
  | _ n ih =>
    by_cases h : n < 10
    · rw [Nat.toDigits_of_lt_base h]; exact ⟨_, [], rfl, digitChar_range n h⟩
    · rw [Nat.toDigits_of_base_le (by decide) (by omega)]
      obtain ⟨c, r, hc, hr⟩ := ih (n / 10) (by omega)
      exact ⟨c, r ++ [(n % 10).digitChar], by rw [hc]; rfl, hr⟩

/-- **C01_int_roundtrip** — an integer is written as its decimal spelling and read back as the same integer -/
theorem C01_int_roundtrip (n : Int) : Transformer.parseInt (intStr n) = some n := by
  unfold intStr
  by_cases h : n < 0
  · rw [if_pos h]
    show (Transformer.parseNatD (natStr n.natAbs)).map (fun k => -(k : Int)) = some n
    rw [parseNatD_natStr]
    simp
    omega
  · simp only [h, if_false]
    obtain ⟨c, r, hc, h0, h9⟩ := natStr_head n.natAbs
    have hm : c ≠ '-' := by intro e; subst e; revert h0; decide
    have hp : c ≠ '+' := by intro e; subst e; revert h0; decide
    have hp' := parseNatD_natStr n.natAbs
    rw [hc] at hp' ⊢
    unfold Transformer.parseInt
    split
    · rename_i heq; injection heq with e1 _; exact absurd e1 hm
    · rename_i heq; injection heq with e1 _; exact absurd e1 hp
    · rw [hp']
      simp
      omega

/-! ### strings -/

theorem esc_id (q : Char) : (x : Str) → q ∉ x → esc q x = x
  | [], _ => rfl
  | c :: r, h => by
    simp only [List.mem_cons, not_or] at h
    simp [esc, Ne.symm h.1, esc_id q r h.2]

theorem unesc_id (q : Char) : (x : Str) → q ∉ x → unesc q x = x
  | [], _ => rfl
  | [c], _ => rfl
  | c :: d :: r, h => by
    have hd : d ≠ q := by intro e; subst e; simp at h
    simp only [unesc]
    have : ¬(c = '\\' ∧ d = q) := fun hh => hd hh.2
    rw [if_neg this, unesc_id q (d :: r) (by intro hm; exact h (List.mem_cons_of_mem _ hm))]

/-- a string without the output quote is written between quotes, untouched -/
theorem escape_addQuotes_id (q : Char) (s : Str) (h : q ∉ s) : escapeQuotes q (addQuotes q s) = addQuotes q s := by
  unfold escapeQuotes
  rw [if_pos (inQuotesC_addQuotes q s), removeQuotes_addQuotes, unesc_id q s h, esc_id q s h]

/-- **C01_string_roundtrip** — at every keyword whose schema admits a free string (`okFor … .str`), a string that does
not contain the output quote and does not look like an expression / binding / regex (`plainStr`: the documented
exclusions) is written as a token from which the transformer recovers exactly the original string -/
theorem C01_string_roundtrip (q : Char) (hq : q = '"' ∨ q = '\'') (attr : Str) (p : CellProps) (s : Str)
    (h : okFor attr p .str = true) (hs : plainStr attr p s = true) (hn : q ∉ s) :
    ∃ t, formatValue q attr p (.str s) = .ok t ∧ cleanString t = s := by
  refine ⟨addQuotes q s, ?_, C02_quotes_outer_only q hq s⟩
  simp only [okFor, Bool.and_eq_true, Bool.not_eq_true', Bool.or_eq_true] at h
  obtain ⟨he, h⟩ := h
  unfold formatValue
  simp only [he, Bool.false_eq_true, if_false]
  by_cases ht : p.typeString = true
  · simp only [plainStr, ht, if_true, Bool.or_eq_true, Bool.not_eq_true', Bool.and_eq_true, endsI] at hs
    simp only [ht, if_true]
    by_cases hx : p.isExpr = true
    · have hs' := hs.resolve_left (by simp [hx])
      have : (endsWith s%"'i" s || endsWith s%"\"i" s) = false := hs'.2
      simp only [hx, if_true, hs'.1, Bool.false_eq_true, if_false, this]
    · simp only [hx, Bool.false_eq_true, if_false, Printer.pyStr]
  · have ht' : p.typeString = false := by simpa using ht
    have ho : p.opts.isSome = true := by rcases h with h | h; exact absurd h ht; exact h
    cases hopts : p.opts with
    | none => simp [hopts] at ho
    | some os =>
      simp only [plainStr, ht', Bool.false_eq_true, if_false, hopts, Bool.and_eq_true, Bool.not_eq_true'] at hs
      obtain ⟨⟨⟨⟨h1, h2⟩, h3⟩, h4⟩, h5⟩ := hs
      simp only [ht', Bool.false_eq_true, if_false, optsRewrite, h1, h2, h3, h4, checkOptionsList_plain q s os h5,
        escape_addQuotes_id q s hn]

/-- **C01_enum_roundtrip** — an enumerated word is written bare and upper-cased: the one difference the property allows -/
theorem C01_enum_roundtrip (q : Char) (attr : Str) (p : CellProps) (s : Str) (he : p.hasEnum = true) (hc : attr ≠ s%"compop") :
    formatValue q attr p (.str s) = .ok (upper s) ∧ normV attr p (.str s) = .str (upper s) := by
  constructor
  · simp [formatValue, he, hc, Printer.pyStr]
  · simp [normV, he, hc]

/-- **C01_number_at_string_keyword** — a number at a keyword typed `string` is written quoted and comes back as the
equal numeric string: the other allowed difference -/
theorem C01_number_at_string_keyword (q : Char) (hq : q = '"' ∨ q = '\'') (attr : Str) (p : CellProps) (n : Int)
    (he : p.hasEnum = false) (ht : p.typeString = true) (hx : p.isExpr = false) :
    ∃ t, formatValue q attr p (.int n) = .ok t ∧ cleanString t = intStr n ∧ normV attr p (.int n) = .str (intStr n) := by
  refine ⟨addQuotes q (intStr n), by simp [formatValue, he, ht, hx, Printer.pyStr], C02_quotes_outer_only q hq _, ?_⟩
  simp [normV, he, ht, hx]

/-- booleans are written TRUE / FALSE (read back by the `true` / `false` rules: C02_booleans) -/
theorem C01_bool_roundtrip (q : Char) (attr : Str) (p : CellProps) (b : Bool) :
    formatValue q attr p (.bool b) = .ok (if b then s%"TRUE" else s%"FALSE") := by
  cases b <;> simp [formatValue]

end Mappy.RoundTrip
