/-
  The tree-level form of "a reload differs from what was printed only by the differences C01 allows": `Rel d d'`
  relates two dictionaries with the same keys in the same order, the same nesting and list lengths, whose simple
  values are pairwise `AllowedDiff` (equal, upper-cased, or number → decimal string).  `C04_reload_related`:
  `Rel d (normJ d)` for EVERY value and table, by mutual structural induction.
-/
import Mappy.Props.C04Doc

namespace Mappy.Printer

mutual
/-- two values related by a reload -/
inductive RelJ : J → J → Prop
  | same (j : J) : RelJ j j
  | dict {f g : Fields} : RelF f g → RelJ (.dict f) (.dict g)
/-- two entry lists: same keys, same order, related values -/
inductive RelF : Fields → Fields → Prop
  | nil : RelF [] []
  | cons {k : Str} {v w : J} {r r' : Fields} : RelE v w → RelF r r' → RelF ((k, v) :: r) ((k, w) :: r')
/-- two entry values -/
inductive RelE : J → J → Prop
  | allowed {v w : J} : AllowedDiff v w → RelE v w
  | list {xs ys : List J} : RelL xs ys → RelE (.list xs) (.list ys)
  | dict {f g : Fields} : RelF f g → RelE (.dict f) (.dict g)
/-- two lists of objects: same length, related members -/
inductive RelL : List J → List J → Prop
  | nil : RelL [] []
  | cons {x y : J} {r r' : List J} : RelJ x y → RelL r r' → RelL (x :: r) (y :: r')
end

theorem RelE.refl (v : J) : RelE v v := .allowed (.inl rfl)

theorem relE_scalar (T : Table) (ty : Option Str) (a : Str) (v : J) (hl : ∀ xs, v ≠ .list xs) (hd : ∀ g, v ≠ .dict g) :
    RelE v (normE T ty a v) := by
  rw [normE_scalar T ty a v hl hd]
  split
  · exact RelE.refl v
  · exact .allowed (C04_reload_value_allowed T ty a v)

mutual
theorem normJ_rel (T : Table) : (j : J) → RelJ j (normJ T j)
  | .dict f => by simp only [normJ]; exact .dict (normF_rel T f (typeOf f))
  | .null | .bool _ | .int _ | .flt _ | .str _ | .list _ | .tup _ => by simp only [normJ]; exact .same _
theorem normF_rel (T : Table) : (f : Fields) → ∀ ty, RelF f (normF T ty f)
  | [], _ => by simp only [normF]; exact .nil
  | (a, .list xs) :: r, ty => by
    have ihr := normF_rel T r ty
    have ihx := normL_rel T xs
    simp only [normF, normE]
    refine .cons ?_ ihr
    split
    · exact RelE.refl _
    · split
      · exact .list ihx
      · exact RelE.refl _
  | (a, .dict g) :: r, ty => by
    have ihr := normF_rel T r ty
    have ihg := normF_rel T g (typeOf g)
    simp only [normF, normE]
    refine .cons ?_ ihr
    split
    · exact RelE.refl _
    · exact .dict ihg
  | (a, .null) :: r, ty | (a, .bool _) :: r, ty | (a, .int _) :: r, ty
  | (a, .flt _) :: r, ty | (a, .str _) :: r, ty | (a, .tup _) :: r, ty => by
    simp only [normF]
    exact .cons (relE_scalar T ty a _ (by intro xs; simp) (by intro g; simp)) (normF_rel T r ty)
theorem normL_rel (T : Table) : (xs : List J) → RelL xs (normL T xs)
  | [] => by simp only [normL]; exact .nil
  | x :: r => by simp only [normL]; exact .cons (normJ_rel T x) (normL_rel T r)
end

theorem normRoot_rel (T : Table) (x : J) : RelJ x (normRoot T x) := by
  unfold normRoot
  split
  · split
    · split
      · exact .same _
      · exact normJ_rel T _
    · exact .same _
  · exact .same _

/-- **C04_reload_related** — for EVERY dictionary and every schema table, the dictionary a reload gives back is related to
the one printed by `RelJ`: same keys in the same order at every object, same nesting, same list lengths, hidden keys and
data blocks identical, and every simple value equal, upper-cased (strings) or turned into its decimal string (numbers).
With the `reload` correspondence (`loads(dumps(d)) = normDoc d`, exact) this is C01's conclusion for every document the
correspondence covers. -/
theorem C04_reload_related (T : Table) (f : Fields) : RelJ (.dict f) (normDoc T (.dict f)) := by
  simp only [normDoc]; exact normRoot_rel T _

/-- … and for a list of roots -/
theorem C04_reload_related_roots (T : Table) : (xs : List J) → RelL xs (xs.map (normRoot T))
  | [] => .nil
  | x :: r => .cons (normRoot_rel T x) (C04_reload_related_roots T r)

/-- the relation is not trivial: it rejects a renamed key, and a changed hidden value would need `AllowedDiff` -/
example : ¬ RelF [(s%"name", .str s%"a")] [(s%"title", .str s%"a")] := by
  intro h; cases h

end Mappy.Printer
