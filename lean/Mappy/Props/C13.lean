/-
  C13 — position and comment bookkeeping is transparent.
  Theorems about Model/Transformer.lean (tied to transformer.py by the `transform` correspondence on real Lark
  trees under the four include_position × include_comments combinations).
-/
import Mappy.Lemmas.TransformerSim

namespace Mappy.Transformer

/-- the same call with both bookkeeping flags off -/
def plainCfg (cfg : Cfg) : Cfg := { cfg with pos := false, com := false }

/-- how a result of the flagged run relates to the plain run's: block dicts lose exactly their bookkeeping keys
(at every depth), attribute dicts are the same up to their `__comments__` entry, everything else is identical -/
def Rel : R → R → Prop
  | .cdict d, r0 => r0 = .cdict (stripF d)
  | .adict kvs, r0 => ∃ kvs0, r0 = .adict kvs0 ∧ delAV comKey kvs0 = delAV comKey kvs
  | r, r0 => r0 = r

/-- the fold state of `composite`: the plain run's dict is the flagged run's minus bookkeeping, and it keeps none -/
def SRel (st st0 : CState) : Prop := st0.d = stripF st.d ∧ st0.pd = none ∧ st0.cd = []

theorem lookupAV_delAV (k k' : Str) (hne : k ≠ k') : (kvs : List (Str × AV)) → lookupAV k (delAV k' kvs) = lookupAV k kvs
  | [] => rfl
  | (a, v) :: r => by
    simp only [delAV]
    by_cases h : a = k'
    · subst h
      simp only [if_true, lookupAV, Ne.symm hne, if_false]
      exact lookupAV_delAV k a hne r
    · simp only [h, if_false, lookupAV, lookupAV_delAV k k' hne r]

theorem lookupAV_delAV_self (k : Str) : (kvs : List (Str × AV)) → lookupAV k (delAV k kvs) = none
  | [] => rfl
  | (a, v) :: r => by
    simp only [delAV]
    by_cases h : a = k
    · simp only [h, if_true]; exact lookupAV_delAV_self k r
    · simp only [h, if_false, lookupAV]; exact lookupAV_delAV_self k r

theorem delAV_comm (k k' : Str) : (kvs : List (Str × AV)) → delAV k (delAV k' kvs) = delAV k' (delAV k kvs)
  | [] => rfl
  | (a, v) :: r => by
    by_cases h : a = k <;> by_cases h' : a = k'
    · subst h; subst h'; rfl
    · subst h; simp [delAV, h', delAV_comm a k' r]
    · subst h'; simp [delAV, h, delAV_comm k a r]
    · simp [delAV, h, h', delAV_comm k k' r]

theorem delAV_idem (k : Str) : (kvs : List (Str × AV)) → delAV k (delAV k kvs) = delAV k kvs
  | [] => rfl
  | (a, v) :: r => by
    by_cases h : a = k <;> simp [delAV, h, delAV_idem k r]

/-- what `composite` reads off an attribute dict does not depend on its `__comments__` entry -/
theorem attrParts_delCom (kvs : List (Str × AV)) : attrParts (delAV comKey kvs) = attrParts kvs := by
  unfold attrParts
  have e1 : lookupAV s%"__type__" (delAV comKey kvs) = lookupAV s%"__type__" kvs := lookupAV_delAV _ _ (by decide) kvs
  have e2 : lookupAV s%"__position__" (delAV comKey kvs) = lookupAV s%"__position__" kvs := lookupAV_delAV _ _ (by decide) kvs
  have e4 : delAV s%"__comments__" (delAV s%"__tokens__" (delAV s%"__position__" (delAV comKey kvs))) =
      delAV s%"__comments__" (delAV s%"__tokens__" (delAV s%"__position__" kvs)) := by
    rw [delAV_comm s%"__position__" comKey, delAV_comm s%"__tokens__" comKey]
    exact delAV_idem comKey _
  rw [e1, e2, e4]

theorem attrKV_guard (rest : List (Str × AV)) (key : Str) (v : J) (h : attrKV rest = .ok (key, v)) :
    underscored key = false ∧ stripJ v = v := by
  unfold attrKV at h
  split at h
  · split at h
    · simp at h
    · split at h
      · rename_i hu hs
        injection h with h
        simp only [Prod.mk.injEq] at h
        obtain ⟨rfl, rfl⟩ := h
        exact ⟨by simpa using hu, hs⟩
      · simp at h
  · simp at h
  · simp at h

theorem attrParts_guard (kvs : List (Str × AV)) (key : Str) (v pos : J) (h : attrParts kvs = .ok (key, v, pos)) :
    underscored key = false ∧ stripJ v = v := by
  unfold attrParts attrCore at h
  split at h
  · simp at h
  · split at h
    · cases hk : attrKV (delAV s%"__comments__" (delAV s%"__tokens__" (delAV s%"__position__" kvs))) with
      | error e => simp [hk] at h
      | ok kv =>
        obtain ⟨k', v'⟩ := kv
        simp only [hk] at h
        injection h with h
        simp only [Prod.mk.injEq] at h
        obtain ⟨rfl, rfl, _⟩ := h
        exact attrKV_guard _ _ _ hk
    · simp at h

/-- the comments of an attribute never reach the block dict in the plain run -/
theorem comStep_plain (cfg : Cfg) (Rp : List Str) (key : Str) (c : Option J) (cd : Fields) :
    comStep (plainCfg cfg) Rp key c cd = cd := by
  unfold comStep plainCfg
  split
  · rfl
  · split <;> simp

theorem attrItem_sim (cfg : Cfg) (Rp : List Str) (st st0 st' : CState) (key : Str) (v pos : J) (c c0 : Option J)
    (hk : underscored key = false) (hv : stripJ v = v) (hs : SRel st st0)
    (h : attrItem cfg Rp st key v pos c = .ok st') :
    ∃ st0', attrItem (plainCfg cfg) Rp st0 key v pos c0 = .ok st0' ∧ SRel st' st0' := by
  obtain ⟨hd, hpd, hcd⟩ := hs
  unfold attrItem at h ⊢
  cases hds : dataStep Rp key v st.d with
  | error e => simp [hds] at h
  | ok d' =>
    have := dataStep_strip Rp key v st.d d' (not_hidden_of_not_underscored key hk) hv hds
    rw [hd, this, hpd]
    simp only [hds] at h
    refine ⟨_, rfl, ?_⟩
    simp only [comStep_plain, hcd]
    split at h
    · injection h with h; subst h; exact ⟨rfl, rfl, rfl⟩
    · split at h
      · simp at h
      · injection h with h; subst h; exact ⟨rfl, rfl, rfl⟩

/-- **one step of `composite`** — the plain run takes the corresponding step on the stripped dict -/
theorem compositeItem_sim (cfg : Cfg) (S Rp : List Str) (st st0 st' : CState) (r r0 : R)
    (hs : SRel st st0) (hr : Rel r r0) (h : compositeItem cfg S Rp st r = .ok st') :
    ∃ st0', compositeItem (plainCfg cfg) S Rp st0 r0 = .ok st0' ∧ SRel st' st0' := by
  cases r with
  | cdict sub =>
    simp only [Rel] at hr; subst hr
    simp only [compositeItem] at h ⊢
    cases hb : blockItem S sub st.d with
    | error e => simp [hb] at h
    | ok d' =>
      simp only [hb] at h; injection h with h; subst h
      rw [hs.1, blockItem_strip S sub st.d d' hb]
      exact ⟨_, rfl, rfl, hs.2.1, hs.2.2⟩
  | adict kvs =>
    simp only [compositeItem] at h
    cases hp : attrParts kvs with
    | error e => simp [hp] at h
    | ok parts =>
      obtain ⟨key, v, pos⟩ := parts
      simp only [hp] at h
      have hguard := attrParts_guard kvs key v pos hp
      simp only [Rel] at hr
      obtain ⟨kvs0, rfl, hdel⟩ := hr
      simp only [compositeItem]
      have hp0 : attrParts kvs0 = .ok (key, v, pos) := by
        rw [← attrParts_delCom kvs0, hdel, attrParts_delCom kvs, hp]
      rw [hp0]
      exact attrItem_sim cfg Rp st st0 st' key v pos _ _ hguard.1 hguard.2 hs h
  | tok _ | seq _ _ | str _ | tree _ _ _ => simp [compositeItem] at h

/-- item lists of the two runs, related element by element -/
inductive RelL : List R → List R → Prop
  | nil : RelL [] []
  | cons {r r0 : R} {rs rs0 : List R} : Rel r r0 → RelL rs rs0 → RelL (r :: rs) (r0 :: rs0)

theorem foldlM_sim (cfg : Cfg) (S Rp : List Str) : (items items0 : List R) → RelL items items0 →
    ∀ (st st0 st' : CState), SRel st st0 → items.foldlM (compositeItem cfg S Rp) st = .ok st' →
    ∃ st0', items0.foldlM (compositeItem (plainCfg cfg) S Rp) st0 = .ok st0' ∧ SRel st' st0'
  | [], _, .nil, st, st0, st', hs, h => by
    simp only [List.foldlM_nil, pure, Except.pure] at h; injection h with h; subst h
    exact ⟨st0, rfl, hs⟩
  | r :: rs, _, .cons (r0 := r0) (rs0 := rs0) hr hrs, st, st0, st', hs, h => by
    simp only [List.foldlM_cons, bind, Except.bind] at h ⊢
    cases h1 : compositeItem cfg S Rp st r with
    | error e => simp [h1] at h
    | ok st1 =>
      simp only [h1] at h
      obtain ⟨st01, e1, hs1⟩ := compositeItem_sim cfg S Rp st st0 st1 r r0 hs hr h1
      rw [e1]
      exact foldlM_sim cfg S Rp rs rs0 hrs st1 st01 st' hs1 h

theorem initState_rel (cfg : Cfg) (kn : Str) (key : Tok) : SRel (initState cfg kn key) (initState (plainCfg cfg) kn key) := by
  refine ⟨?_, rfl, rfl⟩
  unfold initState plainCfg
  cases cfg.pos <;> cases cfg.com <;> simp [stripF, hiddenKey, posKey, comKey, stripJ]

theorem finishState_rel (cfg : Cfg) (st st0 : CState) (hs : SRel st st0) :
    finishState (plainCfg cfg) st0 = stripF (finishState cfg st) := by
  obtain ⟨hd, hpd, hcd⟩ := hs
  unfold finishState plainCfg
  simp only [hpd, hd]
  have hp : hiddenKey posKey = true := by decide
  have hc : hiddenKey comKey = true := by decide
  cases st.pd <;> cases cfg.com <;> simp [stripF_setKey_hidden, hp, hc]

/-- **C13_composite_transparent** — the `composite` call-back: for every block-type token, every list of item
results and every setting of the two flags, if the flagged call returns then the plain call on the corresponding
items returns the same dict minus its `__position__` / `__comments__` entries (at every depth). -/
theorem C13_composite_transparent (cfg : Cfg) (S Rp : List Str) (key : Tok) (items items0 : List R) (r : R)
    (hrel : RelL items items0) (h : compositeBody cfg S Rp key items = .ok r) :
    ∃ r0, compositeBody (plainCfg cfg) S Rp key items0 = .ok r0 ∧ Rel r r0 := by
  unfold compositeBody at h ⊢
  cases hkn : valLower key with
  | error e => simp [hkn] at h
  | ok kn =>
    simp only [hkn] at h ⊢
    cases hf : items.foldlM (compositeItem cfg S Rp) (initState cfg kn key) with
    | error e => simp [hf] at h
    | ok st =>
      simp only [hf] at h; injection h with h; subst h
      obtain ⟨st0, e0, hs0⟩ := foldlM_sim cfg S Rp items items0 hrel _ _ st (initState_rel cfg kn key) hf
      rw [e0]
      exact ⟨_, rfl, by simp only [Rel]; rw [finishState_rel cfg st st0 hs0]⟩

/-- **C13_kv_transparent** — METADATA / VALIDATION / VALUES / CONNECTIONOPTIONS: include_position only adds `__position__` -/
theorem C13_kv_transparent (cfg : Cfg) (ty : Str) (tokens : List R) (r : R) (h : valuePairs cfg ty tokens = .ok r) :
    ∃ r0, valuePairs (plainCfg cfg) ty tokens = .ok r0 ∧ Rel r r0 := by
  unfold valuePairs at h ⊢
  cases hc : checkComposite ty tokens with
  | error e => simp [hc] at h
  | ok kb =>
    obtain ⟨key, body⟩ := kb
    simp only [hc] at h ⊢
    cases hk : valLower key with
    | error e => simp [hk] at h
    | ok kn =>
      simp only [hk] at h ⊢
      cases hp : kvPairs body with
      | error e => simp [hp] at h
      | ok kvs =>
        simp only [hp] at h ⊢
        have hs := kvDict_strip body kvs hp
        have ht : hiddenKey s%"__type__" = false := by decide
        have hpk : hiddenKey posKey = true := by decide
        simp only [plainCfg, Bool.false_eq_true, if_false]
        refine ⟨_, rfl, ?_⟩
        by_cases hpos : cfg.pos = true
        · simp only [hpos, if_true] at h
          cases hpd : positionDict key (some body) with
          | error e => simp [hpd] at h
          | ok pd =>
            simp only [hpd] at h; injection h with h; subst h
            simp only [Rel, stripF_setKey _ _ ht, stripF_setKey_hidden _ _ hpk, hs, stripJ]
        · simp only [hpos, Bool.false_eq_true, if_false] at h
          injection h with h; subst h
          simp only [Rel, stripF_setKey _ _ ht, hs, stripJ]

/-! ### whole trees (single pass: include_comments off, any include_position) -/

/-- call-backs other than `composite` and the four key/value blocks never look at the flags -/
theorem callback_plain (cfg : Cfg) (data : Str) (cm : Option (List Str)) (t : List R)
    (h : flagNames.contains data = false) : callback (plainCfg cfg) data cm t = callback cfg data cm t := by
  simp only [flagNames, List.contains_cons, List.contains_nil, Bool.or_false, Bool.or_eq_false_iff, beq_eq_false_iff_ne, ne_eq] at h
  obtain ⟨h1, h2, h3, h4, h5⟩ := h
  unfold callback
  simp only [h1, h2, h3, h4, h5, or_self, if_false, plainCfg]

mutual
theorem mainT_flagFree (cfg : Cfg) : (t : R) → flagFree t = true → mainT (plainCfg cfg) t = mainT cfg t
  | .tree data cm xs, h => by
    simp only [flagFree, Bool.and_eq_true, Bool.not_eq_true'] at h
    simp only [mainT, mainTL_flagFree cfg xs h.2]
    cases mainTL cfg xs with
    | error e => rfl
    | ok xs' => simp only [bind, Except.bind]; exact callback_plain cfg data cm xs' h.1
  | .tok _, _ | .str _, _ | .seq _ _, _ | .adict _, _ | .cdict _, _ => by simp [mainT]
theorem mainTL_flagFree (cfg : Cfg) : (ts : List R) → flagFreeL ts = true → mainTL (plainCfg cfg) ts = mainTL cfg ts
  | [], _ => by simp [mainTL]
  | x :: r, h => by
    simp only [flagFreeL, Bool.and_eq_true] at h
    simp only [mainTL, mainT_flagFree cfg x h.1, mainTL_flagFree cfg r h.2]
end

theorem attr_adict (ts : List R) (r : R) (h : attr ts = .ok r) : ∃ kvs, r = .adict kvs := by
  unfold attr at h
  simp only [bind, Except.bind, pure, Except.pure] at h
  repeat' split at h
  all_goals first
    | (injection h with h; subst h; exact ⟨_, rfl⟩)
    | (simp at h; done)

theorem attrLike_adict (cfg : Cfg) (data : Str) (cm : Option (List Str)) (ts : List R) (r : R)
    (hd : attrNames.contains data = true) (h : callback cfg data cm ts = .ok r) : ∃ kvs, r = .adict kvs := by
  simp only [attrNames, List.contains_cons, List.contains_nil, Bool.or_false, Bool.or_eq_true, beq_iff_eq] at hd
  rcases hd with rfl | rfl | rfl | rfl | rfl
  · simp only [callback] at h
    exact attr_adict ts r (by simpa using h)
  · have : config ts = .ok r := by simpa [callback] using h
    unfold config at this
    simp only [bind, Except.bind, pure, Except.pure] at this
    repeat' split at this
    all_goals first
      | (exact attr_adict _ r this)
      | (simp at this; done)
  · have : pairLists s%"points" ts = .ok r := by simpa [callback] using h
    unfold pairLists at this
    simp only [bind, Except.bind, pure, Except.pure] at this
    repeat' split at this
    all_goals first
      | (exact attr_adict _ r this)
      | (simp at this; done)
  · have : pairLists s%"pattern" ts = .ok r := by simpa [callback] using h
    unfold pairLists at this
    simp only [bind, Except.bind, pure, Except.pure] at this
    repeat' split at this
    all_goals first
      | (exact attr_adict _ r this)
      | (simp at this; done)
  · have : projection ts = .ok r := by simpa [callback] using h
    unfold projection at this
    simp only [bind, Except.bind, pure, Except.pure] at this
    repeat' split at this
    all_goals first
      | (exact attr_adict _ r this)
      | (simp at this; done)

mutual
/-- the shapes the grammar gives the items of a block (`_composite_item`): simple items (attr, config, points,
pattern, projection), VALUES, wrapped key/value blocks, nested blocks -/
inductive ShapeItem : R → Prop
  | simple (data : Str) (cm : Option (List Str)) (xs : List R) :
      attrNames.contains data = true → flagFreeL xs = true → ShapeItem (.tree data cm xs)
  | kv (data : Str) (cm : Option (List Str)) (xs : List R) :
      kvNames.contains data = true → flagFreeL xs = true → ShapeItem (.tree data cm xs)
  | kvblock (data : Str) (cm cm2 : Option (List Str)) (xs : List R) :
      kvNames.contains data = true → flagFreeL xs = true → ShapeItem (.tree s%"composite" cm [.tree data cm2 xs])
  | block (cm cm2 : Option (List Str)) (ty : R) (items : List R) :
      flagFree ty = true → ShapeItems items → ShapeItem (.tree s%"composite" cm [ty, .tree s%"composite_body" cm2 items])
inductive ShapeItems : List R → Prop
  | nil : ShapeItems []
  | cons (x : R) (r : List R) : ShapeItem x → ShapeItems r → ShapeItems (x :: r)
end

theorem callback_kv (cfg : Cfg) (data : Str) (cm : Option (List Str)) (ts : List R)
    (hd : kvNames.contains data = true) : callback cfg data cm ts = valuePairs cfg data ts := by
  simp only [kvNames, List.contains_cons, List.contains_nil, Bool.or_false, Bool.or_eq_true, beq_iff_eq] at hd
  rcases hd with rfl | rfl | rfl | rfl <;> simp [callback]

theorem kv_flag (data : Str) (hd : kvNames.contains data = true) : flagNames.contains data = true := by
  simp only [kvNames, List.contains_cons, List.contains_nil, Bool.or_false, Bool.or_eq_true, beq_iff_eq] at hd
  rcases hd with rfl | rfl | rfl | rfl <;> decide

theorem attr_noflag (data : Str) (hd : attrNames.contains data = true) : flagNames.contains data = false := by
  simp only [attrNames, List.contains_cons, List.contains_nil, Bool.or_false, Bool.or_eq_true, beq_iff_eq] at hd
  rcases hd with rfl | rfl | rfl | rfl | rfl <;> decide

theorem mainT_tree (cfg : Cfg) (data : Str) (cm : Option (List Str)) (xs : List R) :
    mainT cfg (.tree data cm xs) =
      match mainTL cfg xs with
      | .ok xs' => callback cfg data cm xs'
      | .error e => .error e := by
  simp only [mainT, bind, Except.bind]
  cases mainTL cfg xs <;> rfl

theorem mainTL_cons (cfg : Cfg) (x : R) (r : List R) :
    mainTL cfg (x :: r) =
      match mainT cfg x with
      | .error e => .error e
      | .ok x' => match mainTL cfg r with
        | .error e => .error e
        | .ok r' => .ok (x' :: r') := by
  simp only [mainTL, bind, Except.bind, pure, Except.pure]
  cases mainT cfg x with
  | error e => rfl
  | ok x' => cases mainTL cfg r <;> rfl

theorem callback_composite (cfg : Cfg) (cm : Option (List Str)) (t : List R) :
    callback cfg s%"composite" cm t = composite cfg Gen.singletonNames Gen.repeatedKeys t := by
  simp [callback]

theorem callback_body (cfg : Cfg) (cm : Option (List Str)) (t : List R) :
    callback cfg s%"composite_body" cm t = .ok (.seq false t) := by
  simp [callback, pure, Except.pure]

theorem callback_start (cfg : Cfg) (cm : Option (List Str)) (t : List R) :
    callback cfg s%"start" cm t = match t with | [x] => .ok x | _ => .ok (.seq false t) := by
  match t with
  | [] => simp [callback, pure, Except.pure]
  | [x] => simp [callback, pure, Except.pure]
  | x :: y :: r => simp [callback, pure, Except.pure]

/-- a key/value block tree, in either run -/
theorem kvTree_sim (cfg : Cfg) (data : Str) (cm : Option (List Str)) (xs : List R) (r : R)
    (hd : kvNames.contains data = true) (hx : flagFreeL xs = true) (h : mainT cfg (.tree data cm xs) = .ok r) :
    ∃ r0, mainT (plainCfg cfg) (.tree data cm xs) = .ok r0 ∧ Rel r r0 := by
  rw [mainT_tree] at h ⊢
  rw [mainTL_flagFree cfg xs hx]
  cases hm : mainTL cfg xs with
  | error e => simp [hm] at h
  | ok xs' =>
    simp only [hm, callback_kv _ data cm xs' hd] at h ⊢
    exact C13_kv_transparent cfg data xs' r h

mutual
/-- **C13_item_transparent** — every item of a block, at every nesting depth -/
theorem C13_item_transparent (cfg : Cfg) : (t : R) → ShapeItem t → ∀ r, mainT cfg t = .ok r →
    ∃ r0, mainT (plainCfg cfg) t = .ok r0 ∧ Rel r r0
  | _, .simple data cm xs hd hx, r, h => by
    have hff : flagFree (.tree data cm xs) = true := by
      show (!flagNames.contains data && flagFreeL xs) = true
      rw [attr_noflag data hd, hx]; rfl
    rw [mainT_flagFree cfg _ hff]
    refine ⟨r, h, ?_⟩
    rw [mainT_tree] at h
    cases hm : mainTL cfg xs with
    | error e => simp [hm] at h
    | ok xs' =>
      simp only [hm] at h
      obtain ⟨kvs, rfl⟩ := attrLike_adict cfg data cm xs' r hd h
      exact ⟨kvs, rfl, rfl⟩
  | _, .kv data cm xs hd hx, r, h => kvTree_sim cfg data cm xs r hd hx h
  | _, .kvblock data cm cm2 xs hd hx, r, h => by
    rw [mainT_tree, mainTL_cons] at h ⊢
    cases hm : mainT cfg (.tree data cm2 xs) with
    | error e => simp [hm] at h
    | ok rk =>
      obtain ⟨r0, e0, hr0⟩ := kvTree_sim cfg data cm2 xs rk hd hx hm
      simp only [hm, e0, mainTL, callback_composite, composite] at h ⊢
      injection h with h; subst h
      exact ⟨r0, rfl, hr0⟩
  | _, .block cm cm2 ty items hty hitems, r, h => by
    rw [mainT_tree, mainTL_cons, mainTL_cons, mainT_tree] at h ⊢
    rw [mainT_flagFree cfg ty hty]
    cases hmt : mainT cfg ty with
    | error e => simp [hmt] at h
    | ok tyR =>
      cases hmi : mainTL cfg items with
      | error e => simp [hmt, hmi] at h
      | ok items' =>
        obtain ⟨items0, e0, hrel⟩ := C13_items_transparent cfg items hitems items' hmi
        simp only [hmt, hmi, e0, callback_body, mainTL, callback_composite, composite] at h ⊢
        cases hk : compositeKey tyR with
        | error e => simp [hk] at h
        | ok key =>
          simp only [hk] at h ⊢
          exact C13_composite_transparent cfg _ _ key items' items0 r hrel h
theorem C13_items_transparent (cfg : Cfg) : (ts : List R) → ShapeItems ts → ∀ rs, mainTL cfg ts = .ok rs →
    ∃ rs0, mainTL (plainCfg cfg) ts = .ok rs0 ∧ RelL rs rs0
  | _, .nil, rs, h => by
    simp only [mainTL] at h ⊢
    injection h with h; subst h
    exact ⟨[], rfl, .nil⟩
  | _, .cons x r hx hr, rs, h => by
    rw [mainTL_cons] at h ⊢
    cases h1 : mainT cfg x with
    | error e => simp [h1] at h
    | ok x' =>
      cases h2 : mainTL cfg r with
      | error e => simp [h1, h2] at h
      | ok r' =>
        simp only [h1, h2] at h
        injection h with h; subst h
        obtain ⟨x0, e1, hr1⟩ := C13_item_transparent cfg x hx x' h1
        obtain ⟨r0, e2, hr2⟩ := C13_items_transparent cfg r hr r' h2
        exact ⟨x0 :: r0, by simp [e1, e2], .cons hr1 hr2⟩
end

/-- **C13_position_transparent** — the whole single-pass pipeline (include_comments off): for every tree whose
root is `start` over grammar-shaped blocks (any number, any nesting depth) and every include_position, a successful
load yields exactly the plain load's dictionaries plus `__position__` entries. -/
theorem C13_position_transparent (cfg : Cfg) (cm : Option (List Str)) (blocks : List R) (hs : ShapeItems blocks)
    (r : R) (h : mainT cfg (.tree s%"start" cm blocks) = .ok r) :
    ∃ r0, mainT (plainCfg cfg) (.tree s%"start" cm blocks) = .ok r0 ∧
      (Rel r r0 ∨ ∃ rs rs0, r = .seq false rs ∧ r0 = .seq false rs0 ∧ RelL rs rs0) := by
  rw [mainT_tree] at h ⊢
  cases hm : mainTL cfg blocks with
  | error e => simp [hm] at h
  | ok rs =>
    obtain ⟨rs0, e0, hrel⟩ := C13_items_transparent cfg blocks hs rs hm
    simp only [hm, e0, callback_start] at h ⊢
    cases hrel with
    | nil =>
      injection h with h; subst h
      exact ⟨_, rfl, Or.inr ⟨[], [], rfl, rfl, .nil⟩⟩
    | @cons x x0 rs' rs0' hx hrest =>
      cases hrest with
      | nil =>
        injection h with h; subst h
        exact ⟨x0, rfl, Or.inl hx⟩
      | @cons y y0 rs'' rs0'' hy hrest' =>
        injection h with h; subst h
        exact ⟨_, rfl, Or.inr ⟨_, _, rfl, rfl, .cons hx (.cons hy hrest')⟩⟩

mutual
/-- the decidable shape test the harness evaluates on every real tree implies the inductive premise -/
theorem shapeItem_of_B : (t : R) → shapeItemB t = true → ShapeItem t
  | .tree data cm xs, h => by
    unfold shapeItemB at h
    by_cases hc : data = s%"composite"
    · subst hc
      simp only [if_true] at h
      match xs, h with
      | [.tree d2 cm2 ys], h =>
        simp only [Bool.and_eq_true] at h
        exact .kvblock d2 cm cm2 ys h.1 h.2
      | [ty, .tree b cm2 items], h =>
        simp only [Bool.and_eq_true, beq_iff_eq] at h
        obtain ⟨⟨hb, hty⟩, hit⟩ := h
        subst hb
        exact .block cm cm2 ty items hty (shapeItems_of_B items hit)
    · simp only [hc, if_false, Bool.and_eq_true, Bool.or_eq_true] at h
      rcases h.1 with ha | hk
      · exact .simple data cm xs ha h.2
      · exact .kv data cm xs hk h.2
theorem shapeItems_of_B : (ts : List R) → shapeItemsB ts = true → ShapeItems ts
  | [], _ => .nil
  | x :: r, h => by
    simp only [shapeItemsB, Bool.and_eq_true] at h
    exact .cons x r (shapeItem_of_B x h.1) (shapeItems_of_B r h.2)
end

/-! ### the two-pass pipeline (include_comments on): CommentsTransformer, then the main transformer -/

theorem delAV_setAV_self (k : Str) (v : AV) : (l : List (Str × AV)) → delAV k (setAV k v l) = delAV k l
  | [] => by simp [setAV, delAV]
  | (a, x) :: r => by
    by_cases h : a = k
    · subst h; simp [setAV, delAV]
    · simp [setAV, delAV, h, delAV_setAV_self k v r]

mutual
theorem plainT_flagFree : (t : R) → plainT t = true → flagFree t = true
  | .tree data cm xs, h => by
    simp only [plainT, Bool.and_eq_true, Bool.not_eq_true'] at h
    show (!flagNames.contains data && flagFreeL xs) = true
    rw [h.1.2, plainTL_flagFreeL xs h.2]; rfl
  | .tok _, _ | .str _, _ => rfl
  | .seq _ xs, h => by simp only [plainT] at h; simp [flagFree, plainTL_flagFreeL xs h]
  | .adict _, h | .cdict _, h => by simp [plainT] at h
theorem plainTL_flagFreeL : (ts : List R) → plainTL ts = true → flagFreeL ts = true
  | [], _ => rfl
  | x :: r, h => by
    simp only [plainTL, Bool.and_eq_true] at h
    simp [flagFreeL, plainT_flagFree x h.1, plainTL_flagFreeL r h.2]
end

theorem comNode_other (cfg : Cfg) (data : Str) (cm : Option (List Str)) (xs : List R)
    (h : comNames.contains data = false) : comNode cfg data cm xs = .ok (.tree data cm xs) := by
  simp only [comNames, List.contains_cons, List.contains_nil, Bool.or_false, Bool.or_eq_false_iff, beq_eq_false_iff_ne, ne_eq] at h
  obtain ⟨h1, h2, h3⟩ := h
  simp [comNode, h1, h2, h3]

mutual
/-- the comments pass leaves value subtrees alone -/
theorem comT_plain (cfg : Cfg) : (t : R) → plainT t = true → comT cfg t = .ok t
  | .tree data cm xs, h => by
    simp only [plainT, Bool.and_eq_true, Bool.not_eq_true'] at h
    simp only [comT, comTL_plain cfg xs h.2, comNode_other cfg data cm xs h.1.1]
  | .tok _, _ | .str _, _ | .seq _ _, _ | .adict _, _ | .cdict _, _ => by simp [comT]
theorem comTL_plain (cfg : Cfg) : (ts : List R) → plainTL ts = true → comTL cfg ts = .ok ts
  | [], _ => by simp [comTL]
  | x :: r, h => by
    simp only [plainTL, Bool.and_eq_true] at h
    simp [comTL, comT_plain cfg x h.1, comTL_plain cfg r h.2]
end

/-- what the enclosing `composite` call-back finally sees of an item: comments pass, then main pass -/
def item2 (cfg : Cfg) (t : R) : Res R :=
  match comT cfg t with
  | .ok t' => mainT cfg t'
  | .error e => .error e

def items2 (cfg : Cfg) (ts : List R) : Res (List R) :=
  match comTL cfg ts with
  | .ok ts' => mainTL cfg ts'
  | .error e => .error e

theorem items2_cons (cfg : Cfg) (x : R) (r : List R) (a : R) (b : List R) (h : items2 cfg (x :: r) = .ok (a :: b)) :
    item2 cfg x = .ok a ∧ items2 cfg r = .ok b := by
  unfold items2 item2 at *
  simp only [comTL] at h
  cases h1 : comT cfg x with
  | error e => simp [h1] at h
  | ok x' =>
    cases h2 : comTL cfg r with
    | error e => simp [h1, h2] at h
    | ok r' =>
      simp only [h1, h2, mainTL_cons] at h
      cases h3 : mainT cfg x' with
      | error e => simp [h3] at h
      | ok a' =>
        cases h4 : mainTL cfg r' with
        | error e => simp [h3, h4] at h
        | ok b' =>
          simp only [h3, h4] at h
          injection h with h; injection h with ha hb
          subst ha; subst hb
          exact ⟨h3, h4⟩

theorem items2_nil_or_cons (cfg : Cfg) (ts : List R) (rs : List R) (h : items2 cfg ts = .ok rs) : ts.length = rs.length := by
  induction ts generalizing rs with
  | nil => simp [items2, comTL, mainTL] at h; subst h; rfl
  | cons x r ih =>
    cases rs with
    | nil =>
      unfold items2 at h
      simp only [comTL] at h
      cases h1 : comT cfg x with
      | error e => simp [h1] at h
      | ok x' =>
        cases h2 : comTL cfg r with
        | error e => simp [h1, h2] at h
        | ok r' =>
          simp only [h1, h2, mainTL_cons] at h
          cases h3 : mainT cfg x' with
          | error e => simp [h3] at h
          | ok a' => cases h4 : mainTL cfg r' <;> simp [h3, h4] at h
    | cons a b =>
      have := items2_cons cfg x r a b h
      simp [ih b this.2]

theorem mainT_done (cfg : Cfg) (r : R) (h : ∀ d cm xs, r ≠ .tree d cm xs) : mainT cfg r = .ok r := by
  cases r with
  | tree d cm xs => exact absurd rfl (h d cm xs)
  | _ => simp [mainT]

theorem addMetadataComments_strip (d d3 : Fields) (md : List R) (h : addMetadataComments d md = .ok d3) :
    stripF d3 = stripF d := by
  unfold addMetadataComments at h
  simp only [bind, Except.bind, pure, Except.pure] at h
  split at h
  · split at h
    · simp at h
    · injection h with h; subst h
      exact stripF_setKey_hidden comKey _ (by decide) d
  · injection h with h; subst h; rfl

theorem compCom_strip (cm : Option (List Str)) (xs' : List R) (d : Fields) (r : R) (h : compCom cm xs' (.cdict d) = .ok r) :
    ∃ d3, r = .cdict d3 ∧ stripF d3 = stripF d := by
  have hc : hiddenKey comKey = true := by decide
  simp only [compCom] at h
  have e1 : stripF (if hasKey comKey d = true then d else setKey comKey (.dict []) d) = stripF d := by
    split
    · rfl
    · exact stripF_setKey_hidden comKey _ hc d
  generalize (if hasKey comKey d = true then d else setKey comKey (.dict []) d) = d1 at h e1
  have e2 : stripF (if (cm.getD []).isEmpty = true then d1 else
      match lookup comKey d1 with
      | some (.dict c) => setKey comKey (.dict (setKey s%"__type__" (commentsJ cm) c)) d1
      | _ => d1) = stripF d1 := by
    split
    · rfl
    · split
      · exact stripF_setKey_hidden comKey _ hc d1
      · rfl
  generalize (if (cm.getD []).isEmpty = true then d1 else
      match lookup comKey d1 with
      | some (.dict c) => setKey comKey (.dict (setKey s%"__type__" (commentsJ cm) c)) d1
      | _ => d1) = d2 at h e2
  split at h
  · split at h
    · rename_i md _
      cases ha : addMetadataComments d2 md with
      | error e => simp [ha] at h
      | ok d3 =>
        simp only [ha] at h; injection h with h; subst h
        exact ⟨d3, rfl, by rw [addMetadataComments_strip d2 d3 md ha, e2, e1]⟩
    · simp at h
  · injection h with h; subst h
    exact ⟨d2, rfl, by rw [e2, e1]⟩

mutual
/-- the shapes of block items for the two-pass pipeline -/
inductive ShapeC : R → Prop
  | simple (data : Str) (cm : Option (List Str)) (xs : List R) :
      attrNames.contains data = true → plainTL xs = true → ShapeC (.tree data cm xs)
  | kv (data : Str) (cm : Option (List Str)) (xs : List R) :
      kvNames.contains data = true → plainTL xs = true → ShapeC (.tree data cm xs)
  | kvblock (data : Str) (cm cm2 : Option (List Str)) (xs : List R) :
      kvNames.contains data = true → plainTL xs = true → ShapeC (.tree s%"composite" cm [.tree data cm2 xs])
  | block (cm cm2 : Option (List Str)) (ty : R) (items : List R) :
      plainT ty = true → ShapeCs items → ShapeC (.tree s%"composite" cm [ty, .tree s%"composite_body" cm2 items])
inductive ShapeCs : List R → Prop
  | nil : ShapeCs []
  | cons (x : R) (r : List R) : ShapeC x → ShapeCs r → ShapeCs (x :: r)
end

theorem kv_notcom (data : Str) (hd : kvNames.contains data = true) : comNames.contains data = false := by
  simp only [kvNames, List.contains_cons, List.contains_nil, Bool.or_false, Bool.or_eq_true, beq_iff_eq] at hd
  rcases hd with rfl | rfl | rfl | rfl <;> decide

/-- a `simple` item in the two-pass pipeline -/
theorem simple_com (cfg : Cfg) (data : Str) (cm : Option (List Str)) (xs : List R) (r : R)
    (hd : attrNames.contains data = true) (hx : plainTL xs = true) (h : item2 cfg (.tree data cm xs) = .ok r) :
    ∃ r0, mainT (plainCfg cfg) (.tree data cm xs) = .ok r0 ∧ Rel r r0 := by
  have hff : flagFree (.tree data cm xs) = true := by
    show (!flagNames.contains data && flagFreeL xs) = true
    rw [attr_noflag data hd, plainTL_flagFreeL xs hx]; rfl
  rw [mainT_flagFree cfg _ hff]
  unfold item2 at h
  simp only [comT, comTL_plain cfg xs hx] at h
  -- the main transformer's own result on this node
  cases hm : mainT cfg (.tree data cm xs) with
  | error e =>
    -- then both passes fail
    simp only [attrNames, List.contains_cons, List.contains_nil, Bool.or_false, Bool.or_eq_true, beq_iff_eq] at hd
    rcases hd with rfl | rfl | rfl | rfl | rfl <;> simp [comNode, hm] at h
  | ok r1 =>
    have hr1 : ∃ kvs, r1 = .adict kvs := by
      rw [mainT_tree] at hm
      cases hml : mainTL cfg xs with
      | error e => simp [hml] at hm
      | ok xs' => simp only [hml] at hm; exact attrLike_adict cfg data cm xs' r1 hd hm
    obtain ⟨kvs, rfl⟩ := hr1
    refine ⟨.adict kvs, rfl, ?_⟩
    simp only [attrNames, List.contains_cons, List.contains_nil, Bool.or_false, Bool.or_eq_true, beq_iff_eq] at hd
    rcases hd with rfl | rfl | rfl | rfl | rfl
    · -- attr
      simp only [comNode, if_true, hm, attrCom] at h
      simp only [mainT] at h
      injection h with h; subst h
      exact ⟨kvs, rfl, (delAV_setAV_self comKey _ kvs).symm⟩
    · -- config: untouched by the comments pass
      have : comNode cfg s%"config" cm xs = .ok (.tree s%"config" cm xs) := comNode_other cfg _ cm xs (by decide)
      simp only [this, hm] at h
      injection h with h; subst h
      exact ⟨kvs, rfl, rfl⟩
    · have : comNode cfg s%"points" cm xs = .ok (.tree s%"points" cm xs) := comNode_other cfg _ cm xs (by decide)
      simp only [this, hm] at h
      injection h with h; subst h
      exact ⟨kvs, rfl, rfl⟩
    · have : comNode cfg s%"pattern" cm xs = .ok (.tree s%"pattern" cm xs) := comNode_other cfg _ cm xs (by decide)
      simp only [this, hm] at h
      injection h with h; subst h
      exact ⟨kvs, rfl, rfl⟩
    · -- projection
      have hne : (s%"projection" : Str) ≠ s%"attr" := by decide
      simp only [comNode, hne, if_false, if_true, hm, projCom] at h
      split at h
      · simp only [mainT] at h; injection h with h; subst h; exact ⟨kvs, rfl, rfl⟩
      · simp only [mainT] at h; injection h with h; subst h
        exact ⟨kvs, rfl, (delAV_setAV_self comKey _ kvs).symm⟩

theorem comT_tree (cfg : Cfg) (data : Str) (cm : Option (List Str)) (xs : List R) :
    comT cfg (.tree data cm xs) =
      match comTL cfg xs with
      | .ok xs' => comNode cfg data cm xs'
      | .error e => .error e := by
  simp only [comT]
  cases comTL cfg xs <;> rfl

theorem comTL_cons (cfg : Cfg) (x : R) (r : List R) :
    comTL cfg (x :: r) =
      match comT cfg x with
      | .error e => .error e
      | .ok x' => (match comTL cfg r with | .ok r' => .ok (x' :: r') | .error e => .error e) := by
  simp only [comTL]
  cases comT cfg x with
  | error e => rfl
  | ok x' => cases comTL cfg r <;> rfl

theorem comNode_composite (cfg : Cfg) (cm : Option (List Str)) (xs' : List R) :
    comNode cfg s%"composite" cm xs' =
      match mainT cfg (.tree s%"composite" cm xs') with
      | .ok r => compCom cm xs' r
      | .error e => .error e := by
  have hne1 : (s%"composite" : Str) ≠ s%"attr" := by decide
  have hne2 : (s%"composite" : Str) ≠ s%"projection" := by decide
  simp only [comNode, hne1, hne2, if_false, if_true]
  cases mainT cfg (.tree s%"composite" cm xs') <;> rfl

theorem valuePairs_cdict (cfg : Cfg) (ty : Str) (ts : List R) (r : R) (h : valuePairs cfg ty ts = .ok r) : ∃ d, r = .cdict d := by
  unfold valuePairs at h
  repeat' split at h
  all_goals first
    | (injection h with h; subst h; exact ⟨_, rfl⟩)
    | (simp at h; done)

theorem compositeBody_cdict (cfg : Cfg) (S Rp : List Str) (key : Tok) (items : List R) (r : R)
    (h : compositeBody cfg S Rp key items = .ok r) : ∃ d, r = .cdict d := by
  unfold compositeBody at h
  repeat' split at h
  all_goals first
    | (injection h with h; subst h; exact ⟨_, rfl⟩)
    | (simp at h; done)

theorem shapeItem_of_C_kvblock (data : Str) (cm cm2 : Option (List Str)) (xs : List R)
    (hd : kvNames.contains data = true) (hx : plainTL xs = true) :
    ShapeItem (.tree s%"composite" cm [.tree data cm2 xs]) :=
  .kvblock data cm cm2 xs hd (plainTL_flagFreeL xs hx)

mutual
/-- **C13_item_transparent_com** — every item of a block through BOTH passes (comments, then main), at every depth -/
theorem C13_item_transparent_com (cfg : Cfg) : (t : R) → ShapeC t → ∀ r, item2 cfg t = .ok r →
    ∃ r0, mainT (plainCfg cfg) t = .ok r0 ∧ Rel r r0
  | _, .simple data cm xs hd hx, r, h => simple_com cfg data cm xs r hd hx h
  | _, .kv data cm xs hd hx, r, h => by
    unfold item2 at h
    simp only [comT, comTL_plain cfg xs hx, comNode_other cfg data cm xs (kv_notcom data hd)] at h
    exact kvTree_sim cfg data cm xs r hd (plainTL_flagFreeL xs hx) h
  | _, .kvblock data cm cm2 xs hd hx, r, h => by
    have hkvt : comT cfg (.tree data cm2 xs) = .ok (.tree data cm2 xs) := by
      simp only [comT, comTL_plain cfg xs hx, comNode_other cfg data cm2 xs (kv_notcom data hd)]
    unfold item2 at h
    rw [comT_tree, comTL_cons, hkvt] at h
    simp only [comTL, comNode_composite] at h
    cases hm : mainT cfg (.tree s%"composite" cm [.tree data cm2 xs]) with
    | error e => simp [hm] at h
    | ok r1 =>
      simp only [hm] at h
      -- the plain run, through the single-pass theorem
      obtain ⟨r0, e0, hrel⟩ := C13_item_transparent cfg _ (shapeItem_of_C_kvblock data cm cm2 xs hd hx) r1 hm
      -- r1 is the key/value block's dict
      have hr1 : ∃ dk, r1 = .cdict dk := by
        rw [mainT_tree, mainTL_cons] at hm
        cases hk : mainT cfg (.tree data cm2 xs) with
        | error e => simp [hk] at hm
        | ok rk =>
          simp only [hk, mainTL, callback_composite, composite] at hm
          injection hm with hm; subst hm
          rw [mainT_tree] at hk
          cases hml : mainTL cfg xs with
          | error e => simp [hml] at hk
          | ok xs' =>
            simp only [hml, callback_kv _ data cm2 xs' hd] at hk
            exact valuePairs_cdict cfg data xs' _ hk
      obtain ⟨dk, rfl⟩ := hr1
      cases hc : compCom cm [.tree data cm2 xs] (.cdict dk) with
      | error e => simp [hc] at h
      | ok r2 =>
        obtain ⟨d3, rfl, hs⟩ := compCom_strip cm _ dk r2 hc
        simp only [hc, mainT] at h
        injection h with h; subst h
        refine ⟨r0, e0, ?_⟩
        simp only [Rel] at hrel ⊢
        rw [hrel, hs]
  | _, .block cm cm2 ty items hty hitems, r, h => by
    unfold item2 at h
    have hb : comNames.contains s%"composite_body" = false := by decide
    rw [comT_tree, comTL_cons, comT_plain cfg ty hty, comTL_cons, comT_tree] at h
    cases hci : comTL cfg items with
    | error e => simp [hci] at h
    | ok items' =>
      simp only [hci, comNode_other cfg _ cm2 items' hb, comTL, comNode_composite] at h
      cases hm : mainT cfg (.tree s%"composite" cm [ty, .tree s%"composite_body" cm2 items']) with
      | error e => simp [hm] at h
      | ok r1 =>
        simp only [hm] at h
        rw [mainT_tree, mainTL_cons, mainTL_cons, mainT_tree] at hm
        cases hmt : mainT cfg ty with
        | error e => simp [hmt] at hm
        | ok tyR =>
          cases hmi : mainTL cfg items' with
          | error e => simp [hmt, hmi] at hm
          | ok itemsR =>
            have hi2 : items2 cfg items = .ok itemsR := by simp [items2, hci, hmi]
            obtain ⟨items0, e0, hrel⟩ := C13_items_transparent_com cfg items hitems itemsR hi2
            simp only [hmt, hmi, callback_body, mainTL, callback_composite, composite] at hm
            cases hk : compositeKey tyR with
            | error e => simp [hk] at hm
            | ok key =>
              simp only [hk] at hm
              obtain ⟨d, rfl⟩ := compositeBody_cdict cfg _ _ key itemsR r1 hm
              obtain ⟨r0, ep, hr0⟩ := C13_composite_transparent cfg _ _ key itemsR items0 _ hrel hm
              cases hc : compCom cm [ty, .tree s%"composite_body" cm2 items'] (.cdict d) with
              | error e => simp [hc] at h
              | ok r2 =>
                obtain ⟨d3, rfl, hs⟩ := compCom_strip cm _ d r2 hc
                simp only [hc, mainT] at h
                injection h with h; subst h
                refine ⟨r0, ?_, ?_⟩
                · rw [mainT_tree, mainTL_cons, mainTL_cons, mainT_tree]
                  rw [mainT_flagFree cfg ty (plainT_flagFree ty hty), hmt]
                  simp only [e0, callback_body, mainTL, callback_composite, composite, hk]
                  exact ep
                · simp only [Rel] at hr0 ⊢
                  rw [hr0, hs]
theorem C13_items_transparent_com (cfg : Cfg) : (ts : List R) → ShapeCs ts → ∀ rs, items2 cfg ts = .ok rs →
    ∃ rs0, mainTL (plainCfg cfg) ts = .ok rs0 ∧ RelL rs rs0
  | _, .nil, rs, h => by
    simp [items2, comTL, mainTL] at h
    subst h
    exact ⟨[], by simp [mainTL], .nil⟩
  | _, .cons x r hx hr, rs, h => by
    have hlen := items2_nil_or_cons cfg (x :: r) rs h
    match rs, hlen with
    | a :: b, _ =>
      obtain ⟨h1, h2⟩ := items2_cons cfg x r a b h
      obtain ⟨x0, e1, hr1⟩ := C13_item_transparent_com cfg x hx a h1
      obtain ⟨r0, e2, hr2⟩ := C13_items_transparent_com cfg r hr b h2
      exact ⟨x0 :: r0, by rw [mainTL_cons]; simp [e1, e2], .cons hr1 hr2⟩
end

/-- with include_comments the whole transform is: canonize, comments pass, main pass -/
theorem transform_com (cfg : Cfg) (hc : cfg.com = true) (t : R) (hk : canonizable t = true) :
    transform cfg t = item2 cfg (canonize t) := by
  simp only [transform, hk, hc, if_true, bind, Except.bind, item2]
  cases comT cfg (canonize t) <;> rfl

/-- **C13_comments_transparent** — the whole two-pass pipeline: for every tree whose root is `start` over
grammar-shaped blocks (any number, any nesting depth, comments attached anywhere) and EVERY setting of the two flags,
a successful load with bookkeeping yields exactly the plain load's dictionaries plus `__position__` / `__comments__`
entries -/
theorem C13_comments_transparent (cfg : Cfg) (cm : Option (List Str)) (blocks : List R) (hs : ShapeCs blocks)
    (r : R) (h : item2 cfg (.tree s%"start" cm blocks) = .ok r) :
    ∃ r0, mainT (plainCfg cfg) (.tree s%"start" cm blocks) = .ok r0 ∧
      (Rel r r0 ∨ ∃ rs rs0, r = .seq false rs ∧ r0 = .seq false rs0 ∧ RelL rs rs0) := by
  unfold item2 at h
  have hst : comNames.contains s%"start" = false := by decide
  simp only [comT] at h
  cases hci : comTL cfg blocks with
  | error e => simp [hci] at h
  | ok blocks' =>
    simp only [hci, comNode_other cfg _ cm blocks' hst] at h
    rw [mainT_tree] at h ⊢
    cases hm : mainTL cfg blocks' with
    | error e => simp [hm] at h
    | ok rs =>
      have hi2 : items2 cfg blocks = .ok rs := by simp [items2, hci, hm]
      obtain ⟨rs0, e0, hrel⟩ := C13_items_transparent_com cfg blocks hs rs hi2
      simp only [hm, e0, callback_start] at h ⊢
      cases hrel with
      | nil =>
        injection h with h; subst h
        exact ⟨_, rfl, Or.inr ⟨[], [], rfl, rfl, .nil⟩⟩
      | @cons x x0 rs' rs0' hx hrest =>
        cases hrest with
        | nil =>
          injection h with h; subst h
          exact ⟨x0, rfl, Or.inl hx⟩
        | @cons y y0 rs'' rs0'' hy hrest' =>
          injection h with h; subst h
          exact ⟨_, rfl, Or.inr ⟨_, _, rfl, rfl, .cons hx (.cons hy hrest')⟩⟩

mutual
/-- the decidable shape test of the two-pass pipeline implies its inductive premise -/
theorem shapeC_of_B : (t : R) → shapeCItemB t = true → ShapeC t
  | .tree data cm xs, h => by
    unfold shapeCItemB at h
    by_cases hc : data = s%"composite"
    · subst hc
      simp only [if_true] at h
      match xs, h with
      | [.tree d2 cm2 ys], h =>
        simp only [Bool.and_eq_true] at h
        exact .kvblock d2 cm cm2 ys h.1 h.2
      | [ty, .tree b cm2 items], h =>
        simp only [Bool.and_eq_true, beq_iff_eq] at h
        obtain ⟨⟨hb, hty⟩, hit⟩ := h
        subst hb
        exact .block cm cm2 ty items hty (shapeCs_of_B items hit)
    · simp only [hc, if_false, Bool.and_eq_true, Bool.or_eq_true] at h
      rcases h.1 with ha | hk
      · exact .simple data cm xs ha h.2
      · exact .kv data cm xs hk h.2
theorem shapeCs_of_B : (ts : List R) → shapeCItemsB ts = true → ShapeCs ts
  | [], _ => .nil
  | x :: r, h => by
    simp only [shapeCItemsB, Bool.and_eq_true] at h
    exact .cons x r (shapeC_of_B x h.1) (shapeCs_of_B r h.2)
end

/-- non-vacuity: `MAP NAME "x" END` as Lark builds it satisfies the shape premise -/
example : ShapeItems [.tree s%"composite" none [.tree s%"composite_type" none [.tok ⟨s%"MAP", s%"MAP", .str s%"MAP", .int 1, .int 1⟩],
    .tree s%"composite_body" none [.tree s%"attr" none [.tok ⟨s%"UNQUOTED_STRING", s%"NAME", .str s%"NAME", .int 1, .int 5⟩,
      .tree s%"string" none [.tok ⟨s%"DOUBLE_QUOTED_STRING", s%"\"x\"", .str s%"\"x\"", .int 1, .int 10⟩]]]]] :=
  .cons _ _ (.block _ _ _ _ (by decide) (.cons _ _ (.simple _ _ _ (by decide) (by decide)) .nil)) .nil

end Mappy.Transformer
