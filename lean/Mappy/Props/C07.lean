/-
  C07 — validation verdict equals the schema's verdict (partial: jsonschema's evaluation is third-party).
  Theorems about Model/Validator.lean (lower-casing, message construction) and Model/Schema.lean (the Draft-4
  subset semantics `errs`, tied to jsonschema by the `errs` correspondence: equal (path, keyword) multisets).
-/
import Mappy.Model.Validator
import Mappy.Model.Schema
import Mappy.Gen.Schemas
import Mappy.Gen.Patterns
import Mappy.Lemmas.Assoc
import Mappy.Props.C08
import Mappy.Lemmas.SchemaPaths
import Mappy.Lemmas.MessagesTotal

namespace Mappy.Validator

/-! ### the verdict ignores letter case of keys and string values -/

theorem lower_idem (s : Str) : lower (lower s) = lower s := by
  simp [lower, List.map_map, Function.comp_def, lowerC_idem]

mutual
theorem convert_idem : (x : J) → convertLowercase (convertLowercase x) = convertLowercase x
  | .list xs => by simp [convertLowercase, convertL_idem xs]
  | .dict kvs => by simp [convertLowercase, convertF_idem kvs]
  | .str s => by simp [convertLowercase, lower_idem]
  | .null | .bool _ | .int _ | .flt _ | .tup _ => by simp [convertLowercase]
theorem convertL_idem : (xs : List J) → convertL (convertL xs) = convertL xs
  | [] => by simp [convertL]
  | x :: r => by simp [convertL, convert_idem x, convertL_idem r]
theorem convertF_idem : (kvs : Fields) → convertF (convertF kvs) = convertF kvs
  | [] => by simp [convertF]
  | (k, v) :: r => by simp [convertF, lower_idem, convert_idem v, convertF_idem r]
end

mutual
/-- re-spell every key and every string value with `φ` -/
def recase (φ : Str → Str) : J → J
  | .list xs => .list (recaseL φ xs)
  | .dict kvs => .dict (recaseF φ kvs)
  | .str s => .str (φ s)
  | x => x
def recaseL (φ : Str → Str) : List J → List J
  | [] => []
  | x :: r => recase φ x :: recaseL φ r
def recaseF (φ : Str → Str) : Fields → Fields
  | [] => []
  | (k, v) :: r => (φ k, recase φ v) :: recaseF φ r
end

mutual
/-- **C07_case_insensitive** — what the validator hands to jsonschema is the same for every re-spelling of keys and
string values that only changes letter case (upper-casing everything, mixed case, …): the verdict cannot depend on it -/
theorem C07_case_insensitive (φ : Str → Str) (hφ : ∀ s, lower (φ s) = lower s) :
    (x : J) → convertLowercase (recase φ x) = convertLowercase x
  | .list xs => by simp [recase, convertLowercase, C07_case_insensitiveL φ hφ xs]
  | .dict kvs => by simp [recase, convertLowercase, C07_case_insensitiveF φ hφ kvs]
  | .str s => by simp [recase, convertLowercase, hφ]
  | .null | .bool _ | .int _ | .flt _ | .tup _ => by simp [recase]
theorem C07_case_insensitiveL (φ : Str → Str) (hφ : ∀ s, lower (φ s) = lower s) :
    (xs : List J) → convertL (recaseL φ xs) = convertL xs
  | [] => by simp [recaseL]
  | x :: r => by simp [recaseL, convertL, C07_case_insensitive φ hφ x, C07_case_insensitiveL φ hφ r]
theorem C07_case_insensitiveF (φ : Str → Str) (hφ : ∀ s, lower (φ s) = lower s) :
    (kvs : Fields) → convertF (recaseF φ kvs) = convertF kvs
  | [] => by simp [recaseF]
  | (k, v) :: r => by simp [recaseF, convertF, hφ, C07_case_insensitive φ hφ v, C07_case_insensitiveF φ hφ r]
end

/-- non-vacuity: upper-casing is such a re-spelling -/
theorem lower_upper (s : Str) : lower (upper s) = lower s := by
  simp only [lower, upper, List.map_map]
  congr 1
  funext c
  simp only [Function.comp]
  unfold upperC lowerC
  split
  · rename_i h
    rw [ofNat_toNat (c.toNat - 32) (by omega)]
    have : 65 ≤ c.toNat - 32 ∧ c.toNat - 32 ≤ 90 := by omega
    rw [if_pos this, if_neg (by omega)]
    have : c.toNat - 32 + 32 = c.toNat := by omega
    rw [this]
    exact (Char.ofNat_toNat c)
  · rfl

/-! ### a dictionary and a list of root dictionaries -/

/-- what `validate` does with one root dictionary, given the error paths jsonschema reports for its lower-cased form -/
def validateOne (report : J → List (List DictUtils.PathEl)) (d : J) : Res (List Msg) :=
  errorMessages d (report (convertLowercase d))

/-- `validate(value)` for a list: `error_messages += self._get_errors(d, …)` for every root -/
def validateList (report : J → List (List DictUtils.PathEl)) : List J → Res (List Msg)
  | [] => .ok []
  | d :: r =>
    match validateOne report d with
    | .error e => .error e
    | .ok ms => (match validateList report r with | .ok ms' => .ok (ms ++ ms') | .error e => .error e)

/-- **C07_list_is_concat** — the verdict for a list of roots is the roots' verdicts one by one, in order -/
theorem C07_list_is_concat (report : J → List (List DictUtils.PathEl)) (d : J) (r : List J) (ms ms' : List Msg)
    (h1 : validateOne report d = .ok ms) (h2 : validateList report r = .ok ms') :
    validateList report (d :: r) = .ok (ms ++ ms') := by
  simp [validateList, h1, h2]

/-- **C07_no_errors_iff_no_messages** — no messages exactly when jsonschema reports no error (one message per error) -/
theorem C07_no_errors_iff_no_messages (report : J → List (List DictUtils.PathEl)) (d : J) (ms : List Msg)
    (h : validateOne report d = .ok ms) : ms = [] ↔ report (convertLowercase d) = [] := by
  have := C08_messages_length d _ ms h
  constructor
  · intro e; subst e; simpa using this.symm
  · intro e; rw [e] at this; simpa using this

end Mappy.Validator

namespace Mappy.Schema
open DictUtils (PathEl)

/-! ### hidden `__name__` keys do not take part in the verdict -/

theorem errs_empty_schema (env : Env) (fuel : Nat) (inst : J) (path : List PathEl) :
    errs env fuel (.dict []) inst path = [] := by
  cases fuel with
  | zero => rfl
  | succ n =>
    simp only [errs, Versioning.refOfFields, lookup, scalarErrs, combErrs, arrErrs, strErrs, objErrs, propErrs, ppErrs, apErrs, reqErrs]
    cases inst <;> simp [numOf]

theorem lookup_append_ne (k k' : Str) (v : J) (hne : k' ≠ k) : (d : Fields) → lookup k' (d ++ [(k, v)]) = lookup k' d
  | [] => by simp [lookup, Ne.symm hne]
  | (a, b) :: r => by
    simp only [List.cons_append, lookup]
    split
    · rfl
    · exact lookup_append_ne k k' v hne r

theorem hasKey_append_ne (k k' : Str) (v : J) (hne : k' ≠ k) (d : Fields) : hasKey k' (d ++ [(k, v)]) = hasKey k' d := by
  simp [hasKey, lookup_append_ne k k' v hne d]

/-- `{"type": "object"}`: how layer.json / outputformat.json declare `__position__` and `__comments__` -/
def objectOnly : J := .dict [(s%"type", .str s%"object")]

theorem errs_objectOnly (env : Env) (fuel : Nat) (x : Fields) (path : List PathEl) :
    errs env fuel objectOnly (.dict x) path = [] := by
  cases fuel with
  | zero => rfl
  | succ n =>
    simp [errs, objectOnly, Versioning.refOfFields, lookup, scalarErrs, combErrs, objErrs, propErrs, ppErrs, apErrs, reqErrs,
      typeOk, numOf]

/-- an object schema of the Mapfile kind, seen from a key `k` that is hidden: no reference, no enum / combinators,
`k` is not a declared property and not required, and either (A) `patternProperties` is exactly one pattern that
matches `k`, with the empty schema, or (B) there is no `patternProperties` and extra keys are allowed -/
structure HiddenOK (env : Env) (sch : Fields) (k : Str) : Prop where
  noref : Versioning.refOfFields sch = none
  noenum : lookup s%"enum" sch = none
  noall : lookup s%"allOf" sch = none
  noany : lookup s%"anyOf" sch = none
  noone : lookup s%"oneOf" sch = none
  propok : ∀ p, lookup s%"properties" sch = some (.dict p) → ∀ s, (k, s) ∈ p → s = objectOnly
  notreq : ∀ rs, lookup s%"required" sch = some (.list rs) → ∀ r ∈ rs, r ≠ .str k
  pp : (∃ src, lookup s%"patternProperties" sch = some (.dict [(src, .dict [])]) ∧ patMatch (patOf env.pats src) k = true) ∨
       (lookup s%"patternProperties" sch = none ∧ lookup s%"additionalProperties" sch ≠ some (.bool false) ∧
         ∀ ap, lookup s%"additionalProperties" sch ≠ some (.dict ap))

theorem extras_append (pats : List (Str × Pat)) (sch d : Fields) (k : Str) (v : J) (src : Str)
    (hpp : lookup s%"patternProperties" sch = some (.dict [(src, .dict [])]))
    (hm : patMatch (patOf pats src) k = true) : extras pats sch (d ++ [(k, v)]) = extras pats sch d := by
  simp only [extras, hpp, keys, List.map_append, List.filter_append, List.map_cons, List.map_nil]
  simp [hm]

theorem propErrs_append (env : Env) (n : Nat) (sch d x : Fields) (k : Str) (path : List PathEl)
    (hk : lookup k d = none)
    (h : ∀ p, lookup s%"properties" sch = some (.dict p) → ∀ s, (k, s) ∈ p → s = objectOnly) :
    propErrs (errs env n) sch (d ++ [(k, .dict x)]) path = propErrs (errs env n) sch d path := by
  unfold propErrs
  cases hp : lookup s%"properties" sch with
  | none => rfl
  | some pv =>
    cases pv with
    | dict props =>
      have hnp := h props hp
      simp only
      congr 1
      apply List.map_congr_left
      intro kv hmem
      obtain ⟨k', s⟩ := kv
      by_cases hne : k' = k
      · subst hne
        have hs := hnp s hmem
        subst hs
        have : lookup k' (d ++ [(k', .dict x)]) = some (.dict x) := by
          clear hmem hnp hp h
          induction d with
          | nil => simp [lookup]
          | cons ab r ih =>
            obtain ⟨a, b⟩ := ab
            simp only [lookup] at hk
            split at hk
            · cases hk
            · rename_i hne'
              simp only [List.cons_append, lookup, hne', if_false]
              exact ih hk
        simp only [this, hk, errs_objectOnly]
      · simp only [lookup_append_ne k k' _ hne d]
    | _ => rfl

theorem reqErrs_append (sch d : Fields) (k : Str) (v : J) (path : List PathEl)
    (h : ∀ rs, lookup s%"required" sch = some (.list rs) → ∀ r ∈ rs, r ≠ .str k) :
    reqErrs sch (d ++ [(k, v)]) path = reqErrs sch d path := by
  unfold reqErrs
  cases hr : lookup s%"required" sch with
  | none => rfl
  | some rv =>
    cases rv with
    | list rs =>
      have hnr := h rs hr
      simp only
      clear hr
      induction rs with
      | nil => rfl
      | cons r rest ih =>
        have ih' := ih (fun x hx => hnr x (by simp [hx]))
        cases r with
        | str k' =>
          have hne : k' ≠ k := by intro e; subst e; exact hnr _ (by simp) rfl
          simp only [List.filterMap_cons, hasKey_append_ne k k' v hne d, ih']
        | _ => simp only [List.filterMap_cons, ih']
    | _ => rfl

/-- **C07_hidden_ignored** — adding a hidden key (`__position__`, `__comments__`, …) with any dict value to an object
(a dict, as loads produces them) changes nothing in what the schema semantics reports for it, for every object schema
of the Mapfile kind -/
theorem C07_hidden_ignored (env : Env) (fuel : Nat) (sch d x : Fields) (k : Str) (path : List PathEl)
    (h : HiddenOK env sch k) (hk : lookup k d = none) :
    errs env fuel (.dict sch) (.dict (d ++ [(k, .dict x)])) path = errs env fuel (.dict sch) (.dict d) path := by
  cases fuel with
  | zero => rfl
  | succ n =>
    simp only [errs, h.noref]
    have hs : scalarErrs sch (.dict (d ++ [(k, .dict x)])) path = scalarErrs sch (.dict d) path := by
      simp [scalarErrs, h.noenum, typeOk, numOf]
    have hc : combErrs (errs env n) sch (.dict (d ++ [(k, .dict x)])) path = combErrs (errs env n) sch (.dict d) path := by
      simp [combErrs, h.noall, h.noany, h.noone]
    rw [hs, hc]
    congr 2
    unfold objErrs
    rw [propErrs_append env n sch d x k path hk h.propok, reqErrs_append sch d k (.dict x) path h.notreq]
    rcases h.pp with ⟨src, hpp, hm⟩ | ⟨hpp, hap, hapd⟩
    · have e1 : ppErrs env.pats (errs env n) sch (d ++ [(k, .dict x)]) path = ppErrs env.pats (errs env n) sch d path := by
        simp [ppErrs, hpp, hm, errs_empty_schema]
      have e2 : apErrs env.pats (errs env n) sch (d ++ [(k, .dict x)]) path = apErrs env.pats (errs env n) sch d path := by
        unfold apErrs
        rw [extras_append env.pats sch d k (.dict x) src hpp hm]
        cases hl : lookup s%"additionalProperties" sch with
        | none => rfl
        | some apv =>
          cases apv with
          | dict ap =>
            simp only
            congr 1
            apply List.map_congr_left
            intro k' hk'
            have hne : k' ≠ k := by
              intro e; subst e
              simp only [extras, hpp, List.mem_filter] at hk'
              simp [hm] at hk'
            rw [lookup_append_ne k k' _ hne d]
          | bool b => cases b <;> rfl
          | _ => rfl
      rw [e1, e2]
    · have e1 : ppErrs env.pats (errs env n) sch (d ++ [(k, .dict x)]) path = ppErrs env.pats (errs env n) sch d path := by
        simp [ppErrs, hpp]
      have e2 : apErrs env.pats (errs env n) sch (d ++ [(k, .dict x)]) path = apErrs env.pats (errs env n) sch d path := by
        unfold apErrs
        cases hl : lookup s%"additionalProperties" sch with
        | none => rfl
        | some apv =>
          cases apv with
          | bool b =>
            cases b with
            | false => exact absurd hl hap
            | true => rfl
          | dict ap => exact absurd hl (hapd ap)
          | _ => rfl
      rw [e1, e2]

/-- the decidable form of `HiddenOK` for the concrete hidden keys, evaluated on the schema folder -/
def hiddenOKB (pats : List (Str × Pat)) (sch : Fields) (k : Str) : Bool :=
  (Versioning.refOfFields sch).isNone && (lookup s%"enum" sch).isNone && (lookup s%"allOf" sch).isNone &&
  (lookup s%"anyOf" sch).isNone && (lookup s%"oneOf" sch).isNone &&
  (match lookup s%"properties" sch with
   | some (.dict p) => p.all (fun ks => ks.1 != k || ks.2 == objectOnly) | some _ => false | none => true) &&
  (match lookup s%"required" sch with | some (.list rs) => rs.all (fun r => r != .str k) | some _ => false | none => true) &&
  (match lookup s%"patternProperties" sch with
   | some (.dict [(src, .dict [])]) => patMatch (patOf pats src) k
   | some _ => false
   | none => (match lookup s%"additionalProperties" sch with | some (.bool false) => false | some (.dict _) => false | _ => true))

/-- the decidable test implies the premise of `C07_hidden_ignored` -/
theorem hiddenOKB_sound (env : Env) (sch : Fields) (k : Str) (h : hiddenOKB env.pats sch k = true) : HiddenOK env sch k := by
  simp only [hiddenOKB, Bool.and_eq_true, Option.isNone_iff_eq_none] at h
  obtain ⟨⟨⟨⟨⟨⟨⟨h1, h2⟩, h3⟩, h4⟩, h5⟩, h6⟩, h7⟩, h8⟩ := h
  refine ⟨h1, h2, h3, h4, h5, ?_, ?_, ?_⟩
  · intro p hp s hmem
    rw [hp] at h6
    simp only [List.all_eq_true] at h6
    have := h6 (k, s) hmem
    simpa using this
  · intro rs hr r hmem
    rw [hr] at h7
    simp only [List.all_eq_true] at h7
    have := h7 r hmem
    simpa using this
  · cases hpp : lookup s%"patternProperties" sch with
    | none =>
      rw [hpp] at h8
      refine Or.inr ⟨rfl, ?_, ?_⟩
      · intro e; rw [e] at h8; simp at h8
      · intro ap e; rw [e] at h8; simp at h8
    | some v =>
      rw [hpp] at h8
      match v, h8 with
      | .dict [(src, .dict [])], h8 => exact Or.inl ⟨src, rfl, h8⟩

def fileHiddenOK (f : Str × J) : Bool :=
  match f.2 with
  | .dict sch =>
    if (lookup s%"properties" sch).isSome then
      hiddenOKB Gen.patterns sch s%"__position__" && hiddenOKB Gen.patterns sch s%"__comments__"
    else true
  | _ => true

/-- every object schema of the folder ignores the two bookkeeping keys (re-checked against the regenerated files) -/
theorem C07_files_hidden_ok : ∀ f ∈ Gen.files, fileHiddenOK f = true := by decide +kernel

end Mappy.Schema

namespace Mappy.Validator
open DictUtils (PathEl)
open Schema (errs Env errs_paths Resolves)

theorem errorMessages_total (root : J) : (ps : List (List PathEl)) → (∀ p ∈ ps, ∃ m, createMessage root p = .ok m) →
    ∃ ms, errorMessages root ps = .ok ms ∧ ms.length = ps.length
  | [], _ => ⟨[], rfl, rfl⟩
  | p :: r, h => by
    obtain ⟨m, hm⟩ := h p (by simp)
    obtain ⟨ms, hms, hl⟩ := errorMessages_total root r (fun q hq => h q (by simp [hq]))
    exact ⟨m :: ms, by simp [errorMessages, hm, hms], by simp [hl]⟩

/-- **C07_messages_total** — whatever the schema (any environment of files, any schema node, any recursion budget) and
whatever it finds wrong with a Mapfile dictionary as `loads` builds it (lower-case unique keys, objects in lists typed) that carries no line-number bookkeeping, turning the errors into messages
never fails: every path the schema evaluator reports can be walked in the caller's (not lower-cased) dictionary, its
owner has a `__type__` to name in the message, and there is exactly one message per error. This is the totality half
of "validate returns a list"; `fix: 7221fce` (errors on items of list-valued keywords) is what made it true. -/
theorem C07_messages_total (env : Env) (fuel : Nat) (schema : J) (kvs : Fields)
    (hp : plainMD (.dict kvs) = true) (ht : typeStr kvs = true) :
    ∃ ms, errorMessages (.dict kvs) ((errs env fuel schema (convertLowercase (.dict kvs)) []).map (·.1)) = .ok ms
      ∧ ms.length = (errs env fuel schema (convertLowercase (.dict kvs)) []).length := by
  have := errorMessages_total (.dict kvs) ((errs env fuel schema (convertLowercase (.dict kvs)) []).map (·.1)) (by
    intro p hpm
    obtain ⟨e, he, rfl⟩ := List.mem_map.mp hpm
    obtain ⟨rel, hrel, hres⟩ := errs_paths env fuel schema _ [] e he
    simp only [List.nil_append] at hrel
    obtain ⟨y, hy, _⟩ := nav_of_resolves (.dict kvs) hp rel hres
    rw [hrel]
    exact createMessage_total kvs hp ht rel y hy)
  simpa using this

/-- the premises are met by a real dictionary: a LAYER with a CLASS list and a list-valued keyword -/
example : plainMD (.dict [(s%"__type__", .str s%"layer"), (s%"name", .str s%"a"), (s%"extent", .list [.int 1, .int 2]),
      (s%"classes", .list [.dict [(s%"__type__", .str s%"class"), (s%"name", .int 5)]])]) = true
    ∧ typeStr [(s%"__type__", .str s%"layer")] = true := by decide

end Mappy.Validator
