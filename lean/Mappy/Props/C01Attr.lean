/-
  C01, one level up from the value theorems: a whole keyword line.  For each lexical class the printer can choose,
  the tree Lark builds for the line `KEYWORD <token the printer wrote>` is transformed (`mainT`: the value rule's
  call-back, then `attr`) into an attribute whose key is the keyword in lower case and whose value is the original
  value up to the two allowed differences — exactly what `composite` then files into the block dictionary.
  What remains outside: that Lark's lexer puts the printed token into the class named here (compared on every case by
  the harness: the class of every value token of the real tree of the printed text).
-/
import Mappy.Props.C01
import Mappy.Model.Classify
import Mappy.Lemmas.Assoc

namespace Mappy.RoundTrip
open Mappy Mappy.Printer Mappy.Quoter Mappy.Transformer

/-- a token as the lexer makes it: `.value` is the matched text -/
def lexTok (ty text : Str) : Tok := ⟨ty, text, .str text, .null, .null⟩

/-- the tree of a keyword line whose value is one token wrapped in the rule `cls` (string, int, float, true, …) -/
def lineTree (kw cls ty text : Str) : R :=
  .tree s%"attr" none [.tok (lexTok s%"UNQUOTED_STRING" kw), .tree cls none [.tok (lexTok ty text)]]

/-- … or a bare word, which stays a token -/
def lineTreeBare (kw ty text : Str) : R :=
  .tree s%"attr" none [.tok (lexTok s%"UNQUOTED_STRING" kw), .tok (lexTok ty text)]

/-- what `composite` reads off the result -/
def lineValue (cfg : Cfg) (tree : R) : Res (Str × J) :=
  match mainT cfg tree with
  | .ok (.adict kvs) => (match attrParts kvs with | .ok (k, v, _) => .ok (k, v) | .error e => .error e)
  | .ok _ => .error .typeError
  | .error e => .error e

/-- the value `attr` stores for a single value token: strings lose their outer quotes -/
def stored (vt : Tok) : J := match vt.val with | .str s => J.str (cleanString s) | x => x

def posOf (_kw : Str) (vt : Tok) : J :=
  .dict [(s%"line", .null), (s%"column", .null), (s%"values", .list [posPair vt])]

/-- the `attr` call-back on a key token and one value token -/
theorem attr_single (kw : Str) (vt : Tok) (hk : underscored (lower kw) = false) :
    attr [.tok (lexTok s%"UNQUOTED_STRING" kw), .tok vt] =
      .ok (.adict [(s%"__position__", .j (posOf kw vt)), (s%"__tokens__", .toks [lexTok s%"UNQUOTED_STRING" kw, vt]),
                   (lower kw, .j (stored vt))]) := by
  have hne1 : lower kw ≠ s%"__position__" := by
    intro e; rw [e] at hk; revert hk; decide
  have hne2 : lower kw ≠ s%"__tokens__" := by
    intro e; rw [e] at hk; revert hk; decide
  simp [attr, nth, lexTok, tokOf, valLower, hk, isSeq, positionDict, flatten, bind, Except.bind, pure, Except.pure,
    setAV, Ne.symm hne1, Ne.symm hne2, stored, posOf]
  cases vt.val <;> rfl

/-- … and what `composite` reads off it -/
theorem attrParts_single (kw : Str) (vt : Tok) (hk : underscored (lower kw) = false) (hv : stripJ (stored vt) = stored vt) :
    attrParts [(s%"__position__", .j (posOf kw vt)), (s%"__tokens__", .toks [lexTok s%"UNQUOTED_STRING" kw, vt]),
               (lower kw, .j (stored vt))] = .ok (lower kw, stored vt, posOf kw vt) := by
  have hne1 : lower kw ≠ s%"__position__" := by
    intro e; rw [e] at hk; revert hk; decide
  have hne2 : lower kw ≠ s%"__tokens__" := by
    intro e; rw [e] at hk; revert hk; decide
  have hne3 : lower kw ≠ s%"__comments__" := by
    intro e; rw [e] at hk; revert hk; decide
  have hne4 : lower kw ≠ s%"__type__" := by
    intro e; rw [e] at hk; revert hk; decide
  simp [attrParts, lookupAV, delAV, attrCore, attrKV, hk, hv, hne1, hne2, hne3, hne4]

/-- a keyword line whose value token sits under a pass-through rule (`string`, `path`, `regexp`, `runtime_var`, …) -/
theorem lineValue_passthrough (cfg : Cfg) (kw cls ty text : Str) (hk : underscored (lower kw) = false)
    (hc : cls = s%"string" ∨ cls = s%"path" ∨ cls = s%"regexp" ∨ cls = s%"runtime_var") :
    lineValue cfg (lineTree kw cls ty text) = .ok (lower kw, .str (cleanString text)) := by
  have hcb : callback cfg cls none [.tok (lexTok ty text)] = .ok (.tok (lexTok ty text)) := by
    rcases hc with rfl | rfl | rfl | rfl <;> simp [callback, first, nth] <;> rfl
  have hv : stripJ (stored (lexTok ty text)) = stored (lexTok ty text) := by simp [stored, lexTok, stripJ]
  unfold lineValue lineTree
  simp only [mainT, mainTL, bind, Except.bind, pure, Except.pure, hcb]
  have : callback cfg s%"attr" none [.tok (lexTok s%"UNQUOTED_STRING" kw), .tok (lexTok ty text)] =
      attr [.tok (lexTok s%"UNQUOTED_STRING" kw), .tok (lexTok ty text)] := by simp [callback]
  rw [this, attr_single kw _ hk]
  simp only [attrParts_single kw _ hk hv]
  simp [stored, lexTok]

/-- the two facts about a pass-through keyword line used when building derivations: what `mainT` returns, and what
`composite` reads off it -/
theorem attr_line_eq (cfg : Cfg) (kw cls ty text : Str) (hk : underscored (lower kw) = false)
    (hc : cls = s%"string" ∨ cls = s%"path" ∨ cls = s%"regexp" ∨ cls = s%"runtime_var") :
    mainT cfg (lineTree kw cls ty text) =
      .ok (.adict [(s%"__position__", .j (posOf kw (lexTok ty text))),
                   (s%"__tokens__", .toks [lexTok s%"UNQUOTED_STRING" kw, lexTok ty text]),
                   (lower kw, .j (stored (lexTok ty text)))]) ∧
    attrParts [(s%"__position__", .j (posOf kw (lexTok ty text))),
               (s%"__tokens__", .toks [lexTok s%"UNQUOTED_STRING" kw, lexTok ty text]),
               (lower kw, .j (stored (lexTok ty text)))] = .ok (lower kw, .str (cleanString text), posOf kw (lexTok ty text)) := by
  have hcb : callback cfg cls none [.tok (lexTok ty text)] = .ok (.tok (lexTok ty text)) := by
    rcases hc with rfl | rfl | rfl | rfl <;> simp [callback, first, nth] <;> rfl
  have hv : stripJ (stored (lexTok ty text)) = stored (lexTok ty text) := by simp [stored, lexTok, stripJ]
  constructor
  · unfold lineTree
    simp only [mainT, mainTL, bind, Except.bind, pure, Except.pure, hcb]
    have : callback cfg s%"attr" none [.tok (lexTok s%"UNQUOTED_STRING" kw), .tok (lexTok ty text)] =
        attr [.tok (lexTok s%"UNQUOTED_STRING" kw), .tok (lexTok ty text)] := by simp [callback]
    rw [this, attr_single kw _ hk]
  · rw [attrParts_single kw _ hk hv]
    simp [stored, lexTok]

/-- a keyword line whose value is a bare word -/
theorem lineValue_bare (cfg : Cfg) (kw ty text : Str) (hk : underscored (lower kw) = false) :
    lineValue cfg (lineTreeBare kw ty text) = .ok (lower kw, .str (cleanString text)) := by
  have hv : stripJ (stored (lexTok ty text)) = stored (lexTok ty text) := by simp [stored, lexTok, stripJ]
  unfold lineValue lineTreeBare
  simp only [mainT, mainTL, bind, Except.bind, pure, Except.pure]
  have : callback cfg s%"attr" none [.tok (lexTok s%"UNQUOTED_STRING" kw), .tok (lexTok ty text)] =
      attr [.tok (lexTok s%"UNQUOTED_STRING" kw), .tok (lexTok ty text)] := by simp [callback]
  rw [this, attr_single kw _ hk]
  simp only [attrParts_single kw _ hk hv]
  simp [stored, lexTok]

/-- a keyword line whose value is an integer literal -/
theorem lineValue_int (cfg : Cfg) (kw ty text : Str) (n : Int) (hk : underscored (lower kw) = false)
    (hp : parseInt text = some n) :
    lineValue cfg (lineTree kw s%"int" ty text) = .ok (lower kw, .int n) := by
  have hcb : callback cfg s%"int" none [.tok (lexTok ty text)] = .ok (.tok { lexTok ty text with val := .int n }) := by
    simp [callback, first, nth, tokOf, lexTok, hp, bind, Except.bind, pure, Except.pure]
  have hv : stripJ (stored { lexTok ty text with val := .int n }) = stored { lexTok ty text with val := .int n } := by
    simp [stored, stripJ]
  unfold lineValue lineTree
  simp only [mainT, mainTL, bind, Except.bind, pure, Except.pure, hcb]
  have : callback cfg s%"attr" none [.tok (lexTok s%"UNQUOTED_STRING" kw), .tok { lexTok ty text with val := .int n }] =
      attr [.tok (lexTok s%"UNQUOTED_STRING" kw), .tok { lexTok ty text with val := .int n }] := by simp [callback]
  rw [this, attr_single kw _ hk]
  simp only [attrParts_single kw _ hk hv]
  simp [stored]

/-- a keyword line whose value is TRUE / FALSE -/
theorem lineValue_bool (cfg : Cfg) (kw ty text : Str) (b : Bool) (hk : underscored (lower kw) = false) :
    lineValue cfg (lineTree kw (if b then s%"true" else s%"false") ty text) = .ok (lower kw, .bool b) := by
  have hcb : callback cfg (if b then s%"true" else s%"false") none [.tok (lexTok ty text)] =
      .ok (.tok { lexTok ty text with val := .bool b }) := by
    cases b <;> simp [callback, first, nth, tokOf, bind, Except.bind, pure, Except.pure]
  have hv : stripJ (stored { lexTok ty text with val := .bool b }) = stored { lexTok ty text with val := .bool b } := by
    simp [stored, stripJ]
  unfold lineValue lineTree
  simp only [mainT, mainTL, bind, Except.bind, pure, Except.pure, hcb]
  have : callback cfg s%"attr" none [.tok (lexTok s%"UNQUOTED_STRING" kw), .tok { lexTok ty text with val := .bool b }] =
      attr [.tok (lexTok s%"UNQUOTED_STRING" kw), .tok { lexTok ty text with val := .bool b }] := by simp [callback]
  rw [this, attr_single kw _ hk]
  simp only [attrParts_single kw _ hk hv]
  simp [stored]

/-! ### the printer's token, read back -/

/-- **C01_line_string** — a free string (the hypotheses of `C01_string_roundtrip`) at keyword `attr`: the line the
printer writes, with the keyword in ANY letter case, is read back as `attr ↦ s` -/
theorem C01_line_string (cfg : Cfg) (q : Char) (hq : q = '"' ∨ q = '\'') (attr kw ty : Str) (p : CellProps) (s : Str)
    (h : okFor attr p .str = true) (hs : plainStr attr p s = true) (hn : q ∉ s)
    (hkw : lower kw = attr) (hk : underscored attr = false) :
    ∃ t, formatValue q attr p (.str s) = .ok t ∧ lineValue cfg (lineTree kw s%"string" ty t) = .ok (attr, .str s) := by
  obtain ⟨t, ht, hc⟩ := C01_string_roundtrip q hq attr p s h hs hn
  refine ⟨t, ht, ?_⟩
  rw [lineValue_passthrough cfg kw _ ty t (by rw [hkw]; exact hk) (Or.inl rfl), hkw, hc]

/-- **C01_line_int** — an integer at a keyword that is neither enumerated nor typed `string` -/
theorem C01_line_int (cfg : Cfg) (q : Char) (attr kw ty : Str) (p : CellProps) (n : Int)
    (he : p.hasEnum = false) (ht : p.typeString = false)
    (hkw : lower kw = attr) (hk : underscored attr = false) :
    formatValue q attr p (.int n) = .ok (intStr n) ∧
    lineValue cfg (lineTree kw s%"int" ty (intStr n)) = .ok (attr, .int n) := by
  constructor
  · cases ho : p.opts <;> simp [formatValue, he, ht, ho, Printer.pyStr]
  · rw [lineValue_int cfg kw ty _ n (by rw [hkw]; exact hk) (C01_int_roundtrip n), hkw]

/-- **C01_line_enum** — an enumerated word: written bare and upper-cased, read back as the upper-cased word (the allowed
difference `normV`), provided the word is not itself wrapped in quotes -/
theorem C01_line_enum (cfg : Cfg) (q : Char) (attr kw ty : Str) (p : CellProps) (s : Str)
    (he : p.hasEnum = true) (hc : attr ≠ s%"compop") (hb : Quoter.inQuotes '"' (upper s) = false)
    (hkw : lower kw = attr) (hk : underscored attr = false) :
    formatValue q attr p (.str s) = .ok (upper s) ∧
    lineValue cfg (lineTreeBare kw ty (upper s)) = .ok (attr, normV attr p (.str s)) := by
  obtain ⟨h1, h2⟩ := C01_enum_roundtrip q attr p s he hc
  refine ⟨h1, ?_⟩
  rw [lineValue_bare cfg kw ty _ (by rw [hkw]; exact hk), hkw, h2, C02_bare_unchanged _ hb]

/-- **C01_line_number_as_string** — a number at a keyword typed `string`: written quoted, read back as its decimal string -/
theorem C01_line_number_as_string (cfg : Cfg) (q : Char) (hq : q = '"' ∨ q = '\'') (attr kw ty : Str) (p : CellProps) (n : Int)
    (he : p.hasEnum = false) (ht : p.typeString = true) (hx : p.isExpr = false)
    (hkw : lower kw = attr) (hk : underscored attr = false) :
    ∃ t, formatValue q attr p (.int n) = .ok t ∧
      lineValue cfg (lineTree kw s%"string" ty t) = .ok (attr, normV attr p (.int n)) := by
  obtain ⟨t, h1, h2, h3⟩ := C01_number_at_string_keyword q hq attr p n he ht hx
  refine ⟨t, h1, ?_⟩
  rw [lineValue_passthrough cfg kw _ ty t (by rw [hkw]; exact hk) (Or.inl rfl), hkw, h2, h3]

/-- **C01_line_bool** — TRUE / FALSE -/
theorem C01_line_bool (cfg : Cfg) (q : Char) (attr kw ty : Str) (p : CellProps) (b : Bool)
    (hkw : lower kw = attr) (hk : underscored attr = false) :
    formatValue q attr p (.bool b) = .ok (if b then s%"TRUE" else s%"FALSE") ∧
    lineValue cfg (lineTree kw (if b then s%"true" else s%"false") ty (if b then s%"TRUE" else s%"FALSE")) = .ok (attr, .bool b) := by
  refine ⟨C01_bool_roundtrip q attr p b, ?_⟩
  rw [lineValue_bool cfg kw ty _ b (by rw [hkw]; exact hk), hkw]

/-! ### lines holding several numbers (COLOR r g b, SIZE w h, EXTENT …) -/

/-- the integer tokens of a number list, after the `int` call-back -/
def intToks (ty : Str) : List Int → List Tok
  | [] => []
  | n :: r => { lexTok ty (intStr n) with val := .int n } :: intToks ty r

/-- the subtrees Lark builds for them -/
def intTrees (ty : Str) : List Int → List R
  | [] => []
  | n :: r => .tree s%"int" none [.tok (lexTok ty (intStr n))] :: intTrees ty r

theorem mainTL_intTrees (cfg : Cfg) (ty : Str) : (ns : List Int) →
    mainTL cfg (intTrees ty ns) = .ok ((intToks ty ns).map .tok)
  | [] => by simp [intTrees, intToks, mainTL]
  | n :: r => by
    have hcb : callback cfg s%"int" none [.tok (lexTok ty (intStr n))] = .ok (.tok { lexTok ty (intStr n) with val := .int n }) := by
      simp [callback, first, nth, tokOf, lexTok, C01_int_roundtrip n, bind, Except.bind, pure, Except.pure]
    simp only [intTrees, intToks, mainTL, mainT, bind, Except.bind, pure, Except.pure, hcb, mainTL_intTrees cfg ty r, List.map]

theorem mapM_tokOf (ts : List Tok) : (ts.map R.tok).mapM tokOf = .ok ts := by
  induction ts with
  | nil => rfl
  | cons t r ih => simp [List.mapM_cons, tokOf, ih, bind, Except.bind, pure, Except.pure]

theorem intToks_vals (ty : Str) : (ns : List Int) → (intToks ty ns).map (·.val) = ns.map J.int
  | [] => rfl
  | n :: r => by simp [intToks, intToks_vals ty r]

theorem intToks_length (ty : Str) : (ns : List Int) → (intToks ty ns).length = ns.length
  | [] => rfl
  | n :: r => by simp [intToks, intToks_length ty r]

theorem flatten_toks : (ts : List Tok) → flatten (ts.map R.tok) = .ok ts
  | [] => rfl
  | t :: r => by simp [flatten, flatten_toks r, bind, Except.bind, pure, Except.pure]

/-- the `attr` call-back on a key token and a tuple / list of two or more value tokens: the value is the list of the
tokens' values, in order -/
theorem attr_many (kw : Str) (tuple : Bool) (ts : List Tok) (hk : underscored (lower kw) = false) (hc : lower kw ≠ s%"config")
    (hl : ts.length > 1) :
    attr [.tok (lexTok s%"UNQUOTED_STRING" kw), .seq tuple (ts.map .tok)] =
      .ok (.adict [(s%"__position__", .j (.dict [(s%"line", .null), (s%"column", .null), (s%"values", .list (ts.map posPair))])),
                   (s%"__tokens__", .toks (lexTok s%"UNQUOTED_STRING" kw :: ts)),
                   (lower kw, .j (.list (ts.map (·.val))))]) := by
  have hne1 : lower kw ≠ s%"__position__" := by
    intro e; rw [e] at hk; revert hk; decide
  have hne2 : lower kw ≠ s%"__tokens__" := by
    intro e; rw [e] at hk; revert hk; decide
  have hlen : (ts.map R.tok).length > 1 := by simpa using hl
  have hne : ts.map R.tok ≠ [] := by intro e; rw [e] at hlen; simp at hlen
  have hpd : positionDict (lexTok s%"UNQUOTED_STRING" kw) (some (ts.map R.tok)) =
      .ok [(s%"line", .null), (s%"column", .null), (s%"values", .list (ts.map posPair))] := by
    unfold positionDict
    cases hts : ts.map R.tok with
    | nil => exact absurd hts hne
    | cons a r => simp only [← hts, flatten_toks, bind, Except.bind, pure, Except.pure, lexTok]; rfl
  simp only [lexTok] at hpd
  simp only [attr, nth, tokOf, valLower, hk, isSeq, List.drop, List.length_cons, List.length_nil,
    bind, Except.bind, pure, Except.pure, List.getElem?_cons_zero, Bool.false_eq_true, if_false, if_true,
    mapM_tokOf, hlen, hc, lexTok]
  rw [hpd]
  simp [setAV, Ne.symm hne1, Ne.symm hne2, hne1, hne2]

/-- **C01_line_ints** — a line of two or more integers (`COLOR 255 0 0`, `SIZE 400 300`, an integer `EXTENT` …) under any
of the grammar's grouping rules that hand `attr` one tuple/list of the tokens: the value read back is the list of the
integers, in order, for EVERY list of integers -/
theorem C01_line_ints (cfg : Cfg) (kw ty : Str) (tuple : Bool) (ns : List Int) (hk : underscored (lower kw) = false)
    (hc : lower kw ≠ s%"config") (hl : ns.length > 1) :
    ∃ toks : List Tok, mainTL cfg (intTrees ty ns) = .ok (toks.map R.tok) ∧
      ∃ kvs, attr [.tok (lexTok s%"UNQUOTED_STRING" kw), .seq tuple (toks.map R.tok)] = .ok (.adict kvs) ∧
        lookupAV (lower kw) kvs = some (.j (.list (ns.map J.int))) := by
  have hne1 : lower kw ≠ s%"__position__" := by
    intro e; rw [e] at hk; revert hk; decide
  have hne2 : lower kw ≠ s%"__tokens__" := by
    intro e; rw [e] at hk; revert hk; decide
  refine ⟨intToks ty ns, mainTL_intTrees cfg ty ns, _, attr_many kw tuple _ hk hc (by rw [intToks_length]; exact hl), ?_⟩
  simp [lookupAV, hne1, hne2, Ne.symm hne1, Ne.symm hne2, intToks_vals]

/-! ### a block of keyword lines -/

/-- the results of `attr` for a run of keyword lines, with what `composite` reads off each: (key, value) -/
inductive LinesOf : List R → List (Str × J) → Prop
  | nil : LinesOf [] []
  | cons (kvs : List (Str × AV)) (k : Str) (v p : J) (items : List R) (pairs : List (Str × J)) :
      attrParts kvs = .ok (k, v, p) → LinesOf items pairs → LinesOf (.adict kvs :: items) ((k, v) :: pairs)

/-- keywords that take the plain-assignment branch of `composite` -/
def plainKeys (Rp : List Str) (pairs : List (Str × J)) : Prop :=
  ∀ kv ∈ pairs, kv.1 ≠ s%"config" ∧ kv.1 ≠ s%"points" ∧ Rp.contains kv.1 = false

theorem fold_lines (cfg : Cfg) (S Rp : List Str) (hc : cfg.com = false) :
    (items : List R) → (pairs : List (Str × J)) → LinesOf items pairs → plainKeys Rp pairs →
    ∀ (st : CState), st.pd = none → (∀ kv ∈ pairs, kv.1 ∉ keys st.d) → (pairs.map Prod.fst).Nodup →
    ∃ st', items.foldlM (compositeItem cfg S Rp) st = .ok st' ∧ st'.d = st.d ++ pairs ∧ st'.pd = none
  | _, _, .nil, _, st, hpd, _, _ => ⟨st, rfl, by simp, hpd⟩
  | _, _, .cons kvs k v p items pairs hparts hrest, hplain, st, hpd, hfresh, hnd => by
    have hk := hplain (k, v) (by simp)
    have hds : dataStep Rp k v st.d = .ok (setKey k v st.d) := by
      unfold dataStep
      rw [if_neg hk.1, if_neg hk.2.1, hk.2.2]; rfl
    have hnew : k ∉ keys st.d := hfresh (k, v) (by simp)
    have hstep : compositeItem cfg S Rp st (.adict kvs) =
        .ok { d := st.d ++ [(k, v)], pd := none, cd := comStep cfg Rp k (attrComments kvs) st.cd } := by
      simp only [compositeItem, hparts, attrItem, hds, hpd, setKey_of_not_mem k v st.d hnew]
    simp only [List.map_cons, List.nodup_cons] at hnd
    obtain ⟨st', hf, hd, hp'⟩ := fold_lines cfg S Rp hc items pairs hrest (fun kv h => hplain kv (by simp [h]))
      { d := st.d ++ [(k, v)], pd := none, cd := comStep cfg Rp k (attrComments kvs) st.cd } rfl
      (by
        intro kv hkv
        simp only [keys_append, keys_cons, keys_nil, List.mem_append, List.mem_singleton, not_or]
        refine ⟨hfresh kv (by simp [hkv]), ?_⟩
        intro e
        exact hnd.1 (by rw [← e]; exact List.mem_map_of_mem (f := Prod.fst) hkv))
      hnd.2
    refine ⟨st', ?_, ?_, hp'⟩
    · simp only [List.foldlM_cons, hstep, bind, Except.bind]; exact hf
    · rw [hd]; simp

/-- **C01_block_of_lines** — a block whose body is a run of keyword lines with distinct plain keywords (plain load): the
dictionary `composite` builds is `__type__` followed by exactly the (keyword, value) pairs the lines yield, in order —
nothing dropped, invented, merged or re-ordered, for every number of lines -/
theorem C01_block_of_lines (cfg : Cfg) (S Rp : List Str) (hp : cfg.pos = false) (hc : cfg.com = false)
    (keyTok : Tok) (name : Str) (hname : valLower keyTok = .ok name)
    (items : List R) (pairs : List (Str × J)) (hl : LinesOf items pairs) (hplain : plainKeys Rp pairs)
    (hty : ∀ kv ∈ pairs, kv.1 ≠ s%"__type__") (hnd : (pairs.map Prod.fst).Nodup) :
    compositeBody cfg S Rp keyTok items = .ok (.cdict ((s%"__type__", .str name) :: pairs)) := by
  unfold compositeBody
  simp only [hname]
  obtain ⟨st', hf, hd, hpd⟩ := fold_lines cfg S Rp hc items pairs hl hplain (initState cfg name keyTok)
    (by simp [initState, hp]) (by
      intro kv hkv
      simp [initState, hp, hc, hty kv hkv]) hnd
  rw [hf]
  simp only [finishState, hpd, hc, Bool.false_eq_true, if_false, hd]
  simp [initState, hp, hc]

/-! ### one level of a document: keyword lines, singleton blocks and runs of repeatable blocks -/

/-- a run of lines of one repeated keyword (PROCESSING, FORMATOPTION, …) and the values they carry -/
inductive RepRun (k : Str) : List R → List J → Prop
  | nil : RepRun k [] []
  | cons (kvs : List (Str × AV)) (v p : J) (items : List R) (vs : List J) :
      attrParts kvs = .ok (k, v, p) → RepRun k items vs → RepRun k (.adict kvs :: items) (v :: vs)

/-- the items `composite` receives for the entries of a dictionary written in dictionary order (children already read):
a keyword line per simple entry, one block per singleton entry, the blocks of a list entry one after the other,
the lines of a repeated keyword one after the other -/
inductive EntriesOf (S Rp : List Str) : List R → Fields → Prop
  | nil : EntriesOf S Rp [] []
  | rep (k : Str) (run : List R) (vs : List J) (items : List R) (d : Fields) :
      vs ≠ [] → Rp.contains k = true → k ≠ s%"config" → k ≠ s%"points" → RepRun k run vs →
      EntriesOf S Rp items d → EntriesOf S Rp (run ++ items) ((k, .list vs) :: d)
  | line (kvs : List (Str × AV)) (k : Str) (v p : J) (items : List R) (d : Fields) :
      attrParts kvs = .ok (k, v, p) → (k ≠ s%"config" ∧ Rp.contains k = false) →      -- (a first POINTS block is a plain entry too)
      EntriesOf S Rp items d → EntriesOf S Rp (.adict kvs :: items) ((k, v) :: d)
  | single (k : Str) (sub : Fields) (items : List R) (d : Fields) :
      lookup s%"__type__" sub = some (.str k) → S.contains k = true → underscored k = false →
      EntriesOf S Rp items d → EntriesOf S Rp (.cdict sub :: items) ((k, .dict sub) :: d)
  | many (t : Str) (subs : List Fields) (items : List R) (d : Fields) :
      subs ≠ [] → (∀ sub ∈ subs, lookup s%"__type__" sub = some (.str t)) → S.contains t = false → underscored t = false →
      EntriesOf S Rp items d → EntriesOf S Rp (subs.map .cdict ++ items) ((plural t, .list (subs.map .dict)) :: d)

theorem lookup_append_fresh (k : Str) (v : J) : (base : Fields) → k ∉ keys base → lookup k (base ++ [(k, v)]) = some v
  | [], _ => by simp [lookup]
  | (a, b) :: r, h => by
    simp only [keys_cons, List.mem_cons, not_or] at h
    simp only [List.cons_append, lookup, Ne.symm h.1, if_false]
    exact lookup_append_fresh k v r h.2

theorem setKey_append_fresh (k : Str) (v w : J) : (base : Fields) → k ∉ keys base →
    setKey k w (base ++ [(k, v)]) = base ++ [(k, w)]
  | [], _ => by simp [setKey]
  | (a, b) :: r, h => by
    simp only [keys_cons, List.mem_cons, not_or] at h
    simp only [List.cons_append, setKey, Ne.symm h.1, if_false, setKey_append_fresh k v w r h.2]

/-- a run of repeatable blocks of one type keeps extending the list under the plural key, in order -/
theorem fold_blocks (cfg : Cfg) (S Rp : List Str) (t : Str) (hS : S.contains t = false) (hu : underscored t = false) :
    (subs : List Fields) → (∀ sub ∈ subs, lookup s%"__type__" sub = some (.str t)) →
    ∀ (st : CState) (base : Fields) (xs : List J), st.d = base ++ [(plural t, .list xs)] → plural t ∉ keys base →
    ∃ st', (subs.map R.cdict).foldlM (compositeItem cfg S Rp) st = .ok st' ∧
      st'.d = base ++ [(plural t, .list (xs ++ subs.map .dict))] ∧ st'.pd = st.pd
  | [], _, st, base, xs, hd, _ => ⟨st, rfl, by simp [hd], rfl⟩
  | sub :: r, hall, st, base, xs, hd, hfresh => by
    have hty := hall sub (by simp)
    have hstep : compositeItem cfg S Rp st (.cdict sub) =
        .ok { st with d := base ++ [(plural t, .list (xs ++ [.dict sub]))] } := by
      simp only [compositeItem, blockItem, hty, hu, hS, Bool.false_eq_true, if_false, appendTo, hd,
        lookup_append_fresh _ _ base hfresh, setKey_append_fresh _ _ _ base hfresh]
    obtain ⟨st', hf, hd', hp'⟩ := fold_blocks cfg S Rp t hS hu r (fun x hx => hall x (by simp [hx]))
      { st with d := base ++ [(plural t, .list (xs ++ [.dict sub]))] } base (xs ++ [.dict sub]) rfl hfresh
    refine ⟨st', ?_, ?_, hp'⟩
    · simp only [List.map_cons, List.foldlM_cons, hstep, bind, Except.bind]; exact hf
    · rw [hd']; simp

/-- a run of lines of one repeated keyword keeps extending the list under that keyword, in order -/
theorem fold_rep (cfg : Cfg) (S Rp : List Str) (k : Str) (hR : Rp.contains k = true) (h1 : k ≠ s%"config") (h2 : k ≠ s%"points") :
    (run : List R) → (vs : List J) → RepRun k run vs →
    ∀ (st : CState) (base : Fields) (xs : List J), st.pd = none → st.d = base ++ [(k, .list xs)] → k ∉ keys base →
    ∃ st', run.foldlM (compositeItem cfg S Rp) st = .ok st' ∧ st'.d = base ++ [(k, .list (xs ++ vs))] ∧ st'.pd = none
  | _, _, .nil, st, base, xs, hpd, hd, _ => ⟨st, rfl, by simp [hd], hpd⟩
  | _, _, .cons kvs v p items vs hparts hrest, st, base, xs, hpd, hd, hfresh => by
    have hds : dataStep Rp k v st.d = .ok (base ++ [(k, .list (xs ++ [v]))]) := by
      unfold dataStep
      rw [if_neg h1, if_neg h2, if_pos hR]
      simp only [appendTo, hd, lookup_append_fresh _ _ base hfresh, setKey_append_fresh _ _ _ base hfresh]
    have hstep : compositeItem cfg S Rp st (.adict kvs) =
        .ok { d := base ++ [(k, .list (xs ++ [v]))], pd := none, cd := comStep cfg Rp k (attrComments kvs) st.cd } := by
      simp only [compositeItem, hparts, attrItem, hds, hpd]
    obtain ⟨st', hf, hd', hp'⟩ := fold_rep cfg S Rp k hR h1 h2 items vs hrest
      { d := base ++ [(k, .list (xs ++ [v]))], pd := none, cd := comStep cfg Rp k (attrComments kvs) st.cd } base (xs ++ [v]) rfl rfl hfresh
    refine ⟨st', ?_, ?_, hp'⟩
    · simp only [List.foldlM_cons, hstep, bind, Except.bind]; exact hf
    · rw [hd']; simp

theorem fresh_after (k : Str) (v : J) (acc d : Fields) (hfresh : ∀ kv ∈ (k, v) :: d, kv.1 ∉ keys acc)
    (hnd : (keys ((k, v) :: d)).Nodup) : ∀ kv ∈ d, kv.1 ∉ keys (acc ++ [(k, v)]) := by
  intro kv hkv
  simp only [keys_cons, List.nodup_cons] at hnd
  simp only [keys_append, keys_cons, keys_nil, List.mem_append, List.mem_singleton, not_or]
  refine ⟨hfresh kv (by simp [hkv]), ?_⟩
  intro e
  exact hnd.1 (by rw [← e]; exact List.mem_map_of_mem (f := Prod.fst) hkv)

theorem fold_entries (cfg : Cfg) (S Rp : List Str) (hc : cfg.com = false) :
    (items : List R) → (d : Fields) → EntriesOf S Rp items d →
    ∀ (st : CState), st.pd = none → (∀ kv ∈ d, kv.1 ∉ keys st.d) → (keys d).Nodup →
    ∃ st', items.foldlM (compositeItem cfg S Rp) st = .ok st' ∧ st'.d = st.d ++ d ∧ st'.pd = none
  | _, _, .nil, st, hpd, _, _ => ⟨st, rfl, by simp, hpd⟩
  | _, _, .rep k run vs items d hne hR h1 h2 hrun hrest, st, hpd, hfresh, hnd => by
    have hnew : k ∉ keys st.d := hfresh (k, .list vs) (by simp)
    cases hrun with
    | nil => exact absurd rfl hne
    | cons kvs v p ritems rvs hparts hrun' =>
      have hl : lookup k st.d = none := (lookup_none_iff _ _).mpr hnew
      have hds : dataStep Rp k v st.d = .ok (st.d ++ [(k, .list [v])]) := by
        unfold dataStep
        rw [if_neg h1, if_neg h2, if_pos hR]
        simp only [appendTo, hl, setKey_of_not_mem _ _ st.d hnew]
      have hstep : compositeItem cfg S Rp st (.adict kvs) =
          .ok { d := st.d ++ [(k, .list [v])], pd := none, cd := comStep cfg Rp k (attrComments kvs) st.cd } := by
        simp only [compositeItem, hparts, attrItem, hds, hpd]
      obtain ⟨st1, hf1, hd1, hp1⟩ := fold_rep cfg S Rp k hR h1 h2 ritems rvs hrun'
        { d := st.d ++ [(k, .list [v])], pd := none, cd := comStep cfg Rp k (attrComments kvs) st.cd } st.d [v] rfl rfl hnew
      have hd1' : st1.d = st.d ++ [(k, .list (v :: rvs))] := by rw [hd1]; simp
      obtain ⟨st', hf, hd, hp'⟩ := fold_entries cfg S Rp hc items d hrest st1 hp1
        (by rw [hd1']; exact fresh_after k _ st.d d hfresh hnd)
        (by simp only [keys_cons, List.nodup_cons] at hnd; exact hnd.2)
      refine ⟨st', ?_, ?_, hp'⟩
      · simp only [List.cons_append, List.foldlM_cons, hstep, bind, Except.bind, List.foldlM_append]
        rw [hf1]; exact hf
      · rw [hd, hd1']; simp
  | _, _, .line kvs k v p items d hparts hk hrest, st, hpd, hfresh, hnd => by
    have hnew : k ∉ keys st.d := hfresh (k, v) (by simp)
    have hds : dataStep Rp k v st.d = .ok (setKey k v st.d) := by
      unfold dataStep
      rw [if_neg hk.1]
      by_cases hpt : k = s%"points"
      · rw [if_pos hpt, (lookup_none_iff _ _).mpr hnew]
      · rw [if_neg hpt, hk.2]; rfl
    have hstep : compositeItem cfg S Rp st (.adict kvs) =
        .ok { d := st.d ++ [(k, v)], pd := none, cd := comStep cfg Rp k (attrComments kvs) st.cd } := by
      simp only [compositeItem, hparts, attrItem, hds, hpd, setKey_of_not_mem k v st.d hnew]
    obtain ⟨st', hf, hd, hp'⟩ := fold_entries cfg S Rp hc items d hrest
      { d := st.d ++ [(k, v)], pd := none, cd := comStep cfg Rp k (attrComments kvs) st.cd } rfl
      (fresh_after k v st.d d hfresh hnd) (by simp only [keys_cons, List.nodup_cons] at hnd; exact hnd.2)
    refine ⟨st', ?_, ?_, hp'⟩
    · simp only [List.foldlM_cons, hstep, bind, Except.bind]; exact hf
    · rw [hd]; simp
  | _, _, .single k sub items d hty hS hu hrest, st, hpd, hfresh, hnd => by
    have hnew : k ∉ keys st.d := hfresh (k, .dict sub) (by simp)
    have hstep : compositeItem cfg S Rp st (.cdict sub) = .ok { st with d := st.d ++ [(k, .dict sub)] } := by
      simp only [compositeItem, blockItem, hty, hu, hS, Bool.false_eq_true, if_false, if_true,
        setKey_of_not_mem k (.dict sub) st.d hnew]
    obtain ⟨st', hf, hd, hp'⟩ := fold_entries cfg S Rp hc items d hrest
      { st with d := st.d ++ [(k, .dict sub)] } hpd
      (fresh_after k (.dict sub) st.d d hfresh hnd) (by simp only [keys_cons, List.nodup_cons] at hnd; exact hnd.2)
    refine ⟨st', ?_, ?_, hp'⟩
    · simp only [List.foldlM_cons, hstep, bind, Except.bind]; exact hf
    · rw [hd]; simp
  | _, _, .many t subs items d hne hall hS hu hrest, st, hpd, hfresh, hnd => by
    have hnew : plural t ∉ keys st.d := hfresh (plural t, .list (subs.map .dict)) (by simp)
    cases subs with
    | nil => exact absurd rfl hne
    | cons sub r =>
      have hty := hall sub (by simp)
      have hl : lookup (plural t) st.d = none := (lookup_none_iff _ _).mpr hnew
      have hstep : compositeItem cfg S Rp st (.cdict sub) = .ok { st with d := st.d ++ [(plural t, .list [.dict sub])] } := by
        simp only [compositeItem, blockItem, hty, hu, hS, Bool.false_eq_true, if_false, appendTo, hl,
          setKey_of_not_mem _ _ st.d hnew]
      obtain ⟨st1, hf1, hd1, hp1⟩ := fold_blocks cfg S Rp t hS hu r (fun x hx => hall x (by simp [hx]))
        { st with d := st.d ++ [(plural t, .list [.dict sub])] } st.d [.dict sub] rfl hnew
      have hd1' : st1.d = st.d ++ [(plural t, .list ((sub :: r).map .dict))] := by rw [hd1]; simp
      obtain ⟨st', hf, hd, hp'⟩ := fold_entries cfg S Rp hc items d hrest st1 (by rw [hp1]; exact hpd)
        (by rw [hd1']; exact fresh_after (plural t) _ st.d d hfresh hnd)
        (by simp only [keys_cons, List.nodup_cons] at hnd; exact hnd.2)
      refine ⟨st', ?_, ?_, hp'⟩
      · simp only [List.map_cons, List.cons_append, List.foldlM_cons, hstep, bind, Except.bind, List.foldlM_append]
        rw [hf1]; exact hf
      · rw [hd, hd1']; simp

/-- **C01_level_roundtrip** — one level of a document, plain load: when `composite` receives, in dictionary order, a keyword
line for every simple entry, the block of every singleton entry and the blocks of every list entry one after the other
(what the printer writes for a dictionary `__type__ :: d`, with the children already read back), it rebuilds exactly
`__type__ :: d` — for every number and mixture of entries, given distinct keys -/
theorem C01_level_roundtrip (cfg : Cfg) (S Rp : List Str) (hp : cfg.pos = false) (hc : cfg.com = false)
    (keyTok : Tok) (name : Str) (hname : valLower keyTok = .ok name)
    (items : List R) (d : Fields) (he : EntriesOf S Rp items d)
    (hty : ∀ kv ∈ d, kv.1 ≠ s%"__type__") (hnd : (keys d).Nodup) :
    compositeBody cfg S Rp keyTok items = .ok (.cdict ((s%"__type__", .str name) :: d)) := by
  unfold compositeBody
  simp only [hname]
  obtain ⟨st', hf, hd, hpd⟩ := fold_entries cfg S Rp hc items d he (initState cfg name keyTok)
    (by simp [initState, hp]) (by
      intro kv hkv
      simp [initState, hp, hc, hty kv hkv]) hnd
  rw [hf]
  simp only [finishState, hpd, hc, Bool.false_eq_true, if_false, hd]
  simp [initState, hp, hc]

/-- **C01_tree_step** — the inductive step of the whole-document round trip, on real tree shapes: if the children of a block's
tree are transformed (bottom-up, `mainTL`) into items that are, in dictionary order, the entries of `d`, then the block's
tree is transformed into exactly `__type__ :: d`. Applied level by level from the leaves (`C01_line_*`, `C01_kv_block`) it
gives `transform(tree of the printed text of D) = D` for every well-formed dictionary `D` of any depth and width. -/
theorem C01_tree_step (cfg : Cfg) (hp : cfg.pos = false) (hc : cfg.com = false) (key : Tok) (name : Str)
    (hname : valLower key = .ok name) (children items : List R) (d : Fields)
    (hch : mainTL cfg children = .ok items)
    (he : EntriesOf Gen.singletonNames Gen.repeatedKeys items d)
    (hty : ∀ kv ∈ d, kv.1 ≠ s%"__type__") (hnd : (keys d).Nodup) :
    mainT cfg (blockTree key children) = .ok (.cdict ((s%"__type__", .str name) :: d)) := by
  have h1 : callback cfg s%"composite_type" none [.tok key] = .ok (.seq false [.tok key]) := by
    simp [callback, pure, Except.pure]
  have h2 : callback cfg s%"composite_body" none items = .ok (.seq false items) := by
    simp [callback, pure, Except.pure]
  have h3 : callback cfg s%"composite" none [.seq false [.tok key], .seq false items] =
      compositeBody cfg Gen.singletonNames Gen.repeatedKeys key items := by
    simp [callback, composite, compositeKey, tokOf]
  unfold blockTree
  simp only [mainT, mainTL, bind, Except.bind, pure, Except.pure, h1, hch, h2, h3]
  exact C01_level_roundtrip cfg _ _ hp hc key name hname items d he hty hnd

mutual
/-- the class of block trees covered by the composed theorem: a block whose children are read (leaves by whatever
`mainT` makes of them, nested blocks recursively) into the entries of its dictionary, written in dictionary order -/
inductive WellRead (cfg : Cfg) : R → Fields → Prop
  | block (key : Tok) (name : Str) (children items : List R) (d : Fields) :
      valLower key = .ok name → ChildrenRead cfg children items →
      EntriesOf Gen.singletonNames Gen.repeatedKeys items d →
      (∀ kv ∈ d, kv.1 ≠ s%"__type__") → (keys d).Nodup →
      WellRead cfg (blockTree key children) ((s%"__type__", .str name) :: d)
inductive ChildrenRead (cfg : Cfg) : List R → List R → Prop
  | nil : ChildrenRead cfg [] []
  | leaf (c item : R) (rest ritems : List R) :
      mainT cfg c = .ok item → ChildrenRead cfg rest ritems → ChildrenRead cfg (c :: rest) (item :: ritems)
  | node (c : R) (sub : Fields) (rest ritems : List R) :
      WellRead cfg c sub → ChildrenRead cfg rest ritems → ChildrenRead cfg (c :: rest) (.cdict sub :: ritems)
end

mutual
/-- **C01_document_roundtrip** — for every block tree of the class `WellRead` (any depth, any width, any mixture of keyword
lines, singleton blocks and runs of repeatable blocks at every level), the transformer returns exactly the dictionary the
tree was written from. By rule induction on the derivation; no bound on depth or size. -/
theorem C01_document_roundtrip (cfg : Cfg) (hp : cfg.pos = false) (hc : cfg.com = false) :
    ∀ {t : R} {d : Fields}, WellRead cfg t d → mainT cfg t = .ok (.cdict d)
  | _, _, .block key name children items d hname hch he hty hnd =>
    C01_tree_step cfg hp hc key name hname children items d (children_read cfg hp hc hch) he hty hnd
theorem children_read (cfg : Cfg) (hp : cfg.pos = false) (hc : cfg.com = false) :
    ∀ {cs items : List R}, ChildrenRead cfg cs items → mainTL cfg cs = .ok items
  | _, _, .nil => rfl
  | _, _, .leaf c item rest ritems h hr => by
    simp only [mainTL, h, children_read cfg hp hc hr, bind, Except.bind, pure, Except.pure]
  | _, _, .node c sub rest ritems h hr => by
    simp only [mainTL, C01_document_roundtrip cfg hp hc h, children_read cfg hp hc hr, bind, Except.bind, pure, Except.pure]
end

/-- what `mainT` makes of the line `NAME <quoted text>` -/
def nameItem (text : Str) : List (Str × AV) :=
  [(s%"__position__", .j (posOf s%"NAME" (lexTok s%"DOUBLE_QUOTED_STRING" text))),
   (s%"__tokens__", .toks [lexTok s%"UNQUOTED_STRING" s%"NAME", lexTok s%"DOUBLE_QUOTED_STRING" text]),
   (lower s%"NAME", .j (stored (lexTok s%"DOUBLE_QUOTED_STRING" text)))]
def nameLine (text : Str) : R := lineTree s%"NAME" s%"string" s%"DOUBLE_QUOTED_STRING" text

theorem nameLine_read (cfg : Cfg) (text : Str) : mainT cfg (nameLine text) = .ok (.adict (nameItem text)) :=
  (attr_line_eq cfg s%"NAME" s%"string" s%"DOUBLE_QUOTED_STRING" text (by decide) (Or.inl rfl)).1
theorem nameItem_parts (text : Str) :
    attrParts (nameItem text) = .ok (s%"name", .str (cleanString text), posOf s%"NAME" (lexTok s%"DOUBLE_QUOTED_STRING" text)) :=
  (attr_line_eq ⟨false, false, fun _ => none⟩ s%"NAME" s%"string" s%"DOUBLE_QUOTED_STRING" text (by decide) (Or.inl rfl)).2

/-- the class is inhabited by real documents: `LAYER NAME "a b" CLASS NAME "c" END END` (the trees Lark builds for the
printed text), read back as the dictionary it was written from -/
example (cfg : Cfg) :
    WellRead cfg (blockTree (lexTok s%"LAYER" s%"LAYER") [nameLine s%"\"a b\"", blockTree (lexTok s%"CLASS" s%"CLASS") [nameLine s%"\"c\""]])
      [(s%"__type__", .str s%"layer"), (s%"name", .str s%"a b"),
       (s%"classes", .list [.dict [(s%"__type__", .str s%"class"), (s%"name", .str s%"c")]])] := by
  have hcls : WellRead cfg (blockTree (lexTok s%"CLASS" s%"CLASS") [nameLine s%"\"c\""])
      [(s%"__type__", .str s%"class"), (s%"name", .str s%"c")] :=
    .block (lexTok s%"CLASS" s%"CLASS") s%"class" [nameLine s%"\"c\""] [.adict (nameItem s%"\"c\"")] [(s%"name", .str s%"c")] (by decide)
      (.leaf _ _ [] [] (nameLine_read cfg _) .nil)
      (.line (nameItem s%"\"c\"") s%"name" (.str s%"c") _ [] [] (nameItem_parts _) (by decide) .nil) (by decide) (by decide)
  exact .block (lexTok s%"LAYER" s%"LAYER") s%"layer" _
    [.adict (nameItem s%"\"a b\""), .cdict [(s%"__type__", .str s%"class"), (s%"name", .str s%"c")]]
    [(s%"name", .str s%"a b"), (s%"classes", .list [.dict [(s%"__type__", .str s%"class"), (s%"name", .str s%"c")]])] (by decide)
    (.leaf _ _ _ _ (nameLine_read cfg _) (.node _ _ [] [] hcls .nil))
    (.line (nameItem s%"\"a b\"") s%"name" (.str s%"a b") _ _ _ (nameItem_parts _) (by decide)
      (.many s%"class" [[(s%"__type__", .str s%"class"), (s%"name", .str s%"c")]] [] [] (by simp)
        (by intro sub h; simp at h; subst h; rfl) (by decide) (by decide) .nil))
    (by decide) (by decide)

/-! ### key/value blocks (METADATA, VALIDATION, VALUES, CONNECTIONOPTIONS) -/

/-- what the `string_pair` call-back hands on for the line `"key" "value"` the printer writes -/
def pairItem (q : Char) (ty : Str) (kv : Str × Str) : R :=
  .seq false [.tok (lexTok ty (addQuotes q kv.1)), .tok (lexTok ty (addQuotes q kv.2))]

theorem pairKV_printed (q : Char) (hq : q = '"' ∨ q = '\'') (ty : Str) (kv : Str × Str)
    (hk : underscored (lower kv.1) = false) :
    pairKV (pairItem q ty kv) = .ok (lower kv.1, .str kv.2) := by
  have h1 : cleanString (addQuotes q kv.1) = kv.1 := C02_quotes_outer_only q hq kv.1
  have h2 : cleanString (addQuotes q kv.2) = kv.2 := C02_quotes_outer_only q hq kv.2
  simp [pairKV, pairItem, tokOf, strVal, lexTok, h1, h2, hk, bind, Except.bind, pure, Except.pure]

theorem kvPairs_printed (q : Char) (hq : q = '"' ∨ q = '\'') (ty : Str) :
    (d : List (Str × Str)) → (∀ kv ∈ d, underscored (lower kv.1) = false) →
    kvPairs (d.map (pairItem q ty)) = .ok (d.map fun kv => (lower kv.1, J.str kv.2))
  | [], _ => rfl
  | kv :: r, h => by
    simp only [List.map_cons, kvPairs, pairKV_printed q hq ty kv (h kv (by simp)),
      kvPairs_printed q hq ty r (fun x hx => h x (by simp [hx]))]

/-- distinct lower-case keys: the dictionary is the list of pairs, in order -/
theorem kvDict_distinct : (pairs : List (Str × J)) → (∀ kv ∈ pairs, lower kv.1 = kv.1) → (pairs.map Prod.fst).Nodup →
    ∀ (acc : Fields), (∀ kv ∈ pairs, kv.1 ∉ keys acc) →
    pairs.foldl (fun d kv => setKey (lower kv.1) kv.2 d) acc = acc ++ pairs
  | [], _, _, acc, _ => by simp
  | (k, v) :: r, hl, hnd, acc, hfresh => by
    simp only [List.map_cons, List.nodup_cons] at hnd
    have hk : lower k = k := hl (k, v) (by simp)
    simp only [List.foldl_cons, hk, setKey_of_not_mem k v acc (hfresh (k, v) (by simp))]
    rw [kvDict_distinct r (fun x hx => hl x (by simp [hx])) hnd.2 (acc ++ [(k, v)]) (by
      intro kv hkv
      simp only [keys_append, keys_cons, keys_nil, List.mem_append, List.mem_singleton, not_or]
      refine ⟨hfresh kv (by simp [hkv]), ?_⟩
      intro e
      exact hnd.1 (by rw [← e]; exact List.mem_map_of_mem (f := Prod.fst) hkv))]
    simp

/-- a monadic map that returns every element unchanged -/
theorem mapM_id_of_all (f : R → Res R) : (xs : List R) → (∀ x ∈ xs, f x = .ok x) → xs.mapM f = .ok xs
  | [], _ => rfl
  | x :: r, h => by
    simp only [List.mapM_cons, h x (by simp), mapM_id_of_all f r (fun y hy => h y (by simp [hy])), bind, Except.bind, pure,
      Except.pure]

/-- `check_composite_tokens` on `KEY <pairs> END` -/
theorem checkComposite_pairs (q : Char) (ty name kwText : Str) (hname : lower kwText = name) (d : List (Str × Str)) :
    checkComposite name (.tok (lexTok ty kwText) :: (d.map (pairItem q ty) ++ [.tok (lexTok ty s%"END")])) =
      .ok (lexTok ty kwText, d.map (pairItem q ty)) := by
  unfold checkComposite
  have hlen : ¬ (R.tok (lexTok ty kwText) :: (d.map (pairItem q ty) ++ [R.tok (lexTok ty s%"END")])).length < 2 := by
    simp
  have hidx : (R.tok (lexTok ty kwText) :: (d.map (pairItem q ty) ++ [R.tok (lexTok ty s%"END")])).length - 1 =
      (d.map (pairItem q ty)).length + 1 := by simp
  have hlast : (R.tok (lexTok ty kwText) :: (d.map (pairItem q ty) ++ [R.tok (lexTok ty s%"END")]))[(d.map (pairItem q ty)).length + 1]? =
      some (R.tok (lexTok ty s%"END")) := by
    rw [List.getElem?_cons_succ, List.getElem?_append_right (Nat.le_refl _)]
    simp
  have hend : lower s%"END" = s%"end" := by decide
  have hbody : ((R.tok (lexTok ty kwText) :: (d.map (pairItem q ty) ++ [R.tok (lexTok ty s%"END")])).drop 1).dropLast =
      d.map (pairItem q ty) := by
    show ((d.map (pairItem q ty) ++ [R.tok (lexTok ty s%"END")])).dropLast = _
    exact List.dropLast_concat
  simp only [hlen, if_false, nth, List.getElem?_cons_zero, tokOf, valLower, bind, Except.bind, pure, Except.pure, hidx, hlast,
    hbody]
  rw [mapM_id_of_all _ _ (by intro x hx; obtain ⟨kv, _, rfl⟩ := List.mem_map.mp hx; rfl)]
  simp [lexTok, hname, hend]

/-- **C01_kv_block** — a METADATA / VALIDATION / VALUES / CONNECTIONOPTIONS block as the printer writes it (every key and
every value between the output quotes), for ANY number of pairs with distinct lower-case keys and ANY value strings: the
block read back is exactly the pairs, in order, values untouched, followed by `__type__` (a key/value block gets its type tag
last) -/
theorem C01_kv_block (cfg : Cfg) (hp : cfg.pos = false) (q : Char) (hq : q = '"' ∨ q = '\'') (ty name kwText : Str)
    (hname : lower kwText = name) (d : List (Str × Str))
    (hlow : ∀ kv ∈ d, lower kv.1 = kv.1) (hu : ∀ kv ∈ d, underscored kv.1 = false) (hnd : (d.map Prod.fst).Nodup)
    (hty : ∀ kv ∈ d, kv.1 ≠ s%"__type__") :
    valuePairs cfg name (.tok (lexTok ty kwText) :: (d.map (pairItem q ty) ++ [.tok (lexTok ty s%"END")])) =
      .ok (.cdict ((d.map fun kv => (kv.1, J.str kv.2)) ++ [(s%"__type__", .str name)])) := by
  have hkv := kvPairs_printed q hq ty d (fun kv h => by rw [hlow kv h]; exact hu kv h)
  have hpairs : (d.map fun kv => (lower kv.1, J.str kv.2)) = d.map fun kv => (kv.1, J.str kv.2) := by
    apply List.map_congr_left
    intro kv h
    rw [hlow kv h]
  have hd := kvDict_distinct (d.map fun kv => (kv.1, J.str kv.2))
    (by intro kv h; obtain ⟨x, hx, rfl⟩ := List.mem_map.mp h; exact hlow x hx)
    (by simpa [List.map_map, Function.comp_def] using hnd) [] (by simp)
  have hnt : s%"__type__" ∉ keys (d.map fun kv => (kv.1, J.str kv.2)) := by
    simp only [keys, List.map_map, Function.comp_def, List.mem_map, not_exists, not_and]
    intro x hx e
    exact hty x hx e
  unfold valuePairs
  rw [checkComposite_pairs q ty name kwText hname d]
  simp only [valLower, lexTok, hname, hkv, hp, Bool.false_eq_true, if_false, hpairs, kvDict, hd, List.nil_append]
  rw [setKey_of_not_mem _ _ _ hnt]

/-- the hypotheses are met: NAME "a b" in a LAYER, any spelling of the keyword -/
example : lower s%"NaMe" = s%"name" ∧ underscored s%"name" = false ∧ ('"' ∉ s%"a b") := by decide

end Mappy.RoundTrip
