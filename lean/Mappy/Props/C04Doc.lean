/-
  C04 / C01 — the document-level normal form.  `normJ` (Model/Reload.lean) is the dictionary a reload gives back;
  printing it yields exactly the lines printing the original dictionary yields, for EVERY dictionary, nesting depth,
  option record and schema table: the written text is a fixed point of print ∘ reload.
-/
import Mappy.Props.C04

namespace Mappy.Printer

/-- a simple keyword's normalised value is a list / a dict exactly when the value was (it never is: `normV` only
rewrites strings and numbers into strings) -/
theorem normAt_scalar (T : Table) (ty : Option Str) (attr : Str) (v : J) (hl : ∀ xs, v ≠ .list xs) (hd : ∀ g, v ≠ .dict g) :
    (∀ xs, normAt T ty attr v ≠ .list xs) ∧ (∀ g, normAt T ty attr v ≠ .dict g) := by
  unfold normAt
  split
  · exact ⟨hl, hd⟩
  · split
    · exact ⟨hl, hd⟩
    · cases v with
      | str s => rcases normV_str attr _ s with h | h <;> rw [h] <;> simp
      | _ => simp only [normV] <;> (try split) <;> simp_all

/-- the loop body of `_format` on an entry whose value is not a list -/
theorem fmtItems_cons_nonlist (o : Opts) (T : Table) (level : Nat) (ty : Option Str) (c : Fields) (al : Nat)
    (attr : Str) (v : J) (r : Fields) (h : ∀ xs, v ≠ .list xs) :
    fmtItems o T level ty c al ((attr, v) :: r) =
      cat (item o T level ty c al attr v (fun _ => fmt o T (level + 1) v)) (fmtItems o T level ty c al r) := by
  cases v with
  | list xs => exact absurd rfl (h xs)
  | _ => simp only [fmtItems]

theorem normE_scalar (T : Table) (ty : Option Str) (attr : Str) (v : J) (hl : ∀ xs, v ≠ .list xs) (hd : ∀ g, v ≠ .dict g) :
    normE T ty attr v = if isMetaKey attr || isDataKey attr then v else normAt T ty attr v := by
  cases v <;> simp_all [normE]

theorem normE_not_list (T : Table) (ty : Option Str) (attr : Str) (v : J) (hl : ∀ xs, v ≠ .list xs) :
    ∀ xs, normE T ty attr v ≠ .list xs := by
  by_cases hd : ∃ g, v = .dict g
  · obtain ⟨g, rfl⟩ := hd; simp [normE]
  · have hd' : ∀ g, v ≠ .dict g := fun g h => hd ⟨g, h⟩
    rw [normE_scalar T ty attr v hl hd']
    split
    · exact hl
    · exact (normAt_scalar T ty attr v hl hd').1

/-- hidden keys are looked up unchanged -/
theorem lookup_normF (T : Table) (ty : Option Str) (k : Str) (hk : isMetaKey k = true) :
    (f : Fields) → lookup k (normF T ty f) = lookup k f
  | [] => by simp [normF]
  | (a, v) :: r => by
    have ih := lookup_normF T ty k hk r
    by_cases e : a = k
    · subst e
      cases v <;> simp [normF, normE, lookup, hk]
    · simp [normF, lookup, e, ih]

theorem isMeta_type : isMetaKey s%"__type__" = true := by decide
theorem isMeta_comments : isMetaKey s%"__comments__" = true := by decide

theorem typeOf_normF (T : Table) (ty : Option Str) (f : Fields) : typeOf (normF T ty f) = typeOf f := by
  simp [typeOf, lookup_normF T ty _ isMeta_type]

theorem commentsOf_normF (T : Table) (ty : Option Str) (f : Fields) : commentsOf (normF T ty f) = commentsOf f := by
  simp [commentsOf, lookup_normF T ty _ isMeta_comments]

theorem hasKey_type_normF (T : Table) (ty : Option Str) (f : Fields) :
    hasKey s%"__type__" (normF T ty f) = hasKey s%"__type__" f := by
  simp [hasKey, lookup_normF T ty _ isMeta_type]

theorem isComposite_normE (T : Table) (ty : Option Str) (attr : Str) (v : J) :
    isComposite (normE T ty attr v) = isComposite v := by
  by_cases hl : ∃ xs, v = .list xs
  · obtain ⟨xs, rfl⟩ := hl; simp [normE, isComposite]
  by_cases hd : ∃ g, v = .dict g
  · obtain ⟨g, rfl⟩ := hd
    simp only [normE, isComposite]
    split
    · rfl
    · exact hasKey_type_normF T _ g
  have hl' : ∀ xs, v ≠ .list xs := fun xs h => hl ⟨xs, h⟩
  have hd' : ∀ g, v ≠ .dict g := fun g h => hd ⟨g, h⟩
  rw [normE_scalar T ty attr v hl' hd']
  split
  · rfl
  · have h := (normAt_scalar T ty attr v hl' hd').2
    have hv : isComposite v = false := by cases v <;> simp_all [isComposite]
    rw [hv]
    revert h
    generalize normAt T ty attr v = w
    intro h
    cases w <;> simp_all [isComposite]

theorem isHiddenContainer_normE (T : Table) (ty : Option Str) (attr : Str) (v : J) (k : Str) :
    isHiddenContainer k (normE T ty attr v) = isHiddenContainer k v := by
  by_cases hl : ∃ xs, v = .list xs
  · obtain ⟨xs, rfl⟩ := hl; simp [normE, isHiddenContainer]
  have hl' : ∀ xs, v ≠ .list xs := fun xs h => hl ⟨xs, h⟩
  have h := normE_not_list T ty attr v hl'
  have hv : isHiddenContainer k v = false := by cases v <;> simp_all [isHiddenContainer]
  rw [hv]
  revert h
  generalize normE T ty attr v = w
  intro h
  cases w <;> simp_all [isHiddenContainer]

theorem maxKeyLen_normF (T : Table) (ty : Option Str) : (f : Fields) → maxKeyLen (normF T ty f) = maxKeyLen f
  | [] => by simp [normF]
  | (a, v) :: r => by
    simp only [normF, maxKeyLen, maxKeyLen_normF T ty r, isComposite_normE, isHiddenContainer_normE]

theorem alignedOf_normF (o : Opts) (T : Table) (ty : Option Str) (f : Fields) : alignedOf o (normF T ty f) = alignedOf o f := by
  simp [alignedOf, maxKeyLen_normF]

theorem wrapObj_normF (o : Opts) (T : Table) (ty : Option Str) (level : Nat) (f : Fields) (body : Res (List Line)) :
    wrapObj o level (normF T ty f) body = wrapObj o level f body := by
  simp only [wrapObj, commentsOf_normF, lookup_normF T ty _ isMeta_type]

/-- past the data-block names `other` either descends into a nested object or prints a simple keyword line -/
theorem other_nodata (o : Opts) (T : Table) (level : Nat) (ty : Option Str) (c : Fields) (al : Nat) (a : Str) (v : J)
    (child : Unit → Res (List Line)) (h : isDataKey a = false) :
    other o T level ty c al a v child = if isComposite v then child () else simple o T level ty c al a v := by
  simp only [isDataKey, Bool.or_eq_false_iff, decide_eq_false_iff_not] at h
  obtain ⟨⟨⟨⟨⟨h1, h2⟩, h3⟩, h4⟩, h5⟩, h6⟩ := h
  simp only [other, h1, h2, h3, h4, h5, h6, if_false]

/-- a simple keyword line does not change when its value is replaced by the reloaded value (`C04_value_normal_form` at the
cell the look-up finds) -/
theorem simple_normAt (o : Opts) (T : Table) (level : Nat) (ty : Option Str) (c : Fields) (al : Nat) (a : Str) (v : J) :
    simple o T level ty c al a (normAt T ty a v) = simple o T level ty c al a v := by
  cases ty with
  | none => rfl
  | some t =>
    simp only [simple, attrLine, normAt]
    cases cellOf T t a with
    | none => rfl
    | some p => simp only [C04_value_normal_form]

/-- one entry whose value is neither a list nor a dict -/
theorem item_scalar_norm (o : Opts) (T : Table) (level : Nat) (ty : Option Str) (c : Fields) (al : Nat) (a : Str) (v : J)
    (hl : ∀ xs, v ≠ .list xs) (hd : ∀ g, v ≠ .dict g) :
    item o T level ty c al a (normE T ty a v) (fun _ => fmt o T (level + 1) (normE T ty a v)) =
      item o T level ty c al a v (fun _ => fmt o T (level + 1) v) := by
  rw [normE_scalar T ty a v hl hd]
  by_cases hc : (isMetaKey a || isDataKey a) = true
  · simp only [hc, if_true]
  · simp only [hc, if_false, Bool.false_eq_true]
    simp only [Bool.or_eq_true, not_or, Bool.not_eq_true] at hc
    obtain ⟨hm, hdk⟩ := hc
    have hs := normAt_scalar T ty a v hl hd
    have hcomp : ∀ w : J, (∀ g, w ≠ .dict g) → isComposite w = false := fun w h => by cases w <;> simp_all [isComposite]
    simp only [item, hm, Bool.false_eq_true, if_false, other_nodata _ _ _ _ _ _ _ _ _ hdk, hcomp _ hs.2, hcomp _ hd, simple_normAt]

mutual
theorem fmt_norm (o : Opts) (T : Table) : (j : J) → (level : Nat) → fmt o T level (normJ T j) = fmt o T level j
  | .dict f, level => by
    simp only [normJ, fmt, typeOf_normF, commentsOf_normF, alignedOf_normF, wrapObj_normF]
    rw [fmtItems_norm o T f level]
  | .null, _ | .bool _, _ | .int _, _ | .flt _, _ | .str _, _ | .list _, _ | .tup _, _ => by simp only [normJ]
theorem fmtItems_norm (o : Opts) (T : Table) : (f : Fields) → (level : Nat) → (ty : Option Str) → (c : Fields) → (al : Nat) →
    fmtItems o T level ty c al (normF T ty f) = fmtItems o T level ty c al f
  | [], _, _, _, _ => by simp only [normF]
  | (a, .list xs) :: r, level, ty, c, al => by
    simp only [normF, normE, fmtItems, fmtItems_norm o T r level ty c al]
    congr 1
    unfold itemList
    by_cases hm : isMetaKey a = true
    · simp only [hm, if_true]
    · simp only [hm, if_false, Bool.false_eq_true]
      by_cases ho : a ∈ Gen.objectListKeys
      · simp only [ho, if_true, fmtList_norm o T xs (level + 1)]
      · simp only [ho, if_false]
  | (a, .dict g) :: r, level, ty, c, al => by
    simp only [normF, normE, fmtItems, fmtItems_norm o T r level ty c al]
    congr 1
    by_cases hc : (isMetaKey a || isDataKey a || !hasKey s%"__type__" g) = true
    · simp only [hc, if_true]
    · simp only [hc, if_false, Bool.false_eq_true]
      simp only [Bool.or_eq_true, not_or, Bool.not_eq_true, Bool.not_eq_false'] at hc
      obtain ⟨⟨hm, hd⟩, ht⟩ := hc
      have ht' : hasKey s%"__type__" g = true := by simpa using ht
      have e := fmt_norm o T (.dict g) (level + 1)
      simp only [normJ] at e
      simp only [item, hm, Bool.false_eq_true, if_false, other_nodata _ _ _ _ _ _ _ _ _ hd, isComposite, hasKey_type_normF, ht', if_true, e]
  | (a, .null) :: r, level, ty, c, al | (a, .bool _) :: r, level, ty, c, al
  | (a, .int _) :: r, level, ty, c, al | (a, .flt _) :: r, level, ty, c, al
  | (a, .str _) :: r, level, ty, c, al | (a, .tup _) :: r, level, ty, c, al => by
    simp only [normF]
    rw [fmtItems_cons_nonlist _ _ _ _ _ _ _ _ _ (normE_not_list T ty a _ (by intro xs; simp)),
        fmtItems_cons_nonlist _ _ _ _ _ _ _ _ _ (by intro xs; simp), fmtItems_norm o T r level ty c al]
    congr 1
    exact item_scalar_norm o T level ty c al a _ (by intro xs; simp) (by intro g; simp)
theorem fmtList_norm (o : Opts) (T : Table) : (xs : List J) → (level : Nat) → fmtList o T level (normL T xs) = fmtList o T level xs
  | [], _ => by simp only [normL]
  | x :: r, level => by simp only [normL, fmtList, fmt_norm o T x level, fmtList_norm o T r level]
end

/-! ### `separate_complex_types` commutes with the reload normal form -/

theorem normF_map (T : Table) (ty : Option Str) : (f : Fields) → normF T ty f = f.map (fun kv => (kv.1, normE T ty kv.1 kv.2))
  | [] => by simp [normF]
  | (a, v) :: r => by simp [normF, normF_map T ty r]

theorem isBlockValue_normE (T : Table) (ty : Option Str) (attr : Str) (v : J) :
    isBlockValue (normE T ty attr v) = isBlockValue v := by
  by_cases hl : ∃ xs, v = .list xs
  · obtain ⟨xs, rfl⟩ := hl; simp [normE, isBlockValue]
  by_cases hd : ∃ g, v = .dict g
  · obtain ⟨g, rfl⟩ := hd; simp [normE, isBlockValue]
  have hl' : ∀ xs, v ≠ .list xs := fun xs h => hl ⟨xs, h⟩
  have hd' : ∀ g, v ≠ .dict g := fun g h => hd ⟨g, h⟩
  rw [normE_scalar T ty attr v hl' hd']
  split
  · rfl
  · have h := normAt_scalar T ty attr v hl' hd'
    have hv : isBlockValue v = false := by cases v <;> simp_all [isBlockValue]
    rw [hv]
    revert h
    generalize normAt T ty attr v = w
    intro h
    cases w <;> simp_all [isBlockValue]

theorem isComplexType_normE (T : Table) (ty : Option Str) (level : Nat) (k : Str) (v : J) :
    isComplexType level k (normE T ty k v) = isComplexType level k v := by
  simp only [isComplexType, isBlockValue_normE, isHiddenContainer_normE]

theorem separateComplex_normF (T : Table) (ty : Option Str) (level : Nat) (f : Fields) :
    separateComplex level (normF T ty f) = normF T ty (separateComplex level f) := by
  simp only [separateComplex, normF_map, List.filter_map, List.map_append]
  congr 1 <;> (congr 1; apply List.filter_congr; intro kv _; simp [Function.comp, isComplexType_normE])

/-- a key that is never a complex type is looked up unchanged after the stable partition -/
theorem lookup_filter_append (k : Str) (p : Str × J → Bool) (hp : ∀ v, p (k, v) = true) (rest : Fields) :
    (f : Fields) → lookup k (f.filter p ++ rest) = (match lookup k f with | some v => some v | none => lookup k rest)
  | [] => by simp [lookup]
  | (a, v) :: r => by
    have ih := lookup_filter_append k p hp rest r
    by_cases e : a = k
    · subst e; simp [List.filter_cons, hp, lookup]
    · by_cases h : p (a, v) = true
      · simp [List.filter_cons, h, lookup, e, ih]
      · simp [List.filter_cons, h, lookup, e, ih]

theorem lookup_filter_none (k : Str) (p : Str × J → Bool) : (f : Fields) → lookup k f = none → lookup k (f.filter p) = none
  | [], _ => by simp [lookup]
  | (a, v) :: r, h => by
    simp only [lookup] at h
    split at h
    · simp at h
    · rename_i e
      by_cases hp : p (a, v) = true
      · simp [List.filter_cons, hp, lookup, e, lookup_filter_none k p r h]
      · simp [List.filter_cons, hp, lookup_filter_none k p r h]

theorem lookup_separateComplex (level : Nat) (k : Str) (hk : ∀ v, isComplexType level k v = false) (f : Fields) :
    lookup k (separateComplex level f) = lookup k f := by
  unfold separateComplex
  rw [lookup_filter_append k _ (by intro v; simp [hk]) _ f]
  cases h : lookup k f with
  | some v => rfl
  | none => exact lookup_filter_none k _ f h

theorem type_not_complex (level : Nat) (v : J) : isComplexType level s%"__type__" v = false := by
  have h1 : (s%"__type__" = s%"symbol") = False := by decide
  have h2 : (s%"__type__" ∈ Gen.complexTypes) = False := by decide
  have h3 : (s%"__type__" ∈ Gen.objectListKeys) = False := by decide
  simp [isComplexType, isHiddenContainer, h1, h2, h3]

/-- what `sepFields` does to the value of one entry -/
def sepVal (level : Nat) (k : Str) (v : J) : J :=
  if isMetaKey k then v
  else if k ∈ Gen.objectListKeys then
    (match v with
     | .list xs => .list (sepList (level + 1) xs)
     | v => if isDataKey k then v else sepChild level v)
  else if isDataKey k then v else sepChild level v

theorem sepFields_cons (level : Nat) (k : Str) (v : J) (r : Fields) :
    sepFields level ((k, v) :: r) = (k, sepVal level k v) :: sepFields level r := by
  cases v <;> simp only [sepFields, sepVal]

theorem lookup_sepFields (level : Nat) (k : Str) (hk : isMetaKey k = true) : (f : Fields) →
    lookup k (sepFields level f) = lookup k f
  | [] => by simp [sepFields]
  | (a, v) :: r => by
    have ih := lookup_sepFields level k hk r
    rw [sepFields_cons]
    by_cases e : a = k
    · subst e; simp [lookup, sepVal, hk]
    · simp only [lookup, e, if_false, ih]

theorem typeOf_sep (level : Nat) (f : Fields) : typeOf (separateComplex level (sepFields level f)) = typeOf f := by
  simp only [typeOf, lookup_separateComplex level _ (type_not_complex level), lookup_sepFields level _ isMeta_type]

theorem hasType_sep (level : Nat) (f : Fields) :
    hasKey s%"__type__" (separateComplex level (sepFields level f)) = hasKey s%"__type__" f := by
  simp only [hasKey, lookup_separateComplex level _ (type_not_complex level), lookup_sepFields level _ isMeta_type]

theorem sepChild_scalar (level : Nat) (v : J) (hd : ∀ g, v ≠ .dict g) : sepChild level v = v := by
  cases v <;> simp_all [sepChild]

/-- an entry whose value is neither a list nor a dict: both passes leave the value's kind alone -/
theorem sepEntry_scalar (T : Table) (ty : Option Str) (level : Nat) (a : Str) (v : J) (r r' : Fields)
    (hl : ∀ xs, v ≠ .list xs) (hd : ∀ g, v ≠ .dict g) :
    sepFields level ((a, normE T ty a v) :: r) = (a, normE T ty a v) :: sepFields level r ∧
    sepFields level ((a, v) :: r') = (a, v) :: sepFields level r' := by
  have key : ∀ (w : J) (q : Fields), (∀ xs, w ≠ .list xs) → (∀ g, w ≠ .dict g) →
      sepFields level ((a, w) :: q) = (a, w) :: sepFields level q := by
    intro w q h1 h2
    have hs := sepChild_scalar level w h2
    cases w <;> simp_all [sepFields]
  refine ⟨key _ r (normE_not_list T ty a v hl) ?_, key v r' hl hd⟩
  rw [normE_scalar T ty a v hl hd]
  split
  · exact hd
  · exact (normAt_scalar T ty a v hl hd).2

mutual
theorem sepTree_norm (T : Table) : (j : J) → (level : Nat) → sepTree level (normJ T j) = normJ T (sepTree level j)
  | .dict f, level => by
    simp only [normJ, sepTree, sepFields_norm T f level, separateComplex_normF, typeOf_sep]
  | .null, _ | .bool _, _ | .int _, _ | .flt _, _ | .str _, _ | .list _, _ | .tup _, _ => by simp only [normJ, sepTree]
theorem sepFields_norm (T : Table) : (f : Fields) → (level : Nat) → ∀ ty, sepFields level (normF T ty f) = normF T ty (sepFields level f)
  | [], _, _ => by simp only [normF, sepFields]
  | (a, .list xs) :: r, level, ty => by
    have ihr := sepFields_norm T r level ty
    have ihx := sepList_norm T xs (level + 1)
    by_cases hm : isMetaKey a = true
    · simp [normF, sepFields, normE, hm, ihr]
    · by_cases ho : a ∈ Gen.objectListKeys
      · simp [normF, sepFields, normE, hm, ho, ihr, ihx]
      · by_cases hdk : isDataKey a = true <;> simp [normF, sepFields, normE, hm, ho, hdk, sepChild, ihr]
  | (a, .dict g) :: r, level, ty => by
    have ihr := sepFields_norm T r level ty
    have e := sepFields_norm T g (level + 1) (typeOf g)
    by_cases hm : isMetaKey a = true
    · simp [normF, sepFields, normE, hm, ihr]
    · by_cases hdk : isDataKey a = true
      · by_cases ho : a ∈ Gen.objectListKeys <;> simp [normF, sepFields, normE, hm, ho, hdk, ihr]
      · by_cases ht : hasKey s%"__type__" g = true
        · by_cases ho : a ∈ Gen.objectListKeys <;>
            simp [normF, sepFields, normE, hm, ho, hdk, ht, sepChild, hasKey_type_normF, hasType_sep, typeOf_sep, e,
              separateComplex_normF, ihr]
        · by_cases ho : a ∈ Gen.objectListKeys <;> simp [normF, sepFields, normE, hm, ho, hdk, ht, sepChild, ihr]
  | (a, .null) :: r, level, ty | (a, .bool _) :: r, level, ty | (a, .int _) :: r, level, ty
  | (a, .flt _) :: r, level, ty | (a, .str _) :: r, level, ty | (a, .tup _) :: r, level, ty => by
    simp only [normF]
    rw [(sepEntry_scalar T ty level a _ (normF T ty r) r (by intro xs; simp) (by intro g; simp)).1,
        (sepEntry_scalar T ty level a _ (normF T ty r) r (by intro xs; simp) (by intro g; simp)).2]
    simp only [normF, sepFields_norm T r level ty]
theorem sepList_norm (T : Table) : (xs : List J) → (level : Nat) → sepList level (normL T xs) = normL T (sepList level xs)
  | [], _ => by simp only [normL, sepList]
  | x :: r, level => by simp only [normL, sepList, sepTree_norm T x level, sepList_norm T r level]
end

theorem normRoot_type (T : Table) (f : Fields) :
    ∃ g, normRoot T (.dict f) = .dict g ∧ lookup s%"__type__" g = lookup s%"__type__" f := by
  simp only [normRoot]
  split
  · split
    · exact ⟨f, rfl, rfl⟩
    · exact ⟨_, rfl, lookup_normF T _ _ isMeta_type f⟩
  · exact ⟨f, rfl, rfl⟩

theorem go_norm (o : Opts) (T : Table) : (rs : List J) → pprintLines.go o T (rs.map (normRoot T)) = pprintLines.go o T rs
  | [] => rfl
  | x :: r => by
    simp only [List.map_cons, pprintLines.go, go_norm o T r]
    cases x with
    | dict f =>
      simp only [normRoot]
      cases hty : lookup s%"__type__" f with
      | none => simp only [hty]
      | some t =>
        cases t with
        | str t =>
          simp only
          by_cases hk : (t = s%"metadata" || t = s%"validation" || t = s%"connectionoptions") = true
          · simp only [hk, if_true, hty]
          · simp only [hk, if_false, Bool.false_eq_true]
            have e := fmt_norm o T (.dict f) 0
            simp only [normJ] at e
            simp only [normJ, lookup_normF T _ _ isMeta_type f, hty, hk, if_false, Bool.false_eq_true, e]
        | null | bool _ | int _ | flt _ | list _ | tup _ | dict _ => simp only [hty]
    | null | bool _ | int _ | flt _ | str _ | list _ | tup _ => simp only [normRoot]

theorem lookup_type_sepTree (f : Fields) :
    ∃ g, sepTree 0 (.dict f) = .dict g ∧ lookup s%"__type__" g = lookup s%"__type__" f :=
  ⟨separateComplex 0 (sepFields 0 f), by simp only [sepTree], by
    simp only [lookup_separateComplex 0 _ (type_not_complex 0), lookup_sepFields 0 _ isMeta_type]⟩

/-- the reordering pre-pass and the reload normal form commute on every root object -/
theorem sepRoot_normRoot (T : Table) (x : J) : sepRoot (normRoot T x) = normRoot T (sepRoot x) := by
  cases x with
  | dict f =>
    cases hty : lookup s%"__type__" f with
    | none => simp [normRoot, sepRoot, hty]
    | some t =>
      cases t with
      | str t =>
        by_cases hk : (t = s%"metadata" || t = s%"validation" || t = s%"connectionoptions") = true
        · have hk' : (t = s%"metadata" ∨ t = s%"validation") ∨ t = s%"connectionoptions" := by simpa using hk
          simp [normRoot, sepRoot, hty, hk']
        · have hk' : ¬((t = s%"metadata" ∨ t = s%"validation") ∨ t = s%"connectionoptions") := by simpa using hk
          obtain ⟨g, hg, hl⟩ := lookup_type_sepTree f
          have h1 : normRoot T (.dict f) = normJ T (.dict f) := by simp [normRoot, hty, hk']
          have h2 : sepRoot (.dict f) = sepTree 0 (.dict f) := by simp [sepRoot, hty, hk']
          have h3 : sepRoot (normJ T (.dict f)) = sepTree 0 (normJ T (.dict f)) := by
            simp [normJ, sepRoot, lookup_normF T _ _ isMeta_type f, hty, hk']
          have h4 : normRoot T (.dict g) = normJ T (.dict g) := by simp [normRoot, hl, hty, hk']
          rw [h1, h2, h3, hg, h4, ← hg, sepTree_norm]
      | null | bool _ | int _ | flt _ | list _ | tup _ | dict _ => simp [normRoot, sepRoot, hty]
  | null | bool _ | int _ | flt _ | str _ | list _ | tup _ => simp [normRoot, sepRoot]

theorem map_sep_norm (T : Table) (rs : List J) : (rs.map (normRoot T)).map sepRoot = (rs.map sepRoot).map (normRoot T) := by
  simp [List.map_map, Function.comp_def, sepRoot_normRoot]

/-- the root objects `pprint` iterates over -/
def rootsOf (c : J) : Res (List J) :=
  match c with
  | .dict [] => .ok []
  | .dict f => .ok [.dict f]
  | .list xs => .ok xs
  | _ => .error .unsupported

theorem pprintLines_roots (o : Opts) (T : Table) (c : J) :
    pprintLines o T c = (match rootsOf c with
      | .error e => .error e
      | .ok rs => pprintLines.go o T (if o.sepComplex then rs.map sepRoot else rs)) := by
  unfold pprintLines rootsOf
  cases c with
  | dict f => cases f <;> rfl
  | _ => rfl

theorem normRoot_nonempty (T : Table) (kv : Str × J) (r : Fields) : ∃ kv' r', normRoot T (.dict (kv :: r)) = .dict (kv' :: r') := by
  simp only [normRoot]
  split
  · split
    · exact ⟨_, _, rfl⟩
    · exact ⟨(kv.1, normE T (typeOf (kv :: r)) kv.1 kv.2), normF T (typeOf (kv :: r)) r, by simp only [normJ, normF]⟩
  · exact ⟨_, _, rfl⟩

theorem rootsOf_normDoc (T : Table) (c : J) :
    rootsOf (normDoc T c) = (match rootsOf c with | .error e => .error e | .ok rs => .ok (rs.map (normRoot T))) := by
  cases c with
  | dict f =>
    cases f with
    | nil => simp [normDoc, normRoot, lookup, rootsOf]
    | cons kv r =>
      obtain ⟨kv', r', h⟩ := normRoot_nonempty T kv r
      simp only [normDoc, h, rootsOf, List.map_cons, List.map_nil]
  | list xs => simp [normDoc, rootsOf]
  | null | bool _ | int _ | flt _ | str _ | tup _ => simp [normDoc, rootsOf]

/-- **C04_document_normal_form** — for EVERY dictionary or list of root dictionaries, EVERY option record (with or without
`separate_complex_types`) and every schema table: printing the dictionary a reload gives back (`normDoc`: enumerated words
upper-cased, numbers at string-typed keywords as strings — at every simple keyword of every object, any depth) yields
exactly the text printing the original yields, or the same error.  With the `reload` correspondence
(`loads(dumps(d)) = normDoc d` on the real code) this is `dumps(loads(dumps(d))) = dumps(d)`. -/
theorem C04_document_normal_form (o : Opts) (T : Table) (c : J) :
    pprint o T (normDoc T c) = pprint o T c := by
  unfold pprint
  congr 1
  rw [pprintLines_roots, pprintLines_roots, rootsOf_normDoc]
  cases rootsOf c with
  | error e => rfl
  | ok rs =>
    simp only
    by_cases hs : o.sepComplex = true
    · simp only [hs, if_true, map_sep_norm, go_norm]
    · simp only [hs, if_false, Bool.false_eq_true, go_norm]

/-- the normal form is reached after one reload -/
theorem normAt_idem (T : Table) (ty : Option Str) (a : Str) (v : J) : normAt T ty a (normAt T ty a v) = normAt T ty a v := by
  unfold normAt
  cases ty with
  | none => rfl
  | some t =>
    simp only
    cases cellOf T t a with
    | none => rfl
    | some p => simp only [C04_normV_idem]

end Mappy.Printer

namespace Mappy.Printer

/-! ### the normal form is reached after one reload, for whole documents -/

theorem normE_scalar_idem (T : Table) (ty : Option Str) (a : Str) (v : J) (hl : ∀ xs, v ≠ .list xs) (hd : ∀ g, v ≠ .dict g) :
    normE T ty a (normE T ty a v) = normE T ty a v := by
  rw [normE_scalar T ty a v hl hd]
  by_cases hc : (isMetaKey a || isDataKey a) = true
  · simp only [hc, if_true, normE_scalar T ty a v hl hd]
  · simp only [hc, if_false, Bool.false_eq_true]
    have hs := normAt_scalar T ty a v hl hd
    rw [normE_scalar T ty a _ hs.1 hs.2]
    simp only [hc, if_false, Bool.false_eq_true, normAt_idem]

mutual
theorem normJ_idem (T : Table) : (j : J) → normJ T (normJ T j) = normJ T j
  | .dict f => by simp only [normJ, typeOf_normF, normF_idem T f (typeOf f)]
  | .null | .bool _ | .int _ | .flt _ | .str _ | .list _ | .tup _ => by simp only [normJ]
theorem normF_idem (T : Table) : (f : Fields) → ∀ ty, normF T ty (normF T ty f) = normF T ty f
  | [], _ => by simp only [normF]
  | (a, .list xs) :: r, ty => by
    have ihr := normF_idem T r ty
    have ihx := normL_idem T xs
    by_cases hm : isMetaKey a = true
    · simp [normF, normE, hm, ihr]
    · by_cases ho : a ∈ Gen.objectListKeys <;> simp [normF, normE, hm, ho, ihr, ihx]
  | (a, .dict g) :: r, ty => by
    have ihr := normF_idem T r ty
    have ihg := normF_idem T g (typeOf g)
    by_cases hc : (isMetaKey a || isDataKey a || !hasKey s%"__type__" g) = true
    · simp [normF, normE, hc, ihr]
    · have hc' : (isMetaKey a || isDataKey a || !hasKey s%"__type__" (normF T (typeOf g) g)) = false := by
        rw [hasKey_type_normF]; simpa using hc
      simp [normF, normE, hc, hc', ihr, ihg, typeOf_normF]
  | (a, .null) :: r, ty | (a, .bool _) :: r, ty | (a, .int _) :: r, ty
  | (a, .flt _) :: r, ty | (a, .str _) :: r, ty | (a, .tup _) :: r, ty => by
    simp only [normF, normF_idem T r ty]
    rw [normE_scalar_idem T ty a _ (by intro xs; simp) (by intro g; simp)]
theorem normL_idem (T : Table) : (xs : List J) → normL T (normL T xs) = normL T xs
  | [] => by simp only [normL]
  | x :: r => by simp only [normL, normJ_idem T x, normL_idem T r]
end

theorem normRoot_idem (T : Table) (x : J) : normRoot T (normRoot T x) = normRoot T x := by
  cases x with
  | dict f =>
    cases hty : lookup s%"__type__" f with
    | none => simp [normRoot, hty]
    | some t =>
      cases t with
      | str t =>
        by_cases hk : (t = s%"metadata" || t = s%"validation" || t = s%"connectionoptions") = true
        · have hk' : (t = s%"metadata" ∨ t = s%"validation") ∨ t = s%"connectionoptions" := by simpa using hk
          simp [normRoot, hty, hk']
        · have hk' : ¬((t = s%"metadata" ∨ t = s%"validation") ∨ t = s%"connectionoptions") := by simpa using hk
          have h1 : normRoot T (.dict f) = normJ T (.dict f) := by simp [normRoot, hty, hk']
          have h2 : normRoot T (normJ T (.dict f)) = normJ T (normJ T (.dict f)) := by
            simp [normJ, normRoot, lookup_normF T _ _ isMeta_type f, hty, hk']
          rw [h1, h2, normJ_idem]
      | null | bool _ | int _ | flt _ | list _ | tup _ | dict _ => simp [normRoot, hty]
  | null | bool _ | int _ | flt _ | str _ | list _ | tup _ => simp [normRoot]

/-- **C04_reload_idem** — the dictionary a reload gives back is a fixed point of reloading: for EVERY dictionary or list of
roots, `normDoc (normDoc d) = normDoc d` (with the `reload` correspondence: `loads(dumps(loads(dumps d))) = loads(dumps d)`,
i.e. `loads(t) = loads(dumps(loads(t)))` for every written text `t`) -/
theorem C04_reload_idem (T : Table) (c : J) : normDoc T (normDoc T c) = normDoc T c := by
  cases c with
  | dict f =>
    have h : ∃ g, normRoot T (.dict f) = .dict g := by
      simp only [normRoot]
      split
      · split
        · exact ⟨_, rfl⟩
        · exact ⟨normF T (typeOf f) f, by simp only [normJ]⟩
      · exact ⟨_, rfl⟩
    obtain ⟨g, hg⟩ := h
    have := normRoot_idem T (.dict f)
    simp only [normDoc, hg] at this ⊢
    exact this
  | list xs => simp [normDoc, List.map_map, Function.comp_def, normRoot_idem]
  | null | bool _ | int _ | flt _ | str _ | tup _ => simp [normDoc]

/-- a reload visits every entry and keeps its keyword: the key list of an object is unchanged, in order -/
theorem normF_keys (T : Table) (ty : Option Str) (f : Fields) : (normF T ty f).map Prod.fst = f.map Prod.fst := by
  rw [normF_map]; simp [List.map_map, Function.comp_def]

theorem normL_length (T : Table) : (xs : List J) → (normL T xs).length = xs.length
  | [] => by simp [normL]
  | x :: r => by simp [normL, normL_length T r]

/-- **C04_reload_keys** — for EVERY dictionary: the dictionary a reload gives back is a dictionary with exactly the same
keys in exactly the same order (nothing added, dropped, renamed or re-ordered at the root object; `normF_keys` is the same
statement for every nested object), and a list of roots comes back as a list of the same length.  With the `reload`
correspondence this is the key half of C01's "same keys". -/
theorem C04_reload_keys (T : Table) (f : Fields) :
    ∃ g, normDoc T (.dict f) = .dict g ∧ g.map Prod.fst = f.map Prod.fst := by
  simp only [normDoc, normRoot]
  split
  · split
    · exact ⟨f, rfl, rfl⟩
    · exact ⟨normF T (typeOf f) f, by simp only [normJ], normF_keys T _ f⟩
  · exact ⟨f, rfl, rfl⟩

theorem C04_reload_roots (T : Table) (xs : List J) :
    ∃ ys, normDoc T (.list xs) = .list ys ∧ ys.length = xs.length :=
  ⟨xs.map (normRoot T), rfl, by simp⟩

/-- non-vacuity: a root object with two keys keeps them -/
example (T : Table) : ∃ g, normDoc T (.dict [(s%"__type__", .str s%"map"), (s%"name", .str s%"x")]) = .dict g ∧
    g.map Prod.fst = [s%"__type__", s%"name"] := C04_reload_keys T _

/-- the differences C01 allows between a value and its reloaded form -/
def AllowedDiff (v w : J) : Prop :=
  w = v ∨ (∃ s, v = .str s ∧ w = .str (upper s)) ∨ (∃ n, v = .int n ∧ w = .str (intStr n)) ∨ (∃ x, v = .flt x ∧ w = .str x)

theorem normV_allowed (attr : Str) (p : CellProps) (v : J) : AllowedDiff v (normV attr p v) := by
  unfold AllowedDiff
  cases v with
  | str s =>
    simp only [normV]
    split
    · exact .inr (.inl ⟨s, rfl, rfl⟩)
    · split
      · exact .inr (.inl ⟨s, rfl, rfl⟩)
      · exact .inl rfl
  | int n =>
    simp only [normV]
    split
    · exact .inr (.inr (.inl ⟨n, rfl, rfl⟩))
    · exact .inl rfl
  | flt x =>
    simp only [normV]
    split
    · exact .inr (.inr (.inr ⟨x, rfl, rfl⟩))
    · exact .inl rfl
  | null | bool _ | list _ | tup _ | dict _ => exact .inl rfl

/-- **C04_reload_value_allowed** — at EVERY keyword of every object type, under every schema table, the value a reload
gives back for a simple value is the value itself, its upper-cased form (strings only), or its decimal string (numbers
only): the model of `loads(dumps(d))` never differs from `d` in any other way at a simple keyword. -/
theorem C04_reload_value_allowed (T : Table) (ty : Option Str) (attr : Str) (v : J) : AllowedDiff v (normAt T ty attr v) := by
  unfold normAt
  split
  · exact .inl rfl
  · split
    · exact .inl rfl
    · exact normV_allowed attr _ v

/-- booleans, nulls and tuples are never touched by a reload -/
example (T : Table) (ty : Option Str) (attr : Str) (b : Bool) : normAt T ty attr (.bool b) = .bool b := by
  rcases C04_reload_value_allowed T ty attr (.bool b) with h | ⟨s, h, _⟩ | ⟨n, h, _⟩ | ⟨x, h, _⟩
  · exact h
  all_goals cases h

end Mappy.Printer
