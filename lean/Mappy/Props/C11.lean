/-
  C11 — any input is either parsed or rejected with a parse error, promptly (partial: Lark's and `re`'s running time and
  exception discipline are third-party).  What is mappyfile's own: the re-typing hook is total (also on an empty value
  stack — the first token), changes nothing but three token types, and the grammar accepts each of the 19 block types
  at the root; INCLUDE expansion terminates (Props/C15: structural recursion on the nesting budget).
-/
import Mappy.Model.Retype
import Mappy.Model.Grammar
import Mappy.Gen.Grammar

namespace Mappy.Retype

/-- **C11_retype_total** — the hook yields a token type for every value stack (empty included), token type and text:
no IndexError / AttributeError can arise from it -/
theorem C11_retype_total (attrs : List Str) (prev : Option Str) (ty text : Str) :
    ∃ ty', retypeWith attrs prev ty text = ty' := ⟨_, rfl⟩

/-- **C11_retype_scope** — it only ever turns UNQUOTED_STRING, GRID or FEATURE into UNQUOTED_STRING_VALUE … -/
theorem C11_retype_scope (attrs : List Str) (prev : Option Str) (ty text : Str)
    (h : retypeWith attrs prev ty text ≠ ty) :
    (ty = unq ∨ ty = s%"GRID" ∨ ty = s%"FEATURE") ∧ retypeWith attrs prev ty text = unqValue := by
  unfold retypeWith at h ⊢
  by_cases h1 : ty = unq
  · simp only [h1, if_true] at h ⊢
    split at h
    · rename_i hc; exact ⟨Or.inl trivial, by rw [if_pos hc]⟩
    · exact absurd rfl h
  · simp only [h1, if_false] at h ⊢
    by_cases h2 : ty = s%"GRID"
    · simp only [h2, if_true] at h ⊢
      split at h
      · rename_i hc; exact ⟨Or.inr (Or.inl trivial), by rw [if_pos hc]⟩
      · exact absurd rfl h
    · simp only [h2, if_false] at h ⊢
      by_cases h3 : ty = s%"FEATURE"
      · simp only [h3, if_true] at h ⊢
        split at h
        · rename_i hc; exact ⟨Or.inr (Or.inr trivial), by rw [if_pos hc]⟩
        · exact absurd rfl h
      · simp only [h3, if_false] at h; exact absurd rfl h

/-- … and never at the start of the input -/
theorem C11_retype_first_token (attrs : List Str) (ty text : Str) : retypeWith attrs none ty text = ty := by
  unfold retypeWith
  split
  · simp
  · split
    · simp
    · split <;> simp

/-- a SYMBOL attribute keeps its type in any letter case -/
theorem C11_symbol_attribute_kept (attrs : List Str) (prev : Option Str) (text : Str) (h : attrs.contains (upper text) = true) :
    retypeWith attrs prev unq text = unq := by
  unfold retypeWith
  have : attrs.contains (upper text) = true := h
  simp only [if_true, this, Bool.not_true, Bool.and_false, Bool.false_eq_true, if_false]

end Mappy.Retype

namespace Mappy.Roots
open Mappy

def R := Gen.rules

/-- the 19 block types of the property -/
def blockTypes : List Str :=
  [s%"CLASS", s%"CLUSTER", s%"COMPOSITE", s%"FEATURE", s%"GRID", s%"JOIN", s%"LABEL", s%"LAYER", s%"LEADER", s%"LEGEND",
   s%"MAP", s%"OUTPUTFORMAT", s%"QUERYMAP", s%"REFERENCE", s%"SCALEBAR", s%"SCALETOKEN", s%"STYLE", s%"WEB", s%"SYMBOL"]

/-- the literal `'X'i` as the grammar tables spell it -/
def lit (w : Str) : Str := '\'' :: w ++ ['\'', 'i']

/-- **C11_roots_accepted** — every one of the 19 block types is an alternative of `composite_type` (matched in any
letter case), a `composite` is `composite_type composite_body END` (or a key/value block), and `start` is one or more
composites: each block type can open a partial Mapfile at the root -/
theorem C11_roots_accepted :
    (∀ t ∈ blockTypes, (altsOf R s%"composite_type").contains ([lit t], []) = true) ∧
    (altsOf R s%"composite_type").length = 19 ∧
    (altsOf R s%"composite").contains ([s%"composite_type", s%"composite_body", s%"_END"], []) = true ∧
    (altsOf R s%"start").contains ([s%"__start_plus_0"], []) = true ∧
    sameAlts (altsOf R s%"__start_plus_0") [([s%"composite"], []), ([s%"__start_plus_0", s%"composite"], [])] = true ∧
    (altsOf R s%"composite_body").contains ([], []) = true := by decide +kernel

end Mappy.Roots
