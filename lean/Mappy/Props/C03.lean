/-
  C03 — pretty-printed text says exactly what the dictionary says.  Theorems about Model/Printer.lean
  (tied to pprint.py by the exact-string `pp` and `format_value` correspondences).
  Part A: hidden `__name__` keys never contribute anything.  Part B: lexical class of every value
  shape, universally in the value, with the schema-table obligation over the regenerated Gen tables.
-/
import Mappy.Lemmas.PrinterSim
import Mappy.Gen.Props
import Mappy.Gen.Shapes

namespace Mappy.Printer

/-! ### Part A — hidden keys -/

/-- a hidden bookkeeping key other than the two the printer reads (`__type__`, `__comments__`) -/
def isHiddenKey (k : Str) : Bool := isMetaKey k && !(k = s%"__type__") && !(k = s%"__comments__")

def dropHidden (f : Fields) : Fields := f.filter (fun kv => !isHiddenKey kv.1)

theorem cat_nil (x : Res (List Line)) : cat (.ok []) x = x := by
  cases x <;> rfl

theorem lookup_dropHidden (k : Str) (f : Fields) (hk : isHiddenKey k = false) :
    lookup k (dropHidden f) = lookup k f := by
  induction f with
  | nil => rfl
  | cons kv r ih =>
    obtain ⟨k', v⟩ := kv
    simp only [dropHidden, List.filter_cons]
    by_cases hh : isHiddenKey k' = true
    · simp only [hh, Bool.not_true, Bool.false_eq_true, if_false, lookup]
      have : ¬ k' = k := fun e => by rw [e, hk] at hh; exact absurd hh (by simp)
      simp only [this, if_false]; exact ih
    · have hh' : isHiddenKey k' = false := by simpa using hh
      simp only [hh', Bool.not_false, if_true, lookup]
      split
      · rfl
      · exact ih

theorem maxKeyLen_dropHidden (f : Fields) : maxKeyLen (dropHidden f) = maxKeyLen f := by
  induction f with
  | nil => rfl
  | cons kv r ih =>
    obtain ⟨k, v⟩ := kv
    simp only [dropHidden, List.filter_cons]
    by_cases hh : isHiddenKey k = true
    · have hm : isMetaKey k = true := by
        simp only [isHiddenKey, Bool.and_eq_true] at hh; exact hh.1.1
      simp only [hh, Bool.not_true, Bool.false_eq_true, if_false, maxKeyLen, hm]
      exact ih
    · have hh' : isHiddenKey k = false := by simpa using hh
      simp only [hh', Bool.not_false, if_true, maxKeyLen]
      have := ih; simp only [dropHidden] at this; rw [this]

theorem fmtItems_dropHidden (o : Opts) (T : Table) (level : Nat) (ty : Option Str) (c : Fields) (al : Nat) (f : Fields) :
    fmtItems o T level ty c al (dropHidden f) = fmtItems o T level ty c al f := by
  induction f with
  | nil => rfl
  | cons kv r ih =>
    obtain ⟨k, v⟩ := kv
    simp only [dropHidden, List.filter_cons]
    by_cases hh : isHiddenKey k = true
    · have hm : isMetaKey k = true := by
        simp only [isHiddenKey, Bool.and_eq_true] at hh; exact hh.1.1
      simp only [hh, Bool.not_true, Bool.false_eq_true, if_false]
      have ih' := ih; simp only [dropHidden] at ih'
      cases v <;> simp only [fmtItems, item, itemList, hm, if_true, cat_nil, ih']
    · have hh' : isHiddenKey k = false := by simpa using hh
      simp only [hh', Bool.not_false, if_true]
      have ih' := ih; simp only [dropHidden] at ih'
      cases v <;> simp only [fmtItems, ih']

/-- C03 (hidden keys): removing every `__name__` key other than `__type__` / `__comments__` from an
object — e.g. `__position__`, or anything a user stored under such a name — changes nothing in what is
printed for it, under every option record.  (It holds for each object separately, hence at every depth.) -/
theorem C03_hidden_keys_silent (o : Opts) (T : Table) (level : Nat) (f : Fields) :
    fmt o T level (.dict (dropHidden f)) = fmt o T level (.dict f) := by
  have hc : isHiddenKey s%"__comments__" = false := by decide
  have ht : isHiddenKey s%"__type__" = false := by decide
  simp only [fmt, fmtItems_dropHidden, wrapObj, commentsOf, typeOf, alignedOf, maxKeyLen_dropHidden,
    lookup_dropHidden _ f hc, lookup_dropHidden _ f ht]

/-- the same inside METADATA-like blocks: there every `__name__` key is skipped -/
theorem C03_kv_hidden_silent (o : Opts) (level al : Nat) (c : Fields) (d : Fields) :
    kvLines o level al c (d.filter (fun kv => !isMetaKey kv.1)) = kvLines o level al c d := by
  induction d with
  | nil => rfl
  | cons kv r ih =>
    obtain ⟨k, v⟩ := kv
    simp only [List.filter_cons]
    by_cases hm : isMetaKey k = true
    · simp only [hm, Bool.not_true, Bool.false_eq_true, if_false, kvLines, if_true]; exact ih
    · have hm' : isMetaKey k = false := by simpa using hm
      simp only [hm', Bool.not_false, if_true, kvLines, Bool.false_eq_true, if_false, ih]

/-- separate_complex_types commutes with dropping hidden keys (so the statement above also holds after
the reordering pre-pass) -/
theorem sep_dropHidden (level : Nat) (f : Fields) :
    separateComplex level (dropHidden f) = dropHidden (separateComplex level f) := by
  simp only [separateComplex, dropHidden, List.filter_append, List.filter_filter]
  congr 1 <;> (congr 1; funext kv; exact Bool.and_comm _ _)

end Mappy.Printer

namespace Mappy.Printer
open Quoter

/-! ### Part B — lexical classes -/

/-- the printed value is a string literal delimited by the output quote -/
def isQuoted (q : Char) (t : Str) : Bool := decide (t.length ≥ 2) && inQuotesC q t

def endsI (s : Str) : Bool := endsWith s%"'i" s || endsWith s%"\"i" s

/-- no alternative of the option list claims the string: not an enumerated word, not an `"..."i` /
`'...'i` string at an expression alternative, not a regular expression -/
def optsPlain (s : Str) : List Opt → Bool
  | [] => !inSlashes s
  | o :: r => !enumHas o (lower s) && !(o.isExpr && endsI s) && optsPlain s r

/-- a free string: nothing about it makes the printer treat it as an expression, binding, list,
regular expression or enumerated word (the property's "free strings"; strings that look like those
are the documented exclusion) -/
def plainStr (attr : Str) (p : CellProps) (s : Str) : Bool :=
  if p.typeString then !p.isExpr || (!inSlashes s && !endsI s)
  else match p.opts with
    | some os => !inParenthesis s && !(attr = s%"expression" && inBraces s) && !(attr ≠ s%"text" && inBrackets s) &&
        !(startsWith s%"NOT " s && inParenthesis (s.drop 4)) && optsPlain s os
    | none => false

theorem isSuffix_single (q : Char) (x : Str) : endsWith [q] (q :: x ++ [q]) = true := by
  simp only [endsWith, List.isSuffixOf_iff_suffix]
  exact ⟨q :: x, by simp⟩

theorem addQuotes_quoted (q : Char) (x : Str) : isQuoted q (addQuotes q x) = true := by
  simp only [isQuoted, addQuotes, inQuotesC, startsWith, isSuffix_single, Bool.and_true]
  simp

theorem checkOptionsList_plain (q : Char) (s : Str) (os : List Opt) (h : optsPlain s os = true) :
    checkOptionsList q s os = addQuotes q s := by
  induction os with
  | nil => simp only [optsPlain, Bool.not_eq_true'] at h; simp [checkOptionsList, h]
  | cons o r ih =>
    simp only [optsPlain, Bool.and_eq_true, Bool.not_eq_true', endsI] at h
    obtain ⟨⟨h1, h2⟩, h3⟩ := h
    simp only [checkOptionsList, h1, Bool.false_eq_true, if_false]
    have : (o.isExpr && (endsWith s%"'i" s || endsWith s%"\"i" s)) = false := h2
    simp only [this, Bool.false_eq_true, if_false]
    exact ih h3

theorem escape_addQuotes_quoted (q : Char) (x : Str) : isQuoted q (escapeQuotes q (addQuotes q x)) = true := by
  have h := addQuotes_quoted q x
  simp only [isQuoted, Bool.and_eq_true] at h
  simp only [escapeQuotes, h.2, if_true]
  exact addQuotes_quoted q _

/-- sufficient condition, read off the cell's schema abstraction, for every value of shape `sh` to be
printed in the lexical class MapServer requires -/
def okFor (attr : Str) (p : CellProps) : Shape → Bool
  | .str | .hexcolor => !p.hasEnum && (p.typeString || p.opts.isSome)
  | .num => p.hasEnum || !p.typeString
  | .bool => true
  | .binding => !p.hasEnum && !p.typeString && p.opts.isSome && !(attr = s%"text")
  | .expr | .listexpr => !p.hasEnum && !p.typeString && p.opts.isSome
  | .regex => !p.hasEnum && ((p.typeString && p.isExpr) || (!p.typeString && p.opts.isSome))
  | .enumw w =>
    -- finite: evaluated for both quote characters, as written in upper and in lower case;
    -- COMPOP takes a string on purpose and GEOMTRANSFORM "end" must stay quoted (END is reserved)
    attr = s%"compop" || w = s%"end" ||
      (['"', '\''].all fun q =>
        formatValue q attr p (.str (upper w)) == .ok (upper w) && formatValue q attr p (.str w) == .ok (upper w))

/-- booleans are always printed bare -/
theorem C03_bool_bare (q : Char) (attr : Str) (p : CellProps) (b : Bool) :
    formatValue q attr p (.bool b) = .ok (if b then s%"TRUE" else s%"FALSE") := rfl

/-- numbers are printed bare wherever the schema admits a number -/
theorem C03_int_bare (q : Char) (attr : Str) (p : CellProps) (n : Int) (h : okFor attr p .num = true) :
    formatValue q attr p (.int n) = .ok (intStr n) := by
  simp only [okFor, Bool.or_eq_true, Bool.not_eq_true'] at h
  unfold formatValue
  by_cases he : p.hasEnum = true
  · simp [he]
  · have ht : p.typeString = false := by rcases h with h | h; exact absurd h he; exact h
    have he' : p.hasEnum = false := by simpa using he
    simp only [he', ht, Bool.false_eq_true, if_false]
    cases p.opts <;> simp [pyStr]

theorem C03_float_bare (q : Char) (attr : Str) (p : CellProps) (x : Str) (h : okFor attr p .num = true) :
    formatValue q attr p (.flt x) = .ok x := by
  simp only [okFor, Bool.or_eq_true, Bool.not_eq_true'] at h
  unfold formatValue
  by_cases he : p.hasEnum = true
  · simp [he]
  · have ht : p.typeString = false := by rcases h with h | h; exact absurd h he; exact h
    have he' : p.hasEnum = false := by simpa using he
    simp only [he', ht, Bool.false_eq_true, if_false]
    cases p.opts <;> simp [pyStr]

/-- free strings are printed quoted -/
theorem C03_string_quoted (q : Char) (attr : Str) (p : CellProps) (s : Str)
    (h : okFor attr p .str = true) (hs : plainStr attr p s = true) :
    ∃ t, formatValue q attr p (.str s) = .ok t ∧ isQuoted q t = true := by
  simp only [okFor, Bool.and_eq_true, Bool.not_eq_true', Bool.or_eq_true] at h
  obtain ⟨he, h⟩ := h
  unfold formatValue
  simp only [he, Bool.false_eq_true, if_false]
  by_cases ht : p.typeString = true
  · simp only [plainStr, ht, if_true, Bool.or_eq_true, Bool.not_eq_true', Bool.and_eq_true, endsI] at hs
    simp only [ht, if_true]
    by_cases hx : p.isExpr = true
    · have hs' := hs.resolve_left (by simp [hx])
      simp only [hx, if_true, hs'.1, Bool.false_eq_true, if_false]
      have : (endsWith s%"'i" s || endsWith s%"\"i" s) = false := hs'.2
      simp only [this, Bool.false_eq_true, if_false]
      exact ⟨_, rfl, addQuotes_quoted q s⟩
    · simp only [hx, Bool.false_eq_true, if_false, pyStr]
      exact ⟨_, rfl, addQuotes_quoted q s⟩
  · have ht' : p.typeString = false := by simpa using ht
    have ho : p.opts.isSome = true := by rcases h with h | h; exact absurd h ht; exact h
    cases hopts : p.opts with
    | none => simp [hopts] at ho
    | some os =>
      simp only [plainStr, ht', Bool.false_eq_true, if_false, hopts, Bool.and_eq_true, Bool.not_eq_true'] at hs
      obtain ⟨⟨⟨⟨h1, h2⟩, h3⟩, h4⟩, h5⟩ := hs
      simp only [ht', Bool.false_eq_true, if_false, optsRewrite, h1, h2, h3, h4, checkOptionsList_plain q s os h5]
      exact ⟨_, rfl, escape_addQuotes_quoted q s⟩

/-- attribute bindings are printed unquoted (verbatim unless wrapped in the output quote) -/
theorem C03_binding_bare (q : Char) (attr : Str) (p : CellProps) (s : Str)
    (h : okFor attr p .binding = true) (hb : inBrackets s = true) (hp : inParenthesis s = false)
    (hc : (attr = s%"expression" && inBraces s) = false) :
    formatValue q attr p (.str s) = .ok (escapeQuotes q s) := by
  simp only [okFor, Bool.and_eq_true, Bool.not_eq_true', decide_eq_false_iff_not] at h
  obtain ⟨⟨⟨he, ht⟩, ho⟩, ha⟩ := h
  cases hopts : p.opts with
  | none => simp [hopts] at ho
  | some os =>
    unfold formatValue
    have ha' : (attr ≠ s%"text" && inBrackets s) = true := by simp [ha, hb]
    simp only [he, ht, hopts, Bool.false_eq_true, if_false, optsRewrite, hp, hc, ha', if_true]

/-- parenthesised expressions are printed unquoted -/
theorem C03_expression_bare (q : Char) (attr : Str) (p : CellProps) (s : Str)
    (h : okFor attr p .expr = true) (hp : inParenthesis s = true) :
    formatValue q attr p (.str s) = .ok (escapeQuotes q s) := by
  simp only [okFor, Bool.and_eq_true, Bool.not_eq_true'] at h
  obtain ⟨⟨he, ht⟩, ho⟩ := h
  cases hopts : p.opts with
  | none => simp [hopts] at ho
  | some os =>
    unfold formatValue
    simp only [he, ht, hopts, Bool.false_eq_true, if_false, optsRewrite, hp, if_true]

/-- list expressions `{a,b}` are printed unquoted at EXPRESSION -/
theorem C03_listexpr_bare (q : Char) (p : CellProps) (s : Str)
    (h : okFor s%"expression" p .listexpr = true) (hb : inBraces s = true) :
    formatValue q s%"expression" p (.str s) = .ok (escapeQuotes q s) := by
  simp only [okFor, Bool.and_eq_true, Bool.not_eq_true'] at h
  obtain ⟨⟨he, ht⟩, ho⟩ := h
  cases hopts : p.opts with
  | none => simp [hopts] at ho
  | some os =>
    unfold formatValue
    simp only [he, ht, hopts, Bool.false_eq_true, if_false, optsRewrite, hb]
    by_cases hp : inParenthesis s = true <;> simp [hp]

/-- regular expressions `/re/` and `/re/i` are printed unquoted -/
theorem checkOptionsList_regex (q : Char) (s : Str) (os : List Opt) (hs : inSlashes s = true)
    (h : os.all (fun o => !enumHas o (lower s)) = true) : checkOptionsList q s os = s := by
  induction os with
  | nil => simp [checkOptionsList, hs]
  | cons o r ih =>
    simp only [List.all_cons, Bool.and_eq_true, Bool.not_eq_true'] at h
    simp only [checkOptionsList, h.1, Bool.false_eq_true, if_false]
    split
    · rfl
    · exact ih h.2

theorem C03_regex_bare (q : Char) (attr : Str) (p : CellProps) (s : Str)
    (h : okFor attr p .regex = true) (hs : inSlashes s = true) (hp : inParenthesis s = false)
    (hb : inBraces s = false) (hk : inBrackets s = false) (hn : startsWith s%"NOT " s = false)
    (hi : endsI s = false)
    (he : ∀ os, p.opts = some os → os.all (fun o => !enumHas o (lower s)) = true) :
    formatValue q attr p (.str s) = .ok (escapeQuotes q s) ∨ formatValue q attr p (.str s) = .ok s := by
  simp only [okFor, Bool.and_eq_true, Bool.not_eq_true', Bool.or_eq_true] at h
  obtain ⟨hen, h⟩ := h
  unfold formatValue
  simp only [hen, Bool.false_eq_true, if_false]
  rcases h with ⟨ht, hx⟩ | ⟨ht, ho⟩
  · right; simp [ht, hx, hs]
  · left
    cases hopts : p.opts with
    | none => simp [hopts] at ho
    | some os =>
      simp only [ht, hopts, Bool.false_eq_true, if_false, optsRewrite, hp, hb, hk, hn, Bool.and_false, Bool.false_and,
        checkOptionsList_regex q s os hs (he os hopts)]

/-- every (object type, keyword, admissible value shape) of the regenerated schema tables satisfies
the sufficient condition — the finite part of the lexical-class claim, re-checked by the kernel against
what the schema files say now.  (Empty exception list on the current tree.) -/
theorem C03_table :
    Gen.shapes.all (fun c =>
      match cellOf Gen.props c.1.1 c.1.2 with
      | some p => c.2.all (okFor c.1.2 p)
      | none => false) = true := by
  decide +kernel

/-- the table fact, unpacked: for a cell of the schema tables and a shape it admits, `okFor` holds -/
theorem C03_cell_ok (t a : Str) (shs : List Shape) (sh : Shape) (hc : ((t, a), shs) ∈ Gen.shapes) (hs : sh ∈ shs) :
    ∃ p, cellOf Gen.props t a = some p ∧ okFor a p sh = true := by
  have h := C03_table
  rw [List.all_eq_true] at h
  have h1 := h ((t, a), shs) hc
  simp only at h1
  cases hp : cellOf Gen.props t a with
  | none => simp [hp] at h1
  | some p =>
    simp only [hp, List.all_eq_true] at h1
    exact ⟨p, rfl, h1 sh hs⟩

/-- an empty (auto-created) dict is refused, at every keyword -/
theorem C03_empty_dict_refused (q : Char) (attr : Str) (p : CellProps) :
    formatValue q attr p (.dict []) = .error .valueError := rfl

/-- non-vacuity (tests on literals) -/
example : ((s%"layer", s%"name"), [Shape.str]) ∈ Gen.shapes := by decide
example : (cellOf Gen.props s%"class" s%"expression").map (fun p => (plainStr s%"expression" p s%"abc def", formatValue '"' s%"expression" p (.str s%"abc def")))
    = some (true, .ok s%"\"abc def\"") := by decide

end Mappy.Printer
