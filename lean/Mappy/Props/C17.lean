/-
  C17 — Mapfile dicts behave as case-insensitive, insertion-ordered dicts.
  Property theorems only.  `step` is the model of the code (ordereddict.py, tied to the real class
  by the `cidict` correspondence); `Spec.step` is "an ordinary ordered dict keyed by the lower-cased
  keys" plus the documented default rule (missing object-list key ⇒ new empty list stored; other
  missing key with a factory ⇒ new empty dict stored; no factory ⇒ KeyError).
-/
import Mappy.Model.CIDict
import Mappy.Lemmas.Assoc
import Mappy.Lemmas.CIDict

namespace Mappy.CIDict
open Spec

/-- Every constructor call yields a state satisfying the representation invariant. -/
theorem C17_construct_inv (f : Bool) (e kw : Fields) : Inv (construct f e kw) := by
  rw [construct_eq]; exact inv_pour f _ kw (inv_pour f [] e (inv_empty f))

/-- Construction is "pour the pairs, case-folded, into an empty ordered dict". -/
theorem C17_construct_spec (f : Bool) (e kw : Fields) :
    construct f e kw = ⟨f, pour (pour [] e) kw⟩ := construct_eq f e kw

/-- One-step refinement: on every state satisfying the invariant every operation of the code model
returns what the plain ordered dict over lower-cased keys returns and reaches the same state. -/
theorem C17_step_refines (s : St) (op : Op) (h : Inv s) : step s op = Spec.step s op := by
  obtain ⟨f, its⟩ := s
  cases op with
  | getitem k =>
    simp only [step, Spec.step, getitem, defaultGetitem, k_, lower_idem, odGet]
    cases hl : lookup (lower k) its with
    | some v => rfl
    | none =>
      cases f
      · simp [missing]
      · by_cases hm : lower k ∈ Gen.objectListKeys <;> simp [missing, setitem, odSet, k_, lower_idem, hm]
  | setitem k v => rfl
  | delitem k =>
    simp only [step, Spec.step, delitem, odDel, k_]
    by_cases hc : hasKey (lower k) its = true <;> simp [hc]
  | contains k => rfl
  | get k d => rfl
  | pop k d =>
    simp only [step, Spec.step, pop, k_, odGet]
    cases lookup (lower k) its with
    | some v => rfl
    | none => cases d <;> rfl
  | setdefault k d =>
    simp only [step, Spec.step, setdefault, contains, odContains, k_, lower_idem, getitem, defaultGetitem, odGet, setitem, odSet]
    cases hl : lookup (lower k) its with
    | some v => simp [hasKey, hl]
    | none => simp [hasKey, hl]
  | update e kw =>
    simp only [step, Spec.step, update]
    cases e with
    | none =>
      simp only [construct_eq, updatePairs_eq, Option.getD]
      have h2 : pour (pour ([] : Fields) []) kw = pour [] kw := rfl
      have h3 : pour its [] = its := rfl
      rw [h2, pour_via_temp, h3]
    | some e =>
      simp only [construct_eq, updatePairs_eq, Option.getD]
      have h1 : pour (pour [] e) [] = pour [] e := rfl
      have h2 : pour (pour ([] : Fields) []) kw = pour [] kw := rfl
      rw [h1, h2, pour_via_temp, pour_via_temp]
  | items => rfl
  | copy => simp [step, Spec.step, copy, construct_self f its h]
  | deepcopy => simp [step, Spec.step, deepcopy, construct_self f its h]
  | pickle =>
    simp only [step, Spec.step, pickleRoundtrip, construct_eq, updatePairs_eq]
    have : pour (pour (pour ([] : Fields) []) []) its = its := pour_self its h.1 h.2
    simp [this]

/-- The invariant is preserved by every operation. -/
theorem C17_inv_step (s : St) (op : Op) (h : Inv s) : Inv (step s op).1 := by
  rw [C17_step_refines s op h]
  obtain ⟨f, its⟩ := s
  cases op with
  | getitem k =>
    simp only [Spec.step]
    cases lookup (lower k) its with
    | some v => exact h
    | none =>
      cases f
      · exact h
      · exact inv_set _ _ _ h (lower_idem _)
  | setitem k v => exact inv_set _ _ _ h (lower_idem _)
  | delitem k =>
    simp only [Spec.step]
    by_cases hc : hasKey (lower k) its = true
    · simp only [hc, if_true]; exact inv_del _ _ h
    · simp only [hc]; exact h
  | contains k => exact h
  | get k d => exact h
  | pop k d =>
    simp only [Spec.step]
    cases lookup (lower k) its with
    | some v => exact inv_del _ _ h
    | none => cases d <;> exact h
  | setdefault k d =>
    simp only [Spec.step]
    cases lookup (lower k) its with
    | some v => exact h
    | none => exact inv_set _ _ _ h (lower_idem _)
  | update e kw => exact inv_pour f _ kw (inv_pour f _ _ h)
  | items => exact h
  | copy => exact h
  | deepcopy => exact h
  | pickle => exact h

/-- Lifted to every operation sequence (unbounded length): results and final state of the code model
equal those of the plain ordered dict keyed by lower-cased keys, and the invariant holds at the end. -/
theorem C17_runs_refine (ops : List Op) (s : St) (h : Inv s) :
    run s ops = Spec.run s ops ∧ Inv (run s ops).1 := by
  induction ops generalizing s with
  | nil => exact ⟨rfl, h⟩
  | cons op ops ih =>
    have h1 := C17_step_refines s op h
    have h2 := C17_inv_step s op h
    simp only [run, Spec.run]
    rw [← h1]
    have := ih (step s op).1 h2
    constructor
    · rw [this.1]
    · exact this.2

/-- Every dict built by the constructor and then driven through any operation sequence behaves like the
specification: the statement a user relies on. -/
theorem C17_from_construction (f : Bool) (e kw : Fields) (ops : List Op) :
    run (construct f e kw) ops = Spec.run ⟨f, pour (pour [] e) kw⟩ ops := by
  rw [← construct_eq]; exact (C17_runs_refine ops _ (C17_construct_inv f e kw)).1

/-- copy / deepcopy / pickle round trips give an equal dictionary with the same factory
(hence the same behaviour under every later operation sequence). -/
theorem C17_copies_equal (s : St) (h : Inv s) :
    copy s = s ∧ deepcopy s = s ∧ pickleRoundtrip s = s := by
  obtain ⟨f, its⟩ := s
  refine ⟨by simp [copy, construct_self f its h], by simp [deepcopy, construct_self f its h], ?_⟩
  simp only [pickleRoundtrip, construct_eq, updatePairs_eq]
  have : pour (pour (pour ([] : Fields) []) []) its = its := pour_self its h.1 h.2
  simp [this]

/-- Stored keys are reported in lower case and in first-insertion order: a key that is already
present keeps its position, a new key goes to the end. -/
theorem C17_keys_order (s : St) (k : Str) (v : J) :
    keys (step s (.setitem k v)).1.items =
      if lower k ∈ keys s.items then keys s.items else keys s.items ++ [lower k] := by
  simp [step, setitem, odSet, k_, keys_setKey]

/-- Non-vacuity: a concrete mixed-case construction satisfies the hypotheses and exercises the
default rule (test on literals, not counted as an obligation of the unbounded claim). -/
example : let s := construct true [(['N','a','M','e'], .int 1), (['n','A','m','e'], .int 2)] []
    Inv s ∧ s.items = [(['n','a','m','e'], .int 2)] ∧
    (step s (.getitem ['L','A','Y','E','R','S'])).2 = .val (.list []) := by
  refine ⟨C17_construct_inv _ _ _, by decide, by decide⟩

end Mappy.CIDict
