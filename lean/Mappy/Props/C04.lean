/-
  C04 — formatting is a deterministic normal form (idempotent).
  Theorems about Model/Quoter.lean and Model/Printer.lean (tied to quoter.py / pprint.py by the `quoter`,
  `format_value` and `pp` correspondences).  Determinism is functionality of `pprint` (a Lean function of the
  dictionary and the option record).
-/
import Mappy.Model.Printer
import Mappy.Lemmas.Assoc
import Mappy.Props.C03

namespace Mappy.Quoter

/-- after escaping, a quote character is never the first character of what follows a backslash-free position:
`esc` output never *starts* with the quote character -/
theorem esc_head_ne (q : Char) (hq : q ≠ '\\') : (x : Str) → (esc q x).head? ≠ some q
  | [] => by simp [esc]
  | c :: r => by
    simp only [esc]
    split
    · simp [List.head?]; exact Ne.symm hq
    · rename_i h; simp [List.head?]; exact h

/-- **un-escaping what was just escaped gives the text back** (so a second formatting pass sees the same string) -/
theorem unesc_esc (q : Char) (hq : q ≠ '\\') : (x : Str) → unesc q (esc q x) = x
  | [] => by simp [esc, unesc]
  | c :: r => by
    simp only [esc]
    by_cases hc : c = q
    · subst hc
      simp only [if_true]
      cases hr : esc c r with
      | nil =>
        have := unesc_esc c hq r
        rw [hr] at this
        simp [unesc, ← this]
      | cons d t =>
        have := unesc_esc c hq r
        rw [hr] at this
        simp [unesc, this]
    · simp only [hc, if_false]
      have ih := unesc_esc q hq r
      cases hr : esc q r with
      | nil => rw [hr] at ih; simp [unesc, ← ih]
      | cons d t =>
        rw [hr] at ih
        have hd : d ≠ q := by
          have := esc_head_ne q hq r
          rw [hr] at this
          simpa [List.head?] using this
        simp only [unesc]
        have : ¬(c = '\\' ∧ d = q) := fun h => hd h.2
        simp only [this, if_false, ih]

theorem inQuotesC_addQuotes (q : Char) (x : Str) : inQuotesC q (addQuotes q x) = true := by
  have hsuf : endsWith [q] (q :: (x ++ [q])) = true := by
    simp only [endsWith, List.isSuffixOf_iff_suffix]
    exact ⟨q :: x, by simp⟩
  simp [inQuotesC, addQuotes, startsWith, hsuf]

theorem middle_addQuotes (q : Char) (x : Str) : middle (addQuotes q x) = x := by
  simp [middle, addQuotes]

theorem removeQuotes_addQuotes (q : Char) (x : Str) : removeQuotes q (addQuotes q x) = x := by
  simp [removeQuotes, inQuotes, inQuotesC_addQuotes, middle_addQuotes]

/-- **C04_escape_idem** — `escape_quotes` is idempotent: escaping already escaped output changes nothing, so a string
keeps the same spelling however often it is formatted (no backslash is gained or lost per pass) -/
theorem C04_escape_idem (q : Char) (hq : q ≠ '\\') (s : Str) :
    escapeQuotes q (escapeQuotes q s) = escapeQuotes q s := by
  unfold escapeQuotes
  by_cases h : inQuotesC q s = true
  · simp only [h, if_true, inQuotesC_addQuotes, removeQuotes_addQuotes, unesc_esc q hq]
  · simp only [h, Bool.false_eq_true, if_false]

end Mappy.Quoter

namespace Mappy.Printer
open Quoter

theorem upper_idem (s : Str) : upper (upper s) = upper s := by
  simp [upper, List.map_map, Function.comp_def, upperC_idem]

/-- the two differences a reload may show (C01): an enumerated word comes back upper-cased, a number at a keyword
typed `string` comes back as its decimal string -/
def normV (attr : Str) (p : CellProps) (v : J) : J :=
  match v with
  | .str s => if p.hasEnum && attr ≠ s%"compop" then .str (upper s) else v
  | .int n => if !p.hasEnum && p.typeString && !p.isExpr then .str (intStr n) else v
  | .flt x => if !p.hasEnum && p.typeString && !p.isExpr then .str x else v
  | v => v

/-- **C04_value_normal_form** — formatting the value a reload gives back yields the same text as formatting the
original value: the text is a fixed point of format ∘ read at every keyword, for every value -/
theorem C04_value_normal_form (q : Char) (attr : Str) (p : CellProps) (v : J) :
    formatValue q attr p (normV attr p v) = formatValue q attr p v := by
  cases v with
  | str s =>
    simp only [normV]
    by_cases he : p.hasEnum = true
    · by_cases hc : attr = s%"compop"
      · simp [he, hc]
      · simp only [he, hc, ne_eq, not_false_eq_true, decide_true, Bool.and_self, if_true]
        simp [formatValue, he, hc, pyStr, upper_idem]
    · simp [he]
  | int n =>
    simp only [normV]
    by_cases hc : (!p.hasEnum && p.typeString && !p.isExpr) = true
    · simp only [hc, if_true]
      simp only [Bool.and_eq_true, Bool.not_eq_true'] at hc
      simp [formatValue, hc.1.1, hc.1.2, hc.2, pyStr]
    · simp [hc]
  | flt x =>
    simp only [normV]
    by_cases hc : (!p.hasEnum && p.typeString && !p.isExpr) = true
    · simp only [hc, if_true]
      simp only [Bool.and_eq_true, Bool.not_eq_true'] at hc
      simp [formatValue, hc.1.1, hc.1.2, hc.2, pyStr]
    · simp [hc]
  | _ => rfl

/-- the normal form is reached after one step -/
theorem C04_normV_idem (attr : Str) (p : CellProps) (v : J) : normV attr p (normV attr p v) = normV attr p v := by
  cases v with
  | str s =>
    by_cases hc : (p.hasEnum && decide (attr ≠ s%"compop")) = true
    · have e : ∀ x, normV attr p (.str x) = .str (upper x) := fun x => by simp only [normV]; rw [if_pos hc]
      rw [e, e, upper_idem]
    · have e : ∀ x, normV attr p (.str x) = .str x := fun x => by simp only [normV]; rw [if_neg hc]
      rw [e, e]
  | int n =>
    by_cases hc : (!p.hasEnum && p.typeString && !p.isExpr) = true
    · have he : (p.hasEnum && decide (attr ≠ s%"compop")) = false := by
        simp only [Bool.and_eq_true, Bool.not_eq_true'] at hc; simp [hc.1.1]
      have e : normV attr p (.int n) = .str (intStr n) := by simp only [normV]; rw [if_pos hc]
      have e2 : normV attr p (.str (intStr n)) = .str (intStr n) := by
        simp only [normV]; rw [if_neg (by rw [he]; simp)]
      rw [e, e2]
    · have e : normV attr p (.int n) = .int n := by simp only [normV]; rw [if_neg hc]
      rw [e, e]
  | flt x =>
    by_cases hc : (!p.hasEnum && p.typeString && !p.isExpr) = true
    · have he : (p.hasEnum && decide (attr ≠ s%"compop")) = false := by
        simp only [Bool.and_eq_true, Bool.not_eq_true'] at hc; simp [hc.1.1]
      have e : normV attr p (.flt x) = .str x := by simp only [normV]; rw [if_pos hc]
      have e2 : normV attr p (.str x) = .str x := by
        simp only [normV]; rw [if_neg (by rw [he]; simp)]
      rw [e, e2]
    · have e : normV attr p (.flt x) = .flt x := by simp only [normV]; rw [if_neg hc]
      rw [e, e]
  | _ => rfl

/-- **C04_deterministic** — the same dictionary and options always give the same text -/
theorem C04_deterministic (o : Opts) (T : Table) (d d' : J) (h : d = d') : pprint o T d = pprint o T d' := by rw [h]

end Mappy.Printer
