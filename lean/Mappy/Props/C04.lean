/-
  C04 — formatting is a deterministic normal form (idempotent).
  Theorems about Model/Quoter.lean and Model/Printer.lean (tied to quoter.py / pprint.py by the `quoter`,
  `format_value` and `pp` correspondences).  Determinism is functionality of `pprint` (a Lean function of the
  dictionary and the option record).
-/
import Mappy.Model.Printer
import Mappy.Model.Reload
import Mappy.Lemmas.Assoc
import Mappy.Props.C03

namespace Mappy.Quoter

/-- after escaping, a quote character is never the first character of what follows a backslash-free position:
`esc` output never *starts* with the quote character -/
theorem esc_head_ne (q : Char) (hq : q ≠ '\\') : (x : Str) → (esc q x).head? ≠ some q
  | [] => by simp [esc]
  | c :: r => by
    simp only [esc]
    split
    · simp [List.head?]; exact Ne.symm hq
    · rename_i h; simp [List.head?]; exact h

/-- **un-escaping what was just escaped gives the text back** (so a second formatting pass sees the same string) -/
theorem unesc_esc (q : Char) (hq : q ≠ '\\') : (x : Str) → unesc q (esc q x) = x
  | [] => by simp [esc, unesc]
  | c :: r => by
    simp only [esc]
    by_cases hc : c = q
    · subst hc
      simp only [if_true]
      cases hr : esc c r with
      | nil =>
        have := unesc_esc c hq r
        rw [hr] at this
        simp [unesc, ← this]
      | cons d t =>
        have := unesc_esc c hq r
        rw [hr] at this
        simp [unesc, this]
    · simp only [hc, if_false]
      have ih := unesc_esc q hq r
      cases hr : esc q r with
      | nil => rw [hr] at ih; simp [unesc, ← ih]
      | cons d t =>
        rw [hr] at ih
        have hd : d ≠ q := by
          have := esc_head_ne q hq r
          rw [hr] at this
          simpa [List.head?] using this
        simp only [unesc]
        have : ¬(c = '\\' ∧ d = q) := fun h => hd h.2
        simp only [this, if_false, ih]

theorem inQuotesC_addQuotes (q : Char) (x : Str) : inQuotesC q (addQuotes q x) = true := by
  have hsuf : endsWith [q] (q :: (x ++ [q])) = true := by
    simp only [endsWith, List.isSuffixOf_iff_suffix]
    exact ⟨q :: x, by simp⟩
  simp [inQuotesC, addQuotes, startsWith, hsuf]

theorem middle_addQuotes (q : Char) (x : Str) : middle (addQuotes q x) = x := by
  simp [middle, addQuotes]

theorem removeQuotes_addQuotes (q : Char) (x : Str) : removeQuotes q (addQuotes q x) = x := by
  simp [removeQuotes, inQuotes, inQuotesC_addQuotes, middle_addQuotes]

/-- **C04_escape_idem** — `escape_quotes` is idempotent: escaping already escaped output changes nothing, so a string
keeps the same spelling however often it is formatted (no backslash is gained or lost per pass) -/
theorem C04_escape_idem (q : Char) (hq : q ≠ '\\') (s : Str) :
    escapeQuotes q (escapeQuotes q s) = escapeQuotes q s := by
  unfold escapeQuotes
  by_cases h : inQuotesC q s = true
  · simp only [h, if_true, inQuotesC_addQuotes, removeQuotes_addQuotes, unesc_esc q hq]
  · simp only [h, Bool.false_eq_true, if_false]

end Mappy.Quoter

namespace Mappy.Printer
open Quoter

theorem upper_idem (s : Str) : upper (upper s) = upper s := by
  simp [upper, List.map_map, Function.comp_def, upperC_idem]

theorem lowerC_upperC (c : Char) : lowerC (upperC c) = lowerC c := by
  unfold upperC
  split
  · rename_i h
    unfold lowerC
    rw [ofNat_toNat (c.toNat - 32) (by omega)]
    have h1 : 65 ≤ c.toNat - 32 ∧ c.toNat - 32 ≤ 90 := by omega
    rw [if_pos h1, if_neg (by omega)]
    have : c.toNat - 32 + 32 = c.toNat := by omega
    rw [this]
    exact Char.ofNat_toNat c
  · rfl

theorem lower_upper (s : Str) : lower (upper s) = lower s := by
  simp only [lower, upper, List.map_map]
  congr 1
  funext c
  exact lowerC_upperC c

theorem upperC_ne_i (c : Char) : upperC c ≠ 'i' := by
  unfold upperC
  split
  · rename_i h
    intro e
    have := congrArg Char.toNat e
    rw [ofNat_toNat (c.toNat - 32) (by omega)] at this
    have hi : ('i' : Char).toNat = 105 := by decide
    omega
  · rename_i h
    intro e
    subst e
    exact h (by decide)

/-- an upper-cased text never ends in `'i` / `"i` (the case-insensitive string suffix) -/
theorem endsWith_i_upper (a : Char) (s : Str) : endsWith [a, 'i'] (upper s) = false := by
  cases h : endsWith [a, 'i'] (upper s) with
  | false => rfl
  | true =>
    exfalso
    simp only [endsWith, List.isSuffixOf_iff_suffix] at h
    obtain ⟨t, ht⟩ := h
    have hm : 'i' ∈ upper s := by rw [← ht]; simp
    simp only [upper, List.mem_map] at hm
    obtain ⟨c, _, hc⟩ := hm
    exact upperC_ne_i c hc

/-- when the walk of `__check_options_list` ends at an enumeration listing the word, the word is written upper-cased, and
so is the upper-cased word -/
theorem checkOptionsList_hit (q : Char) (s : Str) : (os : List Opt) → enumHit s os = true →
    checkOptionsList q s os = upper s ∧ checkOptionsList q (upper s) os = upper s
  | [], h => by simp [enumHit] at h
  | o :: r, h => by
    simp only [enumHit] at h
    simp only [checkOptionsList, lower_upper, upper_idem]
    by_cases h1 : enumHas o (lower s) = true
    · simp only [h1, if_true] at h ⊢
      have : lower s ≠ s%"end" := by simpa using h
      simp [this]
    · simp only [h1, Bool.false_eq_true, if_false] at h ⊢
      by_cases h2 : (o.isExpr && (endsWith s%"'i" s || endsWith s%"\"i" s)) = true
      · simp [h2] at h
      · simp only [h2, Bool.false_eq_true, if_false] at h ⊢
        have e1 : endsWith s%"'i" (upper s) = false := endsWith_i_upper _ s
        have e2 : endsWith s%"\"i" (upper s) = false := endsWith_i_upper _ s
        simp only [e1, e2, Bool.or_self, Bool.and_false, Bool.false_eq_true, if_false]
        exact checkOptionsList_hit q s r h

theorem optsRewrite_free (q : Char) (attr : Str) (os : List Opt) (t : Str) (h : guardsFree attr t = true) :
    optsRewrite q attr os t = checkOptionsList q t os := by
  simp only [guardsFree, Bool.and_eq_true, Bool.not_eq_true', Bool.and_eq_false_iff, decide_eq_false_iff_not, ne_eq,
    Decidable.not_not] at h
  obtain ⟨⟨⟨h1, h2⟩, h3⟩, h4⟩ := h
  unfold optsRewrite
  rw [if_neg (by simp [h1])]
  rw [if_neg (by intro hh; rcases h2 with h2 | h2 <;> simp_all)]
  rw [if_neg (by intro hh; rcases h3 with h3 | h3 <;> simp_all)]
  rw [if_neg (by intro hh; rcases h4 with h4 | h4 <;> simp_all)]

/-- **C04_value_normal_form** — formatting the value a reload gives back yields the same text as formatting the
original value: the text is a fixed point of format ∘ read at every keyword, for every value -/
theorem C04_value_normal_form (q : Char) (attr : Str) (p : CellProps) (v : J) :
    formatValue q attr p (normV attr p v) = formatValue q attr p v := by
  cases v with
  | str s =>
    simp only [normV]
    by_cases he : (p.hasEnum && decide (attr ≠ s%"compop")) = true
    · rw [if_pos he]
      simp only [Bool.and_eq_true, decide_eq_true_eq] at he
      simp [formatValue, he.1, he.2, pyStr, upper_idem]
    · rw [if_neg he]
      by_cases h2 : (!p.hasEnum && !p.typeString && optsEnum attr p.opts s) = true
      · rw [if_pos h2]
        simp only [Bool.and_eq_true, Bool.not_eq_true'] at h2
        obtain ⟨⟨h21, h22⟩, h23⟩ := h2
        cases ho : p.opts with
        | none => rw [ho] at h23; simp [optsEnum] at h23
        | some os =>
          rw [ho] at h23
          simp only [optsEnum, Bool.and_eq_true] at h23
          obtain ⟨⟨g1, g2⟩, g3⟩ := h23
          have hh := checkOptionsList_hit q s os g3
          simp only [formatValue, h21, h22, ho, Bool.false_eq_true, if_false,
            optsRewrite_free q attr os s g1, optsRewrite_free q attr os (upper s) g2, hh.1, hh.2]
      · rw [if_neg h2]
  | int n =>
    simp only [normV]
    by_cases hc : (!p.hasEnum && p.typeString && !p.isExpr) = true
    · simp only [hc, if_true]
      simp only [Bool.and_eq_true, Bool.not_eq_true'] at hc
      simp [formatValue, hc.1.1, hc.1.2, hc.2, pyStr]
    · simp [hc]
  | flt x =>
    simp only [normV]
    by_cases hc : (!p.hasEnum && p.typeString && !p.isExpr) = true
    · simp only [hc, if_true]
      simp only [Bool.and_eq_true, Bool.not_eq_true'] at hc
      simp [formatValue, hc.1.1, hc.1.2, hc.2, pyStr]
    · simp [hc]
  | _ => rfl

/-- a string is normalised to itself or to its upper-cased spelling -/
theorem normV_str (attr : Str) (p : CellProps) (s : Str) :
    normV attr p (.str s) = .str s ∨ normV attr p (.str s) = .str (upper s) := by
  simp only [normV]
  split
  · exact Or.inr rfl
  · split
    · exact Or.inr rfl
    · exact Or.inl rfl

/-- the normal form is reached after one step -/
theorem C04_normV_idem (attr : Str) (p : CellProps) (v : J) : normV attr p (normV attr p v) = normV attr p v := by
  cases v with
  | str s =>
    by_cases hc : (p.hasEnum && decide (attr ≠ s%"compop")) = true
    · have e : ∀ x, normV attr p (.str x) = .str (upper x) := fun x => by simp only [normV]; rw [if_pos hc]
      rw [e, e, upper_idem]
    · by_cases h2 : (!p.hasEnum && !p.typeString && optsEnum attr p.opts s) = true
      · have e : normV attr p (.str s) = .str (upper s) := by simp only [normV]; rw [if_neg hc, if_pos h2]
        rw [e]
        rcases normV_str attr p (upper s) with h | h
        · exact h
        · rw [h, upper_idem]
      · have e : normV attr p (.str s) = .str s := by simp only [normV]; rw [if_neg hc, if_neg h2]
        rw [e, e]
  | int n =>
    by_cases hc : (!p.hasEnum && p.typeString && !p.isExpr) = true
    · have e : normV attr p (.int n) = .str (intStr n) := by simp only [normV]; rw [if_pos hc]
      have e2 : normV attr p (.str (intStr n)) = .str (intStr n) := by
        simp only [Bool.and_eq_true, Bool.not_eq_true'] at hc
        simp [normV, hc.1.1, hc.1.2]
      rw [e, e2]
    · have e : normV attr p (.int n) = .int n := by simp only [normV]; rw [if_neg hc]
      rw [e, e]
  | flt x =>
    by_cases hc : (!p.hasEnum && p.typeString && !p.isExpr) = true
    · have e : normV attr p (.flt x) = .str x := by simp only [normV]; rw [if_pos hc]
      have e2 : normV attr p (.str x) = .str x := by
        simp only [Bool.and_eq_true, Bool.not_eq_true'] at hc
        simp [normV, hc.1.1, hc.1.2]
      rw [e, e2]
    · have e : normV attr p (.flt x) = .flt x := by simp only [normV]; rw [if_neg hc]
      rw [e, e]
  | _ => rfl

/-- **C04_deterministic** — the same dictionary and options always give the same text -/
theorem C04_deterministic (o : Opts) (T : Table) (d d' : J) (h : d = d') : pprint o T d = pprint o T d' := by rw [h]

end Mappy.Printer
