/-
  C19 — grammar, keyword tables and schemas describe one vocabulary.
  Obligations over the regenerated tables (Gen/Grammar, Gen/Vocab, Gen/Schemas, Gen/Props, Gen/Patterns), discharged by
  `decide +kernel`; exceptions are computed from the tables and pinned to explicit lists (= known_findings.json), so a
  schema / grammar / vocabulary edit that creates a new inconsistency breaks the obligation.
-/
import Mappy.Model.Schema
import Mappy.Model.Grammar
import Mappy.Model.Transformer
import Mappy.Gen.Grammar
import Mappy.Gen.Schemas
import Mappy.Gen.Patterns
import Mappy.Gen.Props
import Mappy.Gen.Vocab
import Mappy.Props.C11

namespace Mappy.Vocab
open Mappy Mappy.Schema

def env : Env := ⟨Gen.files, Gen.patterns⟩

/-- the 19 block types, lower case -/
def blockTypes : List Str := Roots.blockTypes.map lower

def fileName (t : Str) : Str := t ++ s%".json"

def dropExt (f : Str) : Str := f.dropLast.dropLast.dropLast.dropLast.dropLast

/-- object schema files: (type, properties) -/
def objFiles : List (Str × Fields) := Gen.files.filterMap fun f =>
  match f.2 with
  | .dict sch =>
    (match lookup s%"properties" sch with
     | some (.dict p) => if hasKey s%"__type__" p then some (dropExt f.1, p) else none
     | _ => none)
  | _ => none

def isObjType (t : Str) : Bool := (objFiles.map (·.1)).contains t

/-- `{"$ref": "x.json"}` to an object schema -/
def refObj (p : J) : Option Str :=
  match p with
  | .dict kvs =>
    (match Versioning.refOfFields kvs with
     | some u => if isObjType (dropExt u) then some (dropExt u) else none
     | none => none)
  | _ => none

/-- how a property schema nests an object type: directly (or through a single-element allOf wrapper), as the items
of an array, or somewhere else (an alternative of oneOf) -/
inductive Nest where
  | single (t : Str) | listOf (t : Str) | inline (t : Str) | none
  deriving Repr, DecidableEq

def nestOf (p : J) : Nest :=
  match refObj p with
  | some t => .single t
  | none =>
    match p with
    | .dict kvs =>
      (match lookup s%"allOf" kvs with
       | some (.list [x]) => (match refObj x with | some t => .single t | none => .none)
       | _ =>
         (match lookup s%"items" kvs with
          | some it => (match refObj it with | some t => .listOf t | none => .none)
          | none =>
            (match lookup s%"oneOf" kvs with
             | some (.list alts) => (match alts.filterMap refObj with | t :: _ => .inline t | [] => .none)
             | _ => .none)))
    | _ => .none

/-- is the slot (parent type, key) consistent with how the transformer stores a nested block of that type? -/
def slotOK (k : Str) : Nest → Bool
  | .single t => k = t && Gen.singletonNames.contains t
  | .listOf t => k = Transformer.plural t && !Gen.singletonNames.contains t && Gen.objectListKeys.contains k
  | .inline _ => false
  | .none => true

/-- the inconsistent slots (parent type, key) -/
def badSlots : List (Str × Str) :=
  (objFiles.map fun (t, props) => props.filterMap fun (k, p) => if slotOK k (nestOf p) then none else some (t, k)).flatten

/-- **C19_blocks_have_schema** — every block type the grammar can open has a schema file and an entry in the table the
printer's keyword look-up reads -/
theorem C19_blocks_have_schema : ∀ t ∈ blockTypes, hasKey (fileName t) Gen.files = true ∧ (lookupS t Gen.props).isSome = true := by
  decide +kernel

/-- **C19_singleton_plural_consistent** — in every parent schema a nested block type sits under its own name exactly
when the transformer treats it as a singleton, and under its plural (which the auto-creating dict knows as an object
list) otherwise.  The only exceptions on this tree are the inline SYMBOL of a CLASS / STYLE, which the transformer
stores under `symbols` while the schemas declare it as an alternative of `symbol` (known finding). -/
theorem C19_singleton_plural_consistent : badSlots = [(s%"class", s%"symbol"), (s%"style", s%"symbol")] := by decide +kernel

/-- non-singleton block types that can be nested are object-list keys of the auto-creating dict, singletons are not -/
theorem C19_object_list_keys :
    ∀ t ∈ blockTypes, t ≠ s%"map" →
      Gen.objectListKeys.contains (Transformer.plural t) = !Gen.singletonNames.contains t := by decide +kernel

/-- **C19_keywords_found** — every keyword an object schema allows is found by the printer's schema look-up table -/
theorem C19_keywords_found : ∀ f ∈ objFiles, ∀ kp ∈ f.2,
    (match lookupS f.1 Gen.props with | some cells => (lookupS kp.1 cells).isSome | none => false) = true := by decide +kernel

/-- the declared defaults that are not valid for their own keyword -/
def badDefaults : List (Str × Str) :=
  (objFiles.map fun (t, props) => props.filterMap fun (k, p) =>
    match p with
    | .dict pf =>
      (match lookup s%"default" pf with
       | some dv => if (errs env 12 p dv []).isEmpty then none else some (t, k)
       | none => none)
    | _ => none).flatten

/-- **C19_defaults_valid** — every default declared in a schema satisfies the schema of its own keyword (Draft-4 subset
semantics of Model/Schema.lean), except LABEL BACKGROUNDSHADOWSIZE `false` (known finding) -/
theorem C19_defaults_valid : badDefaults = [(s%"label", s%"backgroundshadowsize")] := by decide +kernel

/-- every REPEATED_KEYS / SINGLETON / object-list name is spelled in lower case, as the transformer's keys are -/
theorem C19_vocab_lower : (∀ k ∈ Gen.repeatedKeys, lower k = k) ∧ (∀ k ∈ Gen.singletonNames, lower k = k) ∧
    (∀ k ∈ Gen.objectListKeys, lower k = k) := by decide +kernel

/-- the keywords of symbol.json, upper case -/
def symbolKeywords : List Str :=
  match lookup s%"symbol.json" Gen.files with
  | some (.dict sch) => (match lookup s%"properties" sch with
      | some (.dict p) => ((keys p).filter fun k => !Transformer.underscored k).map upper | _ => [])
  | _ => []

/-- **C19_symbol_attributes** — every keyword of symbol.json is accepted as a keyword directly after SYMBOL (so it can
be the first keyword of a SYMBOL block) -/
theorem C19_symbol_attributes : ∀ k ∈ symbolKeywords, Gen.symbolAttributes.contains k = true := by decide +kernel

end Mappy.Vocab
