/-
  C15 — INCLUDE expansion equals textual substitution, bounded at 5 levels.
  Theorems about Model/Includes.lean (tied to Parser.load_includes by the `includes` correspondence on
  virtual include trees materialised on disk).  `ExpandsD d` is the specification: replace each INCLUDE
  line by the (recursively expanded) text of the file it names, using at most `d` levels of nesting.
-/
import Mappy.Model.Includes

namespace Mappy.Includes

variable (fs : Str → Option Str) (resolve : Str → Str)

/-- textual substitution with nesting depth at most `d` -/
inductive ExpandsD : Nat → List Str → List Str → Prop
  | nil (d : Nat) : ExpandsD d [] []
  | keep (d : Nat) (l : Str) (r r' : List Str) : isInclude l = false → ExpandsD d r r' → ExpandsD d (l :: r) (l :: r')
  | nameless (d : Nat) (l : Str) (r r' : List Str) :
      -- an INCLUDE line that names no file is no directive: it stays, and the parser reports the syntax error
      isInclude l = true → includeName l = none → ExpandsD (d + 1) r r' → ExpandsD (d + 1) (l :: r) (l :: r')
  | incl (d : Nat) (l name text : Str) (inc r r' : List Str) :
      isInclude l = true → includeName l = some name → fs (resolve name) = some text →
      ExpandsD d (splitNL text) inc → ExpandsD (d + 1) r r' → ExpandsD (d + 1) (l :: r) (joinNL inc :: r')

theorem splitNL_ne_nil (s : Str) : splitNL s ≠ [] := by
  cases s with
  | nil => simp [splitNL]
  | cons c r =>
    simp only [splitNL]
    split
    · simp
    · split <;> simp

theorem join_split (s : Str) : joinNL (splitNL s) = s := by
  induction s with
  | nil => rfl
  | cons c r ih =>
    simp only [splitNL]
    cases hs : splitNL r with
    | nil => exact absurd hs (splitNL_ne_nil r)
    | cons h t =>
      rw [hs] at ih
      split
      · rename_i hc; subst hc
        simp [joinNL, ih]
      · cases t with
        | nil => simp [joinNL] at ih ⊢; exact ih
        | cons y t' => simp [joinNL] at ih ⊢; exact ih

theorem expandWith_no_include (sub : Option (List Str → Res (List Str))) (ls : List Str)
    (h : ∀ l ∈ ls, isInclude l = false) : expandWith fs resolve sub ls = .ok ls := by
  induction ls with
  | nil => rfl
  | cons l r ih =>
    simp only [expandWith, h l (by simp), Bool.false_eq_true, if_false, ih (fun x hx => h x (by simp [hx]))]

/-- a text without INCLUDE lines is returned unchanged, at any nesting level -/
theorem C15_no_include_identity (nested : Nat) (text : Str) (h : ∀ l ∈ splitNL text, isInclude l = false) :
    loadIncludes fs resolve nested text = .ok text := by
  unfold loadIncludes
  cases hb : 5 - nested with
  | zero => simp [expandLines, expandWith_no_include fs resolve none _ h, Except.map, join_split]
  | succ b => simp [expandLines, expandWith_no_include fs resolve _ _ h, Except.map, join_split]

/-- soundness of the loop, given soundness of the deeper level -/
theorem expandWith_sound (d : Nat) (deeper : List Str → Res (List Str))
    (hd : ∀ x y, deeper x = .ok y → ExpandsD fs resolve d x y) (ls out : List Str)
    (h : expandWith fs resolve (some deeper) ls = .ok out) : ExpandsD fs resolve (d + 1) ls out := by
  induction ls generalizing out with
  | nil => simp [expandWith] at h; subst h; exact .nil _
  | cons l r ih =>
    simp only [expandWith] at h
    split at h
    · rename_i hi
      split at h
      · rename_i hn
        split at h
        · simp at h
        · rename_i rest hr
          injection h with h; subst h
          exact .nameless d l r rest hi hn (ih rest hr)
      · rename_i name hn
        split at h
        · simp at h
        · rename_i text ht
          split at h
          · simp at h
          · rename_i inc hinc
            split at h
            · simp at h
            · rename_i rest hr
              injection h with h; subst h
              exact .incl d l name text inc r rest hi hn ht (hd _ _ hinc) (ih rest hr)
    · rename_i hi
      split at h
      · simp at h
      · rename_i rest hr
        injection h with h; subst h
        exact .keep _ l r rest (by simpa using hi) (ih rest hr)

theorem expandWith_none_sound (ls out : List Str) (h : expandWith fs resolve none ls = .ok out) :
    ExpandsD fs resolve 0 ls out := by
  induction ls generalizing out with
  | nil => simp [expandWith] at h; subst h; exact .nil _
  | cons l r ih =>
    simp only [expandWith] at h
    split at h
    · simp at h
    · rename_i hi
      split at h
      · simp at h
      · rename_i rest hr
        injection h with h; subst h
        exact .keep _ l r rest (by simpa using hi) (ih rest hr)

/-- C15 (soundness): whatever `load_includes` returns is the textual substitution of the INCLUDE lines,
using no more nesting levels than the budget. -/
theorem C15_sound (b : Nat) (ls out : List Str) (h : expandLines fs resolve b ls = .ok out) :
    ExpandsD fs resolve b ls out := by
  induction b generalizing ls out with
  | zero => exact expandWith_none_sound fs resolve ls out h
  | succ b ih => exact expandWith_sound fs resolve b _ (fun x y hxy => ih x y hxy) ls out h

/-- C15 (completeness): every substitution that needs at most `b` levels of nesting is computed. -/
theorem C15_complete (b : Nat) (ls out : List Str) (h : ExpandsD fs resolve b ls out) :
    expandLines fs resolve b ls = .ok out := by
  induction h with
  | nil d => cases d <;> rfl
  | keep d l r r' hl _ ih =>
    cases d with
    | zero => simp only [expandLines, expandWith, hl, Bool.false_eq_true, if_false] at ih ⊢; rw [ih]
    | succ d => simp only [expandLines, expandWith, hl, Bool.false_eq_true, if_false] at ih ⊢; rw [ih]
  | nameless d l r r' hl hn _ ih =>
    simp only [expandLines, expandWith, hl, if_true, hn] at ih ⊢
    rw [ih]
  | incl d l name text inc r r' hl hn ht _ _ ih1 ih2 =>
    simp only [expandLines, expandWith, hl, if_true, hn, ht] at ih2 ⊢
    rw [ih1]
    simp only
    rw [ih2]

/-- five levels are expanded: the top-level call has budget 5 -/
theorem C15_five_levels (text : Str) (out : List Str) :
    ExpandsD fs resolve 5 (splitNL text) out ↔ loadIncludes fs resolve 0 text = .ok (joinNL out) ∧
      expandLines fs resolve 5 (splitNL text) = .ok out := by
  constructor
  · intro h
    have := C15_complete fs resolve 5 _ _ h
    simp [loadIncludes, this, Except.map]
  · intro h; exact C15_sound fs resolve 5 _ _ h.2

/-- at the nesting limit any further INCLUDE raises the MaxNested error (ValueError) -/
theorem C15_limit (ls : List Str) (h : ∃ l ∈ ls, isInclude l = true) :
    expandLines fs resolve 0 ls = .error .valueError := by
  induction ls with
  | nil => simp at h
  | cons l r ih =>
    simp only [expandLines, expandWith]
    by_cases hl : isInclude l = true
    · simp [hl]
    · have hl' : isInclude l = false := by simpa using hl
      obtain ⟨x, hx, hxi⟩ := h
      simp only [List.mem_cons] at hx
      rcases hx with rfl | hx
      · exact absurd hxi hl
      · have := ih ⟨x, hx, hxi⟩
        simp only [expandLines] at this
        simp [hl', this]

/-- a missing file is an I/O error -/
theorem C15_missing (b : Nat) (l name : Str) (r : List Str) (hl : isInclude l = true)
    (hn : includeName l = some name) (hm : fs (resolve name) = none) :
    expandLines fs resolve (b + 1) (l :: r) = .error .ioError := by
  simp [expandLines, expandWith, hl, hn, hm]

/-- cyclic inclusion never succeeds, whatever the budget: a file whose first INCLUDE names itself -/
theorem C15_cycle (text : Str) (pre post : List Str) (l name : Str)
    (hs : splitNL text = pre ++ l :: post) (hpre : ∀ x ∈ pre, isInclude x = false)
    (hl : isInclude l = true) (hn : includeName l = some name) (hf : fs (resolve name) = some text) :
    ∀ b, ∃ e, expandLines fs resolve b (splitNL text) = .error e := by
  have key : ∀ (sub : Option (List Str → Res (List Str))) (pre : List Str), (∀ x ∈ pre, isInclude x = false) →
      (∀ e, expandWith fs resolve sub (l :: post) = .error e → expandWith fs resolve sub (pre ++ l :: post) = .error e) := by
    intro sub pre hp e he
    induction pre with
    | nil => exact he
    | cons x r ih =>
      simp only [List.cons_append, expandWith, hp x (by simp), Bool.false_eq_true, if_false]
      rw [ih (fun y hy => hp y (by simp [hy]))]
  intro b
  induction b with
  | zero => exact ⟨_, C15_limit fs resolve _ ⟨l, by rw [hs]; simp, hl⟩⟩
  | succ b ih =>
    obtain ⟨e, he⟩ := ih
    refine ⟨e, ?_⟩
    rw [hs]
    simp only [expandLines]
    apply key _ pre hpre
    simp only [expandWith, hl, if_true, hn, hf]
    rw [he]

/-- non-vacuity (test on literals): a two-level tree expands, and exactly as textual substitution says -/
example :
    let fs : Str → Option Str := fun p =>
      if p = s%"/r/a.map" then some s%"NAME 'a'\n  include \"b.map\" # second" else
      if p = s%"/r/b.map" then some s%"TYPE POINT" else none
    let resolve : Str → Str := fun n => s%"/r/" ++ n
    loadIncludes fs resolve 0 s%"LAYER\nINCLUDE 'a.map'\nEND" = .ok s%"LAYER\nNAME 'a'\nTYPE POINT\nEND" := by
  decide

end Mappy.Includes
