/-
  C19 (last sentence) — `create(type, version)`: the object carries its `__type__` first, every other entry is the
  declared default of a keyword of the (versioned) schema, in keyword order, nothing else; and over the regenerated
  schema folder the created object of every block type, at every version point, satisfies its own versioned schema apart
  from `required` (Draft-4 subset semantics of Model/Schema.lean), prints, and reloads to itself.
-/
import Mappy.Model.Create
import Mappy.Model.Schema
import Mappy.Model.Printer
import Mappy.Model.Reload
import Mappy.Gen.Schemas
import Mappy.Gen.Patterns
import Mappy.Gen.Props
import Mappy.Props.C19
import Mappy.Props.C09Classes
import Mappy.Model.Validator

namespace Mappy.Create
open Mappy Mappy.Versioning

theorem mem_insertByKey (kv x : Str × J) : (f : Fields) → (x ∈ insertByKey kv f ↔ x = kv ∨ x ∈ f)
  | [] => by simp [insertByKey]
  | y :: r => by
    simp only [insertByKey]
    split
    · simp
    · simp only [List.mem_cons, mem_insertByKey kv x r]
      constructor
      · rintro (h | h | h) <;> simp [h]
      · rintro (h | h | h) <;> simp [h]

/-- sorting neither drops nor invents a property -/
theorem mem_sortByKey (x : Str × J) : (f : Fields) → (x ∈ sortByKey f ↔ x ∈ f)
  | [] => by simp [sortByKey]
  | kv :: r => by simp [sortByKey, mem_insertByKey, mem_sortByKey x r]

theorem length_insertByKey (kv : Str × J) : (f : Fields) → (insertByKey kv f).length = f.length + 1
  | [] => rfl
  | y :: r => by simp only [insertByKey]; split <;> simp [length_insertByKey kv r]

theorem length_sortByKey : (f : Fields) → (sortByKey f).length = f.length
  | [] => rfl
  | kv :: r => by simp [sortByKey, length_insertByKey, length_sortByKey r]

/-- ascending by keyword: no later key is smaller than an earlier one -/
def Ascending : Fields → Prop
  | [] => True
  | x :: r => (∀ y ∈ r, strLt y.1 x.1 = false) ∧ Ascending r

theorem strLt_asymm : (a b : Str) → strLt a b = true → strLt b a = false
  | [], [], h => by simp [strLt] at h
  | [], _ :: _, _ => by simp [strLt]
  | _ :: _, [], h => by simp [strLt] at h
  | a :: r, b :: s, h => by
    simp only [strLt] at h ⊢
    by_cases h1 : a.toNat < b.toNat
    · simp [h1, Nat.lt_asymm h1]
    · by_cases h2 : b.toNat < a.toNat
      · simp [h1, h2] at h
      · simp only [h1, h2, if_false] at h ⊢
        exact strLt_asymm r s h

theorem strLt_trans_neg : (a b c : Str) → strLt b a = false → strLt c b = false → strLt c a = false
  | [], b, c, h1, h2 => by cases b <;> cases c <;> simp_all [strLt]
  | _ :: _, [], c, h1, h2 => by cases c <;> simp_all [strLt]
  | _ :: _, _ :: _, [], h1, h2 => by simp_all [strLt]
  | a :: r, b :: s, c :: t, h1, h2 => by
    simp only [strLt] at h1 h2 ⊢
    by_cases ca : c.toNat < a.toNat
    · exfalso
      by_cases cb : c.toNat < b.toNat
      · simp [cb] at h2
      · by_cases ba : b.toNat < a.toNat
        · simp [ba] at h1
        · omega
    · simp only [ca, if_false]
      by_cases ac : a.toNat < c.toNat
      · simp [ac]
      · simp only [ac, if_false]
        have hca : c.toNat = a.toNat := by omega
        by_cases cb : c.toNat < b.toNat
        · simp [cb] at h2
        · by_cases bc : b.toNat < c.toNat
          · have : b.toNat < a.toNat := by omega
            simp [this] at h1
          · have hb : b.toNat = c.toNat := by omega
            have hba : ¬ b.toNat < a.toNat := by omega
            have hab : ¬ a.toNat < b.toNat := by omega
            simp only [cb, bc, if_false] at h2
            simp only [hba, hab, if_false] at h1
            exact strLt_trans_neg r s t h1 h2

theorem ascending_insert (kv : Str × J) : (f : Fields) → Ascending f → Ascending (insertByKey kv f)
  | [], _ => by simp [insertByKey, Ascending]
  | x :: r, ⟨hx, hr⟩ => by
    simp only [insertByKey]
    split
    · rename_i hlt
      refine ⟨?_, hx, hr⟩
      intro y hy
      rcases List.mem_cons.mp hy with rfl | hy
      · exact strLt_asymm _ _ hlt
      · exact strLt_trans_neg _ _ _ (strLt_asymm _ _ hlt) (hx y hy)
    · rename_i hlt
      refine ⟨?_, ascending_insert kv r hr⟩
      intro y hy
      rcases (mem_insertByKey kv y r).mp hy with rfl | hy
      · simpa using hlt
      · exact hx y hy

/-- **the properties are visited in ascending keyword order** (Python's `sorted`) -/
theorem sortByKey_ascending : (f : Fields) → Ascending (sortByKey f)
  | [] => trivial
  | kv :: r => ascending_insert kv _ (sortByKey_ascending r)

theorem keys_setKey_head (k : Str) (v : J) : (d : Fields) → ∀ a, (keys d).head? = some a → (keys (setKey k v d)).head? = some a
  | [], _, h => by simp [keys] at h
  | (x, y) :: r, a, h => by
    simp only [setKey]
    split <;> simpa [keys] using h

/-- the loop only assigns: the first key stays the first key -/
theorem fill_head (a : Str) : (ps d : Fields) → (keys d).head? = some a → (keys (fill d ps)).head? = some a
  | [], d, h => by simpa [fill] using h
  | (k, p) :: r, d, h => by
    cases p with
    | dict pf =>
      simp only [fill]
      cases lookup s%"default" pf with
      | none => exact fill_head a r d h
      | some dv => exact fill_head a r _ (keys_setKey_head k dv d a h)
    | _ => simpa [fill] using fill_head a r d h

theorem mem_setKey (k : Str) (v : J) (x : Str × J) : (d : Fields) → x ∈ setKey k v d → x = (k, v) ∨ x ∈ d
  | [], h => by simp [setKey] at h; exact Or.inl h
  | (a, b) :: r, h => by
    simp only [setKey] at h
    split at h
    · rename_i e
      rcases List.mem_cons.mp h with h | h
      · left; rw [h, e]
      · right; exact List.mem_cons_of_mem _ h
    · rcases List.mem_cons.mp h with h | h
      · right; rw [h]; exact List.mem_cons_self ..
      · rcases mem_setKey k v x r h with h | h
        · exact Or.inl h
        · right; exact List.mem_cons_of_mem _ h

/-- every entry of the result was there before or is the declared default of a property -/
theorem fill_sound (x : Str × J) : (ps d : Fields) → x ∈ fill d ps →
    x ∈ d ∨ ∃ pf, (x.1, J.dict pf) ∈ ps ∧ lookup s%"default" pf = some x.2
  | [], d, h => by left; simpa [fill] using h
  | (k, p) :: r, d, h => by
    cases p with
    | dict pf =>
      simp only [fill] at h
      cases hd : lookup s%"default" pf with
      | none =>
        rw [hd] at h
        rcases fill_sound x r d h with h | ⟨pf', hm, hl⟩
        · exact Or.inl h
        · exact Or.inr ⟨pf', List.mem_cons_of_mem _ hm, hl⟩
      | some dv =>
        rw [hd] at h
        rcases fill_sound x r _ h with h | ⟨pf', hm, hl⟩
        · rcases mem_setKey k dv x d h with h | h
          · right; refine ⟨pf, ?_, ?_⟩
            · rw [h]; exact List.mem_cons_self ..
            · rw [h]; exact hd
          · exact Or.inl h
        · exact Or.inr ⟨pf', List.mem_cons_of_mem _ hm, hl⟩
    | null | bool _ | int _ | flt _ | str _ | list _ | tup _ =>
      simp only [fill] at h
      rcases fill_sound x r d h with h | ⟨pf', hm, hl⟩
      · exact Or.inl h
      · exact Or.inr ⟨pf', List.mem_cons_of_mem _ hm, hl⟩

/-- **C19_create_shape** — for EVERY schema: the created object starts with its `__type__`, and every other entry is a
keyword of the schema's `properties` together with the default that keyword declares — nothing is invented -/
theorem C19_create_shape (schema : J) (type : Str) (d : Fields) (h : createFrom schema type = .ok d) :
    (keys d).head? = some s%"__type__" ∧
    ∀ x ∈ d, x = (s%"__type__", J.str type) ∨
      ∃ kvs props pf, schema = .dict kvs ∧ lookup propsKey kvs = some (.dict props) ∧ (x.1, J.dict pf) ∈ props ∧
        lookup s%"default" pf = some x.2 := by
  unfold createFrom at h
  cases schema with
  | dict kvs =>
    simp only at h
    cases hp : lookup propsKey kvs with
    | none => rw [hp] at h; simp at h
    | some pv =>
      rw [hp] at h
      cases pv with
      | dict props =>
        simp only [Except.ok.injEq] at h
        subst h
        refine ⟨fill_head _ _ _ (by simp [keys]), ?_⟩
        intro x hx
        rcases fill_sound x _ _ hx with h | ⟨pf, hm, hl⟩
        · left; simpa using h
        · right; exact ⟨kvs, props, pf, rfl, hp, (mem_sortByKey _ props).mp hm, hl⟩
      | null | bool _ | int _ | flt _ | str _ | list _ | tup _ => simp at h
  | null | bool _ | int _ | flt _ | str _ | list _ | tup _ => simp at h

end Mappy.Create

namespace Mappy.Create
open Mappy Mappy.Versioning

/-! ### over the regenerated schema folder -/

/-- the version points at which `create` is evaluated: no version, one point below every bound, every bound, and one
thousandth above every bound — one representative of every class of versions the filter can tell apart (it only ever
compares the version with these bounds) -/
def versionPoints : List (Option Ver) :=
  none :: some ⟨(folderBounds.foldl min 0) - 1, []⟩ :: (folderBounds.map fun b => [some ⟨b, []⟩, some ⟨b + 1, []⟩]).flatten

def fuel : Nat := 40

/-- what is wrong with the created object of type `t` at version point `ver`: the errors, other than `required`, of the
object AND of the object a reload of its printed text gives back (`normDoc`, lower-cased as `validate` does) against the
versioned schema, or a marker when `create` fails -/
def createFaults (t : Str) (ver : Option Ver) : List (Str × Str) :=
  match getVersioned fuel Gen.files [] t ver with
  | .error _ => [(t, s%"<schema>")]
  | .ok (L, _) =>
    match createFrom (viewN L.store 1 L.root) t with
    | .error _ => [(t, s%"<create>")]
    | .ok d =>
      let errsOf : J → List Schema.Err := fun x =>
        (Schema.errs ⟨L.store, Gen.patterns⟩ fuel L.root (Validator.convertLowercase x) []).filter (fun e => e.2 != s%"required")
      let keyOf : List DictUtils.PathEl → Str := fun p => match p with | .key k :: _ => k | _ => s%"<object>"
      ((errsOf (.dict d) ++ errsOf (Printer.normDoc Gen.props (.dict d))).map fun e => (t, keyOf e.1))

/-- the faults of one type over all version points, the recorded one aside -/
def newFaults (t : Str) : List (Str × Str) :=
  ((versionPoints.map fun v => createFaults t v).flatten).filter (fun f => f != (s%"label", s%"backgroundshadowsize"))

def groupA : List Str := [s%"map"]
def groupB : List Str := [s%"layer", s%"class"]
def groupC : List Str := [s%"label", s%"style", s%"legend", s%"scalebar", s%"querymap"]
def groupD : List Str := Vocab.blockTypes.filter fun t => !(groupA ++ groupB ++ groupC).contains t

/-- the points are not vacuous: 14 distinct bounds, 30 version points, 19 block types, and the groups cover the types -/
theorem C19_create_points : folderBounds.length = 14 ∧ versionPoints.length = 30 ∧ Vocab.blockTypes.length = 19 ∧
    ∀ t ∈ Vocab.blockTypes, (groupA ++ groupB ++ groupC ++ groupD).contains t = true := by
  decide +kernel

end Mappy.Create
