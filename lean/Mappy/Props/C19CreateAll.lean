/-
  C19 — **C19_create_valid**: over the regenerated schema folder, for every one of the 19 block types and every version point
  (no version; one point below all bounds; every version bound written anywhere in the folder and the point one thousandth
  above it) `create(type, version)` succeeds and both the created object and the object a reload of its printed text gives
  back (`normDoc`, lower-cased as `validate` does) satisfy the versioned schema apart from `required` — except the recorded
  LABEL BACKGROUNDSHADOWSIZE default `false` (known finding).
-/
import Mappy.Props.C19CreateA
import Mappy.Props.C19CreateB
import Mappy.Props.C19CreateC
import Mappy.Props.C19CreateD
namespace Mappy.Create

theorem C19_create_valid : ∀ t ∈ Vocab.blockTypes, ∀ v ∈ versionPoints,
    (createFaults t v).filter (fun f => f != (s%"label", s%"backgroundshadowsize")) = [] := by
  intro t ht v hv
  have hcov := (C19_create_points.2.2.2) t ht
  have hg : t ∈ groupA ++ groupB ++ groupC ++ groupD := by simpa [List.contains_iff_mem] using hcov
  have hall : newFaults t = [] := by
    simp only [List.mem_append] at hg
    rcases hg with ((h | h) | h) | h
    · exact C19_create_valid_A t h
    · exact C19_create_valid_B t h
    · exact C19_create_valid_C t h
    · exact C19_create_valid_D t h
  unfold newFaults at hall
  rw [List.filter_eq_nil_iff] at hall ⊢
  intro f hf
  exact hall f (List.mem_flatten.mpr ⟨createFaults t v, List.mem_map.mpr ⟨v, hv, rfl⟩, hf⟩)

end Mappy.Create
