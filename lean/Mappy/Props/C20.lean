/-
  C20 — file, stream and command-line front ends agree with the string API (partial: file I/O, click and the OS exit
  status are outside the model).
-/
import Mappy.Model.Cli

namespace Mappy.Cli

theorem problems_zero_iff : (outs : List Outcome) → (problems outs = 0 ↔ ∀ o ∈ outs, o = .msgs 0)
  | [] => by simp [problems]
  | .parseFail :: r => by simp [problems]
  | .msgs n :: r => by
    simp only [problems, List.mem_cons, forall_eq_or_imp, Outcome.msgs.injEq]
    rw [← problems_zero_iff r]
    omega

/-- **C20_cli_exit_iff** — for every list of file outcomes (any number of files, any number of messages each): the
process status is 0 exactly when every matched file parsed and validated without a message -/
theorem C20_cli_exit_iff (outs : List Outcome) : osStatus (exitCode outs) = 0 ↔ ∀ o ∈ outs, o = .msgs 0 := by
  rw [← problems_zero_iff]
  unfold osStatus exitCode
  omega

/-- **C20_cli_exit_count** — and it equals the number of problems whenever that fits an exit status -/
theorem C20_cli_exit_count (outs : List Outcome) (h : problems outs ≤ 255) : osStatus (exitCode outs) = problems outs := by
  unfold osStatus exitCode
  omega

/-- more problems than fit: still non-zero -/
theorem C20_cli_exit_overflow (outs : List Outcome) (h : 255 < problems outs) : osStatus (exitCode outs) = 255 := by
  unfold osStatus exitCode
  omega

/-- the accumulation is over all files: the order of the files does not matter and no file's count is lost -/
theorem C20_problems_append (a b : List Outcome) : problems (a ++ b) = problems a + problems b := by
  induction a with
  | nil => simp [problems]
  | cons o r ih => cases o <;> simp [problems, ih] <;> omega

theorem fileLines_ge (o : Outcome) : 1 ≤ fileLines o := by
  cases o with
  | parseFail => simp [fileLines]
  | msgs n => cases n <;> simp [fileLines]

/-- **C20_one_line_per_message** — a parsed file with n > 0 messages echoes exactly n lines -/
theorem C20_one_line_per_message (n : Nat) (h : 0 < n) : fileLines (.msgs n) = n := by
  cases n with
  | zero => omega
  | succ k => rfl

/-- **C20_writers_share_pprint** — save, dump and dumps hand the same characters to their sinks -/
theorem C20_writers_share_pprint (o : Printer.Opts) (T : List (Str × List (Str × CellProps))) (d : J) (text : Str)
    (h : dumps o T d = .ok text) :
    dump o T d id = .ok text ∧ save o T d id = .ok text := by
  simp [dumps] at h
  simp [dump, save, h, Except.map]

/-- **C20_format_options** — `mappyfile format` changes only indent, spacer, quote and newline; everything else is
the printer's default, for every argument value -/
theorem C20_format_options (indent : Nat) (spacer : Str) (quote : Char) (newline : Str) :
    (formatOpts indent spacer quote newline).endComment = false ∧
    (formatOpts indent spacer quote newline).align = false ∧
    (formatOpts indent spacer quote newline).sepComplex = false ∧
    (formatOpts indent spacer quote newline).indent = indent ∧
    (formatOpts indent spacer quote newline).spacer = spacer ∧
    (formatOpts indent spacer quote newline).quote = quote ∧
    (formatOpts indent spacer quote newline).newline = newline := by
  simp [formatOpts]

/-- **C20_utf8_roundtrip** — writing any Unicode string as UTF-8 and reading it back gives the same string (Lean
core's UTF-8 codec; Python's codec is the trusted counterpart) -/
theorem C20_utf8_roundtrip (s : Str) : s.utf8Encode.utf8Decode? = some s.toArray := List.utf8Decode?_utf8Encode

/-- non-vacuity -/
example : osStatus (exitCode [.msgs 2, .parseFail, .msgs 0, .msgs 3]) = 6 ∧ osStatus (exitCode [.msgs 256]) = 255 ∧
    osStatus (exitCode [.msgs 0, .msgs 0]) = 0 := by decide

end Mappy.Cli
