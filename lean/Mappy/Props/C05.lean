/-
  C05 — surface syntax does not change meaning (tree level; tokenisation by Lark's lexer is the lexer gap).
  Theorems about Model/Transformer.lean: what the call-backs store does not depend on keyword letter case, on token
  positions (hence on whitespace, line-break kind and comments, which Lark drops before the tree is built), on the
  quote style of a string, or on quoting a bare word.
-/
import Mappy.Model.Transformer
import Mappy.Lemmas.Assoc
import Mappy.Props.C02
import Mappy.Model.Retype

namespace Mappy.Transformer

/-! ### keyword letter case -/

/-- the key a keyword token yields depends only on its lower-cased text -/
theorem C05_keyword_case (k k' : Tok) (s s' : Str) (hk : k.val = .str s) (hk' : k'.val = .str s')
    (h : lower s = lower s') : valLower k = valLower k' := by
  simp [valLower, hk, hk', h]

theorem lower_lower (s : Str) : lower (lower s) = lower s := by
  simp [lower, List.map_map, Function.comp_def, lowerC_idem]

/-- `MAP`, `map`, `Map` … : a block's dict depends on the type token only through its lower-cased text (plain load:
no positions) -/
theorem C05_block_case_and_position (cfg : Cfg) (S Rp : List Str) (key key' : Tok) (s s' : Str) (items : List R)
    (hp : cfg.pos = false) (hk : key.val = .str s) (hk' : key'.val = .str s') (h : lower s = lower s') :
    compositeBody cfg S Rp key items = compositeBody cfg S Rp key' items := by
  unfold compositeBody
  rw [C05_keyword_case key key' s s' hk hk' h]
  cases valLower key' with
  | error e => rfl
  | ok kn => simp [initState, hp]

/-! ### positions: with the flags off the result does not depend on any token's line / column -/

/-- a step of `composite` in a plain load ignores the recorded position of the attribute -/
theorem C05_attrItem_position_free (cfg : Cfg) (Rp : List Str) (st : CState) (key : Str) (v pos pos' : J) (c : Option J)
    (hpd : st.pd = none) : attrItem cfg Rp st key v pos c = attrItem cfg Rp st key v pos' c := by
  simp [attrItem, hpd]

/-- the value `attr` stores for a single-token value does not depend on where the tokens are -/
theorem C05_attr_value_position_free (k v : Tok) (l c l' c' l2 c2 l2' c2' : J) (r r' : R)
    (h : attr [.tok { k with line := l, col := c }, .tok { v with line := l2, col := c2 }] = .ok r)
    (h' : attr [.tok { k with line := l', col := c' }, .tok { v with line := l2', col := c2' }] = .ok r') :
    ∃ kvs kvs' key, r = .adict kvs ∧ r' = .adict kvs' ∧ lookupAV key kvs = lookupAV key kvs' ∧
      valLower k = .ok key := by
  cases hk : valLower k with
  | error e =>
    have : valLower { k with line := l, col := c } = .error e := by simpa [valLower] using hk
    simp [attr, nth, tokOf, this, bind, Except.bind] at h
  | ok kn =>
    have e1 : valLower { k with line := l, col := c } = .ok kn := by simpa [valLower] using hk
    have e2 : valLower { k with line := l', col := c' } = .ok kn := by simpa [valLower] using hk
    by_cases hu : underscored kn = true
    · simp [attr, nth, tokOf, e1, hu, bind, Except.bind, pure, Except.pure] at h
    · simp [attr, nth, tokOf, e1, e2, hu, bind, Except.bind, pure, Except.pure, isSeq, positionDict, flatten] at h h'
      subst h; subst h'
      refine ⟨_, _, kn, rfl, rfl, ?_, rfl⟩
      have hne : kn ≠ s%"__tokens__" := by intro e; apply hu; rw [e]; decide
      have hne2 : kn ≠ s%"__position__" := by intro e; apply hu; rw [e]; decide
      simp [setAV, lookupAV, hne, hne2, Ne.symm hne, Ne.symm hne2]

/-! ### quote style and bare words -/

/-- `"s"` and `'s'` store the same string … -/
theorem C05_quote_style (s : Str) : cleanString ('"' :: s ++ ['"']) = cleanString ('\'' :: s ++ ['\'']) := by
  rw [C02_quotes_outer_only '"' (Or.inl rfl), C02_quotes_outer_only '\'' (Or.inr rfl)]

/-- … and so does the bare word, when it is not itself wrapped in quotes -/
theorem C05_bare_word (w : Str) (h : Quoter.inQuotes '"' w = false) :
    cleanString w = cleanString ('"' :: w ++ ['"']) := by
  rw [C02_bare_unchanged w h, C02_quotes_outer_only '"' (Or.inl rfl)]

/-- key/value blocks: the stored pair depends on the key token only through its unquoted, lower-cased text -/
theorem C05_kv_case (a a' b : Tok) (ka ka' vb : Str) (ha : a.val = .str ka) (ha' : a'.val = .str ka') (hb : b.val = .str vb)
    (h : lower (cleanString ka) = lower (cleanString ka')) :
    pairKV (.seq false [.tok a, .tok b]) = pairKV (.seq false [.tok a', .tok b]) := by
  simp [pairKV, tokOf, strVal, ha, ha', hb, h, bind, Except.bind, pure, Except.pure]

end Mappy.Transformer

namespace Mappy.Retype

/-- **C05_retype_case_blind** — the token re-typing hook of `Parser.parse` (the one place where mappyfile itself looks at
token text before the tree exists) gives the same token type however the previous keyword and the word itself are
spelled: for every re-spelling `φ`, `ψ` that keeps the upper-cased text. (True since the fix that upper-cases the previous
token; before it, `symbol circle` was re-typed and `SYMBOL circle` was not.) -/
theorem C05_retype_case_blind (attrs : List Str) (φ ψ : Str → Str) (hφ : ∀ s, upper (φ s) = upper s) (hψ : ∀ s, upper (ψ s) = upper s)
    (prev : Option Str) (ty text : Str) :
    retypeWith attrs (prev.map φ) ty (ψ text) = retypeWith attrs prev ty text := by
  unfold retypeWith
  have : (prev.map φ).map upper = prev.map upper := by cases prev <;> simp [hφ]
  simp only [this, hψ]

/-- lower-casing a word is such a re-spelling -/
theorem upper_lower (s : Str) : upper (lower s) = upper s := by
  simp only [lower, upper, List.map_map]
  congr 1
  funext c
  simp only [Function.comp]
  unfold upperC lowerC
  split
  · rename_i h
    rw [ofNat_toNat (c.toNat + 32) (by omega)]
    have : 97 ≤ c.toNat + 32 ∧ c.toNat + 32 ≤ 122 := by omega
    rw [if_pos this, if_neg (by omega)]
    have : c.toNat + 32 - 32 = c.toNat := by omega
    rw [this]
    exact (Char.ofNat_toNat c)
  · rfl

end Mappy.Retype

