/-
  C09 — version-aware validation follows minVersion / maxVersion.
  Theorems about Model/Versioning.lean (tied to validator.py by the `vrun` correspondence: expanded views of
  get_versioned_schema / get_expanded_schema for every root schema × version class, and call histories on one
  Validator) and obligations over the regenerated schema folder Gen.files.
-/
import Mappy.Model.Versioning
import Mappy.Gen.Schemas
import Mappy.Lemmas.Assoc
import Mappy.Lemmas.VersionStore

namespace Mappy.Versioning

/-! ### the range test -/

/-- a `metadata` value the code can read: a dict whose bounds, when present, are numbers -/
def boundsNumeric (md : Fields) : Prop :=
  (∀ x, lookup minKey md = some x → (numMilli x).isSome) ∧ (∀ x, lookup maxKey md = some x → (numMilli x).isSome)

/-- `is_valid_for_version` is exactly `minVersion ≤ version ≤ maxVersion`, with the defaults 0 and 1000 -/
theorem C09_valid_iff (v : Int) (d md : Fields) (h : lookup metaKey d = some (.dict md)) :
    isValid v d = true ↔ minOf md ≤ v ∧ v ≤ maxOf md := by
  simp only [isValid, h]
  simp only [Bool.not_eq_true', Bool.or_eq_false_iff, decide_eq_false_iff_not, Int.not_lt]

/-- an object without a `metadata` entry is valid for every version -/
theorem C09_unannotated_valid (v : Int) (d : Fields) (h : lookup metaKey d = none) : isValid v d = true := by
  simp [isValid, h]

theorem C09_defaults (md : Fields) (h1 : lookup minKey md = none) (h2 : lookup maxKey md = none) :
    minOf md = 0 ∧ maxOf md = 1000000 := by
  simp [minOf, maxOf, h1, h2]

/-! ### the filter on reference-free trees: an explicit specification -/

mutual
/-- no JSON reference object anywhere -/
def refFree : J → Bool
  | .dict kvs => (refOfFields kvs).isNone && refFreeF kvs
  | .list xs => refFreeL xs
  | _ => true
def refFreeF : Fields → Bool
  | [] => true
  | (_, x) :: r => refFree x && refFreeF r
def refFreeL : List J → Bool
  | [] => true
  | x :: r => refFree x && refFreeL r
end

mutual
/-- the specification: drop every dict-valued entry and every dict alternative that is out of range, at every depth -/
def specFields (v : Int) : Fields → Fields
  | [] => []
  | (k, x) :: r =>
    match x with
    | .dict kvs => if isValid v kvs then (k, .dict (specFields v kvs)) :: specFields v r else specFields v r
    | .list xs => (k, .list (specList v xs)) :: specFields v r
    | _ => (k, x) :: specFields v r
def specList (v : Int) : List J → List J
  | [] => []
  | e :: es =>
    match e with
    | .dict kvs => if isValid v kvs then .dict (specFields v kvs) :: specList v es else specList v es
    | _ => e :: specList v es
end

mutual
/-- on a reference-free dict the in-place walk computes the specification and leaves the store alone -/
theorem fFields_refFree (v : Int) (fo : Str → Store → Store) (σ : Store) :
    (d : Fields) → refFreeF d = true → fFields v fo σ d = (specFields v d, σ)
  | [], _ => by simp [fFields, specFields]
  | (k, .dict kvs) :: r, h => by
    simp only [refFreeF, refFree, Bool.and_eq_true, Option.isNone_iff_eq_none] at h
    obtain ⟨⟨h1, h2⟩, h3⟩ := h
    simp only [fFields, h1, specFields, fFields_refFree v fo σ kvs h2, fFields_refFree v fo σ r h3]
  | (k, .list xs) :: r, h => by
    simp only [refFreeF, refFree, Bool.and_eq_true] at h
    simp only [fFields, specFields, fList_refFree v fo σ xs h.1, fFields_refFree v fo σ r h.2]
  | (k, .null) :: r, h | (k, .bool _) :: r, h | (k, .int _) :: r, h | (k, .flt _) :: r, h
  | (k, .str _) :: r, h | (k, .tup _) :: r, h => by
    simp only [refFreeF, refFree, Bool.true_and] at h
    simp only [fFields, specFields, fFields_refFree v fo σ r h]
theorem fList_refFree (v : Int) (fo : Str → Store → Store) (σ : Store) :
    (xs : List J) → refFreeL xs = true → fList v fo σ xs = (specList v xs, σ)
  | [], _ => by simp [fList, specList]
  | .dict kvs :: es, h => by
    simp only [refFreeL, refFree, Bool.and_eq_true, Option.isNone_iff_eq_none] at h
    obtain ⟨⟨h1, h2⟩, h3⟩ := h
    simp only [fList, h1, specList]
    split
    · simp only [fFields_refFree v fo σ kvs h2, fList_refFree v fo σ es h3]
    · exact fList_refFree v fo σ es h3
  | .null :: es, h | .bool _ :: es, h | .int _ :: es, h | .flt _ :: es, h
  | .str _ :: es, h | .tup _ :: es, h | .list _ :: es, h => by
    simp only [refFreeL, Bool.and_eq_true] at h
    simp only [fList, specList, fList_refFree v fo σ es h.2]
end

/-- **C09_tree_spec** — on an expanded (reference-free) `properties` dict, `get_versioned_properties` returns
exactly the specification filter: a keyword / object / alternative survives iff its own range and the range of every
enclosing annotated object contain the version; nothing else is touched. -/
theorem C09_tree_spec (v : Int) (n : Nat) (σ : Store) (d : Fields) (h : refFreeF d = true) :
    fFields v (follow v n) σ d = (specFields v d, σ) := fFields_refFree v _ σ d h

/-- an annotated keyword (dict-valued entry) is kept exactly in its range … -/
theorem C09_keyword_kept_iff (v : Int) (k : Str) (e r : Fields) :
    specFields v ((k, .dict e) :: r) =
      if isValid v e then (k, .dict (specFields v e)) :: specFields v r else specFields v r := by
  simp [specFields]

/-- … and an annotated alternative of a `oneOf` / `anyOf` / `items` list likewise -/
theorem C09_alternative_kept_iff (v : Int) (e : Fields) (es : List J) :
    specList v (.dict e :: es) = if isValid v e then .dict (specFields v e) :: specList v es else specList v es := by
  simp [specList]

mutual
/-- no `metadata` entry anywhere below -/
def noMeta : J → Bool
  | .dict kvs => noMetaF kvs
  | .list xs => noMetaL xs
  | _ => true
def noMetaF : Fields → Bool
  | [] => true
  | (k, x) :: r => k != metaKey && noMeta x && noMetaF r
def noMetaL : List J → Bool
  | [] => true
  | x :: r => noMeta x && noMetaL r
end

theorem lookup_none_of_noMetaF : (d : Fields) → noMetaF d = true → lookup metaKey d = none
  | [], _ => rfl
  | (k, x) :: r, h => by
    simp only [noMetaF, Bool.and_eq_true, bne_iff_ne, ne_eq] at h
    simp only [lookup, h.1.1, if_false]
    exact lookup_none_of_noMetaF r h.2

mutual
/-- **C09_unannotated_id** — everything unannotated is judged as it is without a version -/
theorem C09_unannotated_id (v : Int) : (d : Fields) → noMetaF d = true → specFields v d = d
  | [], _ => by simp [specFields]
  | (k, .dict kvs) :: r, h => by
    simp only [noMetaF, noMeta, Bool.and_eq_true] at h
    simp only [specFields, C09_unannotated_valid v kvs (lookup_none_of_noMetaF kvs h.1.2), if_true,
      C09_unannotated_id v kvs h.1.2, C09_unannotated_id v r h.2]
  | (k, .list xs) :: r, h => by
    simp only [noMetaF, noMeta, Bool.and_eq_true] at h
    simp only [specFields, C09_unannotated_idL v xs h.1.2, C09_unannotated_id v r h.2]
  | (k, .null) :: r, h | (k, .bool _) :: r, h | (k, .int _) :: r, h | (k, .flt _) :: r, h
  | (k, .str _) :: r, h | (k, .tup _) :: r, h => by
    simp only [noMetaF, Bool.and_eq_true] at h
    simp only [specFields, C09_unannotated_id v r h.2]
theorem C09_unannotated_idL (v : Int) : (xs : List J) → noMetaL xs = true → specList v xs = xs
  | [], _ => by simp [specList]
  | .dict kvs :: es, h => by
    simp only [noMetaL, noMeta, Bool.and_eq_true] at h
    simp only [specList, C09_unannotated_valid v kvs (lookup_none_of_noMetaF kvs h.1), if_true,
      C09_unannotated_id v kvs h.1, C09_unannotated_idL v es h.2]
  | .null :: es, h | .bool _ :: es, h | .int _ :: es, h | .flt _ :: es, h
  | .str _ :: es, h | .tup _ :: es, h | .list _ :: es, h => by
    simp only [noMetaL, Bool.and_eq_true] at h
    simp only [specList, C09_unannotated_idL v es h.2]
end

/-! ### idempotence of the specification filter (what makes the per-version cache entry reusable) -/

def isAtom : J → Bool
  | .dict _ => false
  | .list _ => false
  | _ => true

/-- the `metadata` entry of an object is a flat dict of plain values (or absent / not a dict) -/
def metaOK (d : Fields) : Bool :=
  match lookup metaKey d with
  | some (.dict md) => md.all (fun kv => isAtom kv.2)
  | some _ => false
  | none => true

mutual
def metaWF : J → Bool
  | .dict kvs => metaOK kvs && metaWFF kvs
  | .list xs => metaWFL xs
  | _ => true
def metaWFF : Fields → Bool
  | [] => true
  | (_, x) :: r => metaWF x && metaWFF r
def metaWFL : List J → Bool
  | [] => true
  | x :: r => metaWF x && metaWFL r
end

theorem specFields_atoms (v : Int) : (md : Fields) → md.all (fun kv => isAtom kv.2) = true → specFields v md = md
  | [], _ => by simp [specFields]
  | (k, x) :: r, h => by
    simp only [List.all_cons, Bool.and_eq_true] at h
    have ih := specFields_atoms v r h.2
    cases x <;> simp_all [specFields, isAtom]

theorem atoms_no_meta_valid (v : Int) (md : Fields) (h : md.all (fun kv => isAtom kv.2) = true) : isValid v md = true := by
  unfold isValid
  split
  · rename_i md' hl
    exfalso
    induction md with
    | nil => simp [lookup] at hl
    | cons kv r ih =>
      obtain ⟨k, x⟩ := kv
      simp only [List.all_cons, Bool.and_eq_true] at h
      simp only [lookup] at hl
      split at hl
      · injection hl with hl; subst hl; simp [isAtom] at h
      · exact ih h.2 hl
  · rfl

/-- filtering keeps an object's own `metadata` entry as it is -/
theorem lookup_meta_spec (v : Int) : (d : Fields) → metaOK d = true → lookup metaKey (specFields v d) = lookup metaKey d
  | [], _ => by simp [specFields]
  | (k, x) :: r, h => by
    by_cases hk : k = metaKey
    · subst hk
      cases x with
      | dict md =>
        have ha : md.all (fun kv => isAtom kv.2) = true := by simpa [metaOK, lookup] using h
        simp [specFields, atoms_no_meta_valid v md ha, lookup, specFields_atoms v md ha]
      | _ => simp [metaOK, lookup] at h
    · have h' : metaOK r = true := by simpa [metaOK, lookup, hk] using h
      have ih := lookup_meta_spec v r h'
      cases x with
      | dict kvs =>
        simp only [specFields]
        split
        · simp [lookup, hk, ih]
        · simp [lookup, hk, ih]
      | list xs => simp [specFields, lookup, hk, ih]
      | _ => simp [specFields, lookup, hk, ih]

theorem isValid_spec (v : Int) (d : Fields) (h : metaOK d = true) : isValid v (specFields v d) = isValid v d := by
  simp only [isValid, lookup_meta_spec v d h]

mutual
/-- **C09_spec_idem** — filtering an already filtered schema for the same version changes nothing -/
theorem C09_spec_idem (v : Int) : (d : Fields) → metaWFF d = true → specFields v (specFields v d) = specFields v d
  | [], _ => by simp [specFields]
  | (k, .dict kvs) :: r, h => by
    simp only [metaWFF, metaWF, Bool.and_eq_true] at h
    simp only [specFields]
    by_cases hv : isValid v kvs = true
    · simp only [hv, if_true, specFields, isValid_spec v kvs h.1.1, C09_spec_idem v kvs h.1.2, C09_spec_idem v r h.2]
    · simp only [hv, Bool.false_eq_true, if_false, C09_spec_idem v r h.2]
  | (k, .list xs) :: r, h => by
    simp only [metaWFF, metaWF, Bool.and_eq_true] at h
    simp only [specFields, C09_spec_idemL v xs h.1, C09_spec_idem v r h.2]
  | (k, .null) :: r, h | (k, .bool _) :: r, h | (k, .int _) :: r, h | (k, .flt _) :: r, h
  | (k, .str _) :: r, h | (k, .tup _) :: r, h => by
    simp only [metaWFF, Bool.and_eq_true] at h
    simp only [specFields, C09_spec_idem v r h.2]
theorem C09_spec_idemL (v : Int) : (xs : List J) → metaWFL xs = true → specList v (specList v xs) = specList v xs
  | [], _ => by simp [specList]
  | .dict kvs :: es, h => by
    simp only [metaWFL, metaWF, Bool.and_eq_true] at h
    simp only [specList]
    by_cases hv : isValid v kvs = true
    · simp only [hv, if_true, specList, isValid_spec v kvs h.1.1, C09_spec_idem v kvs h.1.2, C09_spec_idemL v es h.2]
    · simp only [hv, Bool.false_eq_true, if_false, C09_spec_idemL v es h.2]
  | .null :: es, h | .bool _ :: es, h | .int _ :: es, h | .flt _ :: es, h
  | .str _ :: es, h | .tup _ :: es, h | .list _ :: es, h => by
    simp only [metaWFL, Bool.and_eq_true] at h
    simp only [specList, C09_spec_idemL v es h.2]
end

/-! ### no version, or version 0: nothing is filtered -/

theorem C09_no_version (fuel : Nat) (L : Loaded) : prune fuel none L = .ok L := rfl

theorem C09_zero_version (fuel : Nat) (k : Str) (L : Loaded) : prune fuel (some ⟨0, k⟩) L = .ok L := by
  simp [prune]

/-! ### the cache of one Validator object -/

theorem cget_cset (k k' : Str) (L : Loaded) (c : Cache) :
    cget k' (cset k L c) = if k' = k then some L else cget k' c := by
  induction c with
  | nil =>
    simp only [cset, cget]
    by_cases h : k' = k
    · simp [h]
    · simp [h, Ne.symm h, eq_comm]
  | cons kv r ih =>
    obtain ⟨a, b⟩ := kv
    simp only [cset]
    by_cases hak : a = k
    · simp only [hak, if_true, cget]
      by_cases h : k' = k
      · simp [h]
      · simp [h, Ne.symm h, eq_comm]
    · simp only [hak, if_false, cget, ih]
      by_cases h : k' = k
      · subst h; simp [hak]
      · simp [h]

/-- what is cached under a key is always either the freshly loaded schema or its pruned form for that key's version -/
def CacheInv (fuel : Nat) (files : Store) (hist : List (Str × Option Ver)) (c : Cache) : Prop :=
  ∀ k L, cget k c = some L →
    ∃ n ver L0, (n, ver) ∈ hist ∧ cacheKey n ver = k ∧ load files n = .ok L0 ∧ (L = L0 ∨ prune fuel ver L0 = .ok L)

/-- a version the range test is meant for: none, or a number in [0, 1000] (the defaults of the test) -/
def verOK : Option Ver → Prop
  | none => True
  | some vv => inRange vv.milli

/-- pruning twice is pruning once, for the schemas of this folder (see `C09_cache_transparent`) -/
def PruneIdem (fuel : Nat) (files : Store) : Prop :=
  ∀ n ver L0 L, verOK ver → load files n = .ok L0 → prune fuel ver L0 = .ok L → prune fuel ver L = .ok L

/-- two calls use the same cache entry only when they ask for the same schema and version -/
def KeysInj (hist : List (Str × Option Ver)) : Prop :=
  ∀ a ∈ hist, ∀ b ∈ hist, cacheKey a.1 a.2 = cacheKey b.1 b.2 → a = b

def opArgs : VOp → Str × Option Ver
  | .expanded n ver => (n, ver)
  | .versioned n ver => (n, ver)

/-- the answer a *fresh* Validator gives -/
def freshAnswer (fuel : Nat) (files : Store) (op : VOp) : Res J := (vstep fuel files [] op).1

/-- the caller-visible schema of a versioned call on a fresh Validator -/
theorem fresh_versioned (fuel : Nat) (files : Store) (n : Str) (ver : Option Ver) :
    freshAnswer fuel files (.versioned n ver) =
      match load files n with
      | .error e => .error e
      | .ok L0 => match prune fuel ver L0 with
        | .ok L => .ok (viewN L.store fuel L.root)
        | .error e => .error e := by
  simp only [freshAnswer, vstep, getVersioned, getExpanded, cget]
  cases load files n with
  | error e => rfl
  | ok L0 =>
    simp only
    cases prune fuel ver L0 with
    | error e => rfl
    | ok L => rfl

/-- **C09_versioned_history_independent** — a versioned call on a Validator whose cache satisfies the invariant
answers exactly as a fresh Validator does, and re-establishes the invariant: asking about one version never changes
the answer for another version (or for the same one asked again). -/
theorem C09_versioned_step (fuel : Nat) (files : Store) (hist : List (Str × Option Ver)) (c : Cache)
    (n : Str) (ver : Option Ver) (hin : (n, ver) ∈ hist) (hk : KeysInj hist) (hidem : PruneIdem fuel files)
    (hR : ∀ o ∈ hist, verOK o.2) (hinv : CacheInv fuel files hist c) :
    (vstep fuel files c (.versioned n ver)).1 = freshAnswer fuel files (.versioned n ver) ∧
    CacheInv fuel files hist (vstep fuel files c (.versioned n ver)).2 := by
  rw [fresh_versioned]
  simp only [vstep, getVersioned, getExpanded]
  cases hc : cget (cacheKey n ver) c with
  | some L =>
    obtain ⟨n', ver', L0, hmem, hkey, hload, hL⟩ := hinv _ _ hc
    have := hk (n', ver') hmem (n, ver) hin hkey
    simp only [Prod.mk.injEq] at this
    obtain ⟨rfl, rfl⟩ := this
    simp only [hload]
    have hpr : prune fuel ver' L = prune fuel ver' L0 ∨ prune fuel ver' L = .ok L := by
      cases hL with
      | inl h => left; rw [h]
      | inr h => right; exact hidem _ _ _ _ (hR _ hmem) hload h
    cases hp0 : prune fuel ver' L0 with
    | error e =>
      have : prune fuel ver' L = .error e := by
        cases hL with
        | inl h => rw [h, hp0]
        | inr h => rw [hp0] at h; cases h
      simp only [this, hc]
      exact ⟨by first | rfl | trivial, hinv⟩
    | ok L1 =>
      have hL' : prune fuel ver' L = .ok L1 := by
        cases hL with
        | inl h => rw [h, hp0]
        | inr h => rw [hp0] at h; injection h with h; subst h; exact hidem _ _ _ _ (hR _ hmem) hload hp0
      simp only [hL']
      refine ⟨by first | rfl | trivial, ?_⟩
      intro k X hX
      rw [cget_cset] at hX
      split at hX
      · rename_i hkk; injection hX with hX; subst hX
        exact ⟨n', ver', L0, hmem, hkk.symm, hload, Or.inr hp0⟩
      · exact hinv _ _ hX
  | none =>
    cases hload : load files n with
    | error e => simp only [hc, hload]; exact ⟨by first | rfl | trivial, hinv⟩
    | ok L0 =>
      simp only
      cases hp0 : prune fuel ver L0 with
      | error e =>
        simp only [hc, hload]
        refine ⟨by first | rfl | trivial, ?_⟩
        intro k X hX
        rw [cget_cset] at hX
        split at hX
        · rename_i hkk; injection hX with hX; subst hX
          exact ⟨n, ver, L0, hin, hkk.symm, hload, Or.inl rfl⟩
        · exact hinv _ _ hX
      | ok L1 =>
        simp only
        refine ⟨by first | rfl | trivial, ?_⟩
        intro k X hX
        rw [cget_cset] at hX
        split at hX
        · rename_i hkk; injection hX with hX; subst hX
          exact ⟨n, ver, L0, hin, hkk.symm, hload, Or.inr hp0⟩
        · rw [cget_cset] at hX
          split at hX
          · rename_i hkk; exact absurd hkk (by assumption)
          · exact hinv _ _ hX

theorem cacheInv_empty (fuel : Nat) (files : Store) (hist : List (Str × Option Ver)) : CacheInv fuel files hist [] := by
  intro k L h; simp [cget] at h

/-- **C09_cache_transparent** — for every history of versioned-schema requests on one Validator (any schema names,
any versions, any order, any repetition), every answer is the answer a fresh Validator gives. -/
theorem C09_cache_transparent (fuel : Nat) (files : Store) (hidem : PruneIdem fuel files)
    (hist : List (Str × Option Ver)) (hk : KeysInj hist) (hR : ∀ o ∈ hist, verOK o.2) :
    ∀ (ops : List (Str × Option Ver)) (c : Cache), (∀ o ∈ ops, o ∈ hist) → CacheInv fuel files hist c →
      (vrun fuel files c (ops.map fun o => .versioned o.1 o.2)).1 =
        ops.map (fun o => freshAnswer fuel files (.versioned o.1 o.2)) := by
  intro ops
  induction ops with
  | nil => intro c _ _; rfl
  | cons o r ih =>
    intro c hsub hinv
    obtain ⟨n, ver⟩ := o
    have hs := C09_versioned_step fuel files hist c n ver (hsub _ (by simp)) hk hidem hR hinv
    simp only [List.map_cons, vrun]
    rw [ih _ (fun o ho => hsub o (by simp [ho])) hs.2, hs.1]

/-! ### obligations over the regenerated schema folder -/

mutual
def refsOf : J → List Str
  | .dict kvs => match refOfFields kvs with | some u => [u] | none => refsOfF kvs
  | .list xs => refsOfL xs
  | _ => []
def refsOfF : Fields → List Str
  | [] => []
  | (_, x) :: r => refsOf x ++ refsOfF r
def refsOfL : List J → List Str
  | [] => []
  | x :: r => refsOf x ++ refsOfL r
end

/-- every reference of document `u` resolves to a dict document whose references are closed at `n - 1` -/
def closedAt (σ : Store) : Nat → Str → Bool
  | 0, _ => false
  | n + 1, u =>
    match lookup u σ with
    | some (.dict doc) => (refsOfF doc).all (closedAt σ n)
    | _ => false

/-- the reference graph of the schema folder is acyclic and every `$ref` resolves to an object document:
nesting depth < 8 ≤ the walk's budget -/
theorem C09_acyclic : ∀ f ∈ Gen.files, closedAt Gen.files 8 f.1 = true := by decide +kernel

/-- every `metadata` entry of every schema file is a flat dict of plain values (what `C09_spec_idem` needs) -/
theorem C09_files_metaWF : ∀ f ∈ Gen.files, metaWF f.2 = true := by decide +kernel

mutual
def boundsOK : J → Bool
  | .dict kvs =>
    (match lookup metaKey kvs with
     | some (.dict md) =>
       (match lookup minKey md with | some x => (numMilli x).isSome | none => true) &&
       (match lookup maxKey md with | some x => (numMilli x).isSome | none => true)
     | some _ => false
     | none => true) && boundsOKF kvs
  | .list xs => boundsOKL xs
  | _ => true
def boundsOKF : Fields → Bool
  | [] => true
  | (_, x) :: r => boundsOK x && boundsOKF r
def boundsOKL : List J → Bool
  | [] => true
  | x :: r => boundsOK x && boundsOKL r
end

mutual
/-- no version annotation sits beside a `$ref`: reference expansion replaces the whole object by its referent, so a
`minVersion` / `maxVersion` written there would silently never be honoured -/
def noBoundsOnRef : J → Bool
  | .dict kvs =>
    (match refOfFields kvs, lookup metaKey kvs with
     | some _, some (.dict md) => !(hasKey minKey md || hasKey maxKey md)
     | _, _ => true) && noBoundsOnRefF kvs
  | .list xs => noBoundsOnRefL xs
  | _ => true
def noBoundsOnRefF : Fields → Bool
  | [] => true
  | (_, x) :: r => noBoundsOnRef x && noBoundsOnRefF r
def noBoundsOnRefL : List J → Bool
  | [] => true
  | x :: r => noBoundsOnRef x && noBoundsOnRefL r
end

/-- **C09_files_annotations_effective** — in the regenerated schema folder every version annotation sits where the filter
can see it (never beside a `$ref`, where jsonref drops it) -/
theorem C09_files_annotations_effective : ∀ f ∈ Gen.files, noBoundsOnRef f.2 = true := by decide +kernel

/-- every `metadata` entry is a dict and its minVersion / maxVersion are decimal numbers the model reads exactly -/
theorem C09_files_bounds : ∀ f ∈ Gen.files, boundsOK f.2 = true := by decide +kernel

/-! ### the shared store: the walk is the local filter, and pruning twice is pruning once -/

theorem mem_of_lookup : (σ : Store) → ∀ u x, lookup u σ = some x → (u, x) ∈ σ
  | [], u, x, h => by simp [lookup] at h
  | (k, y) :: r, u, x, h => by
    simp only [lookup] at h
    split at h
    · rename_i hk; injection h with h; subst h; subst hk; simp
    · exact List.mem_cons_of_mem _ (mem_of_lookup r u x h)

/-- a freshly loaded schema folder satisfies the store invariant, with references judged by the folder itself -/
theorem inv_files (v : Int) (files : Store) (hwf : ∀ f ∈ files, wf f.2 = true) : Inv v (refValid v files) files :=
  ⟨fun _ => rfl, fun u doc hl => hwf (u, .dict doc) (mem_of_lookup files u _ hl)⟩

/-- **C09_walk_is_local_filter** — whatever state the shared store is in (any earlier requests, any budget), the
properties dict `get_versioned_properties` returns is the local filter of what it was given: every dict-valued entry
and every dict alternative is dropped iff out of range — a reference by the range of the document it points to —
at every depth of the document -/
theorem C09_walk_is_local_filter (v : Int) (hv : inRange v) (n : Nat) (σ : Store) (d : Fields) (rv : Str → Bool)
    (h : Inv v rv σ) : (fFields v (follow v n) σ d).1 = lFields v rv d :=
  (walk_is_local_filter v rv hv n σ d h).1

/-- **C09_prune_idem** — for every schema folder whose documents are well formed (unique keys, flat `metadata`
entries), every budget, schema name and version: pruning an already pruned load changes neither the returned schema
nor any document of the shared store.  (This is the premise `PruneIdem` of `C09_cache_transparent`.) -/
theorem C09_prune_idem (fuel : Nat) (files : Store) (hwf : ∀ f ∈ files, wf f.2 = true) : PruneIdem fuel files := by
  intro n ver L0 L hver hload hprune
  unfold load at hload
  cases hl : lookup (fileOf n) files with
  | none => simp [hl] at hload
  | some root =>
    simp only [hl] at hload
    injection hload with hload; subst hload
    have hroot : wf root = true := hwf (fileOf n, root) (mem_of_lookup files _ _ hl)
    unfold prune at hprune ⊢
    cases ver with
    | none => injection hprune with hp; subst hp; rfl
    | some vv =>
      simp only at hprune ⊢
      by_cases hz : vv.milli = 0
      · simp only [hz, if_true] at hprune ⊢
      · simp only [hz, if_false] at hprune ⊢
        cases root with
        | dict kvs =>
          simp only at hprune
          cases hpk : lookup propsKey kvs with
          | none => simp [hpk] at hprune
          | some pv =>
            cases pv with
            | dict props =>
              simp only [hpk] at hprune
              injection hprune with hp; subst hp
              simp only [lookup_setKey, if_true]
              have hwk : wfF kvs = true := by simp only [wf, Bool.and_eq_true] at hroot; exact hroot.2
              have hwp : wf (.dict props) = true := wf_of_lookup kvs hwk propsKey _ hpk
              have hwpF : wfF props = true := by simp only [wf, Bool.and_eq_true] at hwp; exact hwp.2
              let rv := refValid vv.milli files
              have hvr : inRange vv.milli := hver
              have hI := inv_files vv.milli files hwf
              obtain ⟨e1, hI1⟩ := walk_is_local_filter vv.milli rv hvr fuel files props hI
              obtain ⟨hcl, _⟩ := fFields_closed vv.milli rv fuel (follow vv.milli fuel) (follow_spec vv.milli rv hvr fuel) props hwpF files hI
              have hfix : lFields vv.milli rv (fFields vv.milli (follow vv.milli fuel) files props).1 =
                  (fFields vv.milli (follow vv.milli fuel) files props).1 := by
                rw [e1]; exact lFields_idem vv.milli rv hvr props hwpF
              have hsame := fFields_fixed vv.milli rv (follow vv.milli fuel) _ hI1 _ hfix
                (fun w hw => follow_fixed vv.milli rv _ hI1 fuel w (hcl w hw))
              simp only [hsame, setKey_setKey_same]
            | _ => simp [hpk] at hprune
        | _ => simp at hprune

/-- every schema file of the folder is well formed: unique keys at every level, every `metadata` entry a flat dict of
plain values (re-checked against the regenerated files) -/
theorem C09_files_wf : ∀ f ∈ Gen.files, wf f.2 = true := by decide +kernel

/-- **C09_cache_transparent_files** — for the schema folder of this tree, unconditionally: for EVERY history of
versioned-schema requests on one Validator object (any schema names, versions, order, repetition, any budget) every
answer is the answer a fresh Validator gives — asking about one version never changes the answer for another
version, for the same version asked again, or for the version-less export -/
theorem C09_cache_transparent_files (fuel : Nat) (hist : List (Str × Option Ver)) (hk : KeysInj hist)
    (hR : ∀ o ∈ hist, verOK o.2) (ops : List (Str × Option Ver)) (hsub : ∀ o ∈ ops, o ∈ hist) :
    (vrun fuel Gen.files [] (ops.map fun o => .versioned o.1 o.2)).1 =
      ops.map (fun o => freshAnswer fuel Gen.files (.versioned o.1 o.2)) :=
  C09_cache_transparent fuel Gen.files (C09_prune_idem fuel Gen.files C09_files_wf) hist hk hR ops [] hsub
    (cacheInv_empty fuel Gen.files hist)

/-- non-vacuity: an annotated entry of the real folder, dropped below its minVersion and kept from it on -/
example : isValid 7500 [(metaKey, .dict [(minKey, .flt s%"7.6")])] = false ∧
          isValid 7600 [(metaKey, .dict [(minKey, .flt s%"7.6")])] = true := by decide

end Mappy.Versioning
