/- C19 — `create(type, version)` validates: the block types of group C (split for parallel kernel evaluation) -/
import Mappy.Props.C19Create
namespace Mappy.Create
theorem C19_create_valid_C : ∀ t ∈ groupC, newFaults t = [] := by decide +kernel
end Mappy.Create
