/-
  C16 — pretty-printer layout contract.  Property theorems about Model/Printer.lean (tied to pprint.py by the
  `pp` correspondence: exact output strings).  `check` (Lemmas/Layout.lean) is an independent reader of
  the structured lines; `renderLine`/`render` are the thin last step to text.
-/
import Mappy.Lemmas.PrinterBal
import Mappy.Gen.Props

namespace Mappy.Printer

theorem cat_ok {a b : Res (List Line)} {ls : List Line} (h : cat a b = .ok ls) :
    ∃ x y, a = .ok x ∧ b = .ok y ∧ ls = x ++ y := by
  unfold cat at h
  split at h
  · simp at h
  · simp at h
  · rename_i x y; injection h with h; exact ⟨x, y, rfl, rfl, h.symm⟩

theorem wrapObj_bal (o : Opts) (level : Nat) (f : Fields) (body : Res (List Line)) (ls : List Line)
    (hb : ∀ b, body = .ok b → Bal o (level + 1) b) (h : wrapObj o level f body = .ok ls) : Bal o level ls := by
  unfold wrapObj at h
  split at h
  · simp at h
  · rename_i comments _
    split at h
    · rename_i t _
      split at h
      · simp at h
      · split at h
        · simp at h
        · rename_i tc htc
          split at h
          · simp at h
          · rename_i b
            injection h with h; subst h
            have h1 := Bal.comments o level tc (typeComment_kind o level comments tc htc)
            have h2 := Bal.block o level (upper t) b (hb b rfl)
            rw [List.append_assoc, List.append_assoc, ← List.append_assoc [_]]
            exact Bal.append h1 h2
    · simp at h
    · split at h <;> simp at h

mutual
/-- every object is printed as balanced layout at its own depth: opener, keyword lines one level below,
nested blocks, and an END at the opener's indentation (with `# TYPE` when `end_comment`) -/
theorem fmt_bal (o : Opts) (T : Table) : (j : J) → (level : Nat) → (ls : List Line) →
    fmt o T level j = .ok ls → Bal o level ls
  | .dict f, level, ls, h => by
    simp only [fmt] at h
    exact wrapObj_bal o level f _ ls (fun b hb => fmtItems_bal o T f level _ _ _ b hb) h
  | .null, _, _, h | .bool _, _, _, h | .int _, _, _, h | .flt _, _, _, h | .str _, _, _, h
  | .list _, _, _, h | .tup _, _, _, h => by simp [fmt] at h
theorem fmtItems_bal (o : Opts) (T : Table) : (f : Fields) → (level : Nat) → (ty : Option Str) →
    (c : Fields) → (al : Nat) → (ls : List Line) → fmtItems o T level ty c al f = .ok ls → Bal o (level + 1) ls
  | [], _, _, _, _, ls, h => by simp [fmtItems] at h; subst h; exact Bal.nil _ _
  | (attr, .list xs) :: r, level, ty, c, al, ls, h => by
    simp only [fmtItems] at h
    obtain ⟨a, b, ha, hb, rfl⟩ := cat_ok h
    refine Bal.append ?_ (fmtItems_bal o T r level ty c al b hb)
    unfold itemList at ha
    split at ha
    · injection ha with ha; subst ha; exact Bal.nil _ _
    · split at ha
      · exact fmtList_bal o T xs (level + 1) a ha
      · exact other_bal o T level ty c al attr _ _ a (fun ls' h' => by simp at h') ha
  | (attr, .dict g) :: r, level, ty, c, al, ls, h => by
    simp only [fmtItems] at h
    obtain ⟨a, b, ha, hb, rfl⟩ := cat_ok h
    refine Bal.append ?_ (fmtItems_bal o T r level ty c al b hb)
    unfold item at ha
    split at ha
    · injection ha with ha; subst ha; exact Bal.nil _ _
    · exact other_bal o T level ty c al attr _ _ a (fun ls' h' => fmt_bal o T (.dict g) (level + 1) ls' h') ha
  | (attr, .null) :: r, level, ty, c, al, ls, h | (attr, .bool _) :: r, level, ty, c, al, ls, h
  | (attr, .int _) :: r, level, ty, c, al, ls, h | (attr, .flt _) :: r, level, ty, c, al, ls, h
  | (attr, .str _) :: r, level, ty, c, al, ls, h | (attr, .tup _) :: r, level, ty, c, al, ls, h => by
    simp only [fmtItems] at h
    obtain ⟨a, b, ha, hb, rfl⟩ := cat_ok h
    refine Bal.append ?_ (fmtItems_bal o T r level ty c al b hb)
    unfold item at ha
    split at ha
    · injection ha with ha; subst ha; exact Bal.nil _ _
    · exact other_bal o T level ty c al attr _ _ a (fun ls' h' => by simp [fmt] at h') ha
theorem fmtList_bal (o : Opts) (T : Table) : (xs : List J) → (level : Nat) → (ls : List Line) →
    fmtList o T level xs = .ok ls → Bal o level ls
  | [], _, ls, h => by simp [fmtList] at h; subst h; exact Bal.nil _ _
  | x :: r, level, ls, h => by
    simp only [fmtList] at h
    obtain ⟨a, b, ha, hb, rfl⟩ := cat_ok h
    exact Bal.append (fmt_bal o T x level a ha) (fmtList_bal o T r level b hb)
end

/-- C16 (nesting clause): for every dictionary and every option record, if printing succeeds then the
independent layout reader accepts the lines: each block opener and keyword line is indented by
(nesting depth × indent) spacers, each opened block is closed by an END at the opener's indentation,
and with `end_comment` that END carries `# ` and the block's type.  Root key/value blocks
(METADATA/VALIDATION/CONNECTIONOPTIONS given as the root) are printed one level in by the code and are
outside the property's quantifier (the 19 block types); they are balanced at depth 1. -/
theorem C16_well_nested (o : Opts) (T : Table) (j : J) (ls : List Line) (h : fmt o T 0 j = .ok ls) :
    check o [] ls = some [] := by
  have := fmt_bal o T j 0 ls h [] [] rfl
  simpa [check] using this

theorem C16_well_nested_at (o : Opts) (T : Table) (j : J) (level : Nat) (ls : List Line)
    (h : fmt o T level j = .ok ls) (st : List (Nat × Str)) (hs : st.length = level) :
    check o st ls = some st := by
  have := fmt_bal o T j level ls h st [] hs
  simpa [check] using this

/-- C16 (line-break and indentation clause): the text is exactly the rendered lines joined by
`newlinechar`, and every rendered line starts with `lvl × indent` copies of `spacer`. -/
theorem C16_lines_joined (o : Opts) (T : Table) (c : J) (s : Str) (h : pprint o T c = .ok s) :
    ∃ ls, pprintLines o T c = .ok ls ∧ s = joinWith o.newline (ls.map (renderLine o)) := by
  unfold pprint at h
  cases hl : pprintLines o T c with
  | error e => simp [hl, Except.map] at h
  | ok ls => simp [hl, Except.map] at h; exact ⟨ls, rfl, h.symm⟩

theorem C16_indent_exact (o : Opts) (l : Line) :
    renderLine o l = (List.replicate (l.lvl * o.indent) o.spacer).flatten ++ (l.key ++ List.replicate l.pad ' ' ++ l.val ++ l.cmt) := by
  have : ws o l.lvl = (List.replicate (l.lvl * o.indent) o.spacer).flatten := by
    unfold ws unit
    induction l.lvl with
    | zero => simp
    | succ n ih =>
      rw [List.replicate_succ, List.flatten_cons, ih, Nat.succ_mul, Nat.add_comm, ← List.replicate_append_replicate,
        List.flatten_append]
  simp [renderLine, this, List.append_assoc]

/-! ### alignment -/

theorem le_maxKeyLen (f : Fields) (k : Str) (v : J) (hm : (k, v) ∈ f)
    (h1 : isMetaKey k = false) (h2 : k ∉ ignoreList) (h3 : isHiddenContainer k v = false) (h4 : isComposite v = false) :
    k.length ≤ maxKeyLen f := by
  induction f with
  | nil => simp at hm
  | cons kv r ih =>
    obtain ⟨k', v'⟩ := kv
    simp only [List.mem_cons] at hm
    rcases hm with e | hm
    · injection e with e1 e2; subst e1; subst e2
      simp only [maxKeyLen, h1, h3, h4]
      have : decide (k ∈ ignoreList) = false := by simpa using h2
      simp [this]; omega
    · have := ih hm
      simp only [maxKeyLen]
      split
      · omega
      · exact this

theorem lt_computeAligned (o : Opts) (m : Nat) : m < computeAligned o m := by
  unfold computeAligned
  have hi : 0 < max 1 o.indent := by omega
  generalize max 1 o.indent = i at hi
  have := Nat.div_add_mod m i
  have := Nat.mod_lt m hi
  rw [Nat.add_mul, Nat.one_mul, Nat.mul_comm]
  omega

/-- C16 (alignment clause): with `align_values`, the value of every simple keyword of one object starts
in one column — `computeAligned (longest such keyword)`, the first multiple of `indent` past it — and
at least one blank separates keyword and value. -/
theorem C16_aligned_column (o : Opts) (T : Table) (f : Fields) (level : Nat) (ty attr : Str) (v : J) (c : Fields) (l : Line)
    (ha : o.align = true) (hm : (attr, v) ∈ f)
    (h1 : isMetaKey attr = false) (h2 : attr ∉ ignoreList) (h3 : isHiddenContainer attr v = false) (h4 : isComposite v = false)
    (hl : attrLine o T ty attr v level (alignedOf o f) c = .ok l) :
    l.key.length + l.pad = computeAligned o (maxKeyLen f) ∧ 1 ≤ l.pad := by
  unfold attrLine at hl
  split at hl
  · simp at hl
  · obtain ⟨t, _, hl⟩ := bind_ok hl
    obtain ⟨cm, _, hl⟩ := bind_ok hl
    simp only [pure, Except.pure] at hl
    injection hl with hl; subst hl
    have hlen : (upper attr).length = attr.length := by simp [upper]
    have hle := le_maxKeyLen f attr v hm h1 h2 h3 h4
    have hlt := lt_computeAligned o (maxKeyLen f)
    simp only [alignedOf, ha, if_true, padOf, hlen]
    split
    · omega
    · omega

theorem le_maxKvKeyLen (d : Fields) (k : Str) (v : J) (hm : (k, v) ∈ d) (h1 : isMetaKey k = false) :
    k.length ≤ maxKvKeyLen d := by
  induction d with
  | nil => simp at hm
  | cons kv r ih =>
    obtain ⟨k', v'⟩ := kv
    simp only [List.mem_cons] at hm
    rcases hm with e | hm
    · injection e with e1 e2; subst e1
      simp only [maxKvKeyLen, h1]; simp; omega
    · have := ih hm
      simp only [maxKvKeyLen]
      split
      · exact this
      · omega

/-- the same for the pairs of a METADATA-like block: every visible pair has its value in one column
(after the `fix:` commit for keys spelled like the printer's ignore-list words) -/
theorem C16_aligned_kv (o : Opts) (d : Fields) (k : Str) (v : J) (hm : (k, v) ∈ d) (h1 : isMetaKey k = false) :
    let aligned := computeAligned o (maxKvKeyLen d + 2)
    let qk := Quoter.addQuotes o.quote k
    qk.length + padOf aligned qk = aligned ∧ 1 ≤ padOf aligned qk := by
  intro aligned qk
  have hle := le_maxKvKeyLen d k v hm h1
  have hlt := lt_computeAligned o (maxKvKeyLen d + 2)
  have hq : qk.length = k.length + 2 := by simp [qk, Quoter.addQuotes]
  simp only [padOf, hq]
  split
  · omega
  · omega

/-- non-vacuity (test on literals): a nested document prints and passes the reader -/
example :
    let o : Opts := ⟨2, [' '], '"', ['\n'], true, true, false⟩
    let d : J := .dict [(s%"__type__", .str s%"map"), (s%"name", .str s%"x"),
      (s%"layers", .list [.dict [(s%"__type__", .str s%"layer"), (s%"metadata", .dict [(s%"a", .str s%"b")])]])]
    (fmt o Gen.props 0 d).toOption.map (fun ls => (check o [] ls, ls.length)) = some (some [], 8) := by
  decide

end Mappy.Printer
