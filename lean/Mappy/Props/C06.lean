/-
  C06 — formatting options never change content.  Theorems about Model/Printer.lean (tied to pprint.py by
  the exact-string `pp` correspondence).  `contents` is what the printed lines say apart from layout:
  (kind, key text, value text) of every non-comment line.
-/
import Mappy.Lemmas.PrinterSim
import Mappy.Gen.Props

namespace Mappy.Printer

mutual
theorem fmt_sim (o o' : Opts) (hq : o.quote = o'.quote) (T : Table) : (j : J) → (level : Nat) →
    Sim (fmt o T level j) (fmt o' T level j)
  | .dict f, level => by
    simp only [fmt]
    exact wrapObj_sim o o' level f _ _ (fmtItems_sim o o' hq T f level _ _ _ _)
  | .null, _ | .bool _, _ | .int _, _ | .flt _, _ | .str _, _ | .list _, _ | .tup _, _ => Sim.rfl' _
theorem fmtItems_sim (o o' : Opts) (hq : o.quote = o'.quote) (T : Table) : (f : Fields) → (level : Nat) →
    (ty : Option Str) → (c : Fields) → (al al' : Nat) →
    Sim (fmtItems o T level ty c al f) (fmtItems o' T level ty c al' f)
  | [], _, _, _, _, _ => Sim.rfl' _
  | (attr, .list xs) :: r, level, ty, c, al, al' => by
    simp only [fmtItems]
    refine Sim.cat ?_ (fmtItems_sim o o' hq T r level ty c al al')
    unfold itemList
    split
    · exact Sim.rfl' _
    · split
      · exact fmtList_sim o o' hq T xs (level + 1)
      · exact other_sim o o' hq T level ty c al al' attr _ _ _ (Sim.rfl' _)
  | (attr, .dict g) :: r, level, ty, c, al, al' => by
    simp only [fmtItems]
    refine Sim.cat ?_ (fmtItems_sim o o' hq T r level ty c al al')
    unfold item
    split
    · exact Sim.rfl' _
    · exact other_sim o o' hq T level ty c al al' attr _ _ _ (fmt_sim o o' hq T (.dict g) (level + 1))
  | (attr, .null) :: r, level, ty, c, al, al' | (attr, .bool _) :: r, level, ty, c, al, al'
  | (attr, .int _) :: r, level, ty, c, al, al' | (attr, .flt _) :: r, level, ty, c, al, al'
  | (attr, .str _) :: r, level, ty, c, al, al' | (attr, .tup _) :: r, level, ty, c, al, al' => by
    simp only [fmtItems]
    refine Sim.cat ?_ (fmtItems_sim o o' hq T r level ty c al al')
    unfold item
    split
    · exact Sim.rfl' _
    · exact other_sim o o' hq T level ty c al al' attr _ _ _ (Sim.rfl' _)
theorem fmtList_sim (o o' : Opts) (hq : o.quote = o'.quote) (T : Table) : (xs : List J) → (level : Nat) →
    Sim (fmtList o T level xs) (fmtList o' T level xs)
  | [], _ => Sim.rfl' _
  | x :: r, level => by
    simp only [fmtList]
    exact Sim.cat (fmt_sim o o' hq T x level) (fmtList_sim o o' hq T r level)
end

theorem go_sim (o o' : Opts) (hq : o.quote = o'.quote) (T : Table) (rs : List J) :
    Sim (pprintLines.go o T rs) (pprintLines.go o' T rs) := by
  induction rs with
  | nil => exact Sim.rfl' _
  | cons x r ih =>
    simp only [pprintLines.go]
    refine Sim.cat ?_ ih
    cases x with
    | dict f =>
      simp only
      cases lookup s%"__type__" f with
      | none => exact Sim.error _
      | some t =>
        cases t with
        | str t =>
          simp only
          split
          · exact keyDict_sim o o' hq t 0 _
          · exact fmt_sim o o' hq T _ 0
        | null => exact Sim.error _
        | bool b => exact Sim.error _
        | int n => exact Sim.error _
        | flt s => exact Sim.error _
        | list xs => exact Sim.error _
        | tup xs => exact Sim.error _
        | dict g => exact Sim.error _
    | null => exact Sim.error _
    | bool b => exact Sim.error _
    | int n => exact Sim.error _
    | flt s => exact Sim.error _
    | str s => exact Sim.error _
    | list xs => exact Sim.error _
    | tup xs => exact Sim.error _

/-- C06 (layout options): for EVERY pair of option records that agree on `quote` and
`separate_complex_types` — any indent, any spacer string, any newline string, `end_comment`,
`align_values` — and every dictionary (or list of root dictionaries), printing either fails with the
same error or yields lines that say the same thing: the same sequence of (kind, key text, value text),
comment lines aside.  (Lark then reads equal token sequences into equal dictionaries: parser gap,
exercised by the oracle.) -/
theorem C06_layout_invariant (o o' : Opts) (h : SameContentOpts o o') (T : Table) (c : J) :
    (pprintLines o T c).map contents = (pprintLines o' T c).map contents := by
  unfold pprintLines
  cases c with
  | dict f =>
    cases f with
    | nil => simp only [h.2]; exact go_sim o o' h.1 T _
    | cons kv r => simp only [h.2]; exact go_sim o o' h.1 T _
  | list xs => simp only [h.2]; exact go_sim o o' h.1 T _
  | null => rfl
  | bool b => rfl
  | int n => rfl
  | flt s => rfl
  | str s => rfl
  | tup xs => rfl

/-! ### separate_complex_types -/

/-- `separate_complex_types` is a stable partition of each object's keys: the simple keys in their
original relative order, then the block-valued keys in their original relative order … -/
theorem C06_sep_stable (level : Nat) (f : Fields) :
    separateComplex level f =
      f.filter (fun kv => !isComplexType level kv.1 kv.2) ++ f.filter (fun kv => isComplexType level kv.1 kv.2) := rfl

/-- … it is a permutation: no key or value is added, dropped or changed … -/
theorem C06_sep_perm (level : Nat) (f : Fields) : (separateComplex level f).Perm f := by
  unfold separateComplex
  induction f with
  | nil => simp
  | cons kv r ih =>
    simp only [List.filter_cons]
    by_cases h : isComplexType level kv.1 kv.2 = true
    · simp only [h, Bool.not_true, if_true]
      simp only [Bool.false_eq_true, if_false]
      exact (List.perm_middle).trans (List.Perm.cons kv ih)
    · have h' : isComplexType level kv.1 kv.2 = false := by simpa using h
      simp only [h', Bool.not_false, if_true, Bool.false_eq_true, if_false, List.cons_append]
      exact List.Perm.cons kv ih

/-- … and it does nothing to an object whose block-valued keys already come last. -/
theorem C06_sep_idem (level : Nat) (f : Fields) :
    separateComplex level (separateComplex level f) = separateComplex level f := by
  simp [separateComplex, List.filter_append, List.filter_filter]
  have : ∀ l : Fields, l.filter (fun _ => false) = [] := fun l => by simp
  simp [this]

/-- non-vacuity (test on literals): two different layouts of a nested document say the same thing -/
example :
    let o : Opts := ⟨2, [' '], '"', ['\n'], true, true, false⟩
    let o' : Opts := ⟨7, ['\t'], '"', ['\r', '\n'], false, false, false⟩
    let d : J := .dict [(s%"__type__", .str s%"map"), (s%"name", .str s%"x"),
      (s%"layers", .list [.dict [(s%"__type__", .str s%"layer"), (s%"metadata", .dict [(s%"a", .str s%"b")])]])]
    SameContentOpts o o' ∧ ((pprintLines o Gen.props d).map contents).toOption.map List.length = some 8 := by
  refine ⟨⟨rfl, rfl⟩, ?_⟩
  decide

end Mappy.Printer
