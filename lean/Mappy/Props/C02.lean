/-
  C02 — the documented text → dict contract.
  Theorems about Model/Transformer.lean (tied to transformer.py by the `transform` correspondence on the real Lark
  tree of every generated document; the oracle compares real `loads` with the dictionary the documentation promises).
-/
import Mappy.Model.Transformer
import Mappy.Lemmas.TransformerSim
import Mappy.Props.C08
import Mappy.Props.C13

namespace Mappy.Transformer

/-! ### values -/

/-- quoted strings lose exactly their outer quotes … -/
theorem C02_quotes_outer_only (q : Char) (hq : q = '"' ∨ q = '\'') (s : Str) :
    cleanString (q :: s ++ [q]) = s := by
  have hsuf : endsWith [q] (q :: (s ++ [q])) = true := by
    simp only [endsWith, List.isSuffixOf_iff_suffix]
    exact ⟨q :: s, by simp⟩
  have hin : Quoter.inQuotes '"' (q :: s ++ [q]) = true := by
    rcases hq with rfl | rfl <;>
      simp [Quoter.inQuotes, Quoter.inQuotesC, Quoter.altquote, startsWith, hsuf]
  unfold cleanString Quoter.removeQuotes
  rw [if_pos hin]
  simp [Quoter.middle]

/-- … and a bare word is stored as written -/
theorem C02_bare_unchanged (s : Str) (h : Quoter.inQuotes '"' s = false) : cleanString s = s := by
  simp [cleanString, Quoter.removeQuotes, h]

/-- TRUE / FALSE become booleans -/
theorem C02_booleans (cfg : Cfg) (cm : Option (List Str)) (t : Tok) :
    callback cfg s%"true" cm [.tok t] = .ok (.tok { t with val := .bool true }) ∧
    callback cfg s%"false" cm [.tok t] = .ok (.tok { t with val := .bool false }) := by
  constructor <;> simp [callback, first, nth, tokOf, bind, Except.bind, pure, Except.pure]

/-- integers become ints (Python `int(lexeme)`), whatever the sign spelling -/
theorem C02_ints (cfg : Cfg) (cm : Option (List Str)) (t : Tok) (s : Str) (n : Int) (hv : t.val = .str s) (hp : parseInt s = some n) :
    callback cfg s%"int" cm [.tok t] = .ok (.tok { t with val := .int n }) := by
  simp [callback, first, nth, tokOf, bind, Except.bind, pure, Except.pure, hv, hp]

example : parseInt s%"-07" = some (-7) ∧ parseInt s%"+12" = some 12 ∧ parseInt s%"300" = some 300 := by decide

/-- hex colours lose their quotes and are lower-cased -/
theorem C02_hex_lower (cfg : Cfg) (cm : Option (List Str)) (t : Tok) (s : Str) (hv : t.val = .str s) :
    callback cfg s%"hexcolor" cm [.tok t] = .ok (.tok { t with val := .str (lower (cleanString s)) }) := by
  simp [callback, first, nth, tokOf, strVal, bind, Except.bind, pure, Except.pure, hv]

/-! ### blocks -/

theorem setKey_head_ne (k k0 : Str) (v v0 : J) (r : Fields) (h : k0 ≠ k) :
    setKey k v ((k0, v0) :: r) = (k0, v0) :: setKey k v r := by simp [setKey, h]

theorem appendTo_head (k k0 : Str) (v v0 : J) (r d' : Fields) (hne : k0 ≠ k)
    (h : appendTo k v ((k0, v0) :: r) = .ok d') : ∃ r', d' = (k0, v0) :: r' := by
  unfold appendTo at h
  simp only [lookup, hne, if_false] at h
  split at h
  · injection h with h; exact ⟨_, by rw [← h, setKey_head_ne _ _ _ _ _ hne]⟩
  · injection h with h; exact ⟨_, by rw [← h, setKey_head_ne _ _ _ _ _ hne]⟩
  · simp at h

theorem typeKey_underscored : underscored s%"__type__" = true := by decide

theorem plural_ne_type (k : Str) : s%"__type__" ≠ plural k := by
  intro e
  have h1 : (plural k).getLast? = some 's' := by
    unfold plural; split <;> simp [List.getLast?_append]
  rw [← e] at h1
  revert h1; decide

theorem dataStep_head (Rp : List Str) (key : Str) (v tv : J) (rest d' : Fields) (hne : s%"__type__" ≠ key)
    (h : dataStep Rp key v ((s%"__type__", tv) :: rest) = .ok d') : ∃ rest', d' = (s%"__type__", tv) :: rest' := by
  unfold dataStep at h
  simp only [lookup, hne, if_false] at h
  split at h
  · split at h
    · split at h
      · simp at h
      · split at h
        · injection h with h; exact ⟨_, by rw [← h, setKey_head_ne _ _ _ _ _ hne]⟩
        · injection h with h; exact ⟨_, by rw [← h, setKey_head_ne _ _ _ _ _ hne]⟩
        · simp at h
    · simp at h
  · split at h
    · split at h
      · injection h with h; exact ⟨_, by rw [← h, setKey_head_ne _ _ _ _ _ hne]⟩
      · split at h
        · injection h with h; exact ⟨_, by rw [← h, setKey_head_ne _ _ _ _ _ hne]⟩
        · simp at h
    · split at h
      · exact appendTo_head _ _ _ _ _ _ hne h
      · injection h with h; exact ⟨_, by rw [← h, setKey_head_ne _ _ _ _ _ hne]⟩

/-- one step of `composite` never disturbs the leading `__type__` entry -/
theorem compositeItem_head (cfg : Cfg) (S Rp : List Str) (st st' : CState) (r : R) (tv : J) (rest : Fields)
    (hd : st.d = (s%"__type__", tv) :: rest) (h : compositeItem cfg S Rp st r = .ok st') :
    ∃ rest', st'.d = (s%"__type__", tv) :: rest' := by
  cases r with
  | cdict sub =>
    simp only [compositeItem] at h
    cases hb : blockItem S sub st.d with
    | error e => simp [hb] at h
    | ok d' =>
      simp only [hb] at h; injection h with h; subst h
      unfold blockItem at hb
      split at hb
      · rename_i k _
        by_cases hu : underscored k = true
        · simp [hu] at hb
        · simp only [hu, Bool.false_eq_true, if_false] at hb
          have hne : s%"__type__" ≠ k := by intro e; apply hu; rw [← e]; decide
          split at hb
          · injection hb with hb; exact ⟨_, by rw [← hb, hd, setKey_head_ne _ _ _ _ _ hne]⟩
          · rw [hd] at hb; exact appendTo_head _ _ _ _ _ _ (plural_ne_type k) hb
      · simp at hb
      · simp at hb
  | adict kvs =>
    simp only [compositeItem] at h
    cases hp : attrParts kvs with
    | error e => simp [hp] at h
    | ok parts =>
      obtain ⟨key, v, pos⟩ := parts
      simp only [hp] at h
      have hg := attrParts_guard kvs key v pos hp
      have hne : s%"__type__" ≠ key := by
        intro e; rw [← e] at hg; exact absurd hg.1 (by decide)
      unfold attrItem at h
      cases hds : dataStep Rp key v st.d with
      | error e => simp [hds] at h
      | ok d' =>
        rw [hd] at hds
        obtain ⟨rest', hr⟩ := dataStep_head Rp key v tv rest d' hne hds
        simp only [hd, hds] at h
        split at h
        · injection h with h; subst h; exact ⟨rest', hr⟩
        · split at h
          · simp at h
          · injection h with h; subst h; exact ⟨rest', hr⟩
  | tok _ | seq _ _ | str _ | tree _ _ _ => simp [compositeItem] at h

theorem foldlM_head (cfg : Cfg) (S Rp : List Str) (tv : J) : (items : List R) → ∀ (st st' : CState) (rest : Fields),
    st.d = (s%"__type__", tv) :: rest → items.foldlM (compositeItem cfg S Rp) st = .ok st' →
    ∃ rest', st'.d = (s%"__type__", tv) :: rest'
  | [], st, st', rest, hd, h => by
    simp only [List.foldlM_nil, pure, Except.pure] at h; injection h with h; subst h; exact ⟨rest, hd⟩
  | r :: rs, st, st', rest, hd, h => by
    simp only [List.foldlM_cons, bind, Except.bind] at h
    cases h1 : compositeItem cfg S Rp st r with
    | error e => simp [h1] at h
    | ok st1 =>
      simp only [h1] at h
      obtain ⟨rest1, hd1⟩ := compositeItem_head cfg S Rp st st1 r tv rest hd h1
      exact foldlM_head cfg S Rp tv rs st1 st' rest1 hd1 h

/-- **C02_type_tag** — every block (any type token, any items, any flags) becomes a dict whose first entry is
`__type__` = the lower-cased block keyword -/
theorem C02_type_tag (cfg : Cfg) (S Rp : List Str) (key : Tok) (items : List R) (d : Fields)
    (h : compositeBody cfg S Rp key items = .ok (.cdict d)) :
    ∃ kn rest, valLower key = .ok kn ∧ d = (s%"__type__", .str kn) :: rest := by
  unfold compositeBody at h
  cases hk : valLower key with
  | error e => simp [hk] at h
  | ok kn =>
    simp only [hk] at h
    cases hf : items.foldlM (compositeItem cfg S Rp) (initState cfg kn key) with
    | error e => simp [hf] at h
    | ok st =>
      simp only [hf] at h; injection h with h; injection h with h; subst h
      have h0 : ∃ rest, (initState cfg kn key).d = (s%"__type__", .str kn) :: rest := by
        unfold initState; cases cfg.pos <;> cases cfg.com <;> exact ⟨_, rfl⟩
      obtain ⟨rest0, hd0⟩ := h0
      obtain ⟨rest', hd'⟩ := foldlM_head cfg S Rp (.str kn) items _ st rest0 hd0 hf
      refine ⟨kn, ?_, rfl, ?_⟩
      · exact (finishState cfg st).tail
      · unfold finishState
        have hp : s%"__type__" ≠ posKey := by decide
        have hc : s%"__type__" ≠ comKey := by decide
        cases hpd : st.pd <;> cases hcom : cfg.com <;>
          simp [hd', setKey_head_ne _ _ _ _ _ hp, setKey_head_ne _ _ _ _ _ hc]

/-! ### repeated keywords and repeatable blocks: everything, in source order -/

/-- what an `appendTo` leaves under its key, and that it leaves the other keys alone -/
theorem appendTo_spec (k : Str) (v : J) (d d' : Fields) (h : appendTo k v d = .ok d') :
    (lookup k d' = some (.list ((match lookup k d with | some (.list xs) => xs | _ => []) ++ [v]))) ∧
    (∀ k', k' ≠ k → lookup k' d' = lookup k' d) := by
  unfold appendTo at h
  split at h
  · rename_i hl
    injection h with h; subst h
    exact ⟨by simp [lookup_setKey, hl], fun k' hk => by simp [lookup_setKey, hk]⟩
  · rename_i xs hl
    injection h with h; subst h
    exact ⟨by simp [lookup_setKey, hl], fun k' hk => by simp [lookup_setKey, hk]⟩
  · simp at h

/-- the values a run of simple attributes gives for key `K`, in source order -/
def valuesOf (K : Str) : List (Str × J × J) → List J
  | [] => []
  | (k, v, _) :: r => if k = K then v :: valuesOf K r else valuesOf K r

/-- a step for another keyword leaves key `K` alone -/
theorem dataStep_frame (Rp : List Str) (key K : Str) (v : J) (d d' : Fields) (hne : K ≠ key)
    (h : dataStep Rp key v d = .ok d') : lookup K d' = lookup K d := by
  unfold dataStep at h
  split at h
  · split at h
    · split at h
      · simp at h
      · split at h
        · injection h with h; subst h; simp [lookup_setKey, hne]
        · injection h with h; subst h; simp [lookup_setKey, hne]
        · simp at h
    · simp at h
  · split at h
    · split at h
      · injection h with h; subst h; simp [lookup_setKey, hne]
      · split at h
        · injection h with h; subst h; simp [lookup_setKey, hne]
        · simp at h
    · split at h
      · exact (appendTo_spec key v d d' h).2 K hne
      · injection h with h; subst h; simp [lookup_setKey, hne]

theorem attrItem_data (cfg : Cfg) (Rp : List Str) (st st1 : CState) (k : Str) (v p : J) (c : Option J)
    (h1 : attrItem cfg Rp st k v p c = .ok st1) : dataStep Rp k v st.d = .ok st1.d := by
  unfold attrItem at h1
  cases hds : dataStep Rp k v st.d with
  | error e => simp [hds] at h1
  | ok d' =>
    simp only [hds] at h1
    split at h1
    · injection h1 with h1; subst h1; rfl
    · split at h1
      · simp at h1
      · injection h1 with h1; subst h1; rfl

/-- **C02_repeated_in_order** — PROCESSING / FORMATOPTION / COMPFILTER / INCLUDE (the REPEATED_KEYS): after any run of
simple attributes, the list stored under a repeated keyword is what was there before followed by ALL values given
for it, in source order — nothing dropped, nothing reordered, other keywords' values not mixed in; a keyword not
mentioned in the run keeps what it had. -/
theorem C02_repeated_in_order (cfg : Cfg) (Rp : List Str) (K : Str) (hK : Rp.contains K = true)
    (hc : K ≠ s%"config") (hp : K ≠ s%"points") :
    (items : List (Str × J × J)) → ∀ (st st' : CState), steps cfg Rp items st = .ok st' →
    lookup K st'.d = match valuesOf K items with
      | [] => lookup K st.d
      | vs => some (.list ((match lookup K st.d with | some (.list xs) => xs | _ => []) ++ vs))
  | [], st, st', h => by
    simp only [steps] at h; injection h with h; subst h; simp [valuesOf]
  | (k, v, p) :: r, st, st', h => by
    simp only [steps] at h
    cases h1 : attrItem cfg Rp st k v p none with
    | error e => simp [h1] at h
    | ok st1 =>
      simp only [h1] at h
      have hd1 := attrItem_data cfg Rp st st1 k v p none h1
      have ih := C02_repeated_in_order cfg Rp K hK hc hp r st1 st' h
      by_cases hkK : k = K
      · subst hkK
        have : dataStep Rp k v st.d = appendTo k v st.d := by
          unfold dataStep; rw [if_neg hc, if_neg hp, if_pos hK]
        rw [this] at hd1
        have hs := (appendTo_spec k v st.d st1.d hd1).1
        simp only [valuesOf, if_true]
        rw [ih, hs]
        cases valuesOf k r <;> simp
      · have hfr := dataStep_frame Rp k K v st.d st1.d (Ne.symm hkK) hd1
        simp only [valuesOf, hkK, if_false]
        rw [ih, hfr]

/-! ### nested blocks -/

/-- the run of `composite` over nested blocks -/
def blockSteps (S : List Str) : List Fields → Fields → Res Fields
  | [], d => .ok d
  | sub :: r, d =>
    match blockItem S sub d with
    | .ok d' => blockSteps S r d'
    | .error e => .error e

def typeOf (sub : Fields) : Option Str :=
  match lookup s%"__type__" sub with
  | some (.str k) => some k
  | _ => none

/-- the blocks of type `k` among `subs`, in source order -/
def blocksOf (k : Str) : List Fields → List J
  | [] => []
  | sub :: r => if typeOf sub = some k then .dict sub :: blocksOf k r else blocksOf k r

/-- the key a block of type `k'` is stored under -/
def slot (S : List Str) (k' : Str) : Str := if S.contains k' then k' else plural k'

theorem blockItem_spec (S : List Str) (sub d d' : Fields) (h : blockItem S sub d = .ok d') :
    ∃ k', typeOf sub = some k' ∧
      (if S.contains k' then d' = setKey k' (.dict sub) d else appendTo (plural k') (.dict sub) d = .ok d') := by
  unfold blockItem at h
  split at h
  · rename_i k' hl
    refine ⟨k', by simp [typeOf, hl], ?_⟩
    split at h
    · simp at h
    · split at h
      · rename_i hs; injection h with h; rw [if_pos hs]; exact h.symm
      · rename_i hs; rw [if_neg hs]; exact h
  · simp at h
  · simp at h

/-- **C02_plural_in_order** — repeatable blocks (LAYER, CLASS, STYLE, …): after any run of nested blocks, the list
under `plural k` is what was there before followed by ALL blocks of type `k`, in source order; blocks of other types
(stored under other keys) do not touch it. -/
theorem C02_plural_in_order (S : List Str) (k : Str) (hk : S.contains k = false) :
    (subs : List Fields) → (∀ sub ∈ subs, ∀ k', typeOf sub = some k' → k' ≠ k → slot S k' ≠ plural k) →
    ∀ (d d' : Fields), blockSteps S subs d = .ok d' →
    lookup (plural k) d' = match blocksOf k subs with
      | [] => lookup (plural k) d
      | bs => some (.list ((match lookup (plural k) d with | some (.list xs) => xs | _ => []) ++ bs))
  | [], _, d, d', h => by simp only [blockSteps] at h; injection h with h; subst h; simp [blocksOf]
  | sub :: r, hall, d, d', h => by
    simp only [blockSteps] at h
    cases h1 : blockItem S sub d with
    | error e => simp [h1] at h
    | ok d1 =>
      simp only [h1] at h
      have ih := C02_plural_in_order S k hk r (fun s hs => hall s (by simp [hs])) d1 d' h
      obtain ⟨k', ht, hstep⟩ := blockItem_spec S sub d d1 h1
      by_cases hkk : k' = k
      · subst hkk
        simp only [hk, Bool.false_eq_true, if_false] at hstep
        have hs := (appendTo_spec (plural k') (.dict sub) d d1 hstep).1
        simp only [blocksOf, ht, if_true]
        rw [ih, hs]
        cases blocksOf k' r <;> simp
      · have hslot := hall sub (by simp) k' ht hkk
        have hne : typeOf sub ≠ some k := by rw [ht]; intro e; injection e with e; exact hkk e
        simp only [blocksOf, hne, if_false]
        have hfr : lookup (plural k) d1 = lookup (plural k) d := by
          unfold slot at hslot
          by_cases hs : S.contains k' = true
          · simp only [hs, if_true] at hstep hslot
            subst hstep; simp [lookup_setKey, Ne.symm hslot]
          · simp only [hs, Bool.false_eq_true, if_false] at hstep hslot
            exact (appendTo_spec _ _ d d1 hstep).2 _ (Ne.symm hslot)
        rw [ih, hfr]

/-- **C02_singleton_nested** — a singleton block (WEB, LEGEND, METADATA, …) is nested as a dict under its own name -/
theorem C02_singleton_nested (S : List Str) (sub d d' : Fields) (k : Str) (ht : typeOf sub = some k)
    (hs : S.contains k = true) (h : blockItem S sub d = .ok d') : lookup k d' = some (.dict sub) := by
  obtain ⟨k', ht', hstep⟩ := blockItem_spec S sub d d' h
  rw [ht] at ht'; injection ht' with e; subst e
  simp only [hs, if_true] at hstep
  subst hstep; simp [lookup_setKey]

/-! ### key/value blocks -/

/-- METADATA / VALIDATION / VALUES / CONNECTIONOPTIONS keys are lower-cased and unquoted, values only unquoted -/
theorem C02_kv_pair (a b : Tok) (ka vb : Str) (ha : a.val = .str ka) (hb : b.val = .str vb)
    (hu : underscored (lower (cleanString ka)) = false) :
    pairKV (.seq false [.tok a, .tok b]) = .ok (lower (cleanString ka), .str (cleanString vb)) := by
  simp [pairKV, tokOf, strVal, ha, hb, hu, bind, Except.bind, pure, Except.pure]

/-- non-vacuity: two PROCESSING values around a NAME, in order -/
example : valuesOf s%"processing" [(s%"processing", .str s%"A=1", .null), (s%"name", .str s%"x", .null),
    (s%"processing", .str s%"B=2", .null)] = [.str s%"A=1", .str s%"B=2"] := by decide

end Mappy.Transformer
