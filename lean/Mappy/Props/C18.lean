/-
  C18 — update / find helpers obey their documented laws.  Property theorems about Model/DictUtils.lean
  (tied to dictutils.py by the `update`/`find*` correspondence).  `update` is characterised as the
  left-to-right composition of single-entry updates (`C18_update_seq`), each obeying its law.
-/
import Mappy.Model.DictUtils
import Mappy.Lemmas.Assoc
import Mappy.Lemmas.DictUtils

namespace Mappy.DictUtils

/-- a patch value that takes the final `else` branch of the loop -/
def IsScalarPatch : J → Prop
  | .dict _ => False
  | .list xs => xs.all isDictOrNone = false
  | .tup xs => xs.all isDictOrNone = false
  | _ => True

/-- `update` processes the patch entries one after the other: patching with `p ++ q` is patching with
`p` and then with `q`. -/
theorem C18_update_seq (ci ow : Bool) (p q : Fields) (d1 : J) :
    updFields ci ow d1 (p ++ q) = (updFields ci ow d1 p).bind (fun d => updFields ci ow d q) := by
  induction p generalizing d1 with
  | nil => rfl
  | cons e p ih =>
    obtain ⟨k, v⟩ := e
    by_cases hd : ∃ f, d1 = .dict f
    · obtain ⟨f1, rfl⟩ := hd
      simp only [List.cons_append, updFields_cons]
      cases entry ci ow k v f1 with
      | error e => rfl
      | ok f2 => exact ih _
    · have hn : ∀ f, d1 ≠ .dict f := fun f e => hd ⟨f, e⟩
      simp only [List.cons_append]
      rw [updFields_nondict ci ow d1 _ _ hn, updFields_nondict ci ow d1 _ _ hn]; rfl

/-- each loop iteration is `entry`: the whole patch is the left fold of single-entry updates -/
theorem C18_update_step (ci ow : Bool) (f1 : Fields) (k : Str) (v : J) (r : Fields) :
    updFields ci ow (.dict f1) ((k, v) :: r) =
      (entry ci ow k v f1).bind (fun f2 => updFields ci ow (.dict f2) r) := updFields_cons ci ow f1 k v r

/-- root object deletion: a patch carrying a truthy `__delete__` yields the empty dict -/
theorem C18_update_root_delete (ci ow : Bool) (d1 : J) (d2 : Fields) (h : delFlag d2 = true) :
    update ci ow d1 d2 = .ok (.dict []) := by simp [update, h]

/-- the scalar branch touches only its own key -/
theorem lookup_scalar_ne (ow : Bool) (k k' : Str) (v : J) (f1 : Fields) (hne : k' ≠ k) :
    lookup k' (scalar ow k v f1) = lookup k' f1 := by
  unfold scalar
  split
  · exact lookup_delKey_ne k k' f1 hne
  · split
    · rw [lookup_setKey]; simp [hne]
    · rfl

/-- one entry changes nothing outside its own key -/
theorem entry_untouched (ci ow : Bool) (k : Str) (v : J) (f1 f2 : Fields)
    (h : entry ci ow k v f1 = .ok f2) (k' : Str) (hne : k' ≠ nk ci k) : lookup k' f2 = lookup k' f1 := by
  have hset : ∀ x, lookup k' (setKey (nk ci k) x f1) = lookup k' f1 := fun x => by
    rw [lookup_setKey]; simp [hne]
  have hmap : ∀ {α} (res : Res α) (g : α → J), res.map (fun a => setKey (nk ci k) (g a) f1) = .ok f2 →
      lookup k' f2 = lookup k' f1 := by
    intro α res g hm
    cases res with
    | error e => simp [Except.map] at hm
    | ok a => simp [Except.map] at hm; rw [← hm]; exact hset _
  cases v with
  | dict pv =>
    simp only [entry] at h
    split at h
    · split at h
      · injection h with h; rw [← h]; exact lookup_delKey_ne _ _ _ hne
      · simp at h
    · exact hmap _ id h
  | list xs =>
    simp only [entry] at h
    split at h
    · exact hmap _ J.list h
    · injection h with h; rw [← h]; exact lookup_scalar_ne _ _ _ _ _ hne
  | tup xs =>
    simp only [entry] at h
    split at h
    · exact hmap _ J.list h
    · injection h with h; rw [← h]; exact lookup_scalar_ne _ _ _ _ _ hne
  | null => simp only [entry] at h; injection h with h; rw [← h]; exact lookup_scalar_ne _ _ _ _ _ hne
  | bool b => simp only [entry] at h; injection h with h; rw [← h]; exact lookup_scalar_ne _ _ _ _ _ hne
  | int n => simp only [entry] at h; injection h with h; rw [← h]; exact lookup_scalar_ne _ _ _ _ _ hne
  | flt s => simp only [entry] at h; injection h with h; rw [← h]; exact lookup_scalar_ne _ _ _ _ _ hne
  | str s => simp only [entry] at h; injection h with h; rw [← h]; exact lookup_scalar_ne _ _ _ _ _ hne

/-- every key of `d1` not mentioned in `d2` is untouched (keys compared as the dict class compares
them: lower-cased for Mapfile dicts, exactly for plain dicts) -/
theorem C18_update_untouched (ci ow : Bool) (p : Fields) (f1 : Fields) (r : J)
    (h : updFields ci ow (.dict f1) p = .ok r) :
    ∃ fr, r = .dict fr ∧ ∀ k', k' ∉ p.map (fun e => nk ci e.1) → lookup k' fr = lookup k' f1 := by
  induction p generalizing f1 with
  | nil => simp [updFields] at h; exact ⟨f1, h.symm, fun _ _ => rfl⟩
  | cons e p ih =>
    obtain ⟨k, v⟩ := e
    rw [updFields_cons] at h
    cases he : entry ci ow k v f1 with
    | error e => simp [he, Except.bind] at h
    | ok f2 =>
      simp only [he, Except.bind] at h
      obtain ⟨fr, e1, e2⟩ := ih f2 h
      refine ⟨fr, e1, fun k' hk' => ?_⟩
      simp only [List.map_cons, List.mem_cons, not_or] at hk'
      rw [e2 k' hk'.2, entry_untouched ci ow k v f1 f2 he k' hk'.1]

theorem entry_scalar (ci ow : Bool) (k : Str) (v : J) (f1 : Fields) (hv : IsScalarPatch v) :
    entry ci ow k v f1 = .ok (scalar ow (nk ci k) v f1) := by
  cases v with
  | dict pv => exact absurd hv (by simp [IsScalarPatch])
  | list xs => simp only [IsScalarPatch] at hv; simp [entry, hv]
  | tup xs => simp only [IsScalarPatch] at hv; simp [entry, hv]
  | null => rfl
  | bool b => rfl
  | int n => rfl
  | flt s => rfl
  | str s => rfl

/-- scalar and non-object-list values of d2 replace those of d1 … -/
theorem C18_update_scalar (ci : Bool) (k : Str) (v : J) (f1 : Fields) (hv : IsScalarPatch v)
    (hd : v ≠ .str delMark) :
    entry ci true k v f1 = .ok (setKey (nk ci k) v f1) := by
  rw [entry_scalar ci true k v f1 hv]; simp [scalar, hd]

/-- … never when overwrite=False and the key exists (a new key is still added) -/
theorem C18_update_no_overwrite (ci : Bool) (k : Str) (v : J) (f1 : Fields) (hv : IsScalarPatch v)
    (hd : v ≠ .str delMark) :
    entry ci false k v f1 = .ok (if hasKey (nk ci k) f1 then f1 else setKey (nk ci k) v f1) := by
  rw [entry_scalar ci false k v f1 hv]
  by_cases hk : hasKey (nk ci k) f1 = true <;> simp [scalar, hd, hk]

/-- a value '__delete__' removes the key -/
theorem C18_update_delete_key (ci ow : Bool) (k : Str) (f1 : Fields) (hk : hasKey (nk ci k) f1 = true) :
    entry ci ow k (.str delMark) f1 = .ok (delKey (nk ci k) f1) := by
  simp [entry, scalar, hk]

/-- a dict carrying `__delete__` removes the object stored under the key -/
theorem C18_update_delete_obj (ci ow : Bool) (k : Str) (pv f1 : Fields)
    (hk : hasKey (nk ci k) f1 = true) (hd : delFlag pv = true) :
    entry ci ow k (.dict pv) f1 = .ok (delKey (nk ci k) f1) := by
  simp [entry, hk, hd]

/-- nested dicts merge recursively -/
theorem C18_update_merge_rec (ci ow : Bool) (k : Str) (pv f1 : Fields) (sub : J)
    (hs : lookup (nk ci k) f1 = some sub) (hd : delFlag pv = false) :
    entry ci ow k (.dict pv) f1 = (updFields ci ow sub pv).map (fun s => setKey (nk ci k) s f1) := by
  simp [entry, hd, hs]

/-- a list of dicts in the patch merges with the list stored under the key (and only object lists do) -/
theorem C18_update_list_zip (ci ow : Bool) (k : Str) (xs os : List J) (f1 : Fields)
    (hs : lookup (nk ci k) f1 = some (.list os)) (ha : xs.all isDictOrNone = true) :
    entry ci ow k (.list xs) f1 = (updList ci ow os xs).map (fun l => setKey (nk ci k) (.list l) f1) := by
  simp only [entry, ha, if_true, listMerge, hs]

/-- lists of dicts merge index by index: a deleted item is dropped … -/
theorem C18_list_delete (ci ow : Bool) (o : J) (os : List J) (pn : Fields) (ns : List J)
    (hd : delFlag pn = true) : updList ci ow (o :: os) (.dict pn :: ns) = updList ci ow os ns := by
  simp [updList, hd]

/-- … an item present in both is merged in place … -/
theorem C18_list_merge (ci ow : Bool) (of : Fields) (os : List J) (pn : Fields) (ns : List J)
    (hd : delFlag pn = false) :
    updList ci ow (.dict of :: os) (.dict pn :: ns) =
      (updFields ci ow (.dict of) pn).bind (fun d => (updList ci ow os ns).map (d :: ·)) := by
  simp only [updList, hd]
  cases updFields ci ow (.dict of) pn with
  | error e => rfl
  | ok d => cases updList ci ow os ns <;> rfl

/-- … `None` skips an index … -/
theorem C18_list_none_skips (ci ow : Bool) (o : J) (os ns : List J) (ho : o ≠ .null) :
    updList ci ow (o :: os) (.null :: ns) = (updList ci ow os ns).map (o :: ·) := by
  simp only [updList]
  cases o <;> first | exact absurd rfl ho | (cases updList ci ow os ns <;> rfl)

/-- … and extra items are appended (merged into a fresh dict). -/
theorem C18_list_extra (ci ow : Bool) (pn : Fields) (ns : List J) (hd : delFlag pn = false) :
    updList ci ow [] (.dict pn :: ns) =
      (updFields false ow (.dict []) pn).bind (fun d => (updList ci ow [] ns).map (d :: ·)) := by
  simp only [updList, hd]
  cases updFields false ow (.dict []) pn with
  | error e => rfl
  | ok d => cases updList ci ow [] ns <;> rfl

/-- items beyond the patch list are kept -/
theorem C18_list_rest_kept (ci ow : Bool) (os : List J) (h : ∀ o ∈ os, o ≠ .null) :
    updList ci ow os [] = .ok os := by
  cases os with
  | nil => rfl
  | cons o os =>
    simp only [updList]
    congr 1
    have : ∀ l : List J, (∀ o ∈ l, o ≠ .null) → l.map (fun o => match o with | .null => .dict [] | o => o) = l := by
      intro l hl
      induction l with
      | nil => rfl
      | cons a l ih =>
        simp only [List.map_cons]
        rw [ih (fun o ho => hl o (by simp [ho]))]
        have := hl a (by simp)
        cases a <;> first | exact absurd rfl this | rfl
    exact this _ h

/-! ### find helpers -/

/-- the value an item holds under the searched key, if any -/
def held (ci : Bool) (key : Str) : J → Option J
  | .dict f => lookup (nk ci (lower key)) f
  | _ => none

def AllDicts (items : List J) : Prop := ∀ it ∈ items, ∃ f, it = .dict f

/-- find returns the first item whose key equals the value, or None; items lacking the key are skipped -/
theorem C18_find_first (ci : Bool) (key : Str) (value : J) (items : List J) (h : AllDicts items) :
    find ci key value items = .ok ((items.find? (fun it => held ci key it == some value)).getD .null) := by
  induction items with
  | nil => rfl
  | cons it r ih =>
    obtain ⟨f, rfl⟩ := h it (by simp)
    have ih' := ih (fun x hx => h x (by simp [hx]))
    have hh : held ci key (.dict f) = lookup (nk ci (lower key)) f := rfl
    simp only [find, itemGet, List.find?, hh]
    cases hl : lookup (nk ci (lower key)) f with
    | none => simpa using ih'
    | some v =>
      by_cases hv : v = value
      · subst hv; simp
      · have : (some v == some value) = false := by simp [hv]
        simp only [this]
        have : (v == value) = false := by simp [hv]
        simp only [this]
        exact ih'

/-- findall returns the items, in list order, whose key equals the value asked for (or is one of the
values when a list of values is given) -/
theorem C18_findall_spec (ci : Bool) (key : Str) (value : J) (items : List J) (h : AllDicts items) :
    findall ci key value items =
      .ok (items.filter (fun it => match held ci key it with
                                   | some v => (valuesOf value).contains v
                                   | none => false)) := by
  induction items with
  | nil => rfl
  | cons it r ih =>
    obtain ⟨f, rfl⟩ := h it (by simp)
    have ih' := ih (fun x hx => h x (by simp [hx]))
    have hh : held ci key (.dict f) = lookup (nk ci (lower key)) f := rfl
    simp only [findall, itemGet, ih', List.filter, hh]
    cases hl : lookup (nk ci (lower key)) f with
    | none => rfl
    | some v =>
      by_cases hc : (valuesOf value).contains v = true
      · simp only [hc, if_true]
      · have hc' : (valuesOf value).contains v = false := by simpa using hc
        simp only [hc']; rfl

theorem mem_ins (x y : J) (l : List J) : y ∈ ins x l ↔ y = x ∨ y ∈ l := by
  induction l with
  | nil => simp [ins]
  | cons a l ih =>
    simp only [ins]
    split
    · simp
    · simp only [List.mem_cons, ih]
      constructor
      · rintro (h | h | h); exact Or.inr (Or.inl h); exact Or.inl h; exact Or.inr (Or.inr h)
      · rintro (h | h | h); exact Or.inr (Or.inl h); exact Or.inl h; exact Or.inr (Or.inr h)

theorem mem_insertSorted (x y : J) (l : List J) : y ∈ insertSorted x l ↔ y = x ∨ y ∈ l := by
  unfold insertSorted
  split
  · rename_i h
    have hx : x ∈ l := by simpa using h
    constructor
    · exact Or.inr
    · rintro (rfl | h'); exact hx; exact h'
  · exact mem_ins x y l

theorem nodup_ins (x : J) (l : List J) (h : l.Nodup) (hx : x ∉ l) : (ins x l).Nodup := by
  induction l with
  | nil => simp [ins]
  | cons a l ih =>
    simp only [List.nodup_cons] at h
    simp only [List.mem_cons, not_or] at hx
    simp only [ins]
    split
    · simp only [List.nodup_cons, List.mem_cons, not_or]
      exact ⟨⟨hx.1, hx.2⟩, h.1, h.2⟩
    · simp only [List.nodup_cons, mem_ins, not_or]
      exact ⟨⟨fun e => hx.1 e.symm, h.1⟩, ih h.2 hx.2⟩

theorem nodup_insertSorted (x : J) (l : List J) (h : l.Nodup) : (insertSorted x l).Nodup := by
  unfold insertSorted
  split
  · exact h
  · rename_i hc
    exact nodup_ins x l h (by simpa using hc)

/-- findunique: the result has no duplicates, never contains None, and contains exactly the values
some item holds under the key -/
theorem C18_findunique_distinct (ci : Bool) (key : Str) (items : List J) (h : AllDicts items) :
    ∃ l, findunique ci key items = .ok l ∧ l.Nodup ∧
      ∀ v, v ∈ l ↔ (v ≠ .null ∧ ∃ it ∈ items, held ci key it = some v) := by
  induction items with
  | nil => exact ⟨[], rfl, by simp, by simp⟩
  | cons it r ih =>
    obtain ⟨f, rfl⟩ := h it (by simp)
    obtain ⟨l, e1, e2, e3⟩ := ih (fun x hx => h x (by simp [hx]))
    have hh : held ci key (.dict f) = lookup (nk ci (lower key)) f := rfl
    simp only [findunique, itemGet, e1]
    cases hl : lookup (nk ci (lower key)) f with
    | none =>
      refine ⟨l, rfl, e2, fun v => ?_⟩
      rw [e3 v]; simp [hh, hl]
    | some w =>
      by_cases hw : w = .null
      · subst hw
        refine ⟨l, rfl, e2, fun v => ?_⟩
        rw [e3 v]; simp only [List.mem_cons, exists_eq_or_imp, hh, hl]
        constructor
        · rintro ⟨a, b⟩; exact ⟨a, Or.inr b⟩
        · rintro ⟨a, b | b⟩
          · injection b with b; exact absurd b.symm a
          · exact ⟨a, b⟩
      · refine ⟨insertSorted w l, ?_, nodup_insertSorted w l e2, fun v => ?_⟩
        · cases w <;> first | rfl | exact absurd rfl hw
        · rw [mem_insertSorted, e3 v]
          simp only [List.mem_cons, exists_eq_or_imp, hh, hl]
          constructor
          · rintro (rfl | ⟨a, b⟩)
            · exact ⟨hw, Or.inl rfl⟩
            · exact ⟨a, Or.inr b⟩
          · rintro ⟨a, b | b⟩
            · injection b with b; exact Or.inl b.symm
            · exact Or.inr ⟨a, b⟩

/-- integers come out in ascending order -/
def IntsSorted : List J → Prop
  | [] => True
  | [_] => True
  | .int a :: .int b :: r => a ≤ b ∧ IntsSorted (.int b :: r)
  | _ => False

def AllInts (l : List J) : Prop := ∀ x ∈ l, ∃ n, x = .int n

theorem ins_sorted (n : Int) (l : List J) (hl : AllInts l) (hs : IntsSorted l) : IntsSorted (ins (.int n) l) := by
  induction l with
  | nil => simp [ins, IntsSorted]
  | cons a l ih =>
    obtain ⟨m, rfl⟩ := hl a (by simp)
    have hl' : AllInts l := fun x hx => hl x (by simp [hx])
    simp only [ins, jle]
    by_cases hnm : n ≤ m
    · simp only [hnm, decide_true, if_true]
      exact ⟨hnm, hs⟩
    · simp only [hnm, decide_false]
      have hmn : m ≤ n := by omega
      cases l with
      | nil => simp [ins, IntsSorted, hmn]
      | cons b l =>
        obtain ⟨k, rfl⟩ := hl' b (by simp)
        have hs' : m ≤ k ∧ IntsSorted (.int k :: l) := hs
        have ih' := ih hl' hs'.2
        simp only [ins, jle] at ih' ⊢
        by_cases hnk : n ≤ k
        · simp only [hnk, decide_true, if_true] at ih' ⊢
          exact ⟨hmn, ih'⟩
        · simp only [hnk, decide_false] at ih' ⊢
          exact ⟨hs'.1, ih'⟩

theorem C18_findunique_sorted_ints (ci : Bool) (key : Str) (items : List J) (l : List J)
    (h : findunique ci key items = .ok l) (hint : ∀ it ∈ items, ∀ v, held ci key it = some v → ∃ n, v = .int n)
    (hd : AllDicts items) : AllInts l ∧ IntsSorted l := by
  induction items generalizing l with
  | nil => simp [findunique] at h; subst h; exact ⟨by simp [AllInts], trivial⟩
  | cons it r ih =>
    obtain ⟨f, rfl⟩ := hd it (by simp)
    have hh : held ci key (.dict f) = lookup (nk ci (lower key)) f := rfl
    simp only [findunique, itemGet] at h
    cases hr : findunique ci key r with
    | error e => simp [hr] at h
    | ok l' =>
      have ⟨a1, a2⟩ := ih l' hr (fun it hit => hint it (by simp [hit])) (fun x hx => hd x (by simp [hx]))
      simp only [hr] at h
      cases hl : lookup (nk ci (lower key)) f with
      | none => simp [hl] at h; subst h; exact ⟨a1, a2⟩
      | some w =>
        obtain ⟨n, rfl⟩ := hint (.dict f) (by simp) w (by rw [hh, hl])
        simp only [hl] at h
        injection h with h
        subst h
        unfold insertSorted
        split
        · exact ⟨a1, a2⟩
        · refine ⟨?_, ins_sorted n l' a1 a2⟩
          intro x hx
          rcases (mem_ins _ _ _).1 hx with rfl | hx
          · exact ⟨n, rfl⟩
          · exact a1 x hx

/-- findkey follows a key/index path: a path `p ++ q` is `p` followed by `q` -/
theorem C18_findkey_path (ci : Bool) (p q : List PathEl) (d : J) :
    findkey ci d (p ++ q) = (findkey ci d p).bind (fun x => findkey ci x q) := by
  induction p generalizing d with
  | nil => rfl
  | cons e p ih =>
    cases e with
    | key k =>
      cases d with
      | dict f =>
        simp only [List.cons_append, findkey]
        cases lookup (nk ci k) f with
        | none => rfl
        | some v => exact ih v
      | null => rfl
      | bool b => rfl
      | int n => rfl
      | flt s => rfl
      | str s => rfl
      | list xs => rfl
      | tup xs => rfl
    | idx i =>
      cases d with
      | list xs =>
        simp only [List.cons_append, findkey]
        cases pyIndex xs i with
        | none => rfl
        | some v => exact ih v
      | null => rfl
      | bool b => rfl
      | int n => rfl
      | flt s => rfl
      | str s => rfl
      | dict f => rfl
      | tup xs => rfl

/-- purity on real Mapfile dict objects (C12 clause): `find` leaves every item's state unchanged, even
for auto-creating dicts that lack the key -/
theorem C18_find_pure (key : Str) (value : J) (items : List CIDict.St) :
    (findSt key value items).2 = items := by
  induction items with
  | nil => rfl
  | cons s r ih =>
    simp only [findSt]
    by_cases hc : CIDict.contains (lower key) s = true
    · simp only [hc, if_true]
      have hg : ∃ v, CIDict.getitem (lower key) s = .ok (v, s) := by
        simp only [CIDict.contains, CIDict.odContains, hasKey, CIDict.k_, lower_idem] at hc
        simp only [CIDict.getitem, CIDict.defaultGetitem, CIDict.k_, lower_idem, CIDict.odGet]
        cases hl : lookup (lower key) s.items with
        | none => simp [hl] at hc
        | some v => exact ⟨v, rfl⟩
      obtain ⟨v, hv⟩ := hg
      simp only [hv]
      split
      · rfl
      · simp [ih]
    · simp only [hc]; simp [ih]

/-- non-vacuity (tests on literals): a Mapfile-dict patch with a deletion, a nested merge, a list
merge with a None placeholder and a new key. -/
example :
    update true true (.dict [(['a'], .int 1), (['b'], .dict [(['x'], .int 1)]), (['l'], .list [.dict [(['n'], .int 1)], .dict [(['n'], .int 2)]])])
      [(['A'], .str delMark), (['B'], .dict [(['y'], .int 2)]), (['l'], .list [.null, .dict [(delMark, .bool true)], .dict [(['n'], .int 3)]]), (['z'], .int 9)]
    = .ok (.dict [(['b'], .dict [(['x'], .int 1), (['y'], .int 2)]), (['l'], .list [.dict [(['n'], .int 1)], .dict [(['n'], .int 3)]]), (['z'], .int 9)]) := by
  decide

end Mappy.DictUtils
