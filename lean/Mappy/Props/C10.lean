/-
  C10 — expression rewriting preserves structure.  Theorems about Model/Expr.lean (tied to the
  transformer by the `exprnorm` correspondence on real Lark expression trees, exact strings; the ladder
  rules of mapfile.lark are pinned to the constructors of `G` by the grammar translator's obligations).
-/
import Mappy.Model.Expr
import Mappy.Model.Grammar
import Mappy.Gen.Grammar

namespace Mappy.Expr

/-- a balanced piece: scanning it from any depth ≥ 1 changes nothing -/
def Bal (xs : List Tk) : Prop := ∀ d rest, closesLast (d + 1) (xs ++ rest) = closesLast (d + 1) rest

theorem Bal.nil : Bal [] := fun _ _ => rfl
theorem Bal.append {a b : List Tk} (ha : Bal a) (hb : Bal b) : Bal (a ++ b) := by
  intro d rest; rw [List.append_assoc, ha, hb]
theorem Bal.one (t : Tk) (h1 : t ≠ .lp) (h2 : t ≠ .rp) : Bal [t] := by
  intro d rest
  cases t <;> first | exact absurd rfl h1 | exact absurd rfl h2 | simp [closesLast]
theorem Bal.wrap {a : List Tk} (ha : Bal a) : Bal (wrap a) := by
  intro d rest
  simp only [Expr.wrap, List.cons_append, List.append_assoc, closesLast]
  rw [ha (d + 1)]
  simp [closesLast]

theorem bal_commaSep (args : List Str) : Bal (commaSep args) := by
  induction args with
  | nil => exact Bal.nil
  | cons a r ih =>
    cases r with
    | nil => exact Bal.one _ (by simp) (by simp)
    | cons b r' =>
      have : commaSep (a :: b :: r') = [.atom a] ++ ([.comma] ++ commaSep (b :: r')) := rfl
      rw [this]
      exact Bal.append (Bal.one _ (by simp) (by simp)) (Bal.append (Bal.one _ (by simp) (by simp)) ih)

theorem oneGroup_wrap {a : List Tk} (ha : Bal a) : oneGroup (wrap a) = true := by
  have := ha 0 [.rp]
  simp only [Nat.zero_add] at this
  show closesLast 1 (a ++ [.rp]) = true
  rw [this]; rfl

theorem oneGroup_wrap_more {a : List Tk} (ha : Bal a) (y : Tk) (ys : List Tk) :
    oneGroup (wrap a ++ y :: ys) = false := by
  have := ha 0 (.rp :: y :: ys)
  simp only [Nat.zero_add] at this
  show closesLast 1 (a ++ [.rp] ++ y :: ys) = false
  rw [List.append_assoc]
  show closesLast 1 (a ++ .rp :: y :: ys) = false
  rw [this]; rfl

theorem bal_inner_cmp (op : Str) (l r : E) (hl : Bal (norm l)) (hr : Bal (norm r)) : Bal (norm l ++ [.cmp op] ++ norm r) :=
  Bal.append (Bal.append hl (Bal.one _ (by simp) (by simp))) hr
theorem bal_inner_and (l r : E) (hl : Bal (norm l)) (hr : Bal (norm r)) : Bal (norm l ++ [.and] ++ norm r) :=
  Bal.append (Bal.append hl (Bal.one _ (by simp) (by simp))) hr
theorem bal_inner_or (l r : E) (hl : Bal (norm l)) (hr : Bal (norm r)) : Bal (norm l ++ [.or] ++ norm r) :=
  Bal.append (Bal.append hl (Bal.one _ (by simp) (by simp))) hr
theorem bal_inner_call (n : Str) (args : List Str) : Bal ([.fn n] ++ wrap (commaSep args)) :=
  Bal.append (Bal.one _ (by simp) (by simp)) (Bal.wrap (bal_commaSep args))

/-- C10: every normal form is parenthesis-balanced -/
theorem C10_bal_norm (e : E) : Bal (norm e) := by
  induction e with
  | atom s => exact Bal.one _ (by simp) (by simp)
  | call n args => exact Bal.wrap (bal_inner_call n args)
  | paren e ih =>
    simp only [norm]
    split
    · exact ih
    · exact Bal.wrap ih
  | neg e ih => exact Bal.append (a := [.neg]) (Bal.one _ (by simp) (by simp)) ih
  | bin op l r ihl ihr =>
    simp only [norm]
    exact Bal.append (Bal.append ihl (Bal.one _ (by cases op <;> simp [BinOp.tk]) (by cases op <;> simp [BinOp.tk]))) ihr
  | cmp op l r ihl ihr => exact Bal.wrap (bal_inner_cmp op l r ihl ihr)
  | not e ih => exact Bal.append (a := [.not]) (Bal.one _ (by simp) (by simp)) ih
  | and l r ihl ihr => exact Bal.wrap (bal_inner_and l r ihl ihr)
  | or l r ihl ihr => exact Bal.wrap (bal_inner_or l r ihl ihr)

theorem og_cmp (op : Str) (l r : E) : oneGroup (wrap (norm l ++ [.cmp op] ++ norm r)) = true :=
  oneGroup_wrap (bal_inner_cmp op l r (C10_bal_norm l) (C10_bal_norm r))
theorem og_and (l r : E) : oneGroup (wrap (norm l ++ [.and] ++ norm r)) = true :=
  oneGroup_wrap (bal_inner_and l r (C10_bal_norm l) (C10_bal_norm r))
theorem og_or (l r : E) : oneGroup (wrap (norm l ++ [.or] ++ norm r)) = true :=
  oneGroup_wrap (bal_inner_or l r (C10_bal_norm l) (C10_bal_norm r))
theorem og_call (n : Str) (args : List Str) : oneGroup (wrap ([.fn n] ++ wrap (commaSep args))) = true :=
  oneGroup_wrap (bal_inner_call n args)

/-- C10: what is stored for a keyword — `norm` of the outermost `( … )` — is one parenthesised group,
i.e. a single `expression` value (with the repaired wrapping test of the `fix:` commit) -/
theorem C10_top_oneGroup (e : E) : oneGroup (norm (.paren e)) = true := by
  simp only [norm]
  split
  · assumption
  · exact oneGroup_wrap (C10_bal_norm e)

/-- followed by anything, a normal form is never one group (its first group closes inside it) -/
theorem not_oneGroup_more (e : E) (y : Tk) (ys : List Tk) : oneGroup (norm e ++ y :: ys) = false := by
  induction e generalizing y ys with
  | atom s => rfl
  | call n args => exact oneGroup_wrap_more (bal_inner_call n args) y ys
  | paren e ih =>
    simp only [norm]
    split
    · exact ih y ys
    · exact oneGroup_wrap_more (C10_bal_norm e) y ys
  | neg e _ => rfl
  | bin op l r ihl _ =>
    simp only [norm, List.append_assoc]
    exact ihl _ _
  | cmp op l r _ _ => exact oneGroup_wrap_more (bal_inner_cmp op l r (C10_bal_norm l) (C10_bal_norm r)) y ys
  | not e _ => rfl
  | and l r _ _ => exact oneGroup_wrap_more (bal_inner_and l r (C10_bal_norm l) (C10_bal_norm r)) y ys
  | or l r _ _ => exact oneGroup_wrap_more (bal_inner_or l r (C10_bal_norm l) (C10_bal_norm r)) y ys

/-- C10: the parentheses the rewriting adds never regroup operands — the tree re-read from the
normal form has the same operator tree, operands and operator spellings (shape = tree with explicit
parentheses erased) -/
theorem C10_shape_re (e : E) : shape (re e) = shape e := by
  induction e with
  | atom s => rfl
  | call n args => rfl
  | paren e ih => simp only [re]; split <;> simp [shape, ih]
  | neg e ih => simp [re, shape, ih]
  | bin op l r ihl ihr => simp [re, shape, ihl, ihr]
  | cmp op l r ihl ihr => simp [re, shape, ihl, ihr]
  | not e ih => simp [re, shape, ih]
  | and l r ihl ihr => simp [re, shape, ihl, ihr]
  | or l r ihl ihr => simp [re, shape, ihl, ihr]

/-- C10: re-parsing the normalised string and normalising again yields the same string -/
theorem C10_norm_re (e : E) : norm (re e) = norm e := by
  induction e with
  | atom s => rfl
  | call n args => simp only [re, norm, og_call, if_true]
  | paren e ih =>
    simp only [re]
    split
    · rename_i h; simp [norm, h, ih]
    · rename_i h; simp [norm, ih, h]
  | neg e ih => simp [re, norm, ih]
  | bin op l r ihl ihr => simp [re, norm, ihl, ihr]
  | cmp op l r ihl ihr => simp only [re, norm, ihl, ihr, og_cmp, if_true]
  | not e ih => simp [re, norm, ih]
  | and l r ihl ihr => simp only [re, norm, ihl, ihr, og_and, if_true]
  | or l r ihl ihr => simp only [re, norm, ihl, ihr, og_or, if_true]

theorem G.mono_add {m : Nat} {ts : List Tk} {e : E} : ∀ k, G (m + k) ts e → G m ts e
  | 0, h => h
  | k + 1, h => G.mono_add k (G.lift (m + k) ts e h)

theorem G.mono {n : Nat} {ts : List Tk} {e : E} (h : G n ts e) (m : Nat) (hm : m ≤ n) : G m ts e := by
  obtain ⟨k, rfl⟩ := Nat.exists_eq_add_of_le hm
  exact G.mono_add k h

/-- the level at which a normal form is derived: a group is an atom -/
def glvl (e : E) : Nat := if oneGroup (norm e) then 6 else e.lvl

theorem lvl_le_six (e : E) : e.lvl ≤ 6 := by
  cases e with
  | bin op l r => cases op <;> simp [E.lvl]
  | _ => simp [E.lvl]

theorem le_glvl (e : E) : e.lvl ≤ glvl e := by
  unfold glvl; split
  · exact lvl_le_six e
  · exact Nat.le_refl _

/-- C10: the normalised tokens are a sentence of the grammar ladder, derived as `re e` at the tree's
own level (level 6 when they form one group) — so no regrouping is needed to read them -/
theorem C10_derivable (e : E) (h : e.WF) : G (glvl e) (norm e) (re e) := by
  induction e with
  | atom s => exact G.atom s
  | call n args =>
    simp only [glvl, norm, og_call, if_true, re]
    exact G.paren _ _ ((G.call n args h).mono 0 (by omega))
  | paren e ih =>
    have ih' := ih h
    by_cases hg : oneGroup (norm e) = true
    · have : glvl (.paren e) = 6 := by simp [glvl, norm, hg]
      rw [this]
      simp only [norm, re, hg, if_true]
      simpa [glvl, hg] using ih'
    · have hw := oneGroup_wrap (C10_bal_norm e)
      have : glvl (.paren e) = 6 := by simp [glvl, norm, hg, hw]
      rw [this]
      simp only [norm, re, hg]
      exact G.paren _ _ (ih'.mono 0 (by omega))
  | neg e ih =>
    have : glvl (.neg e) = 5 := by simp [glvl, norm, oneGroup, E.lvl]
    rw [this]
    exact G.neg _ _ ((ih h.1).mono 5 (Nat.le_trans h.2 (le_glvl e)))
  | bin op l r ihl ihr =>
    obtain ⟨hl, hr, h1, h2⟩ := h
    have hng : oneGroup (norm (.bin op l r)) = false := by
      simp only [norm, List.append_assoc]; exact not_oneGroup_more l _ _
    have gl := ihl hl
    have gr := ihr hr
    have l1 := le_glvl l
    have r1 := le_glvl r
    cases op with
    | add => simp only [glvl, hng, E.lvl] at *; exact G.add _ _ _ _ (gl.mono 3 (by omega)) (gr.mono 4 (by omega))
    | sub => simp only [glvl, hng, E.lvl] at *; exact G.sub _ _ _ _ (gl.mono 3 (by omega)) (gr.mono 4 (by omega))
    | mul => simp only [glvl, hng, E.lvl] at *; exact G.mul _ _ _ _ (gl.mono 4 (by omega)) (gr.mono 5 (by omega))
    | div => simp only [glvl, hng, E.lvl] at *; exact G.div _ _ _ _ (gl.mono 4 (by omega)) (gr.mono 5 (by omega))
    | pow => simp only [glvl, hng, E.lvl] at *; exact G.pow _ _ _ _ (gl.mono 4 (by omega)) (gr.mono 5 (by omega))
  | cmp op l r ihl ihr =>
    obtain ⟨hl, hr, h1, h2⟩ := h
    simp only [glvl, norm, og_cmp, if_true, re]
    have l1 := le_glvl l
    have r1 := le_glvl r
    exact G.paren _ _ ((G.cmp op _ _ _ _ ((ihl hl).mono 2 (by omega)) ((ihr hr).mono 3 (by omega))).mono 0 (by omega))
  | not e ih =>
    have : glvl (.not e) = 6 := by simp [glvl, norm, oneGroup, E.lvl]
    rw [this]
    exact G.not _ _ ((ih h.1).mono 2 (Nat.le_trans h.2 (le_glvl e)))
  | and l r ihl ihr =>
    obtain ⟨hl, hr, h1, h2⟩ := h
    simp only [glvl, norm, og_and, if_true, re]
    have l1 := le_glvl l
    have r1 := le_glvl r
    exact G.paren _ _ ((G.and _ _ _ _ ((ihl hl).mono 1 (by omega)) ((ihr hr).mono 2 (by omega))).mono 0 (by omega))
  | or l r ihl ihr =>
    obtain ⟨hl, hr, h1, h2⟩ := h
    simp only [glvl, norm, og_or, if_true, re]
    have l1 := le_glvl l
    have r1 := le_glvl r
    exact G.paren _ _ (G.or _ _ _ _ ((ihl hl).mono 0 (by omega)) ((ihr hr).mono 1 (by omega)))

/-- operands and operator spellings in tree order -/
def inorder : E → List Tk
  | .atom s => [.atom s]
  | .call n args => [.fn n] ++ commaSep args
  | .paren e => inorder e
  | .neg e => .neg :: inorder e
  | .bin op l r => inorder l ++ [op.tk] ++ inorder r
  | .cmp op l r => inorder l ++ [.cmp op] ++ inorder r
  | .not e => .not :: inorder e
  | .and l r => inorder l ++ [.and] ++ inorder r
  | .or l r => inorder l ++ [.or] ++ inorder r

def keep (t : Tk) : Bool := decide (t ≠ .lp ∧ t ≠ .rp)

theorem leaves_append (a b : List Tk) : leaves (a ++ b) = leaves a ++ leaves b := by simp [leaves]
theorem leaves_cons_keep (t : Tk) (a : List Tk) (h : t ≠ .lp ∧ t ≠ .rp) : leaves (t :: a) = t :: leaves a := by
  simp [leaves, List.filter_cons, h]
theorem leaves_wrap (a : List Tk) : leaves (wrap a) = leaves a := by
  simp [Expr.wrap, leaves, List.filter_cons, List.filter_append]

theorem leaves_commaSep (args : List Str) : leaves (commaSep args) = commaSep args := by
  induction args with
  | nil => rfl
  | cons a r ih =>
    cases r with
    | nil => simp [commaSep, leaves]
    | cons b r' =>
      have : commaSep (a :: b :: r') = .atom a :: .comma :: commaSep (b :: r') := rfl
      rw [this, leaves_cons_keep _ _ (by simp), leaves_cons_keep _ _ (by simp), ih]

/-- C10: operands and comparison/arithmetic operator spellings are unchanged and in order — the
normal form, parentheses aside, is the in-order reading of the operator tree -/
theorem C10_leaves_in_order (e : E) : leaves (norm e) = inorder e := by
  induction e with
  | atom s => simp [norm, leaves, inorder]
  | call n args =>
    simp only [norm, inorder, leaves_wrap, leaves_append, leaves_commaSep]
    rw [leaves_cons_keep _ _ (by simp)]; rfl
  | paren e ih =>
    simp only [norm, inorder]
    split
    · exact ih
    · rw [leaves_wrap, ih]
  | neg e ih => simp only [norm, inorder]; rw [leaves_cons_keep _ _ (by simp), ih]
  | bin op l r ihl ihr =>
    simp only [norm, inorder, leaves_append, ihl, ihr]
    congr 2
    cases op <;> simp [leaves, BinOp.tk]
  | cmp op l r ihl ihr =>
    simp only [norm, inorder, leaves_wrap, leaves_append, ihl, ihr]
    congr 2
  | not e ih => simp only [norm, inorder]; rw [leaves_cons_keep _ _ (by simp), ih]
  | and l r ihl ihr =>
    simp only [norm, inorder, leaves_wrap, leaves_append, ihl, ihr]
    congr 2
  | or l r ihl ihr =>
    simp only [norm, inorder, leaves_wrap, leaves_append, ihl, ihr]
    congr 2

/-- the defect repaired by the `fix:` commit, kept as a witness: under the old test ("starts with `(`
and ends with `)`") the outer parentheses of `(([a] + 1) * ([b] + 2))` were dropped, and what was
stored was not one group -/
def oldTest (ts : List Tk) : Bool := ts.head? = some .lp && ts.getLast? = some .rp
theorem C10_old_test_witness :
    let e := E.bin .mul (.paren (.bin .add (.atom s%"[a]") (.atom s%"1"))) (.paren (.bin .add (.atom s%"[b]") (.atom s%"2")))
    oldTest (norm e) = true ∧ oneGroup (norm e) = false := by decide

/-- non-vacuity (tests on literals) -/
example : (E.or (.and (.cmp s%"=" (.atom s%"[a]") (.atom s%"1")) (.not (.cmp s%"eq" (.atom s%"[b]") (.atom s%"'x'"))))
    (.cmp s%">" (.bin .add (.atom s%"[c]") (.bin .mul (.atom s%"2") (.neg (.atom s%"[d]")))) (.call s%"length" [s%"[e]"]))).WF := by
  simp [E.WF, E.lvl]
example : str (.paren (.bin .mul (.paren (.bin .add (.atom s%"[a]") (.atom s%"1"))) (.atom s%"2"))) = s%"(([a] + 1) * 2)" := by decide

/-! ### the ladder of mapfile.lark is the ladder `G` was written from

`decide` obligations over the regenerated grammar tables: each rule of the expression ladder has exactly
the alternatives (in any order) that the constructors of `G` and the transformer's call-backs assume.
Swapping two levels, changing associativity or dropping an alias in mapfile.lark breaks one of them. -/
namespace Ladder
open Mappy

def R := Gen.rules

theorem or_test : sameAlts (altsOf R s%"or_test")
    [([s%"or_test", s%"'OR'i", s%"and_test"], []), ([s%"or_test", s%"'||'", s%"and_test"], []), ([s%"and_test"], [])] = true
    ∧ allExpand1 R s%"or_test" = true := by decide
theorem and_test : sameAlts (altsOf R s%"and_test")
    [([s%"and_test", s%"'AND'i", s%"comparison"], []), ([s%"and_test", s%"'&&'", s%"comparison"], []), ([s%"comparison"], [])] = true
    ∧ allExpand1 R s%"and_test" = true := by decide
theorem comparison : sameAlts (altsOf R s%"comparison")
    [([s%"comparison", s%"compare_op", s%"sum"], []), ([s%"sum"], [])] = true ∧ allExpand1 R s%"comparison" = true := by decide
theorem sum : sameAlts (altsOf R s%"sum")
    [([s%"product"], []), ([s%"sum", s%"'+'", s%"product"], s%"add"), ([s%"sum", s%"'-'", s%"product"], s%"sub")] = true
    ∧ allExpand1 R s%"sum" = true := by decide
theorem product : sameAlts (altsOf R s%"product")
    [([s%"unary_expr"], []), ([s%"product", s%"'*'", s%"unary_expr"], s%"mul"), ([s%"product", s%"'/'", s%"unary_expr"], s%"div"),
     ([s%"product", s%"'^'", s%"unary_expr"], s%"power")] = true ∧ allExpand1 R s%"product" = true := by decide
theorem unary_expr : sameAlts (altsOf R s%"unary_expr")
    [([s%"atom"], []), ([s%"'-'", s%"unary_expr"], s%"neg"), ([s%"'+'", s%"unary_expr"], [])] = true
    ∧ allExpand1 R s%"unary_expr" = true := by decide
theorem atom : sameAlts (altsOf R s%"atom") [([s%"func_call"], []), ([s%"value"], [])] = true
    ∧ allExpand1 R s%"atom" = true := by decide
theorem expression : sameAlts (altsOf R s%"expression") [([s%"'('", s%"or_test", s%"')'"], [])] = true := by decide
theorem not_expression : sameAlts (altsOf R s%"not_expression")
    [([s%"'!'", s%"comparison"], []), ([s%"'NOT'i", s%"comparison"], [])] = true := by decide
theorem func_call : sameAlts (altsOf R s%"func_call") [([s%"UNQUOTED_STRING", s%"'('", s%"func_params", s%"')'"], [])] = true := by decide
/-- expressions and NOT-expressions are values (so they can be operands and function arguments) -/
theorem value_has : (altsOf R s%"value").contains ([s%"expression"], []) = true ∧
    (altsOf R s%"value").contains ([s%"not_expression"], []) = true ∧ allExpand1 R s%"value" = true := by decide
/-- every comparison operator is a literal terminal kept by `!compare_op` -/
theorem compare_op : (R.filter (fun r => r.origin = s%"compare_op")).all (fun r => r.keepAll && r.expansion.length == 1) = true := by decide

end Ladder

end Mappy.Expr
