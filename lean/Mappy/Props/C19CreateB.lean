/- C19 — `create(type, version)` validates: the block types of group B (split for parallel kernel evaluation) -/
import Mappy.Props.C19Create
namespace Mappy.Create
theorem C19_create_valid_B : ∀ t ∈ groupB, newFaults t = [] := by decide +kernel
end Mappy.Create
