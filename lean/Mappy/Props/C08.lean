/-
  C08 — recorded positions and validation error locations are exact.
  Theorems about Model/Transformer.lean (positions recorded by `attr` / `composite`) and Model/Validator.lean
  (`create_message`: which recorded position a validation message carries).
-/
import Mappy.Model.Transformer
import Mappy.Model.Validator
import Mappy.Lemmas.Assoc

namespace Mappy.Transformer

theorem flatten_toks : (ts : List Tok) → flatten (ts.map .tok) = .ok ts
  | [] => rfl
  | t :: r => by simp [flatten, flatten_toks r, bind, Except.bind, pure, Except.pure]

theorem mapM_tokOf : (ts : List Tok) → (ts.map R.tok).mapM tokOf = .ok ts
  | [] => rfl
  | t :: r => by simp [List.mapM_cons, tokOf, mapM_tokOf r, bind, Except.bind, pure, Except.pure]

theorem lookupAV_setAV_ne (k k' : Str) (v : AV) (hne : k ≠ k') : (kvs : List (Str × AV)) →
    lookupAV k (setAV k' v kvs) = lookupAV k kvs
  | [] => by simp [setAV, lookupAV, Ne.symm hne]
  | (a, x) :: r => by
    by_cases h : a = k'
    · subst h; simp [setAV, lookupAV, Ne.symm hne]
    · simp only [setAV, h, if_false, lookupAV, lookupAV_setAV_ne k k' v hne r]

/-- the position record `attr` builds: the keyword token's own line and column, then the position of every value
token in source order -/
def attrPos (k : Tok) (ts : List Tok) : J :=
  .dict [(s%"line", k.line), (s%"column", k.col), (s%"values", .list (ts.map posPair))]

/-- **C08_attr_position** — for every keyword token and every non-empty list of value tokens, the dict `attr` returns
records the keyword token's line and column and the value tokens' positions in source order (CONFIG's two tokens are
recorded the same way through `config`). -/
theorem C08_attr_position (k : Tok) (ts : List Tok) (hts : ts ≠ []) (r : R)
    (hcfg : valLower k ≠ .ok s%"config") (h : attr (.tok k :: ts.map .tok) = .ok r) :
    ∃ kvs, r = .adict kvs ∧ lookupAV posKey kvs = some (.j (attrPos k ts)) := by
  cases hk : valLower k with
  | error e => simp [attr, nth, tokOf, hk, bind, Except.bind] at h
  | ok kn =>
    have hc : kn ≠ s%"config" := by intro e; apply hcfg; rw [hk, e]
    by_cases hu : underscored kn = true
    · simp [attr, nth, tokOf, hk, hu, bind, Except.bind, pure, Except.pure] at h
    · have hne : posKey ≠ kn := by intro e; apply hu; rw [← e]; decide
      have hne2 : posKey ≠ s%"__tokens__" := by decide
      match ts, hts with
      | [t], _ =>
        simp [attr, nth, tokOf, hk, hu, bind, Except.bind, pure, Except.pure, isSeq, positionDict, flatten] at h
        subst h
        exact ⟨_, rfl, by rw [lookupAV_setAV_ne _ _ _ hne, lookupAV_setAV_ne _ _ _ hne2]; simp [lookupAV, posKey, attrPos, posPair]⟩
      | t :: t2 :: rest, _ =>
        simp [attr, nth, tokOf, hk, hu, hc, bind, Except.bind, pure, Except.pure, isSeq, positionDict, flatten,
          flatten_toks rest, mapM_tokOf rest, Functor.map, Except.map] at h
        subst h
        exact ⟨_, rfl, by rw [lookupAV_setAV_ne _ _ _ hne, lookupAV_setAV_ne _ _ _ hne2]; simp [lookupAV, posKey, attrPos, posPair]⟩

/-! ### hoisting into the enclosing block: value and position come from the same (last) occurrence -/

/-- a keyword that takes the plain-assignment branch of `composite` -/
def plainKey (Rp : List Str) (key : Str) : Prop := key ≠ s%"config" ∧ key ≠ s%"points" ∧ Rp.contains key = false

theorem dataStep_plain (Rp : List Str) (key : Str) (v : J) (d : Fields) (hp : plainKey Rp key) :
    dataStep Rp key v d = .ok (setKey key v d) := by
  unfold dataStep
  rw [if_neg hp.1, if_neg hp.2.1, hp.2.2]; rfl

theorem posStep_plain (Rp : List Str) (key : Str) (v pos : J) (pd : Fields) (hp : plainKey Rp key) :
    posStep Rp key v pos pd = .ok (setKey key pos pd) := by
  unfold posStep
  rw [if_neg hp.1, if_neg hp.2.1, hp.2.2]; rfl

/-- the run of `composite` over simple attributes `(key, value, position)` -/
def steps (cfg : Cfg) (Rp : List Str) : List (Str × J × J) → CState → Res CState
  | [], st => .ok st
  | (k, v, p) :: r, st =>
    match attrItem cfg Rp st k v p none with
    | .ok st' => steps cfg Rp r st'
    | .error e => .error e

/-- the last occurrence of `key` among the items -/
def lastOcc (key : Str) : List (Str × J × J) → Option (J × J)
  | [] => none
  | (k, v, p) :: r =>
    match lastOcc key r with
    | some x => some x
    | none => if k = key then some (v, p) else none

/-- **C08_last_occurrence** — for every sequence of plain keywords hoisted into a block that records positions: the
value stored under a key and the position stored under it both come from the *last* occurrence of that keyword
(so a validation message about the stored value points at the occurrence that supplied it). -/
theorem C08_last_occurrence (cfg : Cfg) (Rp : List Str) (key : Str) :
    (items : List (Str × J × J)) → (∀ it ∈ items, plainKey Rp it.1) → ∀ (st st' : CState) (pd : Fields),
    st.pd = some pd → steps cfg Rp items st = .ok st' →
    ∃ pd', st'.pd = some pd' ∧
      match lastOcc key items with
      | some (v, p) => lookup key st'.d = some v ∧ lookup key pd' = some p
      | none => lookup key st'.d = lookup key st.d ∧ lookup key pd' = lookup key pd
  | [], _, st, st', pd, hpd, h => by
    simp only [steps] at h; injection h with h; subst h
    exact ⟨pd, hpd, by simp [lastOcc]⟩
  | (k, v, p) :: r, hall, st, st', pd, hpd, h => by
    have hp := hall (k, v, p) (by simp)
    simp only [steps, attrItem, dataStep_plain Rp k v st.d hp, hpd, posStep_plain Rp k v p pd hp] at h
    obtain ⟨pd', hpd', hrest⟩ := C08_last_occurrence cfg Rp key r (fun it hi => hall it (by simp [hi])) _ st' (setKey k p pd) rfl h
    refine ⟨pd', hpd', ?_⟩
    simp only [lastOcc]
    cases hl : lastOcc key r with
    | some x => simp only [hl] at hrest; exact hrest
    | none =>
      simp only [hl] at hrest
      by_cases hk : k = key
      · subst hk
        simp only [if_true]
        rw [hrest.1, hrest.2]
        simp [lookup_setKey]
      · simp only [hk, if_false]
        rw [hrest.1, hrest.2]
        simp [lookup_setKey, Ne.symm hk]

/-- the block's own record starts as its type token's line and column -/
theorem C08_block_position (cfg : Cfg) (kn : Str) (key : Tok) (hp : cfg.pos = true) :
    (initState cfg kn key).pd = some [(s%"line", key.line), (s%"column", key.col)] := by
  simp [initState, hp, posBase]

end Mappy.Transformer

namespace Mappy.Validator
open DictUtils (PathEl findkey)

/-- **C08_message_keyword** — an error on a keyword: the message names the keyword and carries the position recorded
for it in the enclosing object -/
theorem C08_message_keyword (root : J) (pre : List PathEl) (k : Str) (d pd p : Fields)
    (hd : findkey true root pre = .ok (.dict d)) (hpd : lookup posKey d = some (.dict pd))
    (hk : lookup k pd = some (.dict p)) :
    createMessage root (pre ++ [.key k]) = .ok ⟨k, some (lineCol p)⟩ := by
  have hk' : hasKey k pd = true := by simp [hasKey, hk]
  simp [createMessage, target, position, hd, hpd, hk, hk']

/-- **C08_message_object** — an error on an object of a list (unknown / missing keyword in a LAYER, CLASS …): the
message names the object's type and carries the object's own opening position -/
theorem C08_message_object (root : J) (pre : List PathEl) (i : Int) (t : Str) (d pd : Fields)
    (hd : findkey true root (pre ++ [.idx i]) = .ok (.dict d)) (ht : lookup typeKey d = some (.str t))
    (hpd : lookup posKey d = some (.dict pd)) (hk : hasKey t pd = false) :
    createMessage root (pre ++ [.idx i]) = .ok ⟨t, some (lineCol pd)⟩ := by
  simp [createMessage, target, position, hd, ht, hpd, hk]

/-- **C08_message_nested_block** — an error on a nested singleton block (WEB, LEGEND, METADATA …): the message names
the block and carries the block's own opening position, not its parent's -/
theorem C08_message_nested_block (root : J) (pre : List PathEl) (k : Str) (d pd child cpd : Fields)
    (hd : findkey true root pre = .ok (.dict d)) (hpd : lookup posKey d = some (.dict pd))
    (hk : hasKey k pd = false) (hc : lookup (lower k) d = some (.dict child))
    (hcp : lookup posKey child = some (.dict cpd)) :
    createMessage root (pre ++ [.key k]) = .ok ⟨k, some (lineCol cpd)⟩ := by
  simp [createMessage, target, position, hd, hpd, hk, hc, hcp]

/-- **C08_message_root** — an error on the root object carries the root's own position -/
theorem C08_message_root (d pd : Fields) (t : Str) (ht : lookup typeKey d = some (.str t))
    (hpd : lookup posKey d = some (.dict pd)) :
    createMessage (.dict d) [] = .ok ⟨t, some (lineCol pd)⟩ := by
  simp [createMessage, target, position, ht, hpd]

/-- one message per reported error, in order: nothing is dropped or merged -/
theorem C08_messages_length (root : J) : (paths : List (List PathEl)) → (ms : List Msg) →
    errorMessages root paths = .ok ms → ms.length = paths.length
  | [], ms, h => by simp [errorMessages] at h; subst h; rfl
  | p :: r, ms, h => by
    simp only [errorMessages] at h
    cases h1 : createMessage root p with
    | error e => simp [h1] at h
    | ok m =>
      cases h2 : errorMessages root r with
      | error e => simp [h1, h2] at h
      | ok ms' =>
        simp only [h1, h2] at h; injection h with h; subst h
        simp [C08_messages_length root r ms' h2]

end Mappy.Validator
