/-
  C14 — kept comments are verbatim, never invented or duplicated, and stay attached.
  Theorems about Model/Comments.lean (Parser._assign_comments, tied by the `assign` correspondence) and about the
  comment hoisting of Model/Transformer.lean (tied by the `transform` correspondence with include_comments on).
-/
import Mappy.Model.Comments
import Mappy.Model.Transformer

namespace Mappy.Comments
open List

theorem insertSorted_perm (x : Nat × Str) : (l : CD) → insertSorted x l ~ x :: l
  | [] => Perm.refl _
  | y :: r => by
    simp only [insertSorted]
    split
    · exact Perm.refl _
    · exact ((insertSorted_perm x r).cons y).trans (Perm.swap x y r)

theorem sortCD_perm : (l : CD) → sortCD l ~ l
  | [] => Perm.refl _
  | x :: r => (insertSorted_perm x (sortCD r)).trans ((sortCD_perm r).cons x)

/-- taking the comments up to a line splits the dict: nothing is lost, nothing appears twice -/
theorem popLE_perm (line : Nat) (cd : CD) :
    (popLE line cd).1 ++ (popLE line cd).2.map (·.2) ~ cd.map (·.2) := by
  simp only [popLE]
  have h1 := (sortCD_perm (cd.filter fun c => decide (c.1 ≤ line))).map (·.2)
  have h2 := (filter_append_perm (fun c : Nat × Str => decide (c.1 ≤ line)) cd).map (·.2)
  rw [List.map_append] at h2
  exact (h1.append_right _).trans h2

mutual
/-- a tree as the parser hands it to `_assign_comments`: no node carries comments yet -/
def clean : CT → Bool
  | .tok => true
  | .node _ _ _ cm kids => cm.isNone && cleanL kids
def cleanL : List CT → Bool
  | [] => true
  | x :: r => clean x && cleanL r
end

/-- every comment text attached somewhere in a forest -/
def allAttached (ts : List CT) : List Str := (attachedL ts).flatten

mutual
theorem attached_clean : (t : CT) → clean t = true → (attached t).flatten = []
  | .tok, _ => rfl
  | .node _ _ _ cm kids, h => by
    simp only [clean, Bool.and_eq_true, Option.isNone_iff_eq_none] at h
    simp [attached, h.1, attachedL_clean kids h.2]
theorem attachedL_clean : (ts : List CT) → cleanL ts = true → (attachedL ts).flatten = []
  | [], _ => rfl
  | x :: r, h => by
    simp only [cleanL, Bool.and_eq_true] at h
    simp [attachedL, attached_clean x h.1, attachedL_clean r h.2]
end

theorem allAttached_cons (x : CT) (r : List CT) : allAttached (x :: r) = (attached x).flatten ++ allAttached r := by
  simp [allAttached, attachedL]

/-- **C14_conservation** — for every comment dict and every forest (any depth, any mixture of node kinds, nodes with
and without line information): the comment texts attached to nodes together with those left in the dict are a
permutation of the dict's texts.  Hence no comment is invented and none is attached twice. -/
theorem C14_conservation : (cd : CD) → (kids : List CT) → cleanL kids = true →
    allAttached (assignKids cd kids).1 ++ (assignKids cd kids).2.map (·.2) ~ cd.map (·.2)
  | cd, [], _ => by simp [assignKids, allAttached, attachedL]
  | cd, .tok :: r, h => by
    simp only [cleanL, clean, Bool.true_and] at h
    simp only [assignKids, allAttached_cons, attached, List.flatten_nil, List.nil_append]
    exact C14_conservation cd r h
  | cd, .node data none el cm kids :: r, h => by
    simp only [cleanL, Bool.and_eq_true] at h
    simp only [assignKids, allAttached_cons, attached_clean _ h.1, List.nil_append]
    exact C14_conservation cd r h.2
  | cd, .node data (some ln) el cm kids :: r, h => by
    simp only [cleanL, clean, Bool.and_eq_true, Option.isNone_iff_eq_none] at h
    obtain ⟨⟨hcm, hk⟩, hr⟩ := h
    subst hcm
    simp only [assignKids]
    by_cases hc : commentable data = true
    · simp only [hc, if_true, allAttached_cons, attached]
      have hp := popLE_perm (if useEndLine data = true then el.getD ln else ln) cd
      generalize popLE (if useEndLine data = true then el.getD ln else ln) cd = pr at hp ⊢
      obtain ⟨cs, cd1⟩ := pr
      simp only at hp ⊢
      have ih1 := C14_conservation cd1 kids hk
      have ih2 := C14_conservation (assignKids cd1 kids).2 r hr
      have hcs : ((if cs.isEmpty = true then none else some cs : Option (List Str)).getD []) = cs := by
        cases cs <;> simp
      simp only [List.flatten_cons, hcs, List.append_assoc]
      refine (Perm.append_left cs ?_).trans hp
      refine (Perm.append_left _ ih2).trans ?_
      exact ih1
    · simp only [hc, Bool.false_eq_true, if_false, allAttached_cons, attached, Option.getD_none, List.flatten_cons,
        List.nil_append, List.append_assoc]
      have ih1 := C14_conservation cd kids hk
      have ih2 := C14_conservation (assignKids cd kids).2 r hr
      exact (Perm.append_left _ ih2).trans ih1

/-- **C14_no_invention** — every comment a node carries after assignment is the text of a comment of the dict -/
theorem C14_no_invention (cd : CD) (kids : List CT) (h : cleanL kids = true) (c : Str)
    (hc : c ∈ allAttached (assignKids cd kids).1) : c ∈ cd.map (·.2) :=
  (C14_conservation cd kids h).subset (List.mem_append_left _ hc)

/-- **C14_no_duplication** — a comment text is attached at most as often as it occurs in the dict -/
theorem C14_no_duplication (cd : CD) (kids : List CT) (h : cleanL kids = true) (c : Str) :
    (allAttached (assignKids cd kids).1).count c ≤ (cd.map (·.2)).count c := by
  have := (C14_conservation cd kids h).count_eq c
  rw [List.count_append] at this
  omega

theorem mem_insertSorted (x y : Nat × Str) : (l : CD) → (y ∈ insertSorted x l ↔ y = x ∨ y ∈ l) :=
  fun l => (insertSorted_perm x l).mem_iff.trans (by simp)

theorem mem_sortCD (y : Nat × Str) (l : CD) : y ∈ sortCD l ↔ y ∈ l := (sortCD_perm l).mem_iff

/-- **C14_node_takes_comments_up_to_its_line** — a commentable node with line `ln` takes exactly the comments still
in the dict whose line is ≤ `ln` (PROJECTION: ≤ its END line): a `#` comment at the end of a keyword's line, and
comment lines directly above it, go to that keyword; comments further down stay for later nodes. -/
theorem C14_node_takes_comments_up_to_its_line (cd : CD) (data : Str) (ln : Nat) (el : Option Nat) (kids r : List CT)
    (hc : commentable data = true) (c : Str) :
    let line := if useEndLine data then el.getD ln else ln
    (c ∈ (popLE line cd).1 ↔ ∃ k, k ≤ line ∧ (k, c) ∈ cd) ∧
    ((assignKids cd (.node data (some ln) el none kids :: r)).1.head?.map attached).map (·.head?) =
      some (some (if (popLE line cd).1.isEmpty then [] else (popLE line cd).1)) := by
  refine ⟨?_, ?_⟩
  · simp only [popLE, List.mem_map, mem_sortCD, List.mem_filter, decide_eq_true_eq]
    constructor
    · rintro ⟨⟨k, c'⟩, ⟨hm, hk⟩, rfl⟩; exact ⟨k, hk, hm⟩
    · rintro ⟨k, hk, hm⟩; exact ⟨(k, c), ⟨hm, hk⟩, rfl⟩
  · simp only [assignKids, hc, if_true]
    cases h : (popLE (if useEndLine data = true then el.getD ln else ln) cd).1 <;> simp [attached, h]

/-- what stays in the dict afterwards: exactly the comments below the node's line -/
theorem C14_rest_below (line : Nat) (cd : CD) (k : Nat) (c : Str) :
    (k, c) ∈ (popLE line cd).2 ↔ (k, c) ∈ cd ∧ line < k := by
  simp [popLE, List.mem_filter, Nat.not_le]

end Mappy.Comments

namespace Mappy.Transformer

/-- **C14_hoisted_verbatim** — with include_comments, the non-empty comment list of a plain keyword is stored under
that keyword in the block's `__comments__`, unchanged, whatever include_position is -/
theorem C14_hoisted_verbatim (cfg : Cfg) (Rp : List Str) (key : Str) (c : J) (cd : Fields)
    (hcom : cfg.com = true) (h1 : key ≠ s%"config") (h2 : key ≠ s%"points") (h3 : Rp.contains key = false)
    (ht : truthy c = true) : lookup key (comStep cfg Rp key (some c) cd) = some c := by
  have : ¬(key = s%"config" ∨ key = s%"points" ∨ Rp.contains key = true) := by
    rintro (h | h | h)
    · exact h1 h
    · exact h2 h
    · rw [h3] at h; cases h
  simp only [comStep, this, if_false, hcom, ht, Bool.and_self, if_true]
  induction cd with
  | nil => simp [setKey, lookup]
  | cons kv r ih =>
    obtain ⟨a, b⟩ := kv
    by_cases ha : a = key
    · simp [setKey, lookup, ha]
    · simp [setKey, lookup, ha, ih]

/-- no comments, or an empty list: nothing is stored (so nothing is printed) -/
theorem C14_no_comment_no_entry (cfg : Cfg) (Rp : List Str) (key : Str) (cd : Fields) :
    comStep cfg Rp key none cd = cd ∧ comStep cfg Rp key (some (.list [])) cd = cd := by
  constructor <;> (simp only [comStep]; split <;> simp [truthy])

end Mappy.Transformer
