/-
  A decidable classifier for the class `WellRead` of Props/C01Attr.lean: `classify cfg t = some d` implies
  `WellRead cfg t d` (so `C01_document_roundtrip` applies and the transformer returns exactly `d`).  The harness runs
  `classify` on the real Lark tree of every printed document and compares `d` with what the real transformer returned.
-/
import Mappy.Props.C01Attr

namespace Mappy.RoundTrip
open Mappy Mappy.Transformer

theorem takeRun_spec (t : Str) : (items : List R) →
    items = (takeRun t items).1.map R.cdict ++ (takeRun t items).2 ∧
    ∀ sub ∈ (takeRun t items).1, lookup s%"__type__" sub = some (.str t)
  | [] => by simp [takeRun]
  | .cdict sub :: r => by
    by_cases h : typeOfF sub = some t
    · have ih := takeRun_spec t r
      simp only [takeRun, h, if_true, List.map_cons, List.cons_append, List.mem_cons]
      refine ⟨by rw [← ih.1], ?_⟩
      intro x hx
      rcases hx with rfl | hx
      · unfold typeOfF at h
        split at h
        · rename_i k hk; injection h with h; subst h; exact hk
        · simp at h
      · exact ih.2 x hx
    · simp [takeRun, h]
  | .tok _ :: _ | .seq _ _ :: _ | .adict _ :: _ | .str _ :: _ | .tree _ _ _ :: _ => by simp [takeRun]

theorem takeRun_length (t : Str) : (items : List R) → (takeRun t items).2.length ≤ items.length
  | [] => by simp [takeRun]
  | .cdict sub :: r => by
    by_cases h : typeOfF sub = some t
    · have := takeRun_length t r
      simp only [takeRun, h, if_true, List.length_cons]; omega
    · simp [takeRun, h]
  | .tok _ :: _ | .seq _ _ :: _ | .adict _ :: _ | .str _ :: _ | .tree _ _ _ :: _ => by simp [takeRun]

theorem takeLines_spec (k : Str) : (items : List R) →
    ∃ run, items = run ++ (takeLines k items).2 ∧ RepRun k run (takeLines k items).1
  | [] => ⟨[], by simp [takeLines], .nil⟩
  | .adict kvs :: r => by
    cases hp : attrParts kvs with
    | error e => exact ⟨[], by simp [takeLines, hp], by simp only [takeLines, hp]; exact .nil⟩
    | ok x =>
      obtain ⟨k', v, p⟩ := x
      by_cases hk : k' = k
      · subst hk
        obtain ⟨run, h1, h2⟩ := takeLines_spec k' r
        refine ⟨.adict kvs :: run, ?_, ?_⟩
        · simp only [takeLines, hp, if_true, List.cons_append]; rw [← h1]
        · simp only [takeLines, hp, if_true]; exact .cons kvs v p run _ hp h2
      · exact ⟨[], by simp [takeLines, hp, hk], by simp only [takeLines, hp, hk, if_false]; exact .nil⟩
  | .tok _ :: _ | .seq _ _ :: _ | .cdict _ :: _ | .str _ :: _ | .tree _ _ _ :: _ => ⟨[], by simp [takeLines], by simp only [takeLines]; exact .nil⟩

theorem readEntries_sound (S Rp : List Str) : (n : Nat) → (items : List R) → (d : Fields) →
    readEntries S Rp n items = some d → EntriesOf S Rp items d
  | _, [], d, h => by simp [readEntries] at h; subst h; exact .nil
  | 0, _ :: _, d, h => by simp [readEntries] at h
  | n + 1, .adict kvs :: rest, d, h => by
    simp only [readEntries] at h
    cases hp : attrParts kvs with
    | error e => simp [hp] at h
    | ok x =>
      obtain ⟨k, v, p⟩ := x
      simp only [hp] at h
      by_cases hb : plainB Rp k = true
      · simp only [hb, if_true, Option.map_eq_some_iff] at h
        obtain ⟨d', hd', rfl⟩ := h
        simp only [plainB, Bool.and_eq_true, bne_iff_ne, ne_eq, Bool.not_eq_true'] at hb
        exact .line kvs k v p rest d' hp ⟨hb.1, hb.2⟩ (readEntries_sound S Rp n rest d' hd')
      · simp only [hb, Bool.false_eq_true, if_false] at h
        by_cases hr : (k != s%"config" && k != s%"points" && Rp.contains k) = true
        · simp only [hr, if_true, Option.map_eq_some_iff] at h
          obtain ⟨d', hd', rfl⟩ := h
          simp only [Bool.and_eq_true, bne_iff_ne, ne_eq] at hr
          obtain ⟨run, h1, h2⟩ := takeLines_spec k rest
          have := EntriesOf.rep (S := S) (Rp := Rp) k (.adict kvs :: run) (v :: (takeLines k rest).1) (takeLines k rest).2 d'
            (by simp) hr.2 hr.1.1 hr.1.2 (.cons kvs v p run _ hp h2) (readEntries_sound S Rp n _ d' hd')
          simp only [List.cons_append] at this
          rw [← h1] at this
          exact this
        · have hr' : (k != s%"config" && k != s%"points" && Rp.contains k) = false := by simpa using hr
          rw [hr'] at h
          simp at h
  | n + 1, .cdict sub :: rest, d, h => by
    simp only [readEntries] at h
    cases ht : typeOfF sub with
    | none => simp [ht] at h
    | some t =>
      simp only [ht] at h
      have hty : lookup s%"__type__" sub = some (.str t) := by
        unfold typeOfF at ht
        split at ht
        · rename_i k hk; injection ht with ht; subst ht; exact hk
        · simp at ht
      by_cases hu : underscored t = true
      · simp [hu] at h
      · have hu' : underscored t = false := by simpa using hu
        simp only [hu', Bool.false_eq_true, if_false] at h
        by_cases hS : S.contains t = true
        · simp only [hS, if_true, Option.map_eq_some_iff] at h
          obtain ⟨d', hd', rfl⟩ := h
          exact .single t sub rest d' hty hS hu' (readEntries_sound S Rp n rest d' hd')
        · have hS' : S.contains t = false := by simpa using hS
          simp only [hS', Bool.false_eq_true, if_false, Option.map_eq_some_iff] at h
          obtain ⟨d', hd', rfl⟩ := h
          have hspec := takeRun_spec t rest
          have hrest := readEntries_sound S Rp n (takeRun t rest).2 d' hd'
          have := EntriesOf.many (S := S) (Rp := Rp) t (sub :: (takeRun t rest).1) (takeRun t rest).2 d' (by simp)
            (by intro x hx; simp only [List.mem_cons] at hx; rcases hx with rfl | hx; exact hty; exact hspec.2 x hx) hS' hu' hrest
          simp only [List.map_cons, List.cons_append] at this
          rw [← hspec.1] at this
          exact this
  | _ + 1, .tok _ :: _, d, h | _ + 1, .seq _ _ :: _, d, h | _ + 1, .str _ :: _, d, h | _ + 1, .tree _ _ _ :: _, d, h => by
    simp [readEntries] at h

theorem asBlock_some (t : R) (key : Tok) (children : List R) (h : asBlock t = some (key, children)) :
    t = blockTree key children := by
  unfold asBlock at h
  split at h
  · split at h
    · rename_i hd
      obtain ⟨rfl, rfl, rfl⟩ := hd
      injection h with h
      injection h with h1 h2
      subst h1; subst h2
      rfl
    · simp at h
  · simp at h

theorem classifyKids_sound (cfg : Cfg) (f : R → Option Fields) (hf : ∀ c sub, f c = some sub → WellRead cfg c sub) :
    (cs items : List R) → classifyKids cfg f cs = some items → ChildrenRead cfg cs items
  | [], items, h => by simp [classifyKids] at h; subst h; exact .nil
  | c :: rest, items, h => by
    simp only [classifyKids] at h
    cases hr : classifyKids cfg f rest with
    | none => simp [hr] at h
    | some ritems =>
      simp only [hr] at h
      cases hc : f c with
      | some sub =>
        simp only [hc] at h
        injection h with h; subst h
        exact .node c sub rest ritems (hf c sub hc) (classifyKids_sound cfg f hf rest ritems hr)
      | none =>
        simp only [hc] at h
        cases hm : mainT cfg c with
        | error e => simp [hm] at h
        | ok item =>
          simp only [hm] at h
          injection h with h; subst h
          exact .leaf c item rest ritems hm (classifyKids_sound cfg f hf rest ritems hr)

/-- **classify_sound** — whatever the classifier accepts is in the class (with exactly that dictionary) -/
theorem classify_sound (cfg : Cfg) : (fuel : Nat) → (t : R) → (d : Fields) → classify cfg fuel t = some d → WellRead cfg t d
  | 0, _, _, h => by simp [classify] at h
  | fuel + 1, t, d, h => by
    simp only [classify] at h
    cases ha : asBlock t with
    | none => simp [ha] at h
    | some kc =>
      obtain ⟨key, children⟩ := kc
      simp only [ha] at h
      have ht := asBlock_some t key children ha
      subst ht
      cases hv : valLower key with
      | error e => simp [hv] at h
      | ok name =>
        cases hc : classifyKids cfg (classify cfg fuel) children with
        | none => simp [hv, hc] at h
        | some items =>
          simp only [hv, hc] at h
          cases hr : readEntries Gen.singletonNames Gen.repeatedKeys items.length items with
          | none => simp [hr] at h
          | some d' =>
            simp only [hr] at h
            by_cases hl : levelOK d' = true
            · simp only [hl, if_true] at h
              injection h with h; subst h
              simp only [levelOK, Bool.and_eq_true, List.all_eq_true, bne_iff_ne, ne_eq, decide_eq_true_eq] at hl
              exact .block key name children items d' hv
                (classifyKids_sound cfg _ (fun c sub hcs => classify_sound cfg fuel c sub hcs) children items hc)
                (readEntries_sound _ _ _ _ _ hr) (fun kv hkv => hl.1 kv hkv) hl.2
            · simp [hl] at h

/-- **C01_classified_roundtrip** — for every tree the classifier accepts (run on the real tree of every printed document
by the harness), the transformer returns exactly the classifier's dictionary -/
theorem C01_classified_roundtrip (cfg : Cfg) (hp : cfg.pos = false) (hc : cfg.com = false) (fuel : Nat) (t : R) (d : Fields)
    (h : classify cfg fuel t = some d) : mainT cfg t = .ok (.cdict d) :=
  C01_document_roundtrip cfg hp hc (classify_sound cfg fuel t d h)

end Mappy.RoundTrip
