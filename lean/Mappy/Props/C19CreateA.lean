/- C19 — `create(type, version)` validates: the block types of group A (split for parallel kernel evaluation) -/
import Mappy.Props.C19Create
namespace Mappy.Create
theorem C19_create_valid_A : ∀ t ∈ groupA, newFaults t = [] := by decide +kernel
end Mappy.Create
