/-
  C12 — calls are pure, history-independent and safe to run concurrently (partial: real thread schedules are CPython's).
-/
import Mappy.Model.Conc
import Mappy.Gen.Shared
import Mappy.Props.C18
import Mappy.Props.C09

namespace Mappy.Conc

variable {K V : Type} [DecidableEq K]

/-- every cached entry is a value of the function -/
def Sound (f : K → V) (c : Cache K V) : Prop := ∀ k v, find k c = some v → v = f k

theorem step_sound (f : K → V) (c : Cache K V) (k : K) (h : Sound f c) :
    (stepMemo f c k).1 = f k ∧ Sound f (stepMemo f c k).2 := by
  unfold stepMemo
  cases hk : find k c with
  | some v => exact ⟨h k v hk, h⟩
  | none =>
    refine ⟨rfl, ?_⟩
    intro k' v' hf
    simp only [find] at hf
    split at hf
    · rename_i e; injection hf with hf; rw [← hf, e]
    · exact h k' v' hf

/-- **C12_memo_schedule_transparent** — threads that share nothing but a memo cache of a pure function: for EVERY
schedule of their atomic steps (any number of threads, any interleaving, any repetition of keys) every caller gets
exactly the function's value — the sequential result -/
theorem C12_memo_schedule_transparent (f : K → V) : (sched : List K) → (c : Cache K V) → Sound f c →
    (runMemo f c sched).1 = sched.map f
  | [], c, _ => rfl
  | k :: r, c, h => by
    obtain ⟨h1, h2⟩ := step_sound f c k h
    simp only [runMemo, List.map_cons]
    rw [C12_memo_schedule_transparent f r _ h2, h1]

theorem sound_empty (f : K → V) : Sound f ([] : Cache K V) := by intro k v h; simp [find] at h

/-- **C12_parser_history_independent** — whatever a Parser object went through before (any earlier documents, failed
or not, comments on or off), the comment dict a parse works with is built from the comments of the text being parsed
and from nothing else -/
theorem C12_parser_history_independent (st st' : PState) (lexed : List (Nat × Str)) (lo : Comments.CD → Comments.CD) :
    (parseStep true st lexed lo).2 = (parseStep true st' lexed lo).2 ∧
    (parseStep true st lexed lo).2 = some (Comments.buildDict lexed) := by
  simp [parseStep]

/-- **C12_no_shared_mutable_state** — the AST scan of the package (re-run by the translator on every check) finds no
`global` statement, no module-level container that is mutated, no class-level mutable attribute and no mutated
mutable default argument: threads using the module-level API share no mappyfile state -/
theorem C12_no_shared_mutable_state : Gen.sharedMutable = [] := by decide

/-- the audited inventory of places where a function of pprint / validator / dictutils / utils / quoter modifies an object
reachable from its own arguments, or calls a function that does (regenerated from the source by the AST scan of
tools/vlib/translate.py on every run).  Each direct site is allowed by the property: `separate_complex` → `dict_move_to_end`
only runs under `separate_complex_types` (excluded by the property); `_add_type_comment` appends to the line accumulator its
caller created; `create_message` writes `__comments__` only under `add_comments` (excluded); `get_versioned_properties`
prunes the *schema* it was handed, never a Mapfile dictionary (C09 covers its sharing); `update` changes its first argument
by contract (C18); `dict_move_to_end` is the primitive behind the first.  The remaining entries are the call edges that
lead there (their multiplicity is not recorded: how often a helper is called is layout).  A new item assignment, deletion, mutating method call or call edge on a caller-owned object — such as quoting
the items of a list value in place inside `format_value` — changes the regenerated list and breaks this obligation. -/
def auditedMutations : List (Str × Str × Str × Nat) := [
  (s%"pprint", s%"PrettyPrinter.separate_complex", s%"call:dict_move_to_end", 0),
  (s%"pprint", s%"PrettyPrinter.pprint", s%"call:_format", 0),
  (s%"pprint", s%"PrettyPrinter._add_type_comment", s%".append", 1),
  (s%"pprint", s%"PrettyPrinter._format", s%"call:_format", 0),
  (s%"pprint", s%"PrettyPrinter._format", s%"call:separate_complex", 0),
  (s%"validator", s%"Validator.get_versioned_schema", s%"call:get_versioned_properties", 0),
  (s%"validator", s%"Validator.get_versioned_properties", s%"call:get_versioned_properties", 0),
  (s%"validator", s%"Validator.get_versioned_properties", s%"delitem", 1),
  (s%"validator", s%"Validator.get_versioned_properties", s%"setitem", 1),
  (s%"validator", s%"Validator.create_message", s%"setitem", 2),
  (s%"validator", s%"Validator.get_error_messages", s%"call:create_message", 0),
  (s%"validator", s%"Validator._get_errors", s%"call:get_error_messages", 0),
  (s%"validator", s%"Validator.validate", s%"call:_get_errors", 0),
  (s%"validator", s%"Validator.validate", s%"call:get_versioned_schema", 0),
  (s%"dictutils", s%"update", s%"call:update", 0),
  (s%"dictutils", s%"update", s%"delitem", 2),
  (s%"dictutils", s%"update", s%"setitem", 3),
  (s%"dictutils", s%"dict_move_to_end", s%".move_to_end", 1),
  (s%"utils", s%"dump", s%"call:_pprint", 0),
  (s%"utils", s%"save", s%"call:_pprint", 0),
  (s%"utils", s%"dumps", s%"call:_pprint", 0),
  (s%"utils", s%"validate", s%"call:validate", 0),
  (s%"utils", s%"_pprint", s%"call:pprint", 0),
  (s%"utils", s%"create", s%"call:get_versioned_schema", 0)]

/-- **C12_argument_mutations_audited** — the regenerated inventory is exactly the audited one -/
theorem C12_argument_mutations_audited : Gen.argMutations = auditedMutations := by decide +kernel

end Mappy.Conc
