/-
  C12 — calls are pure, history-independent and safe to run concurrently (partial: real thread schedules are CPython's).
-/
import Mappy.Model.Conc
import Mappy.Gen.Shared
import Mappy.Props.C18
import Mappy.Props.C09

namespace Mappy.Conc

variable {K V : Type} [DecidableEq K]

/-- every cached entry is a value of the function -/
def Sound (f : K → V) (c : Cache K V) : Prop := ∀ k v, find k c = some v → v = f k

theorem step_sound (f : K → V) (c : Cache K V) (k : K) (h : Sound f c) :
    (stepMemo f c k).1 = f k ∧ Sound f (stepMemo f c k).2 := by
  unfold stepMemo
  cases hk : find k c with
  | some v => exact ⟨h k v hk, h⟩
  | none =>
    refine ⟨rfl, ?_⟩
    intro k' v' hf
    simp only [find] at hf
    split at hf
    · rename_i e; injection hf with hf; rw [← hf, e]
    · exact h k' v' hf

/-- **C12_memo_schedule_transparent** — threads that share nothing but a memo cache of a pure function: for EVERY
schedule of their atomic steps (any number of threads, any interleaving, any repetition of keys) every caller gets
exactly the function's value — the sequential result -/
theorem C12_memo_schedule_transparent (f : K → V) : (sched : List K) → (c : Cache K V) → Sound f c →
    (runMemo f c sched).1 = sched.map f
  | [], c, _ => rfl
  | k :: r, c, h => by
    obtain ⟨h1, h2⟩ := step_sound f c k h
    simp only [runMemo, List.map_cons]
    rw [C12_memo_schedule_transparent f r _ h2, h1]

theorem sound_empty (f : K → V) : Sound f ([] : Cache K V) := by intro k v h; simp [find] at h

/-- **C12_parser_history_independent** — whatever a Parser object went through before (any earlier documents, failed
or not, comments on or off), the comment dict a parse works with is built from the comments of the text being parsed
and from nothing else -/
theorem C12_parser_history_independent (st st' : PState) (lexed : List (Nat × Str)) (lo : Comments.CD → Comments.CD) :
    (parseStep true st lexed lo).2 = (parseStep true st' lexed lo).2 ∧
    (parseStep true st lexed lo).2 = some (Comments.buildDict lexed) := by
  simp [parseStep]

/-- **C12_no_shared_mutable_state** — the AST scan of the package (re-run by the translator on every check) finds no
`global` statement, no module-level container that is mutated, no class-level mutable attribute and no mutated
mutable default argument: threads using the module-level API share no mappyfile state -/
theorem C12_no_shared_mutable_state : Gen.sharedMutable = [] := by decide

end Mappy.Conc
