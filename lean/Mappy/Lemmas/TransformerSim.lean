/-
  Helper lemmas about Model/Transformer.lean: erasing the bookkeeping keys (`stripF`) commutes with every step the
  `composite` call-back takes on the block's own dict.
-/
import Mappy.Model.Transformer
import Mappy.Lemmas.Assoc

namespace Mappy.Transformer

theorem hidden_underscored (k : Str) (h : hiddenKey k = true) : underscored k = true := by
  simp only [hiddenKey, Bool.or_eq_true, decide_eq_true_eq] at h
  rcases h with h | h <;> subst h <;> decide

theorem not_hidden_of_not_underscored (k : Str) (h : underscored k = false) : hiddenKey k = false := by
  cases hh : hiddenKey k with
  | false => rfl
  | true => rw [hidden_underscored k hh] at h; cases h

theorem getLast_hidden (k : Str) (h : hiddenKey k = true) : k.getLast? = some '_' := by
  simp only [hiddenKey, Bool.or_eq_true, decide_eq_true_eq] at h
  rcases h with h | h <;> subst h <;> decide

theorem plural_not_hidden (k : Str) : hiddenKey (plural k) = false := by
  cases hh : hiddenKey (plural k) with
  | false => rfl
  | true =>
    have := getLast_hidden _ hh
    unfold plural at this
    split at this <;> simp [List.getLast?_append] at this

theorem lookup_stripF (k : Str) (hk : hiddenKey k = false) : (d : Fields) → lookup k (stripF d) = (lookup k d).map stripJ
  | [] => by simp [stripF, lookup]
  | (k', v) :: r => by
    simp only [stripF]
    by_cases hh : hiddenKey k' = true
    · have hne : k' ≠ k := by intro e; rw [e, hk] at hh; cases hh
      simp only [hh, if_true, lookup, hne, if_false]
      exact lookup_stripF k hk r
    · simp only [hh, Bool.false_eq_true, if_false, lookup]
      by_cases he : k' = k
      · simp [he]
      · simp only [he, if_false]; exact lookup_stripF k hk r

theorem stripF_setKey (k : Str) (v : J) (hk : hiddenKey k = false) : (d : Fields) →
    stripF (setKey k v d) = setKey k (stripJ v) (stripF d)
  | [] => by simp [setKey, stripF, hk]
  | (k', v') :: r => by
    simp only [setKey]
    by_cases he : k' = k
    · subst he; simp [stripF, hk, setKey]
    · simp only [he, if_false, stripF]
      by_cases hh : hiddenKey k' = true
      · simp only [hh, if_true]; exact stripF_setKey k v hk r
      · simp only [hh, Bool.false_eq_true, if_false, setKey, he, stripF_setKey k v hk r]

theorem stripF_setKey_hidden (k : Str) (v : J) (hk : hiddenKey k = true) : (d : Fields) →
    stripF (setKey k v d) = stripF d
  | [] => by simp [setKey, stripF, hk]
  | (k', v') :: r => by
    simp only [setKey]
    by_cases he : k' = k
    · subst he; simp [stripF, hk]
    · simp only [he, if_false, stripF, stripF_setKey_hidden k v hk r]

theorem stripL_append (xs ys : List J) : stripL (xs ++ ys) = stripL xs ++ stripL ys := by
  induction xs with
  | nil => simp [stripL]
  | cons x r ih => simp [stripL, ih]

theorem appendTo_strip (k : Str) (v : J) (d d' : Fields) (hk : hiddenKey k = false)
    (h : appendTo k v d = .ok d') : appendTo k (stripJ v) (stripF d) = .ok (stripF d') := by
  unfold appendTo at h ⊢
  rw [lookup_stripF k hk]
  cases hl : lookup k d with
  | none =>
    simp only [hl] at h; injection h with h; subst h
    simp [stripF_setKey k _ hk, stripJ, stripL]
  | some x =>
    simp only [hl] at h
    cases x with
    | list xs =>
      simp only at h; injection h with h; subst h
      simp [stripF_setKey k _ hk, stripJ, stripL_append, stripL]
    | _ => simp at h

/-- the hidden keys are not in the way of a `__type__` look-up -/
theorem lookup_type_stripF (sub : Fields) : lookup s%"__type__" (stripF sub) = (lookup s%"__type__" sub).map stripJ :=
  lookup_stripF _ (by decide) sub

theorem blockItem_strip (S : List Str) (sub d d' : Fields) (h : blockItem S sub d = .ok d') :
    blockItem S (stripF sub) (stripF d) = .ok (stripF d') := by
  unfold blockItem at h ⊢
  rw [lookup_type_stripF]
  cases hl : lookup s%"__type__" sub with
  | none => simp [hl] at h
  | some x =>
    simp only [hl] at h
    cases x with
    | str k =>
      simp only [Option.map, stripJ] at h ⊢
      by_cases hu : underscored k = true
      · simp [hu] at h
      · simp only [hu, Bool.false_eq_true, if_false] at h ⊢
        have hk := not_hidden_of_not_underscored k (by simpa using hu)
        by_cases hs : S.contains k = true
        · simp only [hs, if_true] at h ⊢
          injection h with h; subst h
          simp [stripF_setKey k _ hk, stripJ]
        · simp only [hs, Bool.false_eq_true, if_false] at h ⊢
          have := appendTo_strip (plural k) (.dict sub) d d' (plural_not_hidden k) h
          simpa [stripJ] using this
    | _ => simp at h

theorem stripF_fold_config (sub : Fields) (hs : sub.any (fun kv => hiddenKey (lower kv.1)) = false)
    (hv : stripF sub = sub) : (c : Fields) →
    stripF (sub.foldl (fun c kv => setKey (lower kv.1) kv.2 c) c) = sub.foldl (fun c kv => setKey (lower kv.1) kv.2 c) (stripF c) := by
  induction sub with
  | nil => intro c; rfl
  | cons kv r ih =>
    intro c
    obtain ⟨k, v⟩ := kv
    simp only [List.any_cons, Bool.or_eq_false_iff] at hs
    simp only [stripF] at hv
    by_cases hh : hiddenKey k = true
    · -- then stripF drops the entry and the list gets shorter: impossible
      simp only [hh, if_true] at hv
      have : (stripF r).length ≤ r.length := by
        clear ih hs hv
        induction r with
        | nil => simp [stripF]
        | cons x r ih => obtain ⟨a, b⟩ := x; simp only [stripF]; split <;> simp <;> omega
      rw [hv] at this; simp only [List.length_cons] at this; omega
    · simp only [hh, Bool.false_eq_true, if_false] at hv
      injection hv with h1 h2
      injection h1 with _ h1
      simp only [List.foldl_cons]
      rw [ih hs.2 h2, stripF_setKey _ _ hs.1, h1]

mutual
theorem depthJ_strip : (x : J) → depthJ (stripJ x) = depthJ x
  | .list xs => by simp [stripJ, depthJ, depthL_strip xs]
  | .tup xs => by simp [stripJ, depthJ, depthL_strip xs]
  | .dict _ => by simp [stripJ, depthJ]
  | .null | .bool _ | .int _ | .flt _ | .str _ => by simp [stripJ]
theorem depthL_strip : (xs : List J) → depthL (stripL xs) = depthL xs
  | [] => by simp [stripL]
  | x :: r => by simp [stripL, depthL, depthJ_strip x, depthL_strip r]
end

theorem dataStep_strip (Rp : List Str) (key : Str) (v : J) (d d' : Fields) (hk : hiddenKey key = false)
    (hv : stripJ v = v) (h : dataStep Rp key v d = .ok d') : dataStep Rp key v (stripF d) = .ok (stripF d') := by
  unfold dataStep at h ⊢
  rw [lookup_stripF key hk]
  by_cases h1 : key = s%"config"
  · simp only [h1, if_true] at h ⊢
    cases v with
    | dict sub =>
      simp only at h ⊢
      by_cases ha : sub.any (fun kv => hiddenKey (lower kv.1)) = true
      · simp [ha] at h
      · simp only [ha, Bool.false_eq_true, if_false] at h ⊢
        have hsub : stripF sub = sub := by simpa [stripJ] using hv
        have hk' : hiddenKey s%"config" = false := by decide
        cases hl : lookup s%"config" d with
        | none =>
          simp only [hl] at h; injection h with h; subst h
          have := stripF_fold_config sub (by simpa using ha) hsub []
          simp [stripF_setKey _ _ hk', stripJ, this, stripF]
        | some x =>
          simp only [hl] at h
          cases x with
          | dict c =>
            simp only at h; injection h with h; subst h
            have := stripF_fold_config sub (by simpa using ha) hsub c
            simp [stripF_setKey _ _ hk', stripJ, this]
          | _ => simp at h
    | _ => simp at h
  · simp only [h1, if_false] at h ⊢
    by_cases h2 : key = s%"points"
    · simp only [h2, if_true] at h ⊢
      have hk' : hiddenKey s%"points" = false := by decide
      cases hl : lookup s%"points" d with
      | none =>
        simp only [hl] at h; injection h with h; subst h
        simp [stripF_setKey _ _ hk', hv]
      | some ex =>
        simp only [hl, Option.map, depthJ_strip] at h ⊢
        by_cases hd : depthJ ex = 2
        · simp only [hd, if_true] at h ⊢
          injection h with h; subst h
          simp [stripF_setKey _ _ hk', stripJ, stripL, hv]
        · simp only [hd, if_false] at h ⊢
          cases ex with
          | list xs =>
            simp only [stripJ] at h ⊢
            injection h with h; subst h
            simp [stripF_setKey _ _ hk', stripJ, stripL_append, stripL, hv]
          | _ => simp at h
    · simp only [h2, if_false] at h ⊢
      by_cases h3 : Rp.contains key = true
      · simp only [h3, if_true] at h ⊢
        have := appendTo_strip key v d d' hk h
        rwa [hv] at this
      · simp only [h3, Bool.false_eq_true, if_false] at h ⊢
        injection h with h; subst h
        simp [stripF_setKey key v hk, hv]

/-! ### key/value blocks -/

theorem lowerC_us (c : Char) (h : lowerC c = '_') : c = '_' := by
  unfold lowerC at h
  split at h
  · rename_i hr
    have := congrArg Char.toNat h
    rw [ofNat_toNat (c.toNat + 32) (by omega)] at this
    have h95 : ('_' : Char).toNat = 95 := by decide
    omega
  · exact h

theorem underscored_lower (k : Str) (h : underscored k = false) : underscored (lower k) = false := by
  cases hh : underscored (lower k) with
  | false => rfl
  | true =>
    exfalso
    match k, h, hh with
    | [], _, hh => simp [underscored, lower, startsWith] at hh
    | [a], _, hh => simp [underscored, lower, startsWith] at hh
    | a :: b :: r, h, hh =>
      simp only [underscored, lower, startsWith, List.map_cons, List.isPrefixOf, Bool.and_eq_true, beq_iff_eq,
        Bool.and_true] at hh h
      have ha := lowerC_us a hh.1.symm
      have hb := lowerC_us b hh.2.symm
      subst ha; subst hb
      simp at h

theorem pairKV_guard (t : R) (k : Str) (v : J) (h : pairKV t = .ok (k, v)) :
    underscored k = false ∧ ∃ s, v = .str s := by
  unfold pairKV at h
  split at h
  · simp only [bind, Except.bind] at h
    split at h
    · simp at h
    · split at h
      · simp at h
      · split at h
        · simp at h
        · split at h
          · simp at h
          · split at h
            · simp at h
            · rename_i hu
              simp only [pure, Except.pure] at h
              injection h with h
              simp only [Prod.mk.injEq] at h
              obtain ⟨rfl, rfl⟩ := h
              exact ⟨by simpa using hu, _, rfl⟩
  · simp at h
  · simp at h
  · simp at h

theorem kvDict_strip_aux (kvs : List (Str × J)) (hg : ∀ kv ∈ kvs, underscored kv.1 = false ∧ ∃ s, kv.2 = .str s) :
    ∀ d, stripF d = d → stripF (kvs.foldl (fun d kv => setKey (lower kv.1) kv.2 d) d) =
      kvs.foldl (fun d kv => setKey (lower kv.1) kv.2 d) d := by
  induction kvs with
  | nil => intro d hd; exact hd
  | cons kv r ih =>
    intro d hd
    simp only [List.foldl_cons]
    apply ih (fun x hx => hg x (by simp [hx]))
    obtain ⟨hu, s, hs⟩ := hg kv (by simp)
    rw [stripF_setKey _ _ (not_hidden_of_not_underscored _ (underscored_lower _ hu)), hd, hs]
    simp [stripJ]

theorem kvPairs_guard : (body : List R) → (kvs : List (Str × J)) → kvPairs body = .ok kvs →
    ∀ kv ∈ kvs, underscored kv.1 = false ∧ ∃ s, kv.2 = .str s
  | [], kvs, h => by simp [kvPairs] at h; subst h; simp
  | t :: r, kvs, h => by
    simp only [kvPairs] at h
    cases hp : pairKV t with
    | error e => simp [hp] at h
    | ok kv =>
      simp only [hp] at h
      cases hr : kvPairs r with
      | error e => simp [hr] at h
      | ok kvs' =>
        simp only [hr] at h; injection h with h; subst h
        intro x hx
        simp only [List.mem_cons] at hx
        rcases hx with rfl | hx
        · exact pairKV_guard t x.1 x.2 hp
        · exact kvPairs_guard r kvs' hr x hx

/-- the user part of a key/value block never holds a bookkeeping key -/
theorem kvDict_strip (body : List R) (kvs : List (Str × J)) (h : kvPairs body = .ok kvs) : stripF (kvDict kvs) = kvDict kvs :=
  kvDict_strip_aux kvs (kvPairs_guard body kvs h) [] (by simp [stripF])

end Mappy.Transformer
