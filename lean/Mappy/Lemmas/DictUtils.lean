/- Unfolding lemmas for the `update` model: the loop is a fold of `entry`. -/
import Mappy.Model.DictUtils
import Mappy.Lemmas.Assoc

namespace Mappy.DictUtils

theorem updFields_nondict (ci ow : Bool) (d1 : J) (e : Str × J) (r : Fields)
    (h : ∀ f, d1 ≠ .dict f) : updFields ci ow d1 (e :: r) = .error .typeError := by
  obtain ⟨k, v⟩ := e
  cases d1 <;> first | rfl | exact absurd rfl (h _)

theorem updFields_cons (ci ow : Bool) (f1 : Fields) (k : Str) (v : J) (r : Fields) :
    updFields ci ow (.dict f1) ((k, v) :: r) =
      (entry ci ow k v f1).bind (fun f2 => updFields ci ow (.dict f2) r) := by
  cases v with
  | dict pv =>
    simp only [updFields, entry]
    by_cases hd : delFlag pv = true
    · simp only [hd, if_true]
      by_cases hk : hasKey (nk ci k) f1 = true <;> simp [hk] <;> rfl
    · simp only [hd]
      cases lookup (nk ci k) f1 with
      | none => simp only []; cases updFields false ow (.dict []) pv <;> rfl
      | some sub => simp only []; cases updFields ci ow sub pv <;> rfl
  | list xs =>
    simp only [updFields, entry, listMerge]
    by_cases ha : xs.all isDictOrNone = true
    · simp only [ha, if_true]
      cases lookup (nk ci k) f1 with
      | none => simp only []; cases updList ci ow [] xs <;> rfl
      | some o =>
        cases o with
        | list os => simp only []; cases updList ci ow os xs <;> rfl
        | tup os => simp only []; cases updList ci ow os xs <;> rfl
        | null => rfl
        | bool b => rfl
        | int n => rfl
        | flt s => rfl
        | str s => rfl
        | dict f => rfl
    · simp only [ha]; rfl
  | tup xs =>
    simp only [updFields, entry, listMerge]
    by_cases ha : xs.all isDictOrNone = true
    · simp only [ha, if_true]
      cases lookup (nk ci k) f1 with
      | none => simp only []; cases updList ci ow [] xs <;> rfl
      | some o =>
        cases o with
        | list os => simp only []; cases updList ci ow os xs <;> rfl
        | tup os => simp only []; cases updList ci ow os xs <;> rfl
        | null => rfl
        | bool b => rfl
        | int n => rfl
        | flt s => rfl
        | str s => rfl
        | dict f => rfl
    · simp only [ha]; rfl
  | null => rfl
  | bool b => rfl
  | int n => rfl
  | flt s => rfl
  | str s => rfl

end Mappy.DictUtils
