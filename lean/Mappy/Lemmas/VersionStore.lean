/-
  The version filter on the shared store (Model/Versioning.lean): the in-place walk returns the *local filter* of what
  it is given, whatever the store went through before, and pruning a pruned load changes neither the returned schema
  nor the store.
-/
import Mappy.Model.Versioning
import Mappy.Lemmas.Assoc

namespace Mappy.Versioning

/-! ### the local filter: what one document looks like after the walk, references judged by `rv` -/

mutual
def lFields (v : Int) (rv : Str → Bool) : Fields → Fields
  | [] => []
  | (k, x) :: r =>
    match x with
    | .dict kvs =>
      match refOfFields kvs with
      | some u => if rv u then (k, x) :: lFields v rv r else lFields v rv r
      | none => if isValid v kvs then (k, .dict (lFields v rv kvs)) :: lFields v rv r else lFields v rv r
    | .list xs => (k, .list (lList v rv xs)) :: lFields v rv r
    | _ => (k, x) :: lFields v rv r
def lList (v : Int) (rv : Str → Bool) : List J → List J
  | [] => []
  | e :: es =>
    match e with
    | .dict kvs =>
      match refOfFields kvs with
      | some u => if rv u then e :: lList v rv es else lList v rv es
      | none => if isValid v kvs then .dict (lFields v rv kvs) :: lList v rv es else lList v rv es
    | _ => e :: lList v rv es
end

/-! ### well-formed `metadata` entries -/

def isAtomJ : J → Bool
  | .dict _ => false
  | .list _ => false
  | _ => true

/-- the `metadata` entry of an object is absent, or a flat dict of plain values; when it is itself a reference (the
METADATA block property of an object schema, `{"$ref": "metadata.json"}`) it carries no bounds -/
def okMeta (d : Fields) : Bool :=
  match lookup metaKey d with
  | some (.dict md) =>
    md.all (fun kv => isAtomJ kv.2) &&
      ((refOfFields md).isNone || ((lookup minKey md).isNone && (lookup maxKey md).isNone))
  | some _ => false
  | none => true

/-- the versions the range test is meant for (its defaults are 0 and 1000) -/
def inRange (v : Int) : Prop := 0 ≤ v ∧ v ≤ 1000000

/-- keys are unique (as in every Python dict) -/
def uniq (kvs : Fields) : Bool := decide (keys kvs).Nodup

mutual
def wf : J → Bool
  | .dict kvs => okMeta kvs && uniq kvs && wfF kvs
  | .list xs => wfL xs
  | _ => true
def wfF : Fields → Bool
  | [] => true
  | (_, x) :: r => wf x && wfF r
def wfL : List J → Bool
  | [] => true
  | x :: r => wf x && wfL r
end

theorem keys_lFields_sub (v : Int) (rv : Str → Bool) : (d : Fields) → ∀ k, k ∈ keys (lFields v rv d) → k ∈ keys d
  | [], k, h => by simp [lFields, keys] at h
  | (k', x) :: r, k, h => by
    have ih := keys_lFields_sub v rv r k
    simp only [keys, List.map_cons, List.mem_cons] at ih ⊢
    cases x with
    | dict kvs =>
      simp only [lFields] at h
      split at h <;> split at h <;>
        first
          | (simp only [keys, List.map_cons, List.mem_cons] at h; rcases h with h | h; exact Or.inl h; exact Or.inr (ih h))
          | exact Or.inr (ih h)
    | list xs =>
      simp only [lFields, keys, List.map_cons, List.mem_cons] at h
      rcases h with h | h
      · exact Or.inl h
      · exact Or.inr (ih h)
    | null | bool _ | int _ | flt _ | str _ | tup _ =>
      simp only [lFields, keys, List.map_cons, List.mem_cons] at h
      rcases h with h | h
      · exact Or.inl h
      · exact Or.inr (ih h)

theorem lookup_none_of_not_mem (k : Str) : (d : Fields) → k ∉ keys d → lookup k d = none
  | [], _ => rfl
  | (k', x) :: r, h => by
    simp only [keys, List.map_cons, List.mem_cons, not_or] at h
    simp only [lookup, Ne.symm h.1, if_false]
    exact lookup_none_of_not_mem k r h.2

theorem nodup_lFields (v : Int) (rv : Str → Bool) : (d : Fields) → (keys d).Nodup → (keys (lFields v rv d)).Nodup
  | [], _ => by simp [lFields, keys]
  | (k', x) :: r, h => by
    simp only [keys, List.map_cons, List.nodup_cons] at h
    have ih := nodup_lFields v rv r h.2
    have hk : k' ∉ keys (lFields v rv r) := fun hm => h.1 (keys_lFields_sub v rv r k' hm)
    cases x with
    | dict kvs =>
      simp only [lFields]
      split <;> split <;>
        first
          | (simp only [keys, List.map_cons, List.nodup_cons]; exact ⟨hk, ih⟩)
          | exact ih
    | list xs => simp only [lFields, keys, List.map_cons, List.nodup_cons]; exact ⟨hk, ih⟩
    | null | bool _ | int _ | flt _ | str _ | tup _ =>
      simp only [lFields, keys, List.map_cons, List.nodup_cons]; exact ⟨hk, ih⟩

def strOf : J → Option Str
  | .str s => some s
  | _ => none

/-- filtering never makes a string appear under a key that did not hold one -/
theorem lookup_str_lFields (v : Int) (rv : Str → Bool) (k : Str) : (d : Fields) → (keys d).Nodup →
    (lookup k d).bind strOf = none → (lookup k (lFields v rv d)).bind strOf = none
  | [], _, _ => by simp [lFields, lookup]
  | (k', x) :: r, hn, h => by
    simp only [keys, List.map_cons, List.nodup_cons] at hn
    by_cases hk : k' = k
    · subst hk
      have hnone : lookup k' (lFields v rv r) = none :=
        lookup_none_of_not_mem k' _ (fun hm => hn.1 (keys_lFields_sub v rv r k' hm))
      simp only [lookup, if_true, Option.bind] at h
      cases x with
      | dict kvs =>
        simp only [lFields]
        split <;> split <;> simp [lookup, strOf, hnone]
      | list xs => simp [lFields, lookup, strOf]
      | str s => simp [strOf] at h
      | null | bool _ | int _ | flt _ | tup _ => simp [lFields, lookup, strOf]
    · simp only [lookup, hk, if_false] at h
      have ih := lookup_str_lFields v rv k r hn.2 h
      cases x with
      | dict kvs =>
        simp only [lFields]
        split <;> split <;> simp [lookup, hk, ih]
      | list xs => simp [lFields, lookup, hk, ih]
      | null | bool _ | int _ | flt _ | str _ | tup _ => simp [lFields, lookup, hk, ih]

theorem refOf_lFields_none (v : Int) (rv : Str → Bool) (d : Fields) (hn : (keys d).Nodup) (h : refOfFields d = none) :
    refOfFields (lFields v rv d) = none := by
  have h1 : (lookup s%"$ref" d).bind strOf = none := by
    unfold refOfFields at h
    cases hl : lookup s%"$ref" d with
    | none => rfl
    | some x => cases x <;> simp_all [strOf]
  have h2 := lookup_str_lFields v rv s%"$ref" d hn h1
  unfold refOfFields
  cases hl : lookup s%"$ref" (lFields v rv d) with
  | none => rfl
  | some x => cases x <;> simp_all [strOf]

theorem lFields_atoms (v : Int) (rv : Str → Bool) : (md : Fields) → md.all (fun kv => isAtomJ kv.2) = true →
    lFields v rv md = md
  | [], _ => by simp [lFields]
  | (k, x) :: r, h => by
    simp only [List.all_cons, Bool.and_eq_true] at h
    have ih := lFields_atoms v rv r h.2
    cases x <;> simp_all [lFields, isAtomJ]

theorem atoms_valid (v : Int) (md : Fields) (h : md.all (fun kv => isAtomJ kv.2) = true) : isValid v md = true := by
  unfold isValid
  split
  · rename_i md' hl
    exfalso
    induction md with
    | nil => simp [lookup] at hl
    | cons kv r ih =>
      obtain ⟨k, x⟩ := kv
      simp only [List.all_cons, Bool.and_eq_true] at h
      simp only [lookup] at hl
      split at hl
      · injection hl with hl; subst hl; simp [isAtomJ] at h
      · exact ih h.2 hl
  · rfl

/-- the local filter keeps an object's own `metadata` entry as it is, or drops a bound-free reference entry -/
theorem lookup_meta_lFields (v : Int) (rv : Str → Bool) : (d : Fields) → okMeta d = true → (keys d).Nodup →
    lookup metaKey (lFields v rv d) = lookup metaKey d ∨
    (lookup metaKey (lFields v rv d) = none ∧
      ∃ md, lookup metaKey d = some (.dict md) ∧ lookup minKey md = none ∧ lookup maxKey md = none)
  | [], _, _ => by simp [lFields]
  | (k, x) :: r, h, hn => by
    simp only [keys, List.map_cons, List.nodup_cons] at hn
    by_cases hk : k = metaKey
    · subst hk
      cases x with
      | dict md =>
        have hh : md.all (fun kv => isAtomJ kv.2) = true ∧
            ((refOfFields md).isNone = true ∨ ((lookup minKey md).isNone = true ∧ (lookup maxKey md).isNone = true)) := by
          simpa [okMeta, lookup] using h
        cases hr : refOfFields md with
        | none =>
          left
          simp [lFields, hr, atoms_valid v md hh.1, lookup, lFields_atoms v rv md hh.1]
        | some u =>
          have hb : lookup minKey md = none ∧ lookup maxKey md = none := by
            rcases hh.2 with h1 | h1
            · simp [hr] at h1
            · simpa using h1
          by_cases hv : rv u = true
          · left; simp [lFields, hr, hv, lookup]
          · right
            have hnone : lookup metaKey (lFields v rv r) = none :=
              lookup_none_of_not_mem metaKey _ (fun hm => hn.1 (keys_lFields_sub v rv r metaKey hm))
            exact ⟨by simp [lFields, hr, hv, hnone], md, by simp [lookup], hb.1, hb.2⟩
      | _ => simp [okMeta, lookup] at h
    · have h' : okMeta r = true := by simpa [okMeta, lookup, hk] using h
      have ih := lookup_meta_lFields v rv r h' hn.2
      have e : ∀ y, lookup metaKey ((k, y) :: lFields v rv r) = lookup metaKey (lFields v rv r) := by
        intro y; simp [lookup, hk]
      have e0 : lookup metaKey ((k, x) :: r) = lookup metaKey r := by simp [lookup, hk]
      rw [e0]
      cases x with
      | dict kvs =>
        simp only [lFields]
        split <;> split <;> first | (rw [e]; exact ih) | exact ih
      | list xs => simp only [lFields]; rw [e]; exact ih
      | null | bool _ | int _ | flt _ | str _ | tup _ => simp only [lFields]; rw [e]; exact ih

theorem isValid_lFields (v : Int) (rv : Str → Bool) (hv : inRange v) (d : Fields) (h : okMeta d = true)
    (hn : (keys d).Nodup) : isValid v (lFields v rv d) = isValid v d := by
  rcases lookup_meta_lFields v rv d h hn with e | ⟨e, md, hmd, h1, h2⟩
  · simp only [isValid, e]
  · simp only [isValid, e, hmd, minOf, maxOf, h1, h2]
    have := hv.1; have := hv.2
    simp; omega

theorem okMeta_lFields (v : Int) (rv : Str → Bool) (d : Fields) (h : okMeta d = true) (hn : (keys d).Nodup) :
    okMeta (lFields v rv d) = true := by
  rcases lookup_meta_lFields v rv d h hn with e | ⟨e, _⟩
  · simp only [okMeta, e]; exact h
  · simp only [okMeta, e]

mutual
theorem wfF_lFields (v : Int) (rv : Str → Bool) : (d : Fields) → wfF d = true → wfF (lFields v rv d) = true
  | [], _ => by simp [lFields, wfF]
  | (k, .dict kvs) :: r, h => by
    simp only [wfF, wf, Bool.and_eq_true] at h
    simp only [lFields]
    split
    · split
      · simp [wfF, wf, h.1.1.1, h.1.1.2, h.1.2, wfF_lFields v rv r h.2]
      · exact wfF_lFields v rv r h.2
    · split
      · have hu : uniq (lFields v rv kvs) = true := by
          simp only [uniq, decide_eq_true_eq] at h ⊢; exact nodup_lFields v rv kvs h.1.1.2
        simp [wfF, wf, okMeta_lFields v rv kvs h.1.1.1 (by simpa [uniq] using h.1.1.2), hu, wfF_lFields v rv kvs h.1.2, wfF_lFields v rv r h.2]
      · exact wfF_lFields v rv r h.2
  | (k, .list xs) :: r, h => by
    simp only [wfF, wf, Bool.and_eq_true] at h
    simp [lFields, wfF, wf, wfL_lList v rv xs h.1, wfF_lFields v rv r h.2]
  | (k, .null) :: r, h | (k, .bool _) :: r, h | (k, .int _) :: r, h | (k, .flt _) :: r, h
  | (k, .str _) :: r, h | (k, .tup _) :: r, h => by
    simp only [wfF, Bool.and_eq_true] at h
    simp [lFields, wfF, wf, wfF_lFields v rv r h.2]
theorem wfL_lList (v : Int) (rv : Str → Bool) : (xs : List J) → wfL xs = true → wfL (lList v rv xs) = true
  | [], _ => by simp [lList, wfL]
  | .dict kvs :: es, h => by
    simp only [wfL, wf, Bool.and_eq_true] at h
    simp only [lList]
    split
    · split
      · simp [wfL, wf, h.1.1.1, h.1.1.2, h.1.2, wfL_lList v rv es h.2]
      · exact wfL_lList v rv es h.2
    · split
      · have hu : uniq (lFields v rv kvs) = true := by
          simp only [uniq, decide_eq_true_eq] at h ⊢; exact nodup_lFields v rv kvs h.1.1.2
        simp [wfL, wf, okMeta_lFields v rv kvs h.1.1.1 (by simpa [uniq] using h.1.1.2), hu, wfF_lFields v rv kvs h.1.2, wfL_lList v rv es h.2]
      · exact wfL_lList v rv es h.2
  | .null :: es, h | .bool _ :: es, h | .int _ :: es, h | .flt _ :: es, h
  | .str _ :: es, h | .tup _ :: es, h | .list _ :: es, h => by
    simp only [wfL, Bool.and_eq_true] at h
    simp [lList, wfL, h.1, wfL_lList v rv es h.2]
end

mutual
/-- the local filter is idempotent on well-formed schemas -/
theorem lFields_idem (v : Int) (rv : Str → Bool) (hR : inRange v) : (d : Fields) → wfF d = true →
    lFields v rv (lFields v rv d) = lFields v rv d
  | [], _ => by simp [lFields]
  | (k, .dict kvs) :: r, h => by
    simp only [wfF, wf, Bool.and_eq_true] at h
    simp only [lFields]
    cases hr : refOfFields kvs with
    | some u =>
      simp only
      by_cases hv : rv u = true
      · simp only [hv, if_true, lFields, hr, lFields_idem v rv hR r h.2]
      · simp only [hv, Bool.false_eq_true, if_false, lFields_idem v rv hR r h.2]
    | none =>
      simp only
      by_cases hv : isValid v kvs = true
      · have hr' : refOfFields (lFields v rv kvs) = none :=
          refOf_lFields_none v rv kvs (by simpa [uniq] using h.1.1.2) hr
        simp only [hv, if_true, lFields, hr', isValid_lFields v rv hR kvs h.1.1.1 (by simpa [uniq] using h.1.1.2), lFields_idem v rv hR kvs h.1.2, lFields_idem v rv hR r h.2]
      · simp only [hv, Bool.false_eq_true, if_false, lFields_idem v rv hR r h.2]
  | (k, .list xs) :: r, h => by
    simp only [wfF, wf, Bool.and_eq_true] at h
    simp only [lFields, lList_idem v rv hR xs h.1, lFields_idem v rv hR r h.2]
  | (k, .null) :: r, h | (k, .bool _) :: r, h | (k, .int _) :: r, h | (k, .flt _) :: r, h
  | (k, .str _) :: r, h | (k, .tup _) :: r, h => by
    simp only [wfF, Bool.and_eq_true] at h
    simp only [lFields, lFields_idem v rv hR r h.2]
theorem lList_idem (v : Int) (rv : Str → Bool) (hR : inRange v) : (xs : List J) → wfL xs = true →
    lList v rv (lList v rv xs) = lList v rv xs
  | [], _ => by simp [lList]
  | .dict kvs :: es, h => by
    simp only [wfL, wf, Bool.and_eq_true] at h
    simp only [lList]
    cases hr : refOfFields kvs with
    | some u =>
      simp only
      by_cases hv : rv u = true
      · simp only [hv, if_true, lList, hr, lList_idem v rv hR es h.2]
      · simp only [hv, Bool.false_eq_true, if_false, lList_idem v rv hR es h.2]
    | none =>
      simp only
      by_cases hv : isValid v kvs = true
      · have hr' : refOfFields (lFields v rv kvs) = none :=
          refOf_lFields_none v rv kvs (by simpa [uniq] using h.1.1.2) hr
        simp only [hv, if_true, lList, hr', isValid_lFields v rv hR kvs h.1.1.1 (by simpa [uniq] using h.1.1.2), lFields_idem v rv hR kvs h.1.2, lList_idem v rv hR es h.2]
      · simp only [hv, Bool.false_eq_true, if_false, lList_idem v rv hR es h.2]
  | .null :: es, h | .bool _ :: es, h | .int _ :: es, h | .flt _ :: es, h
  | .str _ :: es, h | .tup _ :: es, h | .list _ :: es, h => by
    simp only [wfL, Bool.and_eq_true] at h
    simp only [lList, lList_idem v rv hR es h.2]
end

/-! ### the walk on the shared store -/

/-- what the walk relies on about the store: references are judged as `rv` says, documents are well formed -/
structure Inv (v : Int) (rv : Str → Bool) (σ : Store) : Prop where
  valid : ∀ u, refValid v σ u = rv u
  wfdoc : ∀ u doc, lookup u σ = some (.dict doc) → wf (.dict doc) = true

theorem wf_dict_lFields (v : Int) (rv : Str → Bool) (doc : Fields) (h : wf (.dict doc) = true) :
    wf (.dict (lFields v rv doc)) = true := by
  simp only [wf, Bool.and_eq_true] at h ⊢
  have hn : (keys doc).Nodup := by simpa [uniq] using h.1.2
  refine ⟨⟨okMeta_lFields v rv doc h.1.1 hn, ?_⟩, wfF_lFields v rv doc h.2⟩
  simp only [uniq, decide_eq_true_eq]
  exact nodup_lFields v rv doc hn

mutual
/-- (A) whatever the store went through, the walk returns the local filter of what it is given, and keeps the invariant -/
theorem fFields_local (v : Int) (rv : Str → Bool) (fo : Str → Store → Store)
    (hfo : ∀ u σ, Inv v rv σ → Inv v rv (fo u σ)) :
    (d : Fields) → ∀ σ, Inv v rv σ → (fFields v fo σ d).1 = lFields v rv d ∧ Inv v rv (fFields v fo σ d).2
  | [], σ, h => by simp [fFields, lFields, h]
  | (k, .dict kvs) :: r, σ, h => by
    simp only [fFields, lFields]
    cases hr : refOfFields kvs with
    | some u =>
      simp only
      have h1 := hfo u σ h
      obtain ⟨e, h2⟩ := fFields_local v rv fo hfo r (fo u σ) h1
      rw [h.valid u]
      refine ⟨?_, h2⟩
      rw [e]
    | none =>
      simp only
      obtain ⟨e1, h1⟩ := fFields_local v rv fo hfo kvs σ h
      obtain ⟨e2, h2⟩ := fFields_local v rv fo hfo r (fFields v fo σ kvs).2 h1
      refine ⟨?_, h2⟩
      rw [e1, e2]
  | (k, .list xs) :: r, σ, h => by
    simp only [fFields, lFields]
    obtain ⟨e1, h1⟩ := fList_local v rv fo hfo xs σ h
    obtain ⟨e2, h2⟩ := fFields_local v rv fo hfo r (fList v fo σ xs).2 h1
    exact ⟨by rw [e1, e2], h2⟩
  | (k, .null) :: r, σ, h | (k, .bool _) :: r, σ, h | (k, .int _) :: r, σ, h | (k, .flt _) :: r, σ, h
  | (k, .str _) :: r, σ, h | (k, .tup _) :: r, σ, h => by
    simp only [fFields, lFields]
    obtain ⟨e2, h2⟩ := fFields_local v rv fo hfo r σ h
    exact ⟨by rw [e2], h2⟩
theorem fList_local (v : Int) (rv : Str → Bool) (fo : Str → Store → Store)
    (hfo : ∀ u σ, Inv v rv σ → Inv v rv (fo u σ)) :
    (xs : List J) → ∀ σ, Inv v rv σ → (fList v fo σ xs).1 = lList v rv xs ∧ Inv v rv (fList v fo σ xs).2
  | [], σ, h => by simp [fList, lList, h]
  | .dict kvs :: es, σ, h => by
    simp only [fList, lList]
    cases hr : refOfFields kvs with
    | some u =>
      simp only [h.valid u]
      by_cases hv : rv u = true
      · simp only [hv, if_true]
        obtain ⟨e, h2⟩ := fList_local v rv fo hfo es (fo u σ) (hfo u σ h)
        exact ⟨by rw [e], h2⟩
      · simp only [hv, Bool.false_eq_true, if_false]
        exact fList_local v rv fo hfo es σ h
    | none =>
      simp only
      by_cases hv : isValid v kvs = true
      · simp only [hv, if_true]
        obtain ⟨e1, h1⟩ := fFields_local v rv fo hfo kvs σ h
        obtain ⟨e2, h2⟩ := fList_local v rv fo hfo es (fFields v fo σ kvs).2 h1
        exact ⟨by rw [e1, e2], h2⟩
      · simp only [hv, Bool.false_eq_true, if_false]
        exact fList_local v rv fo hfo es σ h
  | .null :: es, σ, h | .bool _ :: es, σ, h | .int _ :: es, σ, h | .flt _ :: es, σ, h
  | .str _ :: es, σ, h | .tup _ :: es, σ, h | .list _ :: es, σ, h => by
    simp only [fList, lList]
    obtain ⟨e2, h2⟩ := fList_local v rv fo hfo es σ h
    exact ⟨by rw [e2], h2⟩
end

/-- (B) pruning a document inside the store keeps the invariant, for every walk budget -/
theorem follow_inv (v : Int) (rv : Str → Bool) (hv : inRange v) : (n : Nat) → ∀ u σ, Inv v rv σ → Inv v rv (follow v n u σ)
  | 0, u, σ, h => by simpa [follow] using h
  | n + 1, u, σ, h => by
    simp only [follow]
    cases hl : lookup u σ with
    | none => simpa using h
    | some x =>
      cases x with
      | dict doc =>
        simp only
        obtain ⟨e, h1⟩ := fFields_local v rv (follow v n) (follow_inv v rv hv n) doc σ h
        rw [e]
        have hw := h.wfdoc u doc hl
        have hok : okMeta doc = true := by simp only [wf, Bool.and_eq_true] at hw; exact hw.1.1
        have hnd : (keys doc).Nodup := by simp only [wf, Bool.and_eq_true, uniq, decide_eq_true_eq] at hw; exact hw.1.2
        have hvu : isValid v doc = rv u := by
          have := h.valid u
          simpa [refValid, hl] using this
        constructor
        · intro u'
          simp only [refValid, lookup_setKey]
          by_cases hu : u' = u
          · subst hu; simp [isValid_lFields v rv hv doc hok hnd, hvu]
          · simp only [hu, if_false]; exact h1.valid u'
        · intro u' doc' hl'
          rw [lookup_setKey] at hl'
          by_cases hu : u' = u
          · simp only [hu, if_true] at hl'
            injection hl' with hl'; injection hl' with hl'; subst hl'
            exact wf_dict_lFields v rv doc hw
          · simp only [hu, if_false] at hl'
            exact h1.wfdoc u' doc' hl'
      | _ => simpa using h

/-- **the walk is the local filter** — for every budget, every store satisfying the invariant and every dict -/
theorem walk_is_local_filter (v : Int) (rv : Str → Bool) (hv : inRange v) (n : Nat) (σ : Store) (d : Fields) (h : Inv v rv σ) :
    (fFields v (follow v n) σ d).1 = lFields v rv d ∧ Inv v rv (fFields v (follow v n) σ d).2 :=
  fFields_local v rv (follow v n) (follow_inv v rv hv n) d σ h

/-! ### pruning a pruned store changes nothing -/

mutual
/-- the references the walk follows inside a dict that is already filtered (inline dicts and lists are walked into) -/
def frefsF : Fields → List Str
  | [] => []
  | (_, .dict kvs) :: r => (match refOfFields kvs with | some u => [u] | none => frefsF kvs) ++ frefsF r
  | (_, .list xs) :: r => frefsL xs ++ frefsF r
  | _ :: r => frefsF r
def frefsL : List J → List Str
  | [] => []
  | .dict kvs :: es => (match refOfFields kvs with | some u => [u] | none => frefsF kvs) ++ frefsL es
  | _ :: es => frefsL es
end

mutual
theorem length_lFields_le (v : Int) (rv : Str → Bool) : (d : Fields) → (lFields v rv d).length ≤ d.length
  | [] => by simp [lFields]
  | (k, .dict kvs) :: r => by
    have := length_lFields_le v rv r
    simp only [lFields]
    split <;> split <;> simp <;> omega
  | (k, .list xs) :: r => by have := length_lFields_le v rv r; simp [lFields]; omega
  | (k, .null) :: r | (k, .bool _) :: r | (k, .int _) :: r | (k, .flt _) :: r | (k, .str _) :: r | (k, .tup _) :: r => by
    have := length_lFields_le v rv r; simp [lFields]; omega
end

theorem length_lList_le (v : Int) (rv : Str → Bool) : (xs : List J) → (lList v rv xs).length ≤ xs.length
  | [] => by simp [lList]
  | .dict kvs :: es => by
    have := length_lList_le v rv es
    simp only [lList]
    split <;> split <;> simp <;> omega
  | .null :: es | .bool _ :: es | .int _ :: es | .flt _ :: es | .str _ :: es | .tup _ :: es | .list _ :: es => by
    have := length_lList_le v rv es; simp [lList]; omega

theorem setKey_same (k : Str) (x : J) : (d : Fields) → lookup k d = some x → setKey k x d = d
  | [], h => by simp [lookup] at h
  | (k', y) :: r, h => by
    simp only [lookup] at h
    by_cases hk : k' = k
    · simp only [hk, if_true] at h; injection h with h; subst h; simp [setKey, hk]
    · simp only [hk, if_false] at h
      simp [setKey, hk, setKey_same k x r h]

mutual
/-- (U) on a filtered dict whose followed references are all left alone by `fo`, the walk changes nothing -/
theorem fFields_fixed (v : Int) (rv : Str → Bool) (fo : Str → Store → Store) (σ : Store) (hI : Inv v rv σ) :
    (d : Fields) → lFields v rv d = d → (∀ u ∈ frefsF d, fo u σ = σ) → fFields v fo σ d = (d, σ)
  | [], _, _ => by simp [fFields]
  | (k, .dict kvs) :: r, hfix, hfo => by
    simp only [lFields] at hfix
    simp only [fFields]
    cases hr : refOfFields kvs with
    | some u =>
      simp only [hr] at hfix
      have hlen := length_lFields_le v rv r
      by_cases hv : rv u = true
      · simp only [hv, if_true] at hfix
        injection hfix with _ hfix
        have hu : fo u σ = σ := hfo u (by simp [frefsF, hr])
        have hrest := fFields_fixed v rv fo σ hI r hfix (fun w hw => hfo w (by simp [frefsF, hr, hw]))
        simp only [hu, hrest, hI.valid u, hv, if_true]
      · simp only [hv, Bool.false_eq_true, if_false] at hfix
        have := congrArg List.length hfix
        simp at this; omega
    | none =>
      simp only [hr] at hfix
      have hlen := length_lFields_le v rv r
      by_cases hv : isValid v kvs = true
      · simp only [hv, if_true] at hfix
        injection hfix with h1 h2
        injection h1 with _ h1
        injection h1 with h1
        have e1 := fFields_fixed v rv fo σ hI kvs h1 (fun w hw => hfo w (by simp [frefsF, hr, hw]))
        have e2 := fFields_fixed v rv fo σ hI r h2 (fun w hw => hfo w (by simp [frefsF, hr, hw]))
        simp only [e1, e2, hv, if_true]
      · simp only [hv, Bool.false_eq_true, if_false] at hfix
        have := congrArg List.length hfix
        simp at this; omega
  | (k, .list xs) :: r, hfix, hfo => by
    simp only [lFields] at hfix
    injection hfix with h1 h2
    injection h1 with _ h1
    injection h1 with h1
    have e1 := fList_fixed v rv fo σ hI xs h1 (fun w hw => hfo w (by simp [frefsF, hw]))
    have e2 := fFields_fixed v rv fo σ hI r h2 (fun w hw => hfo w (by simp [frefsF, hw]))
    simp only [fFields, e1, e2]
  | (k, .null) :: r, hfix, hfo | (k, .bool _) :: r, hfix, hfo | (k, .int _) :: r, hfix, hfo | (k, .flt _) :: r, hfix, hfo
  | (k, .str _) :: r, hfix, hfo | (k, .tup _) :: r, hfix, hfo => by
    simp only [lFields] at hfix
    injection hfix with _ h2
    have e2 := fFields_fixed v rv fo σ hI r h2 (fun w hw => hfo w (by simp [frefsF, hw]))
    simp only [fFields, e2]
theorem fList_fixed (v : Int) (rv : Str → Bool) (fo : Str → Store → Store) (σ : Store) (hI : Inv v rv σ) :
    (xs : List J) → lList v rv xs = xs → (∀ u ∈ frefsL xs, fo u σ = σ) → fList v fo σ xs = (xs, σ)
  | [], _, _ => by simp [fList]
  | .dict kvs :: es, hfix, hfo => by
    simp only [lList] at hfix
    simp only [fList]
    have hlen := length_lList_le v rv es
    cases hr : refOfFields kvs with
    | some u =>
      simp only [hr] at hfix
      by_cases hv : rv u = true
      · simp only [hv, if_true] at hfix
        injection hfix with _ hfix
        have hu : fo u σ = σ := hfo u (by simp [frefsL, hr])
        have hrest := fList_fixed v rv fo σ hI es hfix (fun w hw => hfo w (by simp [frefsL, hr, hw]))
        simp only [hI.valid u, hv, if_true, hu, hrest]
      · simp only [hv, Bool.false_eq_true, if_false] at hfix
        have := congrArg List.length hfix
        simp at this; omega
    | none =>
      simp only [hr] at hfix
      by_cases hv : isValid v kvs = true
      · simp only [hv, if_true] at hfix
        injection hfix with h1 h2
        injection h1 with h1
        have e1 := fFields_fixed v rv fo σ hI kvs h1 (fun w hw => hfo w (by simp [frefsL, hr, hw]))
        have e2 := fList_fixed v rv fo σ hI es h2 (fun w hw => hfo w (by simp [frefsL, hr, hw]))
        simp only [hv, if_true, e1, e2]
      · simp only [hv, Bool.false_eq_true, if_false] at hfix
        have := congrArg List.length hfix
        simp at this; omega
  | .null :: es, hfix, hfo | .bool _ :: es, hfix, hfo | .int _ :: es, hfix, hfo | .flt _ :: es, hfix, hfo
  | .str _ :: es, hfix, hfo | .tup _ :: es, hfix, hfo | .list _ :: es, hfix, hfo => by
    simp only [lList] at hfix
    injection hfix with _ h2
    have e2 := fList_fixed v rv fo σ hI es h2 (fun w hw => hfo w (by simp [frefsL, hw]))
    simp only [fList, e2]
end

/-- every document reachable within `n` followed references is already filtered -/
def DC (v : Int) (rv : Str → Bool) (σ : Store) : Nat → Str → Prop
  | 0, _ => True
  | n + 1, u => ∀ doc, lookup u σ = some (.dict doc) → lFields v rv doc = doc ∧ ∀ u' ∈ frefsF doc, DC v rv σ n u'

/-- (C) following a reference whose closure is already filtered leaves the store as it is -/
theorem follow_fixed (v : Int) (rv : Str → Bool) (σ : Store) (hI : Inv v rv σ) :
    (n : Nat) → ∀ u, DC v rv σ n u → follow v n u σ = σ
  | 0, u, _ => rfl
  | n + 1, u, h => by
    simp only [follow]
    cases hl : lookup u σ with
    | none => rfl
    | some x =>
      cases x with
      | dict doc =>
        obtain ⟨hfix, hrefs⟩ := h doc hl
        have := fFields_fixed v rv (follow v n) σ hI doc hfix (fun w hw => follow_fixed v rv σ hI n w (hrefs w hw))
        simp only [this]
        exact setKey_same u _ σ hl
      | _ => rfl

/-- how a walk may change the store: a document that is already filtered keeps its value, and no dict document
appears where there was none -/
structure Pres (v : Int) (rv : Str → Bool) (σ σ' : Store) : Prop where
  keep : ∀ w doc, lookup w σ = some (.dict doc) → lFields v rv doc = doc → lookup w σ' = some (.dict doc)
  old : ∀ w doc', lookup w σ' = some (.dict doc') → ∃ doc, lookup w σ = some (.dict doc)

theorem Pres.refl (v : Int) (rv : Str → Bool) (σ : Store) : Pres v rv σ σ :=
  ⟨fun _ _ h _ => h, fun _ d h => ⟨d, h⟩⟩

theorem Pres.trans {v : Int} {rv : Str → Bool} {a b c : Store} (h1 : Pres v rv a b) (h2 : Pres v rv b c) : Pres v rv a c :=
  ⟨fun w doc hl hf => h2.keep w doc (h1.keep w doc hl hf) hf,
   fun w d hl => by obtain ⟨d1, h⟩ := h2.old w d hl; exact h1.old w d1 h⟩

theorem DC_mono (v : Int) (rv : Str → Bool) (σ σ' : Store) (hp : Pres v rv σ σ') :
    (n : Nat) → ∀ u, DC v rv σ n u → DC v rv σ' n u
  | 0, _, _ => trivial
  | n + 1, u, h => by
    intro doc' hl'
    obtain ⟨doc, hl⟩ := hp.old u doc' hl'
    obtain ⟨hfix, hrefs⟩ := h doc hl
    have := hp.keep u doc hl hfix
    rw [this] at hl'
    injection hl' with hl'; injection hl' with hl'; subst hl'
    exact ⟨hfix, fun w hw => DC_mono v rv σ σ' hp n w (hrefs w hw)⟩

theorem DC_anti (v : Int) (rv : Str → Bool) (σ : Store) : (n : Nat) → ∀ u, DC v rv σ (n + 1) u → DC v rv σ n u
  | 0, _, _ => trivial
  | n + 1, u, h => by
    intro doc hl
    obtain ⟨hfix, hrefs⟩ := h doc hl
    exact ⟨hfix, fun w hw => DC_anti v rv σ n w (hrefs w hw)⟩

theorem DC_le (v : Int) (rv : Str → Bool) (σ : Store) (u : Str) : (n m : Nat) → m ≤ n → DC v rv σ n u → DC v rv σ m u
  | n, m, hle, h => by
    induction n with
    | zero => have : m = 0 := by omega
              subst this; exact h
    | succ k ih =>
      by_cases hm : m = k + 1
      · subst hm; exact h
      · exact ih (by omega) (DC_anti v rv σ k u h)

/-- what a reference-following function of budget `n` guarantees -/
def FoSpec (v : Int) (rv : Str → Bool) (n : Nat) (fo : Str → Store → Store) : Prop :=
  ∀ u σ, Inv v rv σ → Inv v rv (fo u σ) ∧ DC v rv (fo u σ) n u ∧ Pres v rv σ (fo u σ)

theorem wf_of_lookup : (d : Fields) → wfF d = true → ∀ k x, lookup k d = some x → wf x = true
  | [], _, k, x, h => by simp [lookup] at h
  | (k', y) :: r, hw, k, x, h => by
    simp only [wfF, Bool.and_eq_true] at hw
    simp only [lookup] at h
    split at h
    · injection h with h; subst h; exact hw.1
    · exact wf_of_lookup r hw.2 k x h

mutual
/-- (E) after the walk, everything the filtered result refers to is filtered, to the depth of the budget -/
theorem fFields_closed (v : Int) (rv : Str → Bool) (n : Nat) (fo : Str → Store → Store) (hfo : FoSpec v rv n fo) :
    (d : Fields) → wfF d = true → ∀ σ, Inv v rv σ →
      (∀ u ∈ frefsF (fFields v fo σ d).1, DC v rv (fFields v fo σ d).2 n u) ∧ Pres v rv σ (fFields v fo σ d).2
  | [], _, σ, _ => by simp [fFields, frefsF, Pres.refl]
  | (k, .dict kvs) :: r, hw, σ, hI => by
    simp only [wfF, wf, Bool.and_eq_true] at hw
    have hinv : ∀ u σ, Inv v rv σ → Inv v rv (fo u σ) := fun u σ h => (hfo u σ h).1
    simp only [fFields]
    cases hr : refOfFields kvs with
    | some u =>
      simp only
      obtain ⟨hI1, hdc, hp1⟩ := hfo u σ hI
      obtain ⟨h2, hp2⟩ := fFields_closed v rv n fo hfo r hw.2 (fo u σ) hI1
      refine ⟨?_, hp1.trans hp2⟩
      split
      · intro w hw'
        simp only [frefsF, hr, List.singleton_append, List.mem_cons] at hw'
        rcases hw' with rfl | hw'
        · exact DC_mono v rv _ _ hp2 n _ hdc
        · exact h2 w hw'
      · exact h2
    | none =>
      simp only
      obtain ⟨h1, hp1⟩ := fFields_closed v rv n fo hfo kvs hw.1.2 σ hI
      have hI1 := (fFields_local v rv fo hinv kvs σ hI).2
      have e1 := (fFields_local v rv fo hinv kvs σ hI).1
      obtain ⟨h2, hp2⟩ := fFields_closed v rv n fo hfo r hw.2 _ hI1
      refine ⟨?_, hp1.trans hp2⟩
      split
      · intro w hw'
        have hnone : refOfFields (fFields v fo σ kvs).1 = none := by
          rw [e1]; exact refOf_lFields_none v rv kvs (by simpa [uniq] using hw.1.1.2) hr
        simp only [frefsF, hnone, List.mem_append] at hw'
        rcases hw' with hw' | hw'
        · exact DC_mono v rv _ _ hp2 n _ (h1 w hw')
        · exact h2 w hw'
      · exact h2
  | (k, .list xs) :: r, hw, σ, hI => by
    simp only [wfF, wf, Bool.and_eq_true] at hw
    have hinv : ∀ u σ, Inv v rv σ → Inv v rv (fo u σ) := fun u σ h => (hfo u σ h).1
    simp only [fFields]
    obtain ⟨h1, hp1⟩ := fList_closed v rv n fo hfo xs hw.1 σ hI
    have hI1 := (fList_local v rv fo hinv xs σ hI).2
    obtain ⟨h2, hp2⟩ := fFields_closed v rv n fo hfo r hw.2 _ hI1
    refine ⟨?_, hp1.trans hp2⟩
    intro w hw'
    simp only [frefsF, List.mem_append] at hw'
    rcases hw' with hw' | hw'
    · exact DC_mono v rv _ _ hp2 n _ (h1 w hw')
    · exact h2 w hw'
  | (k, .null) :: r, hw, σ, hI | (k, .bool _) :: r, hw, σ, hI | (k, .int _) :: r, hw, σ, hI | (k, .flt _) :: r, hw, σ, hI
  | (k, .str _) :: r, hw, σ, hI | (k, .tup _) :: r, hw, σ, hI => by
    simp only [wfF, Bool.and_eq_true] at hw
    simp only [fFields]
    obtain ⟨h2, hp2⟩ := fFields_closed v rv n fo hfo r hw.2 σ hI
    exact ⟨by simpa [frefsF] using h2, hp2⟩
theorem fList_closed (v : Int) (rv : Str → Bool) (n : Nat) (fo : Str → Store → Store) (hfo : FoSpec v rv n fo) :
    (xs : List J) → wfL xs = true → ∀ σ, Inv v rv σ →
      (∀ u ∈ frefsL (fList v fo σ xs).1, DC v rv (fList v fo σ xs).2 n u) ∧ Pres v rv σ (fList v fo σ xs).2
  | [], _, σ, _ => by simp [fList, frefsL, Pres.refl]
  | .dict kvs :: es, hw, σ, hI => by
    simp only [wfL, wf, Bool.and_eq_true] at hw
    have hinv : ∀ u σ, Inv v rv σ → Inv v rv (fo u σ) := fun u σ h => (hfo u σ h).1
    simp only [fList]
    cases hr : refOfFields kvs with
    | some u =>
      simp only
      split
      · obtain ⟨hI1, hdc, hp1⟩ := hfo u σ hI
        obtain ⟨h2, hp2⟩ := fList_closed v rv n fo hfo es hw.2 (fo u σ) hI1
        refine ⟨?_, hp1.trans hp2⟩
        intro w hw'
        simp only [frefsL, hr, List.singleton_append, List.mem_cons] at hw'
        rcases hw' with rfl | hw'
        · exact DC_mono v rv _ _ hp2 n _ hdc
        · exact h2 w hw'
      · exact fList_closed v rv n fo hfo es hw.2 σ hI
    | none =>
      simp only
      split
      · obtain ⟨h1, hp1⟩ := fFields_closed v rv n fo hfo kvs hw.1.2 σ hI
        have hI1 := (fFields_local v rv fo hinv kvs σ hI).2
        have e1 := (fFields_local v rv fo hinv kvs σ hI).1
        obtain ⟨h2, hp2⟩ := fList_closed v rv n fo hfo es hw.2 _ hI1
        refine ⟨?_, hp1.trans hp2⟩
        intro w hw'
        have hnone : refOfFields (fFields v fo σ kvs).1 = none := by
          rw [e1]; exact refOf_lFields_none v rv kvs (by simpa [uniq] using hw.1.1.2) hr
        simp only [frefsL, hnone, List.mem_append] at hw'
        rcases hw' with hw' | hw'
        · exact DC_mono v rv _ _ hp2 n _ (h1 w hw')
        · exact h2 w hw'
      · exact fList_closed v rv n fo hfo es hw.2 σ hI
  | .null :: es, hw, σ, hI | .bool _ :: es, hw, σ, hI | .int _ :: es, hw, σ, hI | .flt _ :: es, hw, σ, hI
  | .str _ :: es, hw, σ, hI | .tup _ :: es, hw, σ, hI | .list _ :: es, hw, σ, hI => by
    simp only [wfL, Bool.and_eq_true] at hw
    simp only [fList]
    obtain ⟨h2, hp2⟩ := fList_closed v rv n fo hfo es hw.2 σ hI
    exact ⟨by simpa [frefsL] using h2, hp2⟩
end

/-- replacing document `u` by a filtered document whose references are closed keeps every closure -/
theorem DC_setKey (v : Int) (rv : Str → Bool) (σ1 : Store) (u : Str) (doc' : Fields) (n : Nat)
    (hfix : lFields v rv doc' = doc') (hrefs : ∀ w ∈ frefsF doc', DC v rv σ1 n w) :
    (m : Nat) → m ≤ n + 1 → ∀ x, (x = u ∨ DC v rv σ1 m x) → DC v rv (setKey u (.dict doc') σ1) m x
  | 0, _, _, _ => trivial
  | m + 1, hm, x, hx => by
    intro dx hl
    rw [lookup_setKey] at hl
    by_cases hxu : x = u
    · simp only [hxu, if_true] at hl
      injection hl with hl; injection hl with hl; subst hl
      exact ⟨hfix, fun w hw => DC_setKey v rv σ1 u doc' n hfix hrefs m (by omega) w
        (Or.inr (DC_le v rv σ1 w n m (by omega) (hrefs w hw)))⟩
    · simp only [hxu, if_false] at hl
      rcases hx with hx | hx
      · exact absurd hx hxu
      · obtain ⟨hf, hr⟩ := hx dx hl
        exact ⟨hf, fun w hw => DC_setKey v rv σ1 u doc' n hfix hrefs m (by omega) w (Or.inr (hr w hw))⟩

/-- (F) `follow` meets its specification at every budget -/
theorem follow_spec (v : Int) (rv : Str → Bool) (hv : inRange v) : (n : Nat) → FoSpec v rv n (follow v n)
  | 0 => fun u σ h => ⟨by simpa [follow] using h, trivial, by simpa [follow] using Pres.refl v rv σ⟩
  | n + 1 => by
    intro u σ hI
    refine ⟨follow_inv v rv hv (n + 1) u σ hI, ?_, ?_⟩
    all_goals
      simp only [follow]
      cases hl : lookup u σ with
      | none => first | (intro doc hd; rw [hl] at hd; cases hd) | exact Pres.refl v rv σ
      | some x =>
        cases x with
        | dict doc =>
          simp only
          have hw := hI.wfdoc u doc hl
          have hwF : wfF doc = true := by simp only [wf, Bool.and_eq_true] at hw; exact hw.2
          have hinv := follow_inv v rv hv n
          obtain ⟨e1, hI1⟩ := fFields_local v rv (follow v n) hinv doc σ hI
          obtain ⟨hcl, hp1⟩ := fFields_closed v rv n (follow v n) (follow_spec v rv hv n) doc hwF σ hI
          rw [e1] at hcl ⊢
          have hfix := lFields_idem v rv hv doc hwF
          first
            | exact DC_setKey v rv _ u _ n hfix hcl (n + 1) (by omega) u (Or.inl rfl)
            | (constructor
               · intro w dw hlw hfw
                 rw [lookup_setKey]
                 by_cases hwu : w = u
                 · subst hwu
                   rw [hl] at hlw; injection hlw with hlw; injection hlw with hlw; subst hlw
                   simp [hfw]
                 · simp only [hwu, if_false]; exact hp1.keep w dw hlw hfw
               · intro w dw' hlw
                 rw [lookup_setKey] at hlw
                 by_cases hwu : w = u
                 · subst hwu; exact ⟨doc, hl⟩
                 · simp only [hwu, if_false] at hlw; exact hp1.old w dw' hlw)
        | _ => first | (intro doc hd; rw [hl] at hd; cases hd) | exact Pres.refl v rv σ

end Mappy.Versioning
