/- Content of the printed lines does not depend on the layout options (used by C06). -/
import Mappy.Lemmas.PrinterBal

namespace Mappy.Printer

/-- what a line says, apart from layout: kind, key text and value text; comment lines say nothing -/
def content (l : Line) : Option (Kind × Str × Str) :=
  if l.kind = .comment then none else some (l.kind, l.key, l.val)
def contents (ls : List Line) : List (Kind × Str × Str) := ls.filterMap content

theorem contents_append (a b : List Line) : contents (a ++ b) = contents a ++ contents b := by
  simp [contents, List.filterMap_append]

/-- two partial results say the same thing -/
def Sim (a b : Res (List Line)) : Prop := a.map contents = b.map contents

theorem Sim.rfl' (a : Res (List Line)) : Sim a a := rfl
theorem Sim.ok {a b : List Line} (h : contents a = contents b) : Sim (.ok a) (.ok b) := by
  simp [Sim, Except.map, h]
theorem Sim.error (e : PyErr) : Sim (.error e) (.error e) := rfl

theorem Sim.cat {a a' b b' : Res (List Line)} (h1 : Sim a a') (h2 : Sim b b') : Sim (cat a b) (cat a' b') := by
  cases a <;> cases a' <;> cases b <;> cases b' <;> simp_all [Sim, Except.map, Printer.cat, contents_append]

/-- options that may differ only in layout -/
def SameContentOpts (o o' : Opts) : Prop := o.quote = o'.quote ∧ o.sepComplex = o'.sepComplex

theorem contents_comments (ls : List Line) (h : ∀ l ∈ ls, l.kind = .comment) : contents ls = [] := by
  induction ls with
  | nil => rfl
  | cons l r ih =>
    simp only [contents, List.filterMap_cons, content, h l (by simp), if_true]
    exact ih (fun x hx => h x (by simp [hx]))

theorem typeComment_sim (o o' : Opts) (level : Nat) (c : Fields) :
    (typeComment o level c).map contents = (typeComment o' level c).map contents := by
  unfold typeComment
  cases typeCommentTexts c with
  | error e => rfl
  | ok ss =>
    simp only [Except.map]
    congr 1
    have hc : ∀ (o : Opts), contents (if joinWith o.newline (ss.map (ws o level ++ ·)) = [] then []
        else ss.map fun s => (⟨.comment, level, s, 0, [], []⟩ : Line)) = [] := by
      intro o
      apply contents_comments
      intro l hl
      split at hl
      · simp at hl
      · simp at hl; obtain ⟨s, _, rfl⟩ := hl; rfl
    rw [hc o, hc o']

theorem contents_cons (l : Line) (r : List Line) :
    contents (l :: r) = (match content l with | some c => [c] | none => []) ++ contents r := by
  simp only [contents, List.filterMap_cons]
  cases content l <;> rfl

theorem endLine_content (o o' : Opts) (lvl : Nat) (key : Str) : content (endLine o lvl key) = content (endLine o' lvl key) := rfl

theorem kvLines_sim (o o' : Opts) (hq : o.quote = o'.quote) (level al al' : Nat) (c : Fields) (d : Fields) :
    Sim (kvLines o level al c d) (kvLines o' level al' c d) := by
  induction d with
  | nil => exact Sim.rfl' _
  | cons kv r ih =>
    obtain ⟨k, v⟩ := kv
    simp only [kvLines]
    split
    · exact ih
    · split
      · exact Sim.error _
      · split
        · exact Sim.error _
        · simp only [Sim] at ih ⊢
          cases attrComment c k with
          | error e => rfl
          | ok cm =>
            simp only [bind, Except.bind]
            cases h1 : kvLines o level al c r <;> cases h2 : kvLines o' level al' c r <;> simp_all [Except.map, pure, Except.pure, contents_cons, content]

theorem Sim.map_wrap {a b : Res (List Line)} (h : Sim a b) (pre pre' post post' : List Line)
    (hpre : contents pre = contents pre') (hpost : contents post = contents post') :
    Sim (a.map (fun x => pre ++ x ++ post)) (b.map (fun x => pre' ++ x ++ post')) := by
  cases a <;> cases b <;> simp_all [Sim, Except.map, contents_append]

theorem keyDict_sim (o o' : Opts) (hq : o.quote = o'.quote) (key : Str) (level : Nat) (v : J) :
    Sim (keyDict o key level v) (keyDict o' key level v) := by
  cases v with
  | dict d =>
    simp only [keyDict]
    cases hc : commentsOf d with
    | error e => exact Sim.error _
    | ok comments =>
      simp only [bind, Except.bind]
      have ht := typeComment_sim o o' level comments
      cases h1 : typeComment o level comments with
      | error e =>
        cases h2 : typeComment o' level comments with
        | error e' => simp [h1, h2, Except.map] at ht; subst ht; exact Sim.error _
        | ok t' => simp [h1, h2, Except.map] at ht
      | ok t =>
        cases h2 : typeComment o' level comments with
        | error e' => simp [h1, h2, Except.map] at ht
        | ok t' =>
          simp only [h1, h2, Except.map] at ht
          injection ht with ht
          have hk := kvLines_sim o o' hq level
            (if o.align then computeAligned o (maxKvKeyLen d + 2) else 0)
            (if o'.align then computeAligned o' (maxKvKeyLen d + 2) else 0) comments d
          simp only
          cases h3 : kvLines o level _ comments d <;> cases h4 : kvLines o' level _ comments d <;>
            simp_all [Sim, Except.map, pure, Except.pure, contents_append, contents_cons, content, startLine, endLine]
  | null => exact Sim.rfl' _
  | bool b => exact Sim.rfl' _
  | int n => exact Sim.rfl' _
  | flt s => exact Sim.rfl' _
  | str s => exact Sim.rfl' _
  | list xs => exact Sim.rfl' _
  | tup xs => exact Sim.rfl' _

theorem configGo_sim (o o' : Opts) (hq : o.quote = o'.quote) (level : Nat) (d : Fields) :
    Sim (configLines.go o level d) (configLines.go o' level d) := by
  induction d with
  | nil => exact Sim.rfl' _
  | cons kv r ih =>
    obtain ⟨k, v⟩ := kv
    simp only [configLines.go]
    split
    · exact Sim.error _
    · simp only [Sim, bind, Except.bind] at ih ⊢
      cases h1 : configLines.go o level r <;> cases h2 : configLines.go o' level r <;>
        simp_all [Except.map, pure, Except.pure, contents_cons, content]

theorem configLines_sim (o o' : Opts) (hq : o.quote = o'.quote) (level : Nat) (v : J) :
    Sim (configLines o level v) (configLines o' level v) := by
  cases v <;> simp only [configLines] <;> first | exact configGo_sim o o' hq level _ | exact Sim.rfl' _

theorem repeatedGo_sim (o o' : Opts) (hq : o.quote = o'.quote) (key : Str) (level al al' : Nat) (xs : List J) :
    Sim (repeatedLines.go o key level al xs) (repeatedLines.go o' key level al' xs) := by
  induction xs with
  | nil => exact Sim.rfl' _
  | cons v r ih =>
    simp only [repeatedLines.go]
    split
    · exact Sim.error _
    · simp only [Sim, bind, Except.bind] at ih ⊢
      cases h1 : repeatedLines.go o key level al r <;> cases h2 : repeatedLines.go o' key level al' r <;>
        simp_all [Except.map, pure, Except.pure, contents_cons, content]

theorem repeatedLines_sim (o o' : Opts) (hq : o.quote = o'.quote) (key : Str) (level al al' : Nat) (v : J) :
    Sim (repeatedLines o key level al v) (repeatedLines o' key level al' v) := by
  cases v <;> simp only [repeatedLines] <;> first | exact repeatedGo_sim o o' hq key level al al' _ | exact Sim.rfl' _

theorem projBody_eq (o o' : Opts) (hq : o.quote = o'.quote) (level : Nat) (v : J) :
    projBody o level v = projBody o' level v := by
  unfold projBody; rw [hq]

theorem projectionLines_sim (o o' : Opts) (hq : o.quote = o'.quote) (key : Str) (level : Nat) (cmt : Str) (v : J) :
    Sim (projectionLines o key level cmt v) (projectionLines o' key level cmt v) := by
  unfold projectionLines
  rw [projBody_eq o o' hq]
  cases projBody o' level v with
  | error e => exact Sim.error _
  | ok body =>
    apply Sim.ok
    simp [contents_append, contents_cons, content, startLine, endLine]

theorem pairBlock_sim (o o' : Opts) (key : Str) (level : Nat) (v : J) :
    Sim (pairBlock o key level v) (pairBlock o' key level v) := by
  unfold pairBlock
  split
  · simp only [bind, Except.bind]
    cases pairLines level _ with
    | error e => exact Sim.error _
    | ok body => apply Sim.ok; simp [contents_append, contents_cons, content, startLine, endLine]
  · simp only [bind, Except.bind]
    cases pairLines level _ with
    | error e => exact Sim.error _
    | ok body => apply Sim.ok; simp [contents_append, contents_cons, content, startLine, endLine]
  · exact Sim.error _

theorem pointsGo_sim (o o' : Opts) (key : Str) (level : Nat) (xs : List J) :
    Sim (pointsBlocks.go o key level xs) (pointsBlocks.go o' key level xs) := by
  induction xs with
  | nil => exact Sim.rfl' _
  | cons b r ih =>
    simp only [pointsBlocks.go, bind, Except.bind]
    have hb := pairBlock_sim o o' key level b
    simp only [Sim] at ih hb ⊢
    cases h1 : pairBlock o key level b <;> cases h2 : pairBlock o' key level b <;>
      cases h3 : pointsBlocks.go o key level r <;> cases h4 : pointsBlocks.go o' key level r <;>
      simp_all [Except.map, pure, Except.pure, contents_append]

theorem pointsBlocks_sim (o o' : Opts) (key : Str) (level : Nat) (v : J) :
    Sim (pointsBlocks o key level v) (pointsBlocks o' key level v) := by
  unfold pointsBlocks
  split
  · split
    · exact pairBlock_sim o o' key level _
    · split
      · exact pointsGo_sim o o' key level _
      · exact Sim.error _
  · exact Sim.error _

theorem simple_sim (o o' : Opts) (hq : o.quote = o'.quote) (T : Table) (level : Nat) (ty : Option Str) (c : Fields)
    (al al' : Nat) (attr : Str) (v : J) :
    Sim (simple o T level ty c al attr v) (simple o' T level ty c al' attr v) := by
  unfold simple
  cases ty with
  | none => exact Sim.error _
  | some t =>
    simp only [attrLine]
    cases cellOf T t attr with
    | none => exact Sim.error _
    | some p =>
      simp only [hq, bind, Except.bind]
      cases formatValue o'.quote attr p v with
      | error e => exact Sim.error _
      | ok tx =>
        simp only
        cases attrComment c attr with
        | error e => exact Sim.error _
        | ok cm => apply Sim.ok; simp [pure, Except.pure, contents_cons, content]

theorem other_sim (o o' : Opts) (hq : o.quote = o'.quote) (T : Table) (level : Nat) (ty : Option Str) (c : Fields)
    (al al' : Nat) (attr : Str) (v : J) (child child' : Unit → Res (List Line)) (hc : Sim (child ()) (child' ())) :
    Sim (other o T level ty c al attr v child) (other o' T level ty c al' attr v child') := by
  unfold other
  split
  · exact pairBlock_sim o o' attr level v
  · split
    · exact keyDict_sim o o' hq attr level v
    · split
      · cases attrComment c attr with
        | error e => exact Sim.error _
        | ok cm => exact projectionLines_sim o o' hq attr level cm v
      · split
        · exact repeatedLines_sim o o' hq attr level al al' v
        · split
          · exact pointsBlocks_sim o o' attr level v
          · split
            · exact configLines_sim o o' hq level v
            · split
              · exact hc
              · exact simple_sim o o' hq T level ty c al al' attr v

theorem wrapObj_sim (o o' : Opts) (level : Nat) (f : Fields) (b b' : Res (List Line)) (h : Sim b b') :
    Sim (wrapObj o level f b) (wrapObj o' level f b') := by
  unfold wrapObj
  cases commentsOf f with
  | error e => exact Sim.error _
  | ok comments =>
    simp only
    split
    · rename_i t _
      split
      · exact Sim.error _
      · have ht := typeComment_sim o o' level comments
        cases h1 : typeComment o level comments <;> cases h2 : typeComment o' level comments <;>
          cases b <;> cases b' <;>
          simp_all [Sim, Except.map, contents_append, contents_cons, content, endLine]
    · exact Sim.error _
    · cases b <;> cases b' <;> simp_all [Sim, Except.map]

end Mappy.Printer
