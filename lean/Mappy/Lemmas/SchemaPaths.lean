/-
  Every error path the Draft-4 subset semantics (Model/Schema.lean) reports extends the instance path it was called
  with by a path that *resolves in the instance*.
-/
import Mappy.Model.Schema

namespace Mappy.Schema
open DictUtils (PathEl)

/-- `rel` leads from `x` to one of its parts -/
inductive Resolves : J → List PathEl → Prop
  | nil (x : J) : Resolves x []
  | key (d : Fields) (k : Str) (v : J) (r : List PathEl) : (k, v) ∈ d → Resolves v r → Resolves (.dict d) (.key k :: r)
  | idx (xs : List J) (i : Nat) (x : J) (r : List PathEl) : xs[i]? = some x → Resolves x r → Resolves (.list xs) (.idx i :: r)

/-- what the evaluator of sub-schemas guarantees -/
def RecOK (rec : J → J → List PathEl → List Err) : Prop :=
  ∀ s x p, ∀ e ∈ rec s x p, ∃ rel, e.1 = p ++ rel ∧ Resolves x rel

/-- an error reported at the instance itself -/
theorem here (x : J) (path : List PathEl) (k : Str) : ∃ rel, ((path, k) : Err).1 = path ++ rel ∧ Resolves x rel :=
  ⟨[], by simp, .nil x⟩

theorem mem_of_lookup' : (d : Fields) → ∀ k v, lookup k d = some v → (k, v) ∈ d
  | [], k, v, h => by simp [lookup] at h
  | (k', y) :: r, k, v, h => by
    simp only [lookup] at h
    split at h
    · rename_i hk; injection h with h; subst h; subst hk; simp
    · exact List.mem_cons_of_mem _ (mem_of_lookup' r k v h)

theorem scalarErrs_paths (sch : Fields) (x : J) (path : List PathEl) :
    ∀ e ∈ scalarErrs sch x path, ∃ rel, e.1 = path ++ rel ∧ Resolves x rel := by
  intro e he
  simp only [scalarErrs, List.mem_append] at he
  rcases he with ((he | he) | he) | he
  all_goals
    repeat' split at he
    all_goals first
      | (simp at he; done)
      | (simp only [List.mem_singleton] at he; subst he; exact here x path _)

theorem strErrs_paths (pats : List (Str × Pat)) (sch : Fields) (s : Str) (path : List PathEl) :
    ∀ e ∈ strErrs pats sch s path, ∃ rel, e.1 = path ++ rel ∧ Resolves (.str s) rel := by
  intro e he
  simp only [strErrs, List.mem_append] at he
  rcases he with (he | he) | he
  all_goals
    repeat' split at he
    all_goals first
      | (simp at he; done)
      | (simp only [List.mem_singleton] at he; subst he; exact here _ path _)

theorem reqErrs_paths (sch d : Fields) (path : List PathEl) :
    ∀ e ∈ reqErrs sch d path, ∃ rel, e.1 = path ++ rel ∧ Resolves (.dict d) rel := by
  intro e he
  simp only [reqErrs] at he
  split at he
  · simp only [List.mem_filterMap] at he
    obtain ⟨r, _, hr⟩ := he
    split at hr
    · split at hr
      · simp at hr
      · injection hr with hr; subst hr; exact here _ path _
    · simp at hr
  · simp at he

theorem arrErrs_paths (rec : J → J → List PathEl → List Err) (hrec : RecOK rec) (sch : Fields) (xs : List J) (path : List PathEl) :
    ∀ e ∈ arrErrs rec sch xs path, ∃ rel, e.1 = path ++ rel ∧ Resolves (.list xs) rel := by
  intro e he
  simp only [arrErrs, List.mem_append] at he
  rcases he with (he | he) | he
  · repeat' split at he
    all_goals first
      | (simp at he; done)
      | (simp only [List.mem_singleton] at he; subst he; exact here _ path _)
  · repeat' split at he
    all_goals first
      | (simp at he; done)
      | (simp only [List.mem_singleton] at he; subst he; exact here _ path _)
  · split at he
    · simp only [List.mem_flatten, List.mem_map] at he
      obtain ⟨l, ⟨⟨x, i⟩, hmem, rfl⟩, hel⟩ := he
      obtain ⟨rel, e1, hr⟩ := hrec _ x _ e hel
      have hx : xs[i]? = some x := List.mem_zipIdx_iff_getElem?.mp hmem
      exact ⟨.idx i :: rel, by rw [e1]; simp, .idx xs i x rel hx hr⟩
    · simp only [List.mem_flatten, List.mem_map] at he
      obtain ⟨l, ⟨⟨⟨x, s⟩, i⟩, hmem, rfl⟩, hel⟩ := he
      obtain ⟨rel, e1, hr⟩ := hrec s x _ e hel
      have hz := List.mem_zipIdx_iff_getElem?.mp hmem
      have hx : xs[i]? = some x := by
        simp only [List.getElem?_zip_eq_some] at hz
        exact hz.1
      exact ⟨.idx i :: rel, by rw [e1]; simp, .idx xs i x rel hx hr⟩
    · simp at he

theorem objErrs_paths (pats : List (Str × Pat)) (rec : J → J → List PathEl → List Err) (hrec : RecOK rec)
    (sch d : Fields) (path : List PathEl) :
    ∀ e ∈ objErrs pats rec sch d path, ∃ rel, e.1 = path ++ rel ∧ Resolves (.dict d) rel := by
  intro e he
  simp only [objErrs, List.mem_append] at he
  rcases he with ((he | he) | he) | he
  · -- properties
    simp only [propErrs] at he
    split at he
    · simp only [List.mem_flatten, List.mem_map] at he
      obtain ⟨l, ⟨⟨k, s⟩, _, rfl⟩, hel⟩ := he
      split at hel
      · rename_i v hl
        obtain ⟨rel, e1, hr⟩ := hrec s v _ e hel
        exact ⟨.key k :: rel, by rw [e1]; simp, .key d k v rel (mem_of_lookup' d k v hl) hr⟩
      · simp at hel
    · simp at he
  · -- patternProperties
    simp only [ppErrs] at he
    split at he
    · simp only [List.mem_flatten, List.mem_map] at he
      obtain ⟨l, ⟨⟨p, s⟩, _, rfl⟩, hel⟩ := he
      simp only [List.mem_flatten, List.mem_map] at hel
      obtain ⟨l2, ⟨⟨k, v⟩, hkv, rfl⟩, hel2⟩ := hel
      split at hel2
      · obtain ⟨rel, e1, hr⟩ := hrec s v _ e hel2
        exact ⟨.key k :: rel, by rw [e1]; simp, .key d k v rel hkv hr⟩
      · simp at hel2
    · simp at he
  · -- additionalProperties
    simp only [apErrs] at he
    split at he
    · split at he
      · simp at he
      · simp only [List.mem_singleton] at he; subst he; exact here _ path _
    · simp only [List.mem_flatten, List.mem_map] at he
      obtain ⟨l, ⟨k, _, rfl⟩, hel⟩ := he
      split at hel
      · rename_i v hl
        obtain ⟨rel, e1, hr⟩ := hrec _ v _ e hel
        exact ⟨.key k :: rel, by rw [e1]; simp, .key d k v rel (mem_of_lookup' d k v hl) hr⟩
      · simp at hel
    · simp at he
  · exact reqErrs_paths sch d path e he

theorem combErrs_paths (rec : J → J → List PathEl → List Err) (hrec : RecOK rec) (sch : Fields) (x : J) (path : List PathEl) :
    ∀ e ∈ combErrs rec sch x path, ∃ rel, e.1 = path ++ rel ∧ Resolves x rel := by
  intro e he
  simp only [combErrs, List.mem_append] at he
  rcases he with (he | he) | he
  · split at he
    · simp only [List.mem_flatten, List.mem_map] at he
      obtain ⟨l, ⟨s, _, rfl⟩, hel⟩ := he
      exact hrec s x path e hel
    · simp at he
  · repeat' split at he
    all_goals first
      | (simp at he; done)
      | (simp only [List.mem_singleton] at he; subst he; exact here x path _)
  · repeat' split at he
    all_goals first
      | (simp at he; done)
      | (simp only [List.mem_singleton] at he; subst he; exact here x path _)

/-- **every reported error path resolves in the instance** — for every schema, instance, starting path and budget -/
theorem errs_paths (env : Env) : (fuel : Nat) → RecOK (errs env fuel)
  | 0 => by intro s x p e he; simp [errs] at he
  | fuel + 1 => by
    intro s x p e he
    have ih := errs_paths env fuel
    cases s with
    | dict sch =>
      simp only [errs] at he
      cases hr : Versioning.refOfFields sch with
      | some u =>
        simp only [hr] at he
        split at he
        · exact ih _ x p e he
        · simp only [List.mem_singleton] at he; subst he; exact here x p _
      | none =>
        simp only [hr, List.mem_append] at he
        rcases he with (he | he) | he
        · exact scalarErrs_paths sch x p e he
        · cases x with
          | list xs => exact arrErrs_paths _ ih sch xs p e he
          | str s => exact strErrs_paths env.pats sch s p e he
          | dict d => exact objErrs_paths env.pats _ ih sch d p e he
          | _ => simp at he
        · exact combErrs_paths _ ih sch x p e he
    | _ => simp [errs] at he

end Mappy.Schema
