/- The layout checker (a stack discipline over structured lines) and its composition lemmas. -/
import Mappy.Model.Printer

namespace Mappy.Printer

/-- Independent layout checker: comment lines aside, every opener and keyword line sits at the depth
given by the number of open blocks, every END closes the innermost open block at that block's
indentation and (with `end_comment`) carries `# ` + the block's name. Returns the stack of open blocks. -/
def check (o : Opts) : List (Nat × Str) → List Line → Option (List (Nat × Str))
  | st, [] => some st
  | st, l :: r =>
    match l.kind with
    | .comment => check o st r
    | .opener => if l.lvl = st.length then check o ((l.lvl, l.key) :: st) r else none
    | .attr => if l.lvl = st.length then check o st r else none
    | .ender =>
      match st with
      | (lv, name) :: st' =>
        if l.lvl = lv ∧ l.key = s%"END" ∧ l.val = [] ∧ l.cmt = (if o.endComment then s%" # " ++ name else []) then check o st' r
        else none
      | [] => none

/-- `ls` is a balanced piece of layout at depth `n` -/
def Bal (o : Opts) (n : Nat) (ls : List Line) : Prop :=
  ∀ st rest, st.length = n → check o st (ls ++ rest) = check o st rest

theorem Bal.nil (o : Opts) (n : Nat) : Bal o n [] := fun _ _ _ => rfl

theorem Bal.append {o : Opts} {n : Nat} {a b : List Line} (ha : Bal o n a) (hb : Bal o n b) : Bal o n (a ++ b) := by
  intro st rest h
  rw [List.append_assoc, ha st _ h, hb st _ h]

theorem Bal.attr (o : Opts) (n : Nat) (l : Line) (hk : l.kind = .attr) (hl : l.lvl = n) : Bal o n [l] := by
  intro st rest h
  simp [check, hk, hl, h]

theorem Bal.comment (o : Opts) (n : Nat) (l : Line) (hk : l.kind = .comment) : Bal o n [l] := by
  intro st rest h
  simp [check, hk]

theorem Bal.comments (o : Opts) (n : Nat) (ls : List Line) (hk : ∀ l ∈ ls, l.kind = .comment) : Bal o n ls := by
  induction ls with
  | nil => exact Bal.nil o n
  | cons l r ih =>
    have : l :: r = [l] ++ r := rfl
    rw [this]
    exact Bal.append (Bal.comment o n l (hk l (by simp))) (ih (fun x hx => hk x (by simp [hx])))

theorem Bal.attrs (o : Opts) (n : Nat) (ls : List Line) (hk : ∀ l ∈ ls, l.kind = .attr ∧ l.lvl = n) : Bal o n ls := by
  induction ls with
  | nil => exact Bal.nil o n
  | cons l r ih =>
    have : l :: r = [l] ++ r := rfl
    rw [this]
    exact Bal.append (Bal.attr o n l (hk l (by simp)).1 (hk l (by simp)).2) (ih (fun x hx => hk x (by simp [hx])))

/-- opener at depth n, balanced body at depth n+1, matching END -/
theorem Bal.block (o : Opts) (n : Nat) (name : Str) (body : List Line) (hb : Bal o (n + 1) body) :
    Bal o n ([⟨.opener, n, name, 0, [], []⟩] ++ body ++
      [⟨.ender, n, s%"END", 0, [], if o.endComment then s%" # " ++ name else []⟩]) := by
  intro st rest h
  simp only [List.append_assoc, List.cons_append, List.nil_append, check, h, if_true]
  rw [hb ((n, name) :: st) _ (by simp [h])]
  simp [check]

end Mappy.Printer
