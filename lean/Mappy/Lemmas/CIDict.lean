/-
  Helper lemmas for C17 (dict model): invariant preservation, _convert_keys is a rotation, pouring.
  Property theorems only (helper lemmas on association lists are in Lemmas/Assoc.lean; the lemmas here
  are specific to the dict model).  `step` is the model of the code (tied to the real class by the
  `cidict` correspondence); `Spec.step` is "an ordinary ordered dict keyed by the lower-cased keys"
  plus the documented default rule.
-/
import Mappy.Model.CIDict
import Mappy.Lemmas.Assoc

namespace Mappy.CIDict
open Spec

/-! #### helper facts about the model -/

theorem inv_set (s : St) (k : Str) (v : J) (h : Inv s) (hk : lower k = k) :
    Inv { s with items := setKey k v s.items } := by
  refine ⟨?_, nodup_setKey k v s.items h.2⟩
  intro k' hk'
  rcases (mem_keys_setKey k k' v s.items).1 hk' with e | hm
  · subst e; exact hk
  · exact h.1 k' hm

theorem inv_del (s : St) (k : Str) (h : Inv s) : Inv { s with items := delKey k s.items } :=
  ⟨fun k' hk' => h.1 k' (keys_delKey_sub k k' s.items hk'), nodup_delKey k s.items h.2⟩

theorem pour_cons (its : Fields) (p : Str × J) (ps : Fields) :
    pour its (p :: ps) = pour (setKey (lower p.1) p.2 its) ps := rfl

theorem updatePairs_eq (s : St) (ps : Fields) :
    updatePairs s ps = { s with items := pour s.items ps } := by
  induction ps generalizing s with
  | nil => rfl
  | cons p ps ih => obtain ⟨k, v⟩ := p; simp [updatePairs, ih, setitem, odSet, k_, pour_cons]

theorem inv_pour (f : Bool) (its ps : Fields) (h : Inv ⟨f, its⟩) : Inv ⟨f, pour its ps⟩ := by
  induction ps generalizing its with
  | nil => exact h
  | cons p ps ih => exact ih _ (inv_set ⟨f, its⟩ (lower p.1) p.2 h (lower_idem _))

/-- the rotation lemma behind `_convert_keys`: popping each key in order and storing it again
re-creates the same ordered contents -/
theorem convert_rot (f : Bool) (pre post : Fields) (h : Inv ⟨f, pre ++ post⟩) :
    (keys pre).foldl convStep ⟨f, pre ++ post⟩ = ⟨f, post ++ pre⟩ := by
  induction pre generalizing post with
  | nil => simp
  | cons p pre ih =>
    obtain ⟨k, v⟩ := p
    have hk : lower k = k := h.1 k (by simp)
    have hnd : k ∉ keys (pre ++ post) := by
      have := h.2; simp only [List.cons_append, keys_cons, List.nodup_cons] at this; exact this.1
    have hstep : setKey k v (pre ++ post) = pre ++ (post ++ [(k, v)]) := by
      rw [setKey_of_not_mem k v _ hnd, List.append_assoc]
    have h1 : convStep ⟨f, (k, v) :: pre ++ post⟩ k = ⟨f, pre ++ (post ++ [(k, v)])⟩ := by
      simp [convStep, odGet, lookup, delKey, setitem, odSet, k_, hk, hstep]
    have hinv : Inv ⟨f, pre ++ (post ++ [(k, v)])⟩ := by
      rw [← hstep]
      have : Inv ⟨f, pre ++ post⟩ := by
        have := inv_del ⟨f, (k, v) :: (pre ++ post)⟩ k h
        simpa [delKey] using this
      exact inv_set ⟨f, pre ++ post⟩ k v this hk
    simp only [keys_cons, List.foldl_cons]
    rw [h1, ih (post ++ [(k, v)]) hinv]
    simp

theorem convertKeys_id (s : St) (h : Inv s) : convertKeys s = s := by
  obtain ⟨f, its⟩ := s
  have := convert_rot f its [] (by simpa using h)
  simpa [convertKeys] using this

theorem inv_empty (f : Bool) : Inv ⟨f, []⟩ := ⟨by simp, by simp⟩

theorem construct_eq (f : Bool) (e kw : Fields) :
    construct f e kw = ⟨f, pour (pour [] e) kw⟩ := by
  unfold construct
  rw [updatePairs_eq, updatePairs_eq]
  exact convertKeys_id _ (inv_pour f _ kw (inv_pour f [] e (inv_empty f)))

/-- with `k` already present, a later `setKey k` can be moved across a pour that never mentions `k` -/
theorem pour_setKey_present (r b : Fields) (k : Str) (v : J) (hk : k ∈ keys b)
    (hr : ∀ p ∈ r, lower p.1 ≠ k) : pour (setKey k v b) r = setKey k v (pour b r) := by
  induction r generalizing b with
  | nil => rfl
  | cons q r ih =>
    obtain ⟨k1, v1⟩ := q
    have h1 : lower k1 ≠ k := hr (k1, v1) (by simp)
    simp only [pour_cons]
    rw [← setKey_comm_of_mem k (lower k1) v v1 b (fun e => h1 e.symm) hk]
    exact ih _ ((mem_keys_setKey _ _ _ _).2 (Or.inr hk)) (fun p hp => hr p (by simp [hp]))

/-- pouring a dict in which one value was replaced = pouring it, then replacing -/
theorem pour_setKey (its acc : Fields) (k : Str) (v : J) (hk : lower k = k)
    (hacc : ∀ k' ∈ keys acc, lower k' = k') (hnd : (keys acc).Nodup) :
    pour its (setKey k v acc) = setKey k v (pour its acc) := by
  induction acc generalizing its with
  | nil => simp [setKey, pour, hk]
  | cons p r ih =>
    obtain ⟨k0, v0⟩ := p
    have hk0 : lower k0 = k0 := hacc k0 (by simp)
    have hr : ∀ k' ∈ keys r, lower k' = k' := fun k' h' => hacc k' (by simp [h'])
    simp only [keys_cons, List.nodup_cons] at hnd
    by_cases h1 : k0 = k
    · subst h1
      simp only [setKey, if_true, pour_cons, hk0]
      have hnot : ∀ p ∈ r, lower p.1 ≠ k0 := by
        intro p hp e
        have hm : p.1 ∈ keys r := List.mem_map_of_mem (f := Prod.fst) hp
        rw [hr p.1 hm] at e
        exact hnd.1 (e ▸ hm)
      have := pour_setKey_present r (setKey k0 v0 its) k0 v ((mem_keys_setKey _ _ _ _).2 (Or.inl rfl)) hnot
      rw [setKey_setKey_same] at this
      exact this
    · simp only [setKey, h1, if_false, pour_cons, hk0]
      exact ih _ hr hnd.2

theorem pour_pour_gen (ps its acc : Fields) (hacc : ∀ k' ∈ keys acc, lower k' = k')
    (hnd : (keys acc).Nodup) : pour its (pour acc ps) = pour (pour its acc) ps := by
  induction ps generalizing acc with
  | nil => rfl
  | cons p ps ih =>
    simp only [pour_cons]
    have hinv := inv_set ⟨true, acc⟩ (lower p.1) p.2 ⟨hacc, hnd⟩ (lower_idem _)
    rw [ih _ hinv.1 hinv.2, pour_setKey its acc _ _ (lower_idem _) hacc hnd]

/-- building a temporary case-folded dict first and pouring that = pouring the pairs directly -/
theorem pour_via_temp (its ps : Fields) : pour its (pour [] ps) = pour its ps := by
  have := pour_pour_gen ps its [] (by simp) (by simp)
  simpa [pour] using this

/-- pouring a dict with lower-case, distinct keys into the empty dict re-creates it -/
theorem pour_self_gen (acc its : Fields) (hl : ∀ k ∈ keys (acc ++ its), lower k = k)
    (hnd : (keys (acc ++ its)).Nodup) : pour acc its = acc ++ its := by
  induction its generalizing acc with
  | nil => simp [pour]
  | cons p r ih =>
    obtain ⟨k, v⟩ := p
    have hk : lower k = k := hl k (by simp)
    have hnot : k ∉ keys acc := by
      intro hm
      have := hnd
      simp only [keys_append, keys_cons] at this
      rw [List.nodup_append] at this
      exact this.2.2 k hm k (by simp) rfl
    simp only [pour_cons, hk]
    rw [setKey_of_not_mem k v acc hnot, ih (acc ++ [(k, v)]) (by simpa using hl) (by simpa using hnd)]
    simp

theorem pour_self (its : Fields) (hl : ∀ k ∈ keys its, lower k = k) (hnd : (keys its).Nodup) :
    pour [] its = its := by
  simpa using pour_self_gen [] its (by simpa using hl) (by simpa using hnd)

theorem construct_self (f : Bool) (its : Fields) (h : Inv ⟨f, its⟩) : construct f its [] = ⟨f, its⟩ := by
  rw [construct_eq]
  have : pour (pour [] its) [] = pour [] its := rfl
  rw [this, pour_self its h.1 h.2]

end Mappy.CIDict
