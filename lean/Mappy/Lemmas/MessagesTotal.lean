/-
  From "the reported path resolves in the lower-cased copy" to "create_message returns": navigation in a Mapfile
  dictionary (lower-case unique keys, objects of lists carry `__type__`, no `__position__` data).
-/
import Mappy.Lemmas.SchemaPaths
import Mappy.Model.Validator
import Mappy.Lemmas.Assoc

namespace Mappy.Validator
open DictUtils (PathEl findkey pyIndex nk)
open Schema (Resolves)

def typeStr (kvs : Fields) : Bool :=
  match lookup typeKey kvs with
  | some (.str _) => true
  | _ => false

def keysOK (kvs : Fields) : Bool := (keys kvs).all (fun k => lower k == k) && decide (keys kvs).Nodup

mutual
/-- a dictionary as a plain `loads` builds it: lower-case unique keys everywhere, every object of a list carries a
string `__type__`, no `__position__` entries -/
def plainMD : J → Bool
  | .dict kvs => keysOK kvs && !hasKey posKey kvs && plainF kvs
  | .list xs => plainL xs
  | _ => true
def plainF : Fields → Bool
  | [] => true
  | (_, x) :: r => plainMD x && plainF r
def plainL : List J → Bool
  | [] => true
  | x :: r => (match x with | .dict kvs => typeStr kvs | _ => true) && plainMD x && plainL r
end

/-- navigation with case-insensitive keys, as `findkey` does on Mapfile dicts -/
def nav : J → List PathEl → Option J
  | x, [] => some x
  | .dict kvs, .key k :: r => (match lookup (lower k) kvs with | some v => nav v r | none => none)
  | .list xs, .idx i :: r => (match pyIndex xs i with | some v => nav v r | none => none)
  | _, _ => none

theorem findkey_of_nav : (x : J) → (p : List PathEl) → ∀ y, nav x p = some y → findkey true x p = .ok y
  | x, [], y, h => by simp [nav] at h; subst h; cases x <;> simp [findkey]
  | .dict kvs, .key k :: r, y, h => by
    simp only [nav] at h
    simp only [findkey, nk, if_true]
    cases hl : lookup (lower k) kvs with
    | none => simp [hl] at h
    | some v => simp only [hl] at h ⊢; exact findkey_of_nav v r y h
  | .list xs, .idx i :: r, y, h => by
    simp only [nav] at h
    simp only [findkey]
    cases hl : pyIndex xs i with
    | none => simp [hl] at h
    | some v => simp only [hl] at h ⊢; exact findkey_of_nav v r y h
  | .dict _, .idx _ :: _, _, h | .list _, .key _ :: _, _, h => by simp [nav] at h
  | .null, _ :: _, _, h | .bool _, _ :: _, _, h | .int _, _ :: _, _, h | .flt _, _ :: _, _, h
  | .str _, _ :: _, _, h | .tup _, _ :: _, _, h => by simp [nav] at h

theorem nav_append : (x : J) → (a b : List PathEl) → nav x (a ++ b) = (nav x a).bind (fun z => nav z b)
  | x, [], b => by simp [nav]
  | .dict kvs, .key k :: r, b => by
    simp only [List.cons_append, nav]
    cases lookup (lower k) kvs with
    | none => rfl
    | some v => exact nav_append v r b
  | .list xs, .idx i :: r, b => by
    simp only [List.cons_append, nav]
    cases pyIndex xs i with
    | none => rfl
    | some v => exact nav_append v r b
  | .dict _, .idx _ :: _, _ | .list _, .key _ :: _, _ => by simp [nav]
  | .null, _ :: _, _ | .bool _, _ :: _, _ | .int _, _ :: _, _ | .flt _, _ :: _, _
  | .str _, _ :: _, _ | .tup _, _ :: _, _ => by simp [nav]

theorem lookup_of_mem_nodup : (kvs : Fields) → (keys kvs).Nodup → ∀ k v, (k, v) ∈ kvs → lookup k kvs = some v
  | [], _, k, v, h => by simp at h
  | (k', y) :: r, hn, k, v, h => by
    simp only [keys, List.map_cons, List.nodup_cons] at hn
    simp only [List.mem_cons, Prod.mk.injEq] at h
    rcases h with ⟨rfl, rfl⟩ | h
    · simp [lookup]
    · have hne : k' ≠ k := by
        intro e; subst e
        exact hn.1 (List.mem_map.mpr ⟨(k', v), h, rfl⟩)
      simp only [lookup, hne, if_false]
      exact lookup_of_mem_nodup r hn.2 k v h

theorem mem_convertF : (kvs : Fields) → ∀ k' v', (k', v') ∈ convertF kvs → ∃ k v, (k, v) ∈ kvs ∧ k' = lower k ∧ v' = convertLowercase v
  | [], k', v', h => by simp [convertF] at h
  | (a, b) :: r, k', v', h => by
    simp only [convertF, List.mem_cons, Prod.mk.injEq] at h
    rcases h with ⟨rfl, rfl⟩ | h
    · exact ⟨a, b, by simp, rfl, rfl⟩
    · obtain ⟨k, v, hm, e1, e2⟩ := mem_convertF r k' v' h
      exact ⟨k, v, List.mem_cons_of_mem _ hm, e1, e2⟩

theorem getElem?_convertL : (xs : List J) → ∀ (i : Nat) x', (convertL xs)[i]? = some x' → ∃ x, xs[i]? = some x ∧ x' = convertLowercase x
  | [], i, x', h => by simp [convertL] at h
  | a :: r, 0, x', h => by simp [convertL] at h; exact ⟨a, by simp, h.symm⟩
  | a :: r, i + 1, x', h => by
    simp only [convertL, List.getElem?_cons_succ] at h
    obtain ⟨x, hx, e⟩ := getElem?_convertL r i x' h
    exact ⟨x, by simpa using hx, e⟩

theorem plainF_mem : (kvs : Fields) → plainF kvs = true → ∀ k v, (k, v) ∈ kvs → plainMD v = true
  | [], _, k, v, h => by simp at h
  | (a, b) :: r, hp, k, v, h => by
    simp only [plainF, Bool.and_eq_true] at hp
    simp only [List.mem_cons, Prod.mk.injEq] at h
    rcases h with ⟨_, rfl⟩ | h
    · exact hp.1
    · exact plainF_mem r hp.2 k v h

theorem plainL_get : (xs : List J) → plainL xs = true → ∀ (i : Nat) x, xs[i]? = some x →
    plainMD x = true ∧ (∀ kvs, x = .dict kvs → typeStr kvs = true)
  | [], _, i, x, h => by simp at h
  | a :: r, hp, 0, x, h => by
    simp only [plainL, Bool.and_eq_true] at hp
    simp at h; subst h
    exact ⟨hp.1.2, fun kvs e => by subst e; exact hp.1.1⟩
  | a :: r, hp, i + 1, x, h => by
    simp only [plainL, Bool.and_eq_true] at hp
    exact plainL_get r hp.2 i x (by simpa using h)

theorem lower_idem' (s : Str) : lower (lower s) = lower s := by
  simp [lower, List.map_map, Function.comp_def, lowerC_idem]

/-- a path that resolves in the lower-cased copy can be walked in the dictionary itself, and ends at a part of it -/
theorem nav_of_resolves : (x : J) → plainMD x = true → ∀ rel, Resolves (convertLowercase x) rel →
    ∃ y, nav x rel = some y ∧ plainMD y = true
  | x, hp, [], _ => ⟨x, by simp [nav], hp⟩
  | .dict kvs, hp, .key k' :: r, h => by
    simp only [convertLowercase] at h
    cases h with
    | key _ _ v' _ hmem hres =>
      obtain ⟨k, v, hm, e1, e2⟩ := mem_convertF kvs k' v' hmem
      subst e2
      simp only [plainMD, Bool.and_eq_true, keysOK, List.all_eq_true, beq_iff_eq, decide_eq_true_eq] at hp
      have hk : lower k = k := hp.1.1.1 k (List.mem_map.mpr ⟨(k, v), hm, rfl⟩)
      have hl : lookup k kvs = some v := lookup_of_mem_nodup kvs hp.1.1.2 k v hm
      have hpv := plainF_mem kvs hp.2 k v hm
      obtain ⟨y, hy, hpy⟩ := nav_of_resolves v hpv r hres
      refine ⟨y, ?_, hpy⟩
      simp only [nav, e1, lower_idem', hk, hl, hy]
  | .list xs, hp, .idx i :: r, h => by
    simp only [convertLowercase] at h
    cases h with
    | idx _ n x' _ hget hres =>
      obtain ⟨x, hx, e⟩ := getElem?_convertL xs n x' hget
      subst e
      simp only [plainMD] at hp
      obtain ⟨hpx, _⟩ := plainL_get xs hp n x hx
      obtain ⟨y, hy, hpy⟩ := nav_of_resolves x hpx r hres
      refine ⟨y, ?_, hpy⟩
      simp only [nav, pyIndex]
      have : (0 : Int) ≤ (n : Int) := Int.natCast_nonneg n
      simp [this, hx, hy]
  | .dict kvs, _, .idx _ :: _, h => by simp only [convertLowercase] at h; cases h
  | .list xs, _, .key _ :: _, h => by simp only [convertLowercase] at h; cases h
  | .null, _, _ :: _, h | .bool _, _, _ :: _, h | .int _, _, _ :: _, h | .flt _, _, _ :: _, h
  | .tup _, _, _ :: _, h => by simp only [convertLowercase] at h; cases h
  | .str _, _, _ :: _, h => by simp only [convertLowercase] at h; cases h

end Mappy.Validator

namespace Mappy.Validator
open DictUtils (PathEl findkey pyIndex nk)
open Schema (Resolves)

theorem plainL_mem : (xs : List J) → plainL xs = true → ∀ x, x ∈ xs →
    plainMD x = true ∧ (∀ kvs, x = .dict kvs → typeStr kvs = true)
  | [], _, x, h => by simp at h
  | a :: r, hp, x, h => by
    simp only [plainL, Bool.and_eq_true] at hp
    simp only [List.mem_cons] at h
    rcases h with rfl | h
    · exact ⟨hp.1.2, fun kvs e => by subst e; exact hp.1.1⟩
    · exact plainL_mem r hp.2 x h

theorem mem_of_pyIndex (xs : List J) (i : Int) (v : J) (h : pyIndex xs i = some v) : v ∈ xs := by
  unfold pyIndex at h
  split at h
  · exact List.mem_of_getElem? h
  · split at h
    · exact List.mem_of_getElem? h
    · simp at h

theorem mem_of_lookup'' : (d : Fields) → ∀ k v, lookup k d = some v → (k, v) ∈ d
  | [], k, v, h => by simp [lookup] at h
  | (k', y) :: r, k, v, h => by
    simp only [lookup] at h
    split at h
    · rename_i hk; injection h with h; subst h; subst hk; simp
    · exact List.mem_cons_of_mem _ (mem_of_lookup'' r k v h)

/-- walking inside a plain Mapfile dictionary stays inside one -/
theorem nav_plain : (x : J) → (p : List PathEl) → ∀ y, plainMD x = true → nav x p = some y → plainMD y = true
  | x, [], y, hp, h => by simp [nav] at h; subst h; exact hp
  | .dict kvs, .key k :: r, y, hp, h => by
    simp only [nav] at h
    cases hl : lookup (lower k) kvs with
    | none => simp [hl] at h
    | some v =>
      simp only [hl] at h
      simp only [plainMD, Bool.and_eq_true] at hp
      exact nav_plain v r y (plainF_mem kvs hp.2 _ v (mem_of_lookup'' kvs _ v hl)) h
  | .list xs, .idx i :: r, y, hp, h => by
    simp only [nav] at h
    cases hl : pyIndex xs i with
    | none => simp [hl] at h
    | some v =>
      simp only [hl] at h
      simp only [plainMD] at hp
      exact nav_plain v r y (plainL_mem xs hp v (mem_of_pyIndex xs i v hl)).1 h
  | .dict _, .idx _ :: _, _, _, h | .list _, .key _ :: _, _, _, h => by simp [nav] at h
  | .null, _ :: _, _, _, h | .bool _, _ :: _, _, _, h | .int _, _ :: _, _, _, h | .flt _, _ :: _, _, _, h
  | .str _, _ :: _, _, _, h | .tup _, _ :: _, _, _, h => by simp [nav] at h

/-- a key step is only possible from a dict, an index step only from a list -/
theorem nav_key_dict (z : J) (k : Str) (r : List PathEl) (y : J) (h : nav z (.key k :: r) = some y) : ∃ d, z = .dict d := by
  cases z <;> simp [nav] at h
  exact ⟨_, rfl⟩

theorem nav_idx_elem (z : J) (i : Int) (y : J) (h : nav z [.idx i] = some y) : ∃ xs, z = .list xs ∧ y ∈ xs := by
  cases z <;> simp [nav] at h
  rename_i xs
  cases hl : pyIndex xs i with
  | none => simp [hl] at h
  | some v =>
    simp only [hl, nav] at h
    injection h with h; subst h
    exact ⟨xs, rfl, mem_of_pyIndex xs i v hl⟩

/-- splitting a path at its trailing indexes -/
theorem dropIdx_split (p : List PathEl) :
    ∃ idxs, p = dropIdx p ++ idxs ∧ (dropIdx p = [] ∨ ∃ q k, dropIdx p = q ++ [.key k]) := by
  unfold dropIdx
  refine ⟨(p.reverse.takeWhile isIdx).reverse, ?_, ?_⟩
  · have := List.takeWhile_append_dropWhile (p := isIdx) (l := p.reverse)
    have h2 := congrArg List.reverse this
    simp only [List.reverse_append, List.reverse_reverse] at h2
    exact h2.symm
  · cases hd : p.reverse.dropWhile isIdx with
    | nil => left; rfl
    | cons a r =>
      right
      have hne : isIdx a = false := by
        have := List.head_dropWhile_not isIdx (l := p.reverse) (by rw [hd]; simp)
        simpa [hd] using this
      cases a with
      | idx i => simp [isIdx] at hne
      | key k => exact ⟨r.reverse, k, by simp⟩

theorem typeStr_lookup (kvs : Fields) (h : typeStr kvs = true) : ∃ t, lookup typeKey kvs = some (.str t) := by
  unfold typeStr at h
  split at h
  · exact ⟨_, by assumption⟩
  · simp at h

theorem noPos_of_plain (d : Fields) (h : plainMD (.dict d) = true) : lookup posKey d = none := by
  simp only [plainMD, Bool.and_eq_true, Bool.not_eq_true', hasKey] at h
  cases hl : lookup posKey d with
  | none => rfl
  | some x => simp [hl] at h

/-- **create_message returns** for every path that can be walked in a plain Mapfile dictionary whose root carries
`__type__` -/
theorem createMessage_total (kvs : Fields) (hp : plainMD (.dict kvs) = true) (ht : typeStr kvs = true)
    (path : List PathEl) (y : J) (hn : nav (.dict kvs) path = some y) :
    ∃ m, createMessage (.dict kvs) path = .ok m := by
  have key_case : ∀ (pre : List PathEl) (k : Str), (∃ y', nav (.dict kvs) (pre ++ [.key k]) = some y') →
      ∃ d, findkey true (.dict kvs) pre = .ok (.dict d) ∧ plainMD (.dict d) = true := by
    intro pre k ⟨y', hy'⟩
    rw [nav_append] at hy'
    cases hz : nav (.dict kvs) pre with
    | none => simp [hz] at hy'
    | some z =>
      simp only [hz, Option.bind] at hy'
      obtain ⟨d, rfl⟩ := nav_key_dict z k [] y' hy'
      exact ⟨d, findkey_of_nav _ pre _ hz, nav_plain _ pre _ hp hz⟩
  unfold createMessage
  cases hlast : path.getLast? with
  | none =>
    have : path = [] := List.getLast?_eq_none_iff.mp hlast
    subst this
    obtain ⟨t, htl⟩ := typeStr_lookup kvs ht
    simp [target, htl, position, noPos_of_plain kvs hp]
  | some e =>
    obtain ⟨pre, rfl⟩ : ∃ pre, path = pre ++ [e] := by
      have := List.getLast?_eq_some_iff.mp hlast
      obtain ⟨ys, h⟩ := this
      exact ⟨ys, h⟩
    cases e with
    | key k =>
      obtain ⟨d, hf, hpd⟩ := key_case pre k ⟨y, hn⟩
      simp [target, hlast, hf, position, noPos_of_plain d hpd]
    | idx i =>
      have hfk := findkey_of_nav _ _ _ hn
      simp only [target, hlast, hfk]
      have hpy := nav_plain _ _ _ hp hn
      cases y with
      | dict d =>
        -- an object of a list: it carries __type__
        have hty : typeStr d = true := by
          rw [nav_append] at hn
          cases hz : nav (.dict kvs) pre with
          | none => simp [hz] at hn
          | some z =>
            simp only [hz, Option.bind] at hn
            obtain ⟨xs, rfl, hmem⟩ := nav_idx_elem z i _ hn
            have hpz := nav_plain _ pre _ hp hz
            simp only [plainMD] at hpz
            exact (plainL_mem xs hpz _ hmem).2 d rfl
        obtain ⟨t, htl⟩ := typeStr_lookup d hty
        simp [htl, position, noPos_of_plain d hpy]
      | _ =>
        all_goals
          obtain ⟨idxs, hsplit, hform⟩ := dropIdx_split (pre ++ [.idx i])
          rcases hform with hnil | ⟨q, k, hq⟩
          · -- the whole path would consist of indexes: impossible from a dict root
            rw [hnil] at hsplit
            simp only [List.nil_append] at hsplit
            exfalso
            cases hpi : pre ++ [PathEl.idx i] with
            | nil => simp at hpi
            | cons a r =>
              have ha : isIdx a = true := by
                have hall : ∀ x ∈ idxs, isIdx x = true := by
                  have : idxs = ((pre ++ [PathEl.idx i]).reverse.takeWhile isIdx).reverse := by
                    unfold dropIdx at hnil
                    have h1 := List.takeWhile_append_dropWhile (p := isIdx) (l := (pre ++ [PathEl.idx i]).reverse)
                    have hd : (pre ++ [PathEl.idx i]).reverse.dropWhile isIdx = [] := by
                      simpa using congrArg List.reverse hnil
                    rw [hd, List.append_nil] at h1
                    rw [h1, List.reverse_reverse]
                    exact hsplit.symm
                  intro x hx
                  rw [this] at hx
                  simp only [List.mem_reverse] at hx
                  have hall := List.all_takeWhile (p := isIdx) (l := (pre ++ [PathEl.idx i]).reverse)
                  exact List.all_eq_true.mp hall x hx
                exact hall a (by rw [← hsplit, hpi]; simp)
              rw [hpi] at hn
              cases a with
              | key _ => simp [isIdx] at ha
              | idx j => simp [nav] at hn
          · rw [hq]
            have hlast2 : (q ++ [PathEl.key k]).getLast? = some (.key k) := by simp
            have hdl : (q ++ [PathEl.key k]).dropLast = q := by simp
            simp only [hlast2, hdl]
            have : ∃ y', nav (.dict kvs) (q ++ [.key k]) = some y' := by
              rw [hsplit, hq, nav_append] at hn
              cases hz : nav (.dict kvs) (q ++ [.key k]) with
              | none => simp [hz] at hn
              | some z => exact ⟨z, rfl⟩
            obtain ⟨d, hf, hpd⟩ := key_case q k this
            simp [hf, position, noPos_of_plain d hpd]

end Mappy.Validator
