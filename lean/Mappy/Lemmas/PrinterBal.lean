/- Every piece of output the printer model produces is balanced layout (used by C16). -/
import Mappy.Lemmas.Layout

namespace Mappy.Printer

theorem bind_ok {α β : Type} {x : Res α} {f : α → Res β} {r : β} (h : (x >>= f) = .ok r) :
    ∃ a, x = .ok a ∧ f a = .ok r := by
  cases x with
  | error e => simp [bind, Except.bind] at h
  | ok a => exact ⟨a, rfl, h⟩

theorem typeComment_kind (o : Opts) (level : Nat) (c : Fields) (ls : List Line)
    (h : typeComment o level c = .ok ls) : ∀ l ∈ ls, l.kind = .comment := by
  unfold typeComment at h
  cases ht : typeCommentTexts c with
  | error e => simp [ht, Except.map] at h
  | ok ss =>
    simp only [ht, Except.map] at h
    injection h with h; subst h
    split
    · simp
    · intro l hl; simp at hl; obtain ⟨s, _, rfl⟩ := hl; rfl

theorem kvLines_attrs (o : Opts) (level aligned : Nat) (c : Fields) (d : Fields) (ls : List Line)
    (h : kvLines o level aligned c d = .ok ls) : ∀ l ∈ ls, l.kind = .attr ∧ l.lvl = level + 2 := by
  induction d generalizing ls with
  | nil => simp [kvLines] at h; subst h; simp
  | cons kv r ih =>
    obtain ⟨k, v⟩ := kv
    simp only [kvLines] at h
    split at h
    · exact ih ls h
    · split at h
      · simp at h
      · split at h
        · simp at h
        · obtain ⟨cm, _, h⟩ := bind_ok h
          obtain ⟨rest, hr, h⟩ := bind_ok h
          simp only [pure, Except.pure] at h
          injection h with h; subst h
          intro l hl
          simp only [List.mem_cons] at hl
          rcases hl with rfl | hl
          · exact ⟨rfl, rfl⟩
          · exact ih rest hr l hl

theorem keyDict_bal (o : Opts) (key : Str) (level : Nat) (v : J) (ls : List Line)
    (h : keyDict o key level v = .ok ls) : Bal o (level + 1) ls := by
  cases v with
  | dict d =>
    simp only [keyDict] at h
    obtain ⟨comments, _, h⟩ := bind_ok h
    obtain ⟨tc, htc, h⟩ := bind_ok h
    obtain ⟨body, hb, h⟩ := bind_ok h
    simp only [pure, Except.pure] at h
    injection h with h; subst h
    have h1 := Bal.comments o (level + 1) tc (typeComment_kind o level comments tc htc)
    have h2 := Bal.block o (level + 1) (upper key) body (Bal.attrs o (level + 2) body (kvLines_attrs o level _ comments d body hb))
    rw [List.append_assoc, List.append_assoc]
    rw [← List.append_assoc [startLine level key]]
    exact Bal.append h1 h2
  | null => simp [keyDict] at h
  | bool b => simp [keyDict] at h
  | int n => simp [keyDict] at h
  | flt s => simp [keyDict] at h
  | str s => simp [keyDict] at h
  | list xs => simp [keyDict] at h
  | tup xs => simp [keyDict] at h

theorem configGo_attrs (o : Opts) (level : Nat) (d : Fields) (ls : List Line)
    (h : configLines.go o level d = .ok ls) : ∀ l ∈ ls, l.kind = .attr ∧ l.lvl = level + 1 := by
  induction d generalizing ls with
  | nil => simp [configLines.go] at h; subst h; simp
  | cons kv r ih =>
    obtain ⟨k, v⟩ := kv
    simp only [configLines.go] at h
    split at h
    · simp at h
    · obtain ⟨rest, hr, h⟩ := bind_ok h
      simp only [pure, Except.pure] at h
      injection h with h; subst h
      intro l hl
      simp only [List.mem_cons] at hl
      rcases hl with rfl | hl
      · exact ⟨rfl, rfl⟩
      · exact ih rest hr l hl

theorem configLines_bal (o : Opts) (level : Nat) (v : J) (ls : List Line)
    (h : configLines o level v = .ok ls) : Bal o (level + 1) ls := by
  cases v <;> simp only [configLines] at h <;> first | exact Bal.attrs o _ ls (configGo_attrs o level _ ls h) | simp at h

theorem repeatedGo_attrs (o : Opts) (key : Str) (level aligned : Nat) (xs : List J) (ls : List Line)
    (h : repeatedLines.go o key level aligned xs = .ok ls) : ∀ l ∈ ls, l.kind = .attr ∧ l.lvl = level + 1 := by
  induction xs generalizing ls with
  | nil => simp [repeatedLines.go] at h; subst h; simp
  | cons v r ih =>
    simp only [repeatedLines.go] at h
    split at h
    · simp at h
    · obtain ⟨rest, hr, h⟩ := bind_ok h
      simp only [pure, Except.pure] at h
      injection h with h; subst h
      intro l hl
      simp only [List.mem_cons] at hl
      rcases hl with rfl | hl
      · exact ⟨rfl, rfl⟩
      · exact ih rest hr l hl

theorem repeatedLines_bal (o : Opts) (key : Str) (level aligned : Nat) (v : J) (ls : List Line)
    (h : repeatedLines o key level aligned v = .ok ls) : Bal o (level + 1) ls := by
  cases v <;> simp only [repeatedLines] at h <;> first | exact Bal.attrs o _ ls (repeatedGo_attrs o key level aligned _ ls h) | simp at h

theorem projBody_attrs (o : Opts) (level : Nat) (v : J) (body : List Line)
    (hb : projBody o level v = .ok body) : ∀ l ∈ body, l.kind = .attr ∧ l.lvl = level + 2 := by
  unfold projBody at hb
  split at hb
  · injection hb with hb; subst hb; simp
  · split at hb
    · split at hb <;> (injection hb with hb; subst hb; simp)
    · injection hb with hb; subst hb
      intro l hl; simp at hl; obtain ⟨s, _, rfl⟩ := hl; exact ⟨rfl, rfl⟩
    · simp at hb
  · simp at hb

theorem projectionLines_bal (o : Opts) (key : Str) (level : Nat) (cmt : Str) (v : J) (ls : List Line)
    (h : projectionLines o key level cmt v = .ok ls) : Bal o (level + 1) ls := by
  unfold projectionLines at h
  simp only at h
  split at h
  · rename_i body hb
    injection h with h; subst h
    have hc : Bal o (level + 2) (if cmt = [] then [] else [⟨.comment, level + 2, strip cmt, 0, [], []⟩]) := by
      split
      · exact Bal.nil _ _
      · exact Bal.comment _ _ _ rfl
    have := Bal.block o (level + 1) (upper key) _ (Bal.append hc (Bal.attrs o (level + 2) body (projBody_attrs o level v body hb)))
    simpa [startLine, endLine, List.append_assoc] using this
  · simp at h

theorem pairLines_attrs (level : Nat) (ps : List J) (ls : List Line)
    (h : pairLines level ps = .ok ls) : ∀ l ∈ ls, l.kind = .attr ∧ l.lvl = level + 2 := by
  induction ps generalizing ls with
  | nil => simp [pairLines] at h; subst h; simp
  | cons p r ih =>
    simp only [pairLines] at h
    obtain ⟨l0, hl0, h⟩ := bind_ok h
    obtain ⟨rest, hr, h⟩ := bind_ok h
    simp only [pure, Except.pure] at h
    injection h with h; subst h
    have h0 : l0.kind = .attr ∧ l0.lvl = level + 2 := by
      unfold pairLine at hl0
      split at hl0
      · split at hl0
        · split at hl0
          · injection hl0 with hl0; subst hl0; exact ⟨rfl, rfl⟩
          · simp at hl0
        · simp at hl0
      · split at hl0
        · split at hl0
          · injection hl0 with hl0; subst hl0; exact ⟨rfl, rfl⟩
          · simp at hl0
        · simp at hl0
      · simp at hl0
    intro l hl
    simp only [List.mem_cons] at hl
    rcases hl with rfl | hl
    · exact h0
    · exact ih rest hr l hl

theorem pairBlock_bal (o : Opts) (key : Str) (level : Nat) (v : J) (ls : List Line)
    (h : pairBlock o key level v = .ok ls) : Bal o (level + 1) ls := by
  unfold pairBlock at h
  split at h
  · obtain ⟨body, hb, h⟩ := bind_ok h
    simp only [pure, Except.pure] at h
    injection h with h; subst h
    have := Bal.block o (level + 1) (upper key) _ (Bal.attrs o (level + 2) body (pairLines_attrs level _ body hb))
    simpa [startLine, endLine, List.append_assoc] using this
  · obtain ⟨body, hb, h⟩ := bind_ok h
    simp only [pure, Except.pure] at h
    injection h with h; subst h
    have := Bal.block o (level + 1) (upper key) _ (Bal.attrs o (level + 2) body (pairLines_attrs level _ body hb))
    simpa [startLine, endLine, List.append_assoc] using this
  · simp at h

theorem pointsGo_bal (o : Opts) (key : Str) (level : Nat) (xs : List J) (ls : List Line)
    (h : pointsBlocks.go o key level xs = .ok ls) : Bal o (level + 1) ls := by
  induction xs generalizing ls with
  | nil => simp [pointsBlocks.go] at h; subst h; exact Bal.nil _ _
  | cons b r ih =>
    simp only [pointsBlocks.go] at h
    obtain ⟨x, hx, h⟩ := bind_ok h
    obtain ⟨y, hy, h⟩ := bind_ok h
    simp only [pure, Except.pure] at h
    injection h with h; subst h
    exact Bal.append (pairBlock_bal o key level b x hx) (ih y hy)

theorem pointsBlocks_bal (o : Opts) (key : Str) (level : Nat) (v : J) (ls : List Line)
    (h : pointsBlocks o key level v = .ok ls) : Bal o (level + 1) ls := by
  unfold pointsBlocks at h
  split at h
  · split at h
    · exact pairBlock_bal o key level _ ls h
    · split at h
      · exact pointsGo_bal o key level _ ls h
      · simp at h
  · simp at h

theorem simple_bal (o : Opts) (T : Table) (level : Nat) (ty : Option Str) (c : Fields) (al : Nat) (attr : Str)
    (v : J) (ls : List Line) (h : simple o T level ty c al attr v = .ok ls) : Bal o (level + 1) ls := by
  unfold simple at h
  split at h
  · simp at h
  · split at h
    · rename_i l hl
      injection h with h; subst h
      unfold attrLine at hl
      split at hl
      · simp at hl
      · obtain ⟨t, _, hl⟩ := bind_ok hl
        obtain ⟨cm, _, hl⟩ := bind_ok hl
        simp only [pure, Except.pure] at hl
        injection hl with hl; subst hl
        exact Bal.attr o _ _ rfl rfl
    · simp at h

theorem other_bal (o : Opts) (T : Table) (level : Nat) (ty : Option Str) (c : Fields) (al : Nat) (attr : Str)
    (v : J) (child : Unit → Res (List Line)) (ls : List Line)
    (hchild : ∀ ls, child () = .ok ls → Bal o (level + 1) ls)
    (h : other o T level ty c al attr v child = .ok ls) : Bal o (level + 1) ls := by
  unfold other at h
  split at h
  · exact pairBlock_bal o attr level v ls h
  · split at h
    · exact keyDict_bal o attr level v ls h
    · split at h
      · split at h
        · simp at h
        · exact projectionLines_bal o attr level _ v ls h
      · split at h
        · exact repeatedLines_bal o attr level al v ls h
        · split at h
          · exact pointsBlocks_bal o attr level v ls h
          · split at h
            · exact configLines_bal o level v ls h
            · split at h
              · exact hchild ls h
              · exact simple_bal o T level ty c al attr v ls h

end Mappy.Printer
