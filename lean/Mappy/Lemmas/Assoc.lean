/- Lemmas about `lower` and insertion-ordered association lists (used by C17, C18, C07, C13). -/
import Mappy.Base

namespace Mappy

theorem ofNat_toNat (n : Nat) (h : n < 55296) : (Char.ofNat n).toNat = n := by
  have hv : n.isValidChar := Or.inl h
  simp [Char.ofNat, hv, Char.toNat, Char.ofNatAux]

theorem lowerC_idem (c : Char) : lowerC (lowerC c) = lowerC c := by
  unfold lowerC
  split
  · rename_i h
    rw [ofNat_toNat (c.toNat + 32) (by omega), if_neg (by omega)]
  · rfl

theorem upperC_idem (c : Char) : upperC (upperC c) = upperC c := by
  unfold upperC
  split
  · rename_i h
    rw [ofNat_toNat (c.toNat - 32) (by omega), if_neg (by omega)]
  · rfl

@[simp] theorem lower_idem (s : Str) : lower (lower s) = lower s := by
  unfold lower; simp [List.map_map]; intro c _; exact lowerC_idem c

@[simp] theorem keys_nil : keys ([] : Fields) = [] := rfl
@[simp] theorem keys_cons (k : Str) (v : J) (r : Fields) : keys ((k, v) :: r) = k :: keys r := rfl
@[simp] theorem keys_append (a b : Fields) : keys (a ++ b) = keys a ++ keys b := by simp [keys]

theorem lookup_none_iff (k : Str) (d : Fields) : lookup k d = none ↔ k ∉ keys d := by
  induction d with
  | nil => simp [lookup]
  | cons p r ih =>
    obtain ⟨k', v⟩ := p
    simp only [lookup, keys_cons, List.mem_cons, not_or]
    split
    · rename_i h; simp [h]
    · rename_i h; simp [ih]; intro _; exact fun e => h e.symm

theorem hasKey_iff (k : Str) (d : Fields) : hasKey k d = true ↔ k ∈ keys d := by
  unfold hasKey
  cases h : lookup k d with
  | none => simp; exact (lookup_none_iff k d).1 h
  | some v =>
    simp
    refine Decidable.byContradiction fun hc => ?_
    have := (lookup_none_iff k d).2 hc
    simp [this] at h

theorem hasKey_false_iff (k : Str) (d : Fields) : hasKey k d = false ↔ k ∉ keys d := by
  rw [← hasKey_iff]; simp

theorem setKey_of_not_mem (k : Str) (v : J) (d : Fields) (h : k ∉ keys d) :
    setKey k v d = d ++ [(k, v)] := by
  induction d with
  | nil => rfl
  | cons p r ih =>
    obtain ⟨k', v'⟩ := p
    simp only [keys_cons, List.mem_cons, not_or] at h
    have hne : ¬ k' = k := fun e => h.1 e.symm
    simp [setKey, hne, ih h.2]

theorem keys_setKey_of_mem (k : Str) (v : J) (d : Fields) (h : k ∈ keys d) :
    keys (setKey k v d) = keys d := by
  induction d with
  | nil => simp at h
  | cons p r ih =>
    obtain ⟨k', v'⟩ := p
    simp only [setKey]
    split
    · simp
    · rename_i hne
      simp only [keys_cons, List.mem_cons] at h
      rcases h with h | h
      · exact absurd h.symm hne
      · simp [ih h]

theorem keys_setKey (k : Str) (v : J) (d : Fields) :
    keys (setKey k v d) = if k ∈ keys d then keys d else keys d ++ [k] := by
  split
  · rename_i h; exact keys_setKey_of_mem k v d h
  · rename_i h; rw [setKey_of_not_mem k v d h]; simp

theorem mem_keys_setKey (k k' : Str) (v : J) (d : Fields) :
    k' ∈ keys (setKey k v d) ↔ k' = k ∨ k' ∈ keys d := by
  rw [keys_setKey]; split
  · rename_i h; constructor
    · exact Or.inr
    · rintro (rfl | h'); exact h; exact h'
  · simp; exact Or.comm

theorem lookup_setKey (k k' : Str) (v : J) (d : Fields) :
    lookup k' (setKey k v d) = if k' = k then some v else lookup k' d := by
  induction d with
  | nil =>
    simp only [setKey, lookup]
    by_cases h : k = k'
    · simp [h]
    · have : ¬ k' = k := fun e => h e.symm
      simp [h, this]
  | cons p r ih =>
    obtain ⟨k0, v0⟩ := p
    simp only [setKey]
    split
    · rename_i h; subst h
      simp only [lookup]
      split <;> rename_i h2
      · simp [h2]
      · have : ¬ k' = k0 := fun e => h2 e.symm
        simp [this]
    · rename_i h
      simp only [lookup]
      split <;> rename_i h2
      · subst h2; simp [h]
      · exact ih

theorem keys_delKey_sub (k k' : Str) (d : Fields) (h : k' ∈ keys (delKey k d)) : k' ∈ keys d := by
  induction d with
  | nil => simp [delKey] at h
  | cons p r ih =>
    obtain ⟨k0, v0⟩ := p
    simp only [delKey] at h
    split at h
    · simp [h]
    · simp only [keys_cons, List.mem_cons] at h ⊢
      rcases h with h | h
      · exact Or.inl h
      · exact Or.inr (ih h)

theorem nodup_delKey (k : Str) (d : Fields) (h : (keys d).Nodup) : (keys (delKey k d)).Nodup := by
  induction d with
  | nil => simp [delKey]
  | cons p r ih =>
    obtain ⟨k0, v0⟩ := p
    simp only [keys_cons, List.nodup_cons] at h
    simp only [delKey]
    split
    · exact h.2
    · simp only [keys_cons, List.nodup_cons]
      exact ⟨fun hm => h.1 (keys_delKey_sub k k0 r hm), ih h.2⟩

theorem nodup_setKey (k : Str) (v : J) (d : Fields) (h : (keys d).Nodup) : (keys (setKey k v d)).Nodup := by
  rw [keys_setKey]; split
  · exact h
  · rename_i hk
    rw [List.nodup_append]
    refine ⟨h, by simp, ?_⟩
    intro a ha b hb
    simp at hb; subst hb
    intro e; subst e; exact hk ha

theorem not_mem_keys_delKey (k : Str) (d : Fields) (h : (keys d).Nodup) : k ∉ keys (delKey k d) := by
  induction d with
  | nil => simp [delKey]
  | cons p r ih =>
    obtain ⟨k0, v0⟩ := p
    simp only [keys_cons, List.nodup_cons] at h
    simp only [delKey]
    split
    · rename_i e; subst e; exact h.1
    · rename_i hne
      simp only [keys_cons, List.mem_cons, not_or]
      exact ⟨fun e => hne e.symm, ih h.2⟩

theorem lookup_delKey_ne (k k' : Str) (d : Fields) (hne : k' ≠ k) :
    lookup k' (delKey k d) = lookup k' d := by
  induction d with
  | nil => rfl
  | cons p r ih =>
    obtain ⟨k0, v0⟩ := p
    simp only [delKey]
    split
    · rename_i e; subst e
      have : ¬ k0 = k' := fun e => hne e.symm
      simp [lookup, this]
    · simp only [lookup]; split
      · rfl
      · exact ih

/-- With a key that is already present, `setKey` commutes with any other `setKey`. -/
theorem setKey_comm_of_mem (a b : Str) (x y : J) (d : Fields) (hab : a ≠ b) (ha : a ∈ keys d) :
    setKey a x (setKey b y d) = setKey b y (setKey a x d) := by
  induction d with
  | nil => simp at ha
  | cons p r ih =>
    obtain ⟨k0, v0⟩ := p
    by_cases h1 : k0 = a
    · subst h1
      have : ¬ k0 = b := hab
      simp [setKey, this]
    · simp only [keys_cons, List.mem_cons] at ha
      have ha' : a ∈ keys r := by
        rcases ha with e | h; exact absurd e.symm h1; exact h
      by_cases h2 : k0 = b
      · subst h2; simp [setKey, h1]
      · simp [setKey, h1, h2, ih ha']

theorem setKey_setKey_same (a : Str) (x y : J) (d : Fields) :
    setKey a x (setKey a y d) = setKey a x d := by
  induction d with
  | nil => simp [setKey]
  | cons p r ih =>
    obtain ⟨k0, v0⟩ := p
    by_cases h1 : k0 = a
    · simp [setKey, h1]
    · simp [setKey, h1, ih]

end Mappy
