/-
  Base types shared by every model: strings as code-point lists, the JSON-like value type `J`
  (Python dict = ordered association list), Python error kinds.
  Core Lean only (no Mathlib) so that the driver can be compiled.
-/
import Lean
open Lean in
/-- `s%"END"` elaborates to the code-point list `['E','N','D']` (a literal the kernel can compute with). -/
macro:max "s%" s:str : term => do
  let cs := s.getString.toList
  let elems := cs.map fun c => Syntax.mkCharLit c
  `(([$(elems.toArray),*] : List Char))

namespace Mappy

/-- Strings are lists of code points: proofs about `lower`, prefixes and suffixes are then list proofs,
and kernel `decide` never has to reduce UTF-8 byte arrays. -/
abbrev Str := List Char

def lowerC (c : Char) : Char :=
  if 65 ≤ c.toNat ∧ c.toNat ≤ 90 then Char.ofNat (c.toNat + 32) else c
def upperC (c : Char) : Char :=
  if 97 ≤ c.toNat ∧ c.toNat ≤ 122 then Char.ofNat (c.toNat - 32) else c
/-- ASCII lower-casing. Python's `str.lower` agrees with it on the strings the harness compares
(checked by the harness per case; see DESIGN §8). -/
def lower (s : Str) : Str := s.map lowerC
def upper (s : Str) : Str := s.map upperC

/-- The Python exception kinds the models distinguish. -/
inductive PyErr where
  | keyError | indexError | typeError | attributeError | assertionError | valueError | ioError
  | unboundLocal | unsupported
  deriving DecidableEq, Repr, Inhabited

def PyErr.name : PyErr → String
  | .keyError => "KeyError" | .indexError => "IndexError" | .typeError => "TypeError"
  | .attributeError => "AttributeError" | .assertionError => "AssertionError"
  | .valueError => "ValueError" | .ioError => "IOError" | .unboundLocal => "UnboundLocalError"
  | .unsupported => "UNSUPPORTED"

/-- JSON-like values. `flt` carries the Python `repr` lexeme of a float (mappyfile never computes
with floats). `dict` is an insertion-ordered association list. `tup` is a Python tuple. -/
inductive J where
  | null
  | bool (b : Bool)
  | int (n : Int)
  | flt (s : Str)
  | str (s : Str)
  | list (xs : List J)
  | tup (xs : List J)
  | dict (kvs : List (Str × J))
  deriving Repr, Inhabited

abbrev Fields := List (Str × J)

mutual
def J.beq : J → J → Bool
  | .null, .null => true
  | .bool a, .bool b => a == b
  | .int a, .int b => a == b
  | .flt a, .flt b => a == b
  | .str a, .str b => a == b
  | .list a, .list b => J.beqL a b
  | .tup a, .tup b => J.beqL a b
  | .dict a, .dict b => J.beqF a b
  | _, _ => false
def J.beqL : List J → List J → Bool
  | [], [] => true
  | x :: xs, y :: ys => J.beq x y && J.beqL xs ys
  | _, _ => false
def J.beqF : Fields → Fields → Bool
  | [], [] => true
  | (k, x) :: xs, (l, y) :: ys => k == l && J.beq x y && J.beqF xs ys
  | _, _ => false
end

mutual
theorem J.beq_eq : (a b : J) → J.beq a b = true → a = b
  | .null, .null, _ => rfl
  | .bool a, .bool b, h => by simp [J.beq] at h; simp [h]
  | .int a, .int b, h => by simp [J.beq] at h; simp [h]
  | .flt a, .flt b, h => by simp [J.beq] at h; simp [h]
  | .str a, .str b, h => by simp [J.beq] at h; simp [h]
  | .list a, .list b, h => by simp [J.beq] at h; simp [J.beqL_eq a b h]
  | .tup a, .tup b, h => by simp [J.beq] at h; simp [J.beqL_eq a b h]
  | .dict a, .dict b, h => by simp [J.beq] at h; simp [J.beqF_eq a b h]
  | .null, .bool _, h | .null, .int _, h | .null, .flt _, h | .null, .str _, h
  | .null, .list _, h | .null, .tup _, h | .null, .dict _, h => by simp [J.beq] at h
  | .bool _, .null, h | .bool _, .int _, h | .bool _, .flt _, h | .bool _, .str _, h
  | .bool _, .list _, h | .bool _, .tup _, h | .bool _, .dict _, h => by simp [J.beq] at h
  | .int _, .null, h | .int _, .bool _, h | .int _, .flt _, h | .int _, .str _, h
  | .int _, .list _, h | .int _, .tup _, h | .int _, .dict _, h => by simp [J.beq] at h
  | .flt _, .null, h | .flt _, .bool _, h | .flt _, .int _, h | .flt _, .str _, h
  | .flt _, .list _, h | .flt _, .tup _, h | .flt _, .dict _, h => by simp [J.beq] at h
  | .str _, .null, h | .str _, .bool _, h | .str _, .int _, h | .str _, .flt _, h
  | .str _, .list _, h | .str _, .tup _, h | .str _, .dict _, h => by simp [J.beq] at h
  | .list _, .null, h | .list _, .bool _, h | .list _, .int _, h | .list _, .flt _, h
  | .list _, .str _, h | .list _, .tup _, h | .list _, .dict _, h => by simp [J.beq] at h
  | .tup _, .null, h | .tup _, .bool _, h | .tup _, .int _, h | .tup _, .flt _, h
  | .tup _, .str _, h | .tup _, .list _, h | .tup _, .dict _, h => by simp [J.beq] at h
  | .dict _, .null, h | .dict _, .bool _, h | .dict _, .int _, h | .dict _, .flt _, h
  | .dict _, .str _, h | .dict _, .list _, h | .dict _, .tup _, h => by simp [J.beq] at h
theorem J.beqL_eq : (a b : List J) → J.beqL a b = true → a = b
  | [], [], _ => rfl
  | x :: xs, y :: ys, h => by
      simp [J.beqL] at h; simp [J.beq_eq x y h.1, J.beqL_eq xs ys h.2]
  | [], _ :: _, h | _ :: _, [], h => by simp [J.beqL] at h
theorem J.beqF_eq : (a b : Fields) → J.beqF a b = true → a = b
  | [], [], _ => rfl
  | (k, x) :: xs, (l, y) :: ys, h => by
      simp [J.beqF] at h; simp [h.1.1, J.beq_eq x y h.1.2, J.beqF_eq xs ys h.2]
  | [], _ :: _, h | _ :: _, [], h => by simp [J.beqF] at h
end

mutual
theorem J.beq_refl : (a : J) → J.beq a a = true
  | .null => rfl
  | .bool _ | .int _ | .flt _ | .str _ => by simp [J.beq]
  | .list a | .tup a => by simp [J.beq, J.beqL_refl a]
  | .dict a => by simp [J.beq, J.beqF_refl a]
theorem J.beqL_refl : (a : List J) → J.beqL a a = true
  | [] => rfl
  | x :: xs => by simp [J.beqL, J.beq_refl x, J.beqL_refl xs]
theorem J.beqF_refl : (a : Fields) → J.beqF a a = true
  | [] => rfl
  | (k, x) :: xs => by simp [J.beqF, J.beq_refl x, J.beqF_refl xs]
end

instance : DecidableEq J := fun a b =>
  if h : J.beq a b = true then isTrue (J.beq_eq a b h)
  else isFalse (fun e => h (e ▸ J.beq_refl a))

/-- Python truthiness -/
def truthy : J → Bool
  | .null => false
  | .bool b => b
  | .int n => n != 0
  | .flt s => !(s = ['0','.','0'] || s = ['-','0','.','0'])
  | .str s => !s.isEmpty
  | .list xs => !xs.isEmpty
  | .tup xs => !xs.isEmpty
  | .dict kvs => !kvs.isEmpty

/-- Python-style results. -/
abbrev Res (α : Type) := Except PyErr α

instance instDecEqExcept {ε α : Type} [DecidableEq ε] [DecidableEq α] : DecidableEq (Except ε α) := fun a b =>
  match a, b with
  | .ok x, .ok y => if h : x = y then isTrue (by rw [h]) else isFalse (fun e => h (by injection e))
  | .error x, .error y => if h : x = y then isTrue (by rw [h]) else isFalse (fun e => h (by injection e))
  | .ok _, .error _ => isFalse (fun e => by injection e)
  | .error _, .ok _ => isFalse (fun e => by injection e)

/-- association-list lookup (first match) -/
def lookup (k : Str) : Fields → Option J
  | [] => none
  | (k', v) :: r => if k' = k then some v else lookup k r

def hasKey (k : Str) (d : Fields) : Bool := (lookup k d).isSome

/-- `d[k] = v` on an insertion-ordered dict: replace in place, else append. -/
def setKey (k : Str) (v : J) : Fields → Fields
  | [] => [(k, v)]
  | (k', v') :: r => if k' = k then (k', v) :: r else (k', v') :: setKey k v r

def delKey (k : Str) : Fields → Fields
  | [] => []
  | (k', v') :: r => if k' = k then r else (k', v') :: delKey k r

def keys (d : Fields) : List Str := d.map Prod.fst

def startsWith (p s : Str) : Bool := p.isPrefixOf s
def endsWith (p s : Str) : Bool := p.isSuffixOf s

/-- Python `str.strip()` restricted to the ASCII whitespace set. -/
def isWs (c : Char) : Bool := c = ' ' || c = '\t' || c = '\n' || c = '\r' || c = '\x0b' || c = '\x0c'
def lstrip (s : Str) : Str := s.dropWhile isWs
def rstrip (s : Str) : Str := (s.reverse.dropWhile isWs).reverse
def strip (s : Str) : Str := rstrip (lstrip s)

end Mappy
