/- Record types of the generated grammar tables (Gen/Grammar.lean) and look-up helpers. -/
import Mappy.Base
namespace Mappy

/-- a post-expansion Lark rule: literal terminals appear by their text (`'||'`, `'OR'i`), regex
terminals and non-terminals by name -/
structure Rule where
  origin : Str
  expansion : List Str
  alias : Str
  expand1 : Bool      -- `?rule`: inlined when it has one child
  keepAll : Bool      -- `!rule`: anonymous tokens are kept
  deriving Repr, DecidableEq, Inhabited

structure Terminal where
  name : Str
  regex : Bool
  pattern : Str
  ci : Bool
  priority : Int
  deriving Repr, DecidableEq, Inhabited

/-- the alternatives of a rule: (expansion, alias) -/
def altsOf (rules : List Rule) (o : Str) : List (List Str × Str) :=
  (rules.filter (fun r => r.origin = o)).map (fun r => (r.expansion, r.alias))

/-- same alternatives, in any order -/
def sameAlts (a b : List (List Str × Str)) : Bool := a.all (b.contains ·) && b.all (a.contains ·)

def allExpand1 (rules : List Rule) (o : Str) : Bool := (rules.filter (fun r => r.origin = o)).all (·.expand1)

end Mappy
