/-
  M5b — model of the glue in mappyfile/validator.py around jsonschema:
  `convert_lowercase`, `create_message` (error path → keyword / object name and recorded position),
  `get_error_messages`.  jsonschema's own evaluation is third-party and not modelled: the model takes the error
  paths it reports as input.
-/
import Mappy.Base
import Mappy.Model.DictUtils

namespace Mappy.Validator
open DictUtils (PathEl findkey)

mutual
/-- `convert_lowercase(x)`: keys and string values lower-cased, through lists and dicts -/
def convertLowercase : J → J
  | .list xs => .list (convertL xs)
  | .dict kvs => .dict (convertF kvs)
  | .str s => .str (lower s)
  | x => x
def convertL : List J → List J
  | [] => []
  | x :: r => convertLowercase x :: convertL r
def convertF : Fields → Fields
  | [] => []
  | (k, v) :: r => (lower k, convertLowercase v) :: convertF r
end

def typeKey : Str := s%"__type__"
def posKey : Str := s%"__position__"

def isIdx : PathEl → Bool
  | .idx _ => true
  | .key _ => false

/-- `while isinstance(key_path[-1], int): key_path.pop()` -/
def dropIdx (p : List PathEl) : List PathEl := (p.reverse.dropWhile isIdx).reverse

structure Msg where
  key : Str              -- the name in "ERROR: Invalid value in <KEY>" (before upper-casing)
  pos : Option (J × J)   -- (line, column) when the object carries `__position__`
  deriving Repr, DecidableEq

/-- `pd.get("line")`, `pd.get("column")` -/
def lineCol (pd : Fields) : J × J := ((lookup s%"line" pd).getD .null, (lookup s%"column" pd).getD .null)

/-- the object `d` the message is attached to and the name it reports -/
def target (root : J) (path : List PathEl) : Res (Fields × Str) :=
  match path.getLast? with
  | none =>
    match root with
    | .dict d => (match lookup typeKey d with | some (.str t) => .ok (d, t) | some _ => .error .attributeError | none => .error .keyError)
    | _ => .error .typeError
  | some (.idx _) =>
    match findkey true root path with
    | .error e => .error e
    | .ok (.dict d) => (match lookup typeKey d with | some (.str t) => .ok (d, t) | some _ => .error .attributeError | none => .error .keyError)
    | .ok _ =>
      -- an item of a list-valued keyword: report the keyword itself
      match (dropIdx path).getLast? with
      | some (.key k) =>
        (match findkey true root (dropIdx path).dropLast with
         | .ok (.dict d) => .ok (d, k)
         | .ok _ => .error .typeError
         | .error e => .error e)
      | _ => .error .indexError
  | some (.key k) =>
    match findkey true root path.dropLast with
    | .ok (.dict d) => .ok (d, k)
    | .ok _ => .error .typeError
    | .error e => .error e

/-- the recorded position the message carries -/
def position (d : Fields) (key : Str) (path : List PathEl) : Res (Option (J × J)) :=
  match lookup posKey d with
  | none => .ok none
  | some (.dict pd) =>
    if path.isEmpty || !(hasKey key pd) then
      -- the object's own position … or, for a nested block, the block's
      match path.getLast? with
      | some (.key _) =>
        (match lookup (lower key) d with
         | some (.dict child) =>
           (match lookup posKey child with
            | some (.dict cpd) => .ok (some (lineCol cpd))
            | some _ => .error .attributeError
            | none => .ok (some (lineCol pd)))
         | _ => .ok (some (lineCol pd)))
      | _ => .ok (some (lineCol pd))
    else
      match lookup key pd with
      | some (.dict p) => .ok (some (lineCol p))
      | some (.list ps) =>
        -- a repeated keyword has one position per occurrence
        let idx : Nat := match path.getLast? with | some (.idx i) => i.toNat | _ => 0
        (match (if idx < ps.length then ps[idx]? else ps[0]?) with
         | some (.dict p) => .ok (some (lineCol p))
         | some _ => .error .attributeError
         | none => .error .indexError)
      | _ => .error .attributeError
  | some _ => .error .typeError

/-- `create_message(rootdict, path, error, add_comments=False)` -/
def createMessage (root : J) (path : List PathEl) : Res Msg :=
  match target root path with
  | .error e => .error e
  | .ok (d, key) =>
    match position d key path with
    | .error e => .error e
    | .ok p => .ok ⟨key, p⟩

/-- `get_error_messages`: one message per reported error, in order, none dropped or merged -/
def errorMessages (root : J) : List (List PathEl) → Res (List Msg)
  | [] => .ok []
  | p :: r =>
    match createMessage root p with
    | .error e => .error e
    | .ok m => (match errorMessages root r with | .ok ms => .ok (m :: ms) | .error e => .error e)

end Mappy.Validator
