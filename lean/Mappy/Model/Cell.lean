/- The part of a keyword's JSON schema that `PrettyPrinter.format_value` reads (record type of Gen.props). -/
import Mappy.Base
namespace Mappy

/-- one alternative of a `oneOf` / `anyOf` list: its string enum (if any) and whether its
`description` is "expression" -/
structure Opt where
  enum : Option (List Str)
  isExpr : Bool
  deriving Repr, DecidableEq, Inhabited

structure CellProps where
  hasEnum : Bool        -- "enum" in attr_props
  typeString : Bool     -- attr_props.get("type") == "string"
  isExpr : Bool         -- attr_props.get("description") == "expression"
  opts : Option (List Opt)   -- oneOf, else anyOf
  deriving Repr, DecidableEq, Inhabited

/-- value shapes a schema admits for a keyword (the generator's and the C03 table's vocabulary) -/
inductive Shape where
  | str | enumw (w : Str) | num | bool | binding | expr | regex | hexcolor | listexpr
  deriving Repr, DecidableEq, Inhabited

/-- `get_attribute_properties` returns `{}` for an unknown keyword -/
def CellProps.empty : CellProps := ⟨false, false, false, none⟩

def lookupS {α : Type} (k : Str) : List (Str × α) → Option α
  | [] => none
  | (k', v) :: r => if k' = k then some v else lookupS k r

/-- `get_attribute_properties(type_, attr)`: `none` when the schema file does not exist (IOError) -/
def cellOf (T : List (Str × List (Str × CellProps))) (type attr : Str) : Option CellProps :=
  match lookupS type T with
  | none => none
  | some cells => some ((lookupS attr cells).getD CellProps.empty)

end Mappy
