/-
  M13 — shared state across calls and threads.
  (a) A memo cache of a pure function shared by any number of threads: every interleaving of atomic look-up /
      insert steps gives each caller the function's value.
  (b) The Parser object's comment buffers across successive parses (`_comments`, `comments_dict`).
-/
import Mappy.Base
import Mappy.Model.Comments

namespace Mappy.Conc

variable {K V : Type} [DecidableEq K]

abbrev Cache (K V : Type) := List (K × V)

def find (k : K) : Cache K V → Option V
  | [] => none
  | (k', v) :: r => if k' = k then some v else find k r

/-- one atomic step of a caller: use the cached value or compute and publish it -/
def stepMemo (f : K → V) (c : Cache K V) (k : K) : V × Cache K V :=
  match find k c with
  | some v => (v, c)
  | none => (f k, (k, f k) :: c)

/-- a schedule: which key each successive atomic step (of whichever thread) asks for -/
def runMemo (f : K → V) : Cache K V → List K → List V × Cache K V
  | c, [] => ([], c)
  | c, k :: r =>
    let (v, c1) := stepMemo f c k
    let (vs, c2) := runMemo f c1 r
    (v :: vs, c2)

/-! ### the Parser object across parses -/

structure PState where
  comments : List (Nat × Str)      -- `self._comments` (what the lexer call-backs appended)
  dict : Comments.CD               -- `self.comments_dict` (what `_assign_comments` left over)
  deriving Repr

/-- one `Parser.parse(text)`: `lexed` = the comments of *this* text as the lexer call-backs report them.
Returns the new object state and the comment dict handed to `_assign_comments`. -/
def parseStep (withComments : Bool) (st : PState) (lexed : List (Nat × Str)) (leftover : Comments.CD → Comments.CD) :
    PState × Option Comments.CD :=
  let cs := lexed                                  -- `self._comments[:] = []`, then the call-backs append
  if withComments then
    let cd := Comments.buildDict cs                -- `self.comments_dict = {}` and refilled from this parse only
    ({ comments := cs, dict := leftover cd }, some cd)
  else ({ st with comments := cs }, none)

end Mappy.Conc
