/-
  M12 — the logic of the front ends: `mappyfile validate` exit-status arithmetic and output lines (cli.py),
  which options of `mappyfile format` reach the printer, and how open / load / loads and save / dump / dumps
  share one core (utils.py).  File I/O, click and the OS are parameters.
-/
import Mappy.Base
import Mappy.Model.Printer

namespace Mappy.Cli

/-- what happened to one matched file -/
inductive Outcome where
  | parseFail              -- `mappyfile.open` raised
  | msgs (n : Nat)         -- parsed; `validate` returned n messages
  deriving Repr, DecidableEq

/-- the `errors` counter of `validate`: one per message, one per file that could not be parsed -/
def problems : List Outcome → Nat
  | [] => 0
  | .parseFail :: r => 1 + problems r
  | .msgs n :: r => n + problems r

/-- `sys.exit(min(errors, 255))` -/
def exitCode (outs : List Outcome) : Nat := min (problems outs) 255

/-- what the operating system reports for `sys.exit(code)` -/
def osStatus (code : Nat) : Nat := code % 256

/-- lines echoed per file: one per message, or one "validated successfully" / "failed to parse" line -/
def fileLines : Outcome → Nat
  | .parseFail => 1
  | .msgs 0 => 1
  | .msgs n => n

/-- all echoed lines: the files' lines and the final summary (none but one notice when no file matched) -/
def echoed (outs : List Outcome) : Nat :=
  if outs.isEmpty then 1 else (outs.map fileLines).sum + 1

def validatedOk : List Outcome → Nat
  | [] => 0
  | .msgs 0 :: r => 1 + validatedOk r
  | _ :: r => validatedOk r

/-- the options `mappyfile format` hands to `save` (the others keep their defaults) -/
def formatOpts (indent : Nat) (spacer : Str) (quote : Char) (newline : Str) : Printer.Opts :=
  { indent := indent, spacer := spacer, quote := quote, newline := newline,
    endComment := false, align := false, sepComplex := false }

/-- the three writers: one printer call, three sinks -/
def dumps (o : Printer.Opts) (T : List (Str × List (Str × CellProps))) (d : J) : Res Str := Printer.pprint o T d
def dump (o : Printer.Opts) (T : List (Str × List (Str × CellProps))) (d : J) (write : Str → α) : Res α :=
  (Printer.pprint o T d).map write
def save (o : Printer.Opts) (T : List (Str × List (Str × CellProps))) (d : J) (writeFile : Str → α) : Res α :=
  (Printer.pprint o T d).map writeFile

end Mappy.Cli
