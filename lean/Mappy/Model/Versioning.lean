/-
  M5 — model of the version filter of mappyfile/validator.py:
  `is_valid_for_version`, `get_versioned_properties`, `get_versioned_schema`, `get_expanded_schema`
  (with the per-Validator cache `expanded_schemas`).

  The `$ref`-expanded schema that `jsonref.load` returns is NOT a tree: every `{"$ref": "x.json"}` of one load
  is a proxy of the same Python object, and `get_versioned_properties` deletes *in place*.  The model is
  therefore a store `file name ↦ document` with symbolic references, threaded through the walk:
  following a reference filters the referenced document inside the store, so that every other reference
  to it sees the pruned document (observed on the real objects; DESIGN §6 C09).

  Versions are integers in thousandths (7.6 ↦ 7600): the code only ever *compares* them.
-/
import Mappy.Base

namespace Mappy.Versioning

/-- file name ↦ document (`Fields` is an insertion-ordered association list) -/
abbrev Store := Fields

/-- a JSON reference object: a dict whose `$ref` entry is a string (what jsonref turns into a proxy) -/
def refOfFields (kvs : Fields) : Option Str :=
  match lookup s%"$ref" kvs with
  | some (.str u) => some u
  | _ => none

def digitVal (c : Char) : Option Nat :=
  if '0' ≤ c ∧ c ≤ '9' then some (c.toNat - 48) else none

def parseNat : Str → Option Nat
  | [] => none
  | cs => cs.foldl (fun acc c => match acc, digitVal c with
                                 | some a, some d => some (a * 10 + d)
                                 | _, _ => none) (some 0)

/-- thousandths of an unsigned decimal lexeme `ddd` or `ddd.d{1,3}` -/
def parseMilliU (s : Str) : Option Int :=
  match s.span (· ≠ '.') with
  | (ip, []) => (parseNat ip).map fun n => (n : Int) * 1000
  | (ip, _ :: fp) =>
    match parseNat ip, parseNat fp with
    | some a, some b =>
      match fp.length with
      | 1 => some ((a : Int) * 1000 + b * 100)
      | 2 => some ((a : Int) * 1000 + b * 10)
      | 3 => some ((a : Int) * 1000 + b)
      | _ => none
    | _, _ => none

def parseMilli : Str → Option Int
  | '-' :: r => (parseMilliU r).map (fun n => -n)
  | s => parseMilliU s

/-- numeric value (in thousandths) of a JSON number as the schema files write them -/
def numMilli : J → Option Int
  | .int n => some (n * 1000)
  | .flt s => parseMilli s
  | _ => none

def minKey : Str := s%"minVersion"
def maxKey : Str := s%"maxVersion"
def metaKey : Str := s%"metadata"

/-- `md.get("minVersion", 0.0)` / `md.get("maxVersion", 1000.0)` -/
def minOf (md : Fields) : Int := match lookup minKey md with | some x => (numMilli x).getD 0 | none => 0
def maxOf (md : Fields) : Int := match lookup maxKey md with | some x => (numMilli x).getD 1000000 | none => 1000000

/-- `is_valid_for_version(d, version)` -/
def isValid (v : Int) (d : Fields) : Bool :=
  match lookup metaKey d with
  | some (.dict md) => !(decide (v < minOf md) || decide (v > maxOf md))
  | _ => true

/-- validity of what a reference points to, in the current store -/
def refValid (v : Int) (σ : Store) (u : Str) : Bool :=
  match lookup u σ with
  | some (.dict doc) => isValid v doc
  | _ => true

mutual
/-- `get_versioned_properties(properties, version)` on one dict, in place: the pruned dict and the store
after every referenced document that was walked has been pruned inside it. `follow u σ` prunes document `u`. -/
def fFields (v : Int) (follow : Str → Store → Store) : Store → Fields → Fields × Store
  | σ, [] => ([], σ)
  | σ, (k, x) :: r =>
    match x with
    | .dict kvs =>
      match refOfFields kvs with
      | some u =>
        let keep := refValid v σ u
        let σ1 := follow u σ                      -- recursed into even when the entry is deleted
        let (r', σ2) := fFields v follow σ1 r
        (if keep then (k, x) :: r' else r', σ2)
      | none =>
        let keep := isValid v kvs
        let (kvs', σ1) := fFields v follow σ kvs
        let (r', σ2) := fFields v follow σ1 r
        (if keep then (k, .dict kvs') :: r' else r', σ2)
    | .list xs =>
      let (xs', σ1) := fList v follow σ xs
      let (r', σ2) := fFields v follow σ1 r
      ((k, .list xs') :: r', σ2)
    | _ =>
      let (r', σ2) := fFields v follow σ r
      ((k, x) :: r', σ2)
/-- the list branch: alternatives (`oneOf` / `anyOf` / `allOf` / `items` lists) -/
def fList (v : Int) (follow : Str → Store → Store) : Store → List J → List J × Store
  | σ, [] => ([], σ)
  | σ, e :: es =>
    match e with
    | .dict kvs =>
      match refOfFields kvs with
      | some u =>
        if refValid v σ u then
          let σ1 := follow u σ
          let (es', σ2) := fList v follow σ1 es
          (e :: es', σ2)
        else fList v follow σ es
      | none =>
        if isValid v kvs then
          let (kvs', σ1) := fFields v follow σ kvs
          let (es', σ2) := fList v follow σ1 es
          (.dict kvs' :: es', σ2)
        else fList v follow σ es
    | _ =>
      let (es', σ2) := fList v follow σ es
      (e :: es', σ2)
end

/-- prune document `u` inside the store; `n` bounds the reference nesting (the schema folder's
reference graph is acyclic: obligation `C09_acyclic`) -/
def follow (v : Int) : Nat → Str → Store → Store
  | 0, _, σ => σ
  | n + 1, u, σ =>
    match lookup u σ with
    | some (.dict doc) =>
      let (doc', σ1) := fFields v (follow v n) σ doc
      setKey u (.dict doc') σ1
    | _ => σ

/-! ### what a caller sees: the reference-free expansion -/
mutual
def viewWith (deref : Str → Option J) : J → J
  | .dict kvs =>
    match refOfFields kvs with
    | some u => (match deref u with | some d => d | none => .dict kvs)
    | none => .dict (viewFields deref kvs)
  | .list xs => .list (viewList deref xs)
  | x => x
def viewFields (deref : Str → Option J) : Fields → Fields
  | [] => []
  | (k, x) :: r => (k, viewWith deref x) :: viewFields deref r
def viewList (deref : Str → Option J) : List J → List J
  | [] => []
  | x :: r => viewWith deref x :: viewList deref r
end

def viewN (σ : Store) : Nat → J → J
  | 0, x => x
  | n + 1, x => viewWith (fun u => (lookup u σ).map (viewN σ n)) x

/-! ### the Validator object: `expanded_schemas` cache -/
structure Ver where
  milli : Int      -- the number, in thousandths
  key : Str        -- `str(version)`
  deriving Repr, DecidableEq

/-- one `jsonref.load`: the root document and the (lazily filled, per-load) store of referenced documents -/
structure Loaded where
  root : J
  store : Store
  deriving Repr, DecidableEq

def jsonExt : Str := s%".json"
def fileOf (name : Str) : Str := if endsWith jsonExt name then name else name ++ jsonExt

def cacheKey (name : Str) : Option Ver → Str
  | none => name
  | some v => name ++ v.key

def load (files : Store) (name : Str) : Res Loaded :=
  match lookup (fileOf name) files with
  | some r => .ok ⟨r, files⟩
  | none => .error .ioError

def propsKey : Str := s%"properties"

/-- the `if version:` part of `get_versioned_schema` on an expanded schema -/
def prune (fuel : Nat) (ver : Option Ver) (L : Loaded) : Res Loaded :=
  match ver with
  | none => .ok L
  | some v =>
    if v.milli = 0 then .ok L else      -- `if version:` is a truthiness test
    match L.root with
    | .dict kvs =>
      match lookup propsKey kvs with
      | some (.dict props) =>
        let (p', σ') := fFields v.milli (follow v.milli fuel) L.store props
        .ok ⟨.dict (setKey propsKey (.dict p') kvs), σ'⟩
      | some _ => .error .attributeError
      | none => .error .keyError
    | _ => .error .typeError

abbrev Cache := List (Str × Loaded)

def cget (k : Str) : Cache → Option Loaded
  | [] => none
  | (k', v) :: r => if k' = k then some v else cget k r
def cset (k : Str) (v : Loaded) : Cache → Cache
  | [] => [(k, v)]
  | (k', v') :: r => if k' = k then (k', v) :: r else (k', v') :: cset k v r

/-- `get_expanded_schema(schema_name, version)` -/
def getExpanded (files : Store) (c : Cache) (name : Str) (ver : Option Ver) : Res (Loaded × Cache) :=
  let k := cacheKey name ver
  match cget k c with
  | some L => .ok (L, c)
  | none =>
    match load files name with
    | .ok L => .ok (L, cset k L c)
    | .error e => .error e

/-- `get_versioned_schema(version, schema_name)`: the cached object itself is pruned -/
def getVersioned (fuel : Nat) (files : Store) (c : Cache) (name : Str) (ver : Option Ver) : Res (Loaded × Cache) :=
  match getExpanded files c name ver with
  | .error e => .error e
  | .ok (L, c1) =>
    match prune fuel ver L with
    | .ok L' => .ok (L', cset (cacheKey name ver) L' c1)
    | .error e => .error e      -- (the loaded entry stays cached: c1; callers see the exception)

inductive VOp where
  | expanded (name : Str) (ver : Option Ver)
  | versioned (name : Str) (ver : Option Ver)
  deriving Repr, DecidableEq

/-- one call on a Validator: the answer (what the caller can see of the returned schema) and the new cache -/
def vstep (fuel : Nat) (files : Store) (c : Cache) : VOp → Res J × Cache
  | .expanded n ver =>
    match getExpanded files c n ver with
    | .ok (L, c') => (.ok (viewN L.store fuel L.root), c')
    | .error e => (.error e, c)
  | .versioned n ver =>
    match getVersioned fuel files c n ver with
    | .ok (L, c') => (.ok (viewN L.store fuel L.root), c')
    | .error e =>
      -- the expanded entry was cached before the failure
      match getExpanded files c n ver with
      | .ok (_, c') => (.error e, c')
      | .error _ => (.error e, c)

def vrun (fuel : Nat) (files : Store) : Cache → List VOp → List (Res J) × Cache
  | c, [] => ([], c)
  | c, op :: ops =>
    let (a, c1) := vstep fuel files c op
    let (as, c2) := vrun fuel files c1 ops
    (a :: as, c2)

end Mappy.Versioning
