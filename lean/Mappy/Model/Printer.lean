/-
  M6 — model of mappyfile/pprint.py.  `fmt` produces structured lines (indentation level, key text,
  padding, value text, trailing comment); `render` turns them into the final string.  The schema
  look-up is the generated table (Gen.props) passed as `T`.  Inputs the model does not cover (Python
  `repr` of containers inside a value, non-string comments, …) answer `.error .unsupported`.
-/
import Mappy.Base
import Mappy.Model.Cell
import Mappy.Model.Quoter
import Mappy.Gen.Vocab

namespace Mappy.Printer
open Quoter

structure Opts where
  indent : Nat
  spacer : Str
  quote : Char
  newline : Str
  endComment : Bool
  align : Bool
  sepComplex : Bool
  deriving Repr, Inhabited

inductive Kind where
  | opener | ender | attr | comment
  deriving Repr, DecidableEq, Inhabited

/-- one output line: `lvl` indentation units, then key, `pad` blanks, value, trailing comment -/
structure Line where
  kind : Kind
  lvl : Nat
  key : Str
  pad : Nat
  val : Str
  cmt : Str
  deriving Repr, DecidableEq, Inhabited

abbrev Table := List (Str × List (Str × CellProps))

/-- `self.spacer = spacer * indent` -/
def unit (o : Opts) : Str := (List.replicate o.indent o.spacer).flatten
def ws (o : Opts) (n : Nat) : Str := (List.replicate n (unit o)).flatten
def renderLine (o : Opts) (l : Line) : Str :=
  ws o l.lvl ++ l.key ++ List.replicate l.pad ' ' ++ l.val ++ l.cmt
def joinWith (sep : Str) : List Str → Str
  | [] => []
  | [x] => x
  | x :: y :: r => x ++ sep ++ joinWith sep (y :: r)
def render (o : Opts) (ls : List Line) : Str := joinWith o.newline (ls.map (renderLine o))

/-! ### Python `str()` of the value kinds that can reach a line -/
def natStr (n : Nat) : Str := (toString n).toList
def intStr (n : Int) : Str := if n < 0 then '-' :: natStr n.natAbs else natStr n.natAbs
def pyStr : J → Option Str
  | .null => some s%"None"
  | .bool b => some (if b then s%"True" else s%"False")
  | .int n => some (intStr n)
  | .flt s => some s
  | .str s => some s
  | .dict [] => some s%"{}"
  | _ => none
def isNumber : J → Bool
  | .int _ => true | .flt _ => true | .bool _ => true | _ => false

def isMetaKey (k : Str) : Bool := startsWith s%"__" k && endsWith s%"__" k
def isComposite : J → Bool
  | .dict f => hasKey s%"__type__" f
  | _ => false
def isHiddenContainer (k : Str) (v : J) : Bool :=
  k ∈ Gen.objectListKeys && (match v with | .list _ => true | _ => false)

def ignoreList : List Str :=
  [s%"metadata", s%"validation", s%"values", s%"connectionoptions", s%"pattern", s%"projection", s%"points", s%"config"]

def maxKeyLen : Fields → Nat
  | [] => 0
  | (k, v) :: r =>
    if !isMetaKey k && !(k ∈ ignoreList) && !isHiddenContainer k v && !isComposite v
    then max k.length (maxKeyLen r) else maxKeyLen r

/-- longest visible key of a key/value block -/
def maxKvKeyLen : Fields → Nat
  | [] => 0
  | (k, _) :: r => if isMetaKey k then maxKvKeyLen r else max k.length (maxKvKeyLen r)

def computeAligned (o : Opts) (m : Nat) : Nat :=
  let i := max 1 o.indent
  (m / i + 1) * i

/-- `__format_line`: the number of blanks between key and value -/
def padOf (aligned : Nat) (key : Str) : Nat := if aligned = 0 then 1 else aligned - key.length

def isBlockValue : J → Bool
  | .dict _ => true
  | .list _ => true
  | _ => false

def isComplexType (level : Nat) (k : Str) (v : J) : Bool :=
  if k = s%"symbol" && level > 0 then false
  else (k ∈ Gen.complexTypes && isBlockValue v) || isHiddenContainer k v

/-- `separate_complex`: successive `move_to_end` of the complex keys = stable partition -/
def separateComplex (level : Nat) (f : Fields) : Fields :=
  f.filter (fun kv => !isComplexType level kv.1 kv.2) ++ f.filter (fun kv => isComplexType level kv.1 kv.2)

/-! ### format_value -/
def enumHas (o : Opt) (s : Str) : Bool :=
  match o.enum with
  | some e => e.contains s
  | none => false

def checkOptionsList (q : Char) (s : Str) : List Opt → Str
  | [] => if inSlashes s then s else addQuotes q s
  | o :: r =>
    if enumHas o (lower s) then
      (if lower s = s%"end" then addQuotes q s else upper s)
    else if o.isExpr && (endsWith s%"'i" s || endsWith s%"\"i" s) then s
    else checkOptionsList q s r

def optsRewrite (q : Char) (attr : Str) (opts : List Opt) (s : Str) : Str :=
  if inParenthesis s then s
  else if attr = s%"expression" && inBraces s then s
  else if attr ≠ s%"text" && inBrackets s then s
  else if startsWith s%"NOT " s && inParenthesis (s.drop 4) then s
  else checkOptionsList q s opts

def listElem (q : Char) (attr : Str) (v : J) : Res Str :=
  match pyStr v with
  | none => .error .unsupported
  | some t =>
    if isNumber v || attr = s%"offset" || attr = s%"polaroffset" then .ok t else .ok (addQuotes q t)

def listElems (q : Char) (attr : Str) : List J → Res (List Str)
  | [] => .ok []
  | v :: r => do
    let t ← listElem q attr v
    let ts ← listElems q attr r
    pure (t :: ts)

def formatValue (q : Char) (attr : Str) (p : CellProps) (v : J) : Res Str :=
  match v with
  | .bool b => .ok (if b then s%"TRUE" else s%"FALSE")
  | .dict [] => .error .valueError
  | _ =>
  if p.hasEnum then
    match v with
    | .int n => .ok (intStr n)
    | .flt s => .ok s
    | v => match pyStr v with
      | some t => .ok (if attr = s%"compop" then addQuotes q t else upper t)
      | none => .error .unsupported
  else if p.typeString then
    if p.isExpr then
      match v with
      | .str s =>
        if inSlashes s then .ok s
        else if endsWith s%"'i" s || endsWith s%"\"i" s then .ok s
        else .ok (addQuotes q s)
      | _ => .error .attributeError
    else match pyStr v with
      | some t => .ok (addQuotes q t)
      | none => .error .unsupported
  else
    let v' : J := match p.opts, v with
      | some opts, .str s => .str (optsRewrite q attr opts s)
      | _, v => v
    match v' with
    | .list xs => do
      let ts ← listElems q attr xs
      pure (joinWith [' '] ts)
    | .str s => .ok (escapeQuotes q s)
    | v => match pyStr v with
      | some t => .ok t
      | none => .error .unsupported

/-! ### comments -/
def strList : List J → Option (List Str)
  | [] => some []
  | .str s :: r => (strList r).map (s :: ·)
  | _ => none

/-- `process_attribute_comment` -/
def attrComment (comments : Fields) (k : Str) : Res Str :=
  match lookup k comments with
  | none => .ok []
  | some (.str s) => if s = [] then .ok [] else .ok (' ' :: s)
  | some (.list []) => .ok []
  | some (.list xs) => match strList xs with
    | some ss => .ok (' ' :: joinWith [' '] ss)
    | none => .error .unsupported
  | some v => if truthy v then .error .unsupported else .ok []

/-- the comment strings attached to a block's opener (`comments["__type__"]`), independent of options -/
def typeCommentTexts (comments : Fields) : Res (List Str) :=
  match lookup s%"__type__" comments with
  | none => .ok []
  | some (.str s) => .ok [s]
  | some (.list xs) => match strList xs with
    | some ss => .ok ss
    | none => .error .unsupported
  | some _ => .error .unsupported

/-- `_add_type_comment`: comment lines above a block opener (skipped when the joined text is empty) -/
def typeComment (o : Opts) (level : Nat) (comments : Fields) : Res (List Line) :=
  (typeCommentTexts comments).map fun ss =>
    if joinWith o.newline (ss.map (ws o level ++ ·)) = [] then []
    else ss.map fun s => ⟨.comment, level, s, 0, [], []⟩

def commentsOf (f : Fields) : Res Fields :=
  match lookup s%"__comments__" f with
  | none => .ok []
  | some (.dict c) => .ok c
  | some _ => .error .unsupported

def startLine (level : Nat) (key : Str) : Line := ⟨.opener, level + 1, upper key, 0, [], []⟩
def endLine (o : Opts) (lvl : Nat) (key : Str) : Line :=
  ⟨.ender, lvl, s%"END", 0, [], if o.endComment then s%" # " ++ upper key else []⟩

/-- `process_dict`: the pairs of a METADATA-like block -/
def kvLines (o : Opts) (level aligned : Nat) (comments : Fields) : Fields → Res (List Line)
  | [] => .ok []
  | (k, v) :: r =>
    if isMetaKey k then kvLines o level aligned comments r
    else if v = .dict [] then .error .valueError
    else match pyStr v with
      | none => .error .unsupported
      | some t => do
        let c ← attrComment comments k
        let rest ← kvLines o level aligned comments r
        let qk := addQuotes o.quote k
        pure (⟨.attr, level + 2, qk, padOf aligned qk, addQuotes o.quote t, c⟩ :: rest)

/-- `process_key_dict` -/
def keyDict (o : Opts) (key : Str) (level : Nat) : J → Res (List Line)
  | .dict d => do
    let comments ← commentsOf d
    let tc ← typeComment o level comments
    let aligned := if o.align then computeAligned o (maxKvKeyLen d + 2) else 0
    let body ← kvLines o level aligned comments d
    pure (tc ++ [startLine level key] ++ body ++ [endLine o (level + 1) key])
  | _ => .error .unsupported

def configLines (o : Opts) (level : Nat) : J → Res (List Line)
  | .dict d => go d
  | _ => .error .unsupported
where go : Fields → Res (List Line)
  | [] => .ok []
  | (k, v) :: r => match pyStr v with
    | none => .error .unsupported
    | some t => do
      let rest ← go r
      pure (⟨.attr, level + 1, s%"CONFIG " ++ addQuotes o.quote (upper k), 1, addQuotes o.quote t, []⟩ :: rest)

def repeatedLines (o : Opts) (key : Str) (level aligned : Nat) : J → Res (List Line)
  | .list xs => go xs
  | _ => .error .unsupported
where go : List J → Res (List Line)
  | [] => .ok []
  | v :: r => match pyStr v with
    | none => .error .unsupported
    | some t => do
      let rest ← go r
      pure (⟨.attr, level + 1, upper key, padOf aligned (upper key), addQuotes o.quote t, []⟩ :: rest)

/-- the lines inside a PROJECTION block -/
def projBody (o : Opts) (level : Nat) : J → Res (List Line)
  | .str s => .ok [⟨.attr, level + 2, addQuotes o.quote s, 0, [], []⟩]
  | .list xs =>
    match strList xs with
    | some [s] =>
      if upper s = s%"AUTO" then .ok [⟨.attr, level + 2, s%"AUTO", 0, [], []⟩]
      else .ok [⟨.attr, level + 2, addQuotes o.quote s, 0, [], []⟩]
    | some ss => .ok (ss.map fun s => ⟨.attr, level + 2, addQuotes o.quote s, 0, [], []⟩)
    | none => .error .unsupported
  | _ => .error .unsupported

def projectionLines (o : Opts) (key : Str) (level : Nat) (cmt : Str) (v : J) : Res (List Line) :=
  let c : List Line := if cmt = [] then [] else [⟨.comment, level + 2, strip cmt, 0, [], []⟩]
  match projBody o level v with
  | .ok body => .ok ([startLine level key] ++ c ++ body ++ [endLine o (level + 1) key])
  | .error e => .error e

def pairLine (level : Nat) : J → Res Line
  | .tup [a, b] | .list [a, b] => match pyStr a, pyStr b with
    | some x, some y => if isNumber a && isNumber b then .ok ⟨.attr, level + 2, x ++ [' '] ++ y, 0, [], []⟩ else .error .unsupported
    | _, _ => .error .unsupported
  | _ => .error .unsupported

def pairLines (level : Nat) : List J → Res (List Line)
  | [] => .ok []
  | p :: r => do
    let l ← pairLine level p
    let ls ← pairLines level r
    pure (l :: ls)

/-- `format_pair_list` -/
def pairBlock (o : Opts) (key : Str) (level : Nat) : J → Res (List Line)
  | .list ps | .tup ps => do
    let body ← pairLines level ps
    pure ([startLine level key] ++ body ++ [endLine o (level + 1) key])
  | _ => .error .unsupported

def isPair : J → Bool
  | .tup [a, b] | .list [a, b] => isNumber a && isNumber b
  | _ => false

/-- `format_repeated_pair_list`: one block for a list of pairs, several for a list of such lists -/
def pointsBlocks (o : Opts) (key : Str) (level : Nat) : J → Res (List Line)
  | .list xs =>
    if xs ≠ [] && xs.all isPair then pairBlock o key level (.list xs)
    else if xs ≠ [] && xs.all (fun x => match x with | .list ps | .tup ps => ps ≠ [] && ps.all isPair | _ => false) then
      go xs
    else .error .unsupported
  | _ => .error .unsupported
where go : List J → Res (List Line)
  | [] => .ok []
  | b :: r => do
    let x ← pairBlock o key level b
    let y ← go r
    pure (x ++ y)

def kvBlockNames : List Str := [s%"metadata", s%"validation", s%"values", s%"connectionoptions"]

/-- one simple keyword line (`process_attribute` + comment) -/
def attrLine (o : Opts) (T : Table) (type_ attr : Str) (v : J) (level aligned : Nat) (comments : Fields) : Res Line :=
  match cellOf T type_ attr with
  | none => .error .ioError
  | some p => do
    let t ← formatValue o.quote attr p v
    let c ← attrComment comments attr
    pure ⟨.attr, level + 1, upper attr, padOf aligned (upper attr), t, c⟩

/-- the standard key/value branch: needs the enclosing object's type -/
def simple (o : Opts) (T : Table) (level : Nat) (type_ : Option Str) (comments : Fields) (aligned : Nat)
    (attr : Str) (v : J) : Res (List Line) :=
  match type_ with
  | none => .error .unboundLocal
  | some t => match attrLine o T t attr v level aligned comments with
    | .ok l => .ok [l]
    | .error e => .error e

/-- which keys `_format` treats as data blocks of their own (never as child objects) -/
def isDataKey (attr : Str) : Bool :=
  attr = s%"pattern" || attr ∈ kvBlockNames || attr = s%"projection" || attr ∈ Gen.repeatedKeys ||
  attr = s%"points" || attr = s%"config"

mutual
/-- `separate_complex` applied to every object `_format` will visit (it runs at the start of each
`_format` call, before the items are iterated; `level` is that call's level) -/
def sepTree (level : Nat) : J → J
  | .dict f => .dict (separateComplex level (sepFields level f))
  | j => j
def sepFields (level : Nat) : Fields → Fields
  | [] => []
  | (k, v) :: r =>
    let v' : J :=
      if isMetaKey k then v
      else if k ∈ Gen.objectListKeys then
        (match v with
         | .list xs => .list (sepList (level + 1) xs)
         | v => if isDataKey k then v else sepChild level v)
      else if isDataKey k then v else sepChild level v
    (k, v') :: sepFields level r
def sepList (level : Nat) : List J → List J
  | [] => []
  | x :: r => sepTree level x :: sepList level r
def sepChild (level : Nat) : J → J
  | .dict f => if hasKey s%"__type__" f then .dict (separateComplex (level + 1) (sepFields (level + 1) f)) else .dict f
  | j => j
end

/-- every branch of the loop body except hidden containers; `child` is the recursive `_format(value, level + 1)` -/
def other (o : Opts) (T : Table) (level : Nat) (type_ : Option Str) (comments : Fields) (aligned : Nat)
    (attr : Str) (v : J) (child : Unit → Res (List Line)) : Res (List Line) :=
  if attr = s%"pattern" then pairBlock o attr level v
  else if attr ∈ kvBlockNames then keyDict o attr level v
  else if attr = s%"projection" then
    match attrComment comments attr with
    | .error e => .error e
    | .ok c => projectionLines o attr level c v
  else if attr ∈ Gen.repeatedKeys then repeatedLines o attr level aligned v
  else if attr = s%"points" then pointsBlocks o attr level v
  else if attr = s%"config" then configLines o level v
  else if isComposite v then child ()
  else simple o T level type_ comments aligned attr v

/-- concatenate two partial results, first error wins -/
def cat (a b : Res (List Line)) : Res (List Line) :=
  match a, b with
  | .error e, _ => .error e
  | .ok _, .error e => .error e
  | .ok a, .ok b => .ok (a ++ b)

/-- one iteration of the loop for a list value; `items` is the recursive printing of a hidden container -/
def itemList (o : Opts) (T : Table) (level : Nat) (type_ : Option Str) (comments : Fields) (aligned : Nat)
    (attr : Str) (xs : List J) (items : Unit → Res (List Line)) : Res (List Line) :=
  if isMetaKey attr then .ok []
  else if attr ∈ Gen.objectListKeys then items ()
  else other o T level type_ comments aligned attr (.list xs) (fun _ => .error .unsupported)

/-- one iteration of the loop for any other value; `child` is the recursive `_format(value, level + 1)` -/
def item (o : Opts) (T : Table) (level : Nat) (type_ : Option Str) (comments : Fields) (aligned : Nat)
    (attr : Str) (v : J) (child : Unit → Res (List Line)) : Res (List Line) :=
  if isMetaKey attr then .ok []
  else other o T level type_ comments aligned attr v child

/-- the type of an object as `_format` sees it -/
def typeOf (f : Fields) : Option Str :=
  match lookup s%"__type__" f with
  | some (.str t) => some t
  | _ => none

def alignedOf (o : Opts) (f : Fields) : Nat := if o.align then computeAligned o (maxKeyLen f) else 0

/-- everything `_format` does around the items loop, given the loop's result `body` -/
def wrapObj (o : Opts) (level : Nat) (f : Fields) (body : Res (List Line)) : Res (List Line) :=
  match commentsOf f with
  | .error e => .error e
  | .ok comments =>
    match lookup s%"__type__" f with
    | some (.str t) =>
      if !(t ∈ Gen.compositeNames || t ∈ Gen.singletonNames) then .error .assertionError
      else match typeComment o level comments with
        | .error e => .error e
        | .ok tc => match body with
          | .error e => .error e
          | .ok body => .ok (tc ++ [⟨.opener, level, upper t, 0, [], []⟩] ++ body ++ [endLine o level t])
    | some _ => .error .unsupported
    | none => match body with
      | .error e => .error e
      | .ok _ => .error .unboundLocal

mutual
/-- `_format(composite, level)` -/
def fmt (o : Opts) (T : Table) (level : Nat) : J → Res (List Line)
  | .dict f => wrapObj o level f (fmtItems o T level (typeOf f) ((commentsOf f).toOption.getD []) (alignedOf o f) f)
  | _ => .error .attributeError
/-- the `for attr, value in composite.items()` loop -/
def fmtItems (o : Opts) (T : Table) (level : Nat) (type_ : Option Str) (comments : Fields) (aligned : Nat) :
    Fields → Res (List Line)
  | [] => .ok []
  | (attr, .list xs) :: r =>
    cat (itemList o T level type_ comments aligned attr xs (fun _ => fmtList o T (level + 1) xs))
        (fmtItems o T level type_ comments aligned r)
  | (attr, v) :: r =>
    cat (item o T level type_ comments aligned attr v (fun _ => fmt o T (level + 1) v))
        (fmtItems o T level type_ comments aligned r)
def fmtList (o : Opts) (T : Table) (level : Nat) : List J → Res (List Line)
  | [] => .ok []
  | x :: r => cat (fmt o T level x) (fmtList o T level r)
end

/-- a root object is formatted by `_format(composite)` at level 0 unless it is a key/value block -/
def sepRoot (x : J) : J :=
  match x with
  | .dict f => match lookup s%"__type__" f with
    | some (.str t) => if t = s%"metadata" || t = s%"validation" || t = s%"connectionoptions" then x else sepTree 0 x
    | _ => x
  | _ => x

/-- `PrettyPrinter.pprint` -/
def pprintLines (o : Opts) (T : Table) (c : J) : Res (List Line) :=
  let roots : Res (List J) := match c with
    | .dict [] => .ok []
    | .dict f => .ok [.dict f]
    | .list xs => .ok xs
    | _ => .error .unsupported
  match roots with
  | .error e => .error e
  | .ok rs => go (if o.sepComplex then rs.map (sepRoot) else rs)
where go : List J → Res (List Line)
  | [] => .ok []
  | x :: r =>
    let here : Res (List Line) := match x with
      | .dict f => match lookup s%"__type__" f with
        | none => .error .keyError
        | some (.str t) =>
          if t = s%"metadata" || t = s%"validation" || t = s%"connectionoptions" then keyDict o t 0 (.dict f)
          else fmt o T 0 (.dict f)
        | some _ => .error .unsupported
      | _ => .error .unsupported
    match here, go r with
    | .error e, _ => .error e
    | .ok _, .error e => .error e
    | .ok a, .ok b => .ok (a ++ b)

def pprint (o : Opts) (T : Table) (c : J) : Res Str := (pprintLines o T c).map (render o)

end Mappy.Printer
