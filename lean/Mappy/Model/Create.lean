/-
  Model of `mappyfile.utils.create(type, version)`: the versioned schema of the type (Model/Versioning.lean, what
  `Validator.get_versioned_schema` returns as a caller sees it), its properties sorted by keyword
  (`sorted(schema["properties"].items())`), one entry per keyword that declares a `default`, after `__type__`.
  Tied to the code by the `create` correspondence (every block type × version point); theorems: Props/C19Create.lean.
-/
import Mappy.Base
import Mappy.Model.Versioning

namespace Mappy.Create
open Mappy Mappy.Versioning

/-- Python's `<` on `str`: lexicographic by code point -/
def strLt : Str → Str → Bool
  | [], [] => false
  | [], _ :: _ => true
  | _ :: _, [] => false
  | a :: r, b :: s => if a.toNat < b.toNat then true else if b.toNat < a.toNat then false else strLt r s

/-- stable insertion by key -/
def insertByKey (kv : Str × J) : Fields → Fields
  | [] => [kv]
  | x :: r => if strLt kv.1 x.1 then kv :: x :: r else x :: insertByKey kv r

/-- `sorted(items)` for items with distinct keys -/
def sortByKey : Fields → Fields
  | [] => []
  | kv :: r => insertByKey kv (sortByKey r)

/-- the loop `for key, value in properties: if "default" in value: d[key] = value["default"]` -/
def fill : Fields → Fields → Fields
  | d, [] => d
  | d, (k, p) :: r =>
    match p with
    | .dict pf => (match lookup s%"default" pf with | some dv => fill (setKey k dv d) r | none => fill d r)
    | _ => fill d r

/-- `create` on the schema as the caller sees it -/
def createFrom (schema : J) (type : Str) : Res Fields :=
  match schema with
  | .dict kvs =>
    match lookup propsKey kvs with
    | some (.dict props) => .ok (fill [(s%"__type__", .str type)] (sortByKey props))
    | some _ => .error .attributeError
    | none => .error .keyError
  | _ => .error .typeError

/-- `mappyfile.create(type, version)` (an unknown type is Python's `SyntaxError`, here `ioError`).  The loop reads
`value["default"]` of each property, i.e. it looks through at most one reference proxy: the view of depth 1 -/
def create (fuel : Nat) (files : Store) (type : Str) (ver : Option Ver) : Res Fields :=
  match getVersioned fuel files [] type ver with
  | .ok (L, _) => createFrom (viewN L.store 1 L.root) type
  | .error e => .error e

end Mappy.Create
