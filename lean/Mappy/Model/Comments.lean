/-
  M9b — model of the comment bookkeeping of mappyfile/parser.py: the `comments_dict` (line number ↦ stripped
  comment text, a later comment on the same line replacing the earlier one) and `Parser._assign_comments`:
  walking the children in order, every `composite` / `attr` / `projection` / `string_pair` node that has a line
  takes *all* comments still in the dict whose line is ≤ the node's line (`end_line` for PROJECTION), in ascending
  line order; a child without `meta.line` is skipped together with its subtree; the root gets nothing.
-/
import Mappy.Base

namespace Mappy.Comments

/-- the tree as far as comment assignment sees it -/
inductive CT where
  | node (data : Str) (line endLine : Option Nat) (comments : Option (List Str)) (kids : List CT)
  | tok
  deriving Repr, Inhabited

/-- `comments_dict`: insertion-ordered, keys unique -/
abbrev CD := List (Nat × Str)

def cdSet (k : Nat) (v : Str) : CD → CD
  | [] => [(k, v)]
  | (k', v') :: r => if k' = k then (k', v) :: r else (k', v') :: cdSet k v r

/-- `for c in self._comments: comments_dict[c.line] = c.value.strip()` -/
def buildDict (cs : List (Nat × Str)) : CD := cs.foldl (fun d c => cdSet c.1 c.2 d) []

def insertSorted (x : Nat × Str) : CD → CD
  | [] => [x]
  | y :: r => if x.1 ≤ y.1 then x :: y :: r else y :: insertSorted x r

/-- `sorted(...)` on the line numbers (insertion sort; the keys are unique) -/
def sortCD : CD → CD
  | [] => []
  | x :: r => insertSorted x (sortCD r)

/-- the loop `for line_number in sorted(keys): if line_number <= line: comments.append(pop(line_number))` -/
def popLE (line : Nat) (cd : CD) : List Str × CD :=
  ((sortCD (cd.filter fun c => c.1 ≤ line)).map (·.2), cd.filter fun c => !(c.1 ≤ line))

def commentable (data : Str) : Bool :=
  data = s%"composite" || data = s%"attr" || data = s%"projection" || data = s%"string_pair"

/-- `node.data in ("projection")` is a *substring* test against the string "projection" -/
def isInfix (p s : Str) : Bool :=
  match s with
  | [] => p.isEmpty
  | c :: r => p.isPrefixOf (c :: r) || isInfix p r

def useEndLine (data : Str) : Bool := isInfix data s%"projection"

mutual
/-- `_assign_comments(_tree)` on the children of `_tree` -/
def assignKids : CD → List CT → List CT × CD
  | cd, [] => ([], cd)
  | cd, .tok :: r => let (r', cd') := assignKids cd r; (.tok :: r', cd')
  | cd, .node data none el cm kids :: r =>            -- no `meta.line`: skipped with its subtree
    let (r', cd') := assignKids cd r; (.node data none el cm kids :: r', cd')
  | cd, .node data (some ln) el cm kids :: r =>
    if commentable data then
      let line := if useEndLine data then el.getD ln else ln
      let (cs, cd1) := popLE line cd
      let cm' := if cs.isEmpty then cm else some cs
      let (kids', cd2) := assignKids cd1 kids
      let (r', cd3) := assignKids cd2 r
      (.node data (some ln) el cm' kids' :: r', cd3)
    else
      let (kids', cd2) := assignKids cd kids
      let (r', cd3) := assignKids cd2 r
      (.node data (some ln) el cm kids' :: r', cd3)
end

mutual
/-- the comments every node carries, in visiting (pre-) order -/
def attached : CT → List (List Str)
  | .tok => []
  | .node _ _ _ cm kids => (cm.getD []) :: attachedL kids
def attachedL : List CT → List (List Str)
  | [] => []
  | x :: r => attached x ++ attachedL r
end

end Mappy.Comments
