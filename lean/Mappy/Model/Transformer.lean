/-
  M8 — model of mappyfile/transformer.py: MapfileTransformer (one function per call-back), CommentsTransformer,
  Canonize and MapfileToDict.transform, over generic Lark trees.

  A Lark `Token` is a `str` (its original text) with a mutable `.value`; call-backs overwrite `.value` with Python
  values (int, float, bool, list, str) and pass the token on.  `Tok.text` is `str(token)`, `Tok.val` is `token.value`.
  Results of call-backs (`R`) are tokens, lists / tuples of results, the OrderedDict an `attr` returns (`adict`, which
  still carries its `__tokens__`), the case-insensitive dict a block returns (`cdict`, plain `J` inside), a plain
  string (`func_params`) or an untouched tree (`tree`, Lark's `__default__`).  Input trees are `R.tree` / `R.tok`.

  Python's partial operations (`assert`, indexing, `.value` on a non-token, unpacking) are `Except PyErr`; inputs
  outside what the model covers answer `.unsupported` (counted by the harness, never compared).
  `floatOf` is Python's `repr(float(lexeme))`, supplied by the harness for the lexemes of the case at hand.
-/
import Mappy.Base
import Mappy.Model.Quoter
import Mappy.Gen.Vocab

namespace Mappy.Transformer

structure Tok where
  type : Str
  text : Str
  val : J
  line : J
  col : J
  deriving Repr, Inhabited, DecidableEq

inductive AV where
  | j (v : J)
  | toks (ts : List Tok)
  deriving Repr, Inhabited

inductive R where
  | tok (t : Tok)
  | seq (tuple : Bool) (xs : List R)
  | adict (kvs : List (Str × AV))
  | cdict (kvs : Fields)
  | str (s : Str)
  | tree (data : Str) (comments : Option (List Str)) (xs : List R)
  deriving Repr, Inhabited

structure Cfg where
  pos : Bool                      -- include_position
  com : Bool                      -- include_comments
  floatOf : Str → Option Str      -- repr(float(lexeme))

/-! ### the bookkeeping keys -/

def posKey : Str := s%"__position__"
def comKey : Str := s%"__comments__"
def hiddenKey (k : Str) : Bool := k = posKey || k = comKey

mutual
/-- remove the `__position__` / `__comments__` entries of every dict -/
def stripJ : J → J
  | .dict kvs => .dict (stripF kvs)
  | .list xs => .list (stripL xs)
  | .tup xs => .tup (stripL xs)
  | x => x
def stripF : Fields → Fields
  | [] => []
  | (k, v) :: r => if hiddenKey k then stripF r else (k, stripJ v) :: stripF r
def stripL : List J → List J
  | [] => []
  | x :: r => stripJ x :: stripL r
end

/-! ### small Python helpers -/

def pyStr : J → Res Str
  | .str s => .ok s
  | .int n => .ok (toString n).toList
  | .flt s => .ok s
  | .bool true => .ok s%"True"
  | .bool false => .ok s%"False"
  | .null => .ok s%"None"
  | _ => .error .unsupported          -- str(list) of Python values: not produced by the grammar

def tokOf : R → Res Tok
  | .tok t => .ok t
  | _ => .error .attributeError        -- `.value` on a list / tuple / dict

/-- `token.value.lower()` -/
def valLower (t : Tok) : Res Str :=
  match t.val with
  | .str s => .ok (lower s)
  | _ => .error .attributeError

def cleanString (s : Str) : Str := Quoter.removeQuotes '"' s

/-- `clean_string(value)` for any token value (non-strings are returned as they are) -/
def cleanJ : J → J
  | .str s => .str (cleanString s)
  | .list xs => .list (xs.map fun x => match x with | .str s => .str (cleanString s) | y => y)
  | v => v

def nth (xs : List R) (i : Nat) : Res R :=
  match xs[i]? with
  | some x => .ok x
  | none => .error .indexError

def plural (s : Str) : Str := if endsWith ['s'] s then s ++ s%"es" else s ++ ['s']

def lookupAV (k : Str) : List (Str × AV) → Option AV
  | [] => none
  | (k', v) :: r => if k' = k then some v else lookupAV k r
/-- `d.pop(k, None)` (keys of a Python dict are unique) -/
def delAV (k : Str) : List (Str × AV) → List (Str × AV)
  | [] => []
  | (k', v) :: r => if k' = k then delAV k r else (k', v) :: delAV k r
def setAV (k : Str) (v : AV) : List (Str × AV) → List (Str × AV)
  | [] => [(k, v)]
  | (k', v') :: r => if k' = k then (k', v) :: r else (k', v') :: setAV k v r

/-! ### positions -/

/-- `flatten(values)`: tokens of a list of results -/
def flatten : List R → Res (List Tok)
  | [] => .ok []
  | .tok t :: r => do pure (t :: (← flatten r))
  | .seq _ xs :: r => do
      let ts ← xs.mapM tokOf          -- `(v.line, v.column)` needs tokens
      pure (ts ++ (← flatten r))
  | .adict kvs :: r =>
      match lookupAV s%"__tokens__" kvs with
      | some (.toks ts) => do pure (ts ++ (← flatten r))
      | _ => .error .assertionError
  | _ => .error .valueError

def posPair (t : Tok) : J := .tup [t.line, t.col]

/-- `create_position_dict(key_token, values)`; `values = none` is Python's `None` -/
def positionDict (key : Tok) (values : Option (List R)) : Res Fields := do
  let base : Fields := [(s%"line", key.line), (s%"column", key.col)]
  match values with
  | none => pure base
  | some [] => pure base
  | some vs =>
    let flat ← flatten vs
    pure (base ++ [(s%"values", .list (flat.map posPair))])

/-! ### attr -/

def isSeq : R → Bool
  | .seq _ _ => true
  | _ => false

def underscored (k : Str) : Bool := startsWith s%"__" k

/-- `MapfileTransformer.attr(tokens)` -/
def attr (tokens : List R) : Res R := do
  let k0 ← nth tokens 0
  let keyTok ← match k0 with
    | .seq _ (x :: _) => do
        let t ← tokOf x
        let kn ← valLower t
        if kn = s%"style" ∨ kn = s%"symbol" then pure t else .error .assertionError
    | .seq _ [] => .error .indexError
    | x => tokOf x
  let keyName ← valLower keyTok
  if underscored keyName then .error .unsupported else
  let vts0 := tokens.drop 1
  let first ← nth vts0 0
  let vts ← if isSeq first then
      (if vts0.length = 1 then (match first with | .seq _ xs => pure xs | _ => pure vts0) else .error .assertionError)
    else pure vts0
  let pd ← positionDict keyTok (some vts)
  let d0 : List (Str × AV) := [(s%"__position__", .j (.dict pd))]
  if vts.length > 1 then
    let ts ← vts.mapM tokOf
    if keyName = s%"config" then
      match ts with
      | [a, b] =>
        match a.val with
        | .str ka => pure (.adict (setAV keyName (.j (.dict [(ka, b.val)])) d0))
        | _ => .error .unsupported
      | _ => .error .assertionError
    else
      pure (.adict (setAV keyName (.j (.list (ts.map (·.val)))) (setAV s%"__tokens__" (.toks (keyTok :: ts)) d0)))
  else
    let vt ← tokOf (← nth vts 0)
    let v := match vt.val with
      | .str s => J.str (cleanString s)
      | x => x
    pure (.adict (setAV keyName (.j v) (setAV s%"__tokens__" (.toks [keyTok, vt]) d0)))

/-! ### KEY … END blocks -/

/-- `check_composite_tokens(name, tokens)`: the key token and the body -/
def checkComposite (name : Str) (tokens : List R) : Res (Tok × List R) := do
  if tokens.length < 2 then .error .assertionError else
  let key ← tokOf (← nth tokens 0)
  if (← valLower key) ≠ name then .error .assertionError else
  let last ← tokOf (← nth tokens (tokens.length - 1))
  if (← valLower last) ≠ s%"end" then .error .assertionError else
  let body := (tokens.drop 1).dropLast
  let body' ← body.mapM fun t => match t with
    | .adict kvs => (match lookupAV s%"__tokens__" kvs with
                     | some (.toks ts) => pure (R.seq false (ts.map .tok))
                     | _ => .error .keyError)
    | .cdict _ => .error .keyError
    | x => pure x
  pure (key, body')

def strVal (t : Tok) : Res Str :=
  match t.val with
  | .str s => .ok s
  | _ => .error .attributeError

/-- one `string_pair`: `clean_string(t[0].value).lower()`, `clean_string(t[1].value)` -/
def pairKV : R → Res (Str × J)
  | .seq _ (a :: b :: _) => do
      let ka ← strVal (← tokOf a)
      let vb ← strVal (← tokOf b)
      let k := lower (cleanString ka)
      if underscored k then .error .unsupported else      -- a user key named like a bookkeeping key
      pure (k, .str (cleanString vb))
  | .seq _ _ => .error .indexError
  | .tok _ => .error .unsupported         -- indexing a token gives characters
  | _ => .error .typeError

/-- the `for t in body` loop of `process_value_pairs`: all (key, value) pairs, in order -/
def kvPairs : List R → Res (List (Str × J))
  | [] => .ok []
  | t :: r =>
    match pairKV t with
    | .error e => .error e
    | .ok kv => (match kvPairs r with | .ok kvs => .ok (kv :: kvs) | .error e => .error e)

/-- `d[k] = v` for every pair on a case-insensitive dict: a later duplicate overwrites the value in place -/
def kvDict (kvs : List (Str × J)) : Fields := kvs.foldl (fun d kv => setKey (lower kv.1) kv.2 d) []

/-- `process_value_pairs(tokens, type_)` -/
def valuePairs (cfg : Cfg) (type_ : Str) (tokens : List R) : Res R :=
  match checkComposite type_ tokens with
  | .error e => .error e
  | .ok (key, body) =>
    match valLower key with
    | .error e => .error e
    | .ok keyName =>
      match kvPairs body with
      | .error e => .error e
      | .ok kvs =>
        if cfg.pos then
          match positionDict key (some body) with
          | .error e => .error e
          | .ok pd => .ok (.cdict (setKey s%"__type__" (.str keyName) (setKey posKey (.dict pd) (kvDict kvs))))
        else .ok (.cdict (setKey s%"__type__" (.str keyName) (kvDict kvs)))

/-- `projection(tokens)` -/
def projection (tokens : List R) : Res R := do
  let (_, body) ← checkComposite s%"projection" tokens
  let strs ← body.mapM fun v => do
    let t ← tokOf v
    pure (cleanJ t.val)
  let keyTok ← nth tokens 0
  let vt ← tokOf (← nth tokens 1)
  attr [keyTok, .tok { vt with val := .list strs }]

/-- `process_pair_lists(key_name, tokens)` (POINTS / PATTERN) -/
def pairLists (name : Str) (tokens : List R) : Res R := do
  let (_, body) ← checkComposite name tokens
  let pairs ← body.mapM fun v => match v with
    | .seq _ (a :: b :: _) => do
        let ta ← tokOf a
        let tb ← tokOf b
        pure (J.tup [ta.val, tb.val])
    | .seq _ _ => .error .indexError
    | .tok _ => .error .attributeError     -- `v[0]` of a token is a character: no `.value`
    | _ => .error .typeError
  let keyTok ← nth tokens 0
  let vt ← match ← nth tokens 1 with
    | .seq _ (x :: _) => tokOf x
    | .seq _ [] => .error .indexError
    | .tok _ => .error .attributeError      -- empty block: `tokens[1]` is END, `END[0]` is the str 'E'
    | _ => .error .typeError
  attr [keyTok, .tok { vt with val := .list pairs }]

/-- `config(t)` -/
def config (t : List R) : Res R := do
  if t.length ≠ 3 then .error .assertionError else
  let t1 ← tokOf (← nth t 1)
  let t2 ← tokOf (← nth t 2)
  let key ← valLower t1
  let value ← strVal t2
  if underscored (cleanString key) then .error .unsupported else
  attr [← nth t 0, .tok { t1 with val := .str (cleanString key) }, .tok { t2 with val := .str (cleanString value) }]

/-! ### expressions -/

def spaceJoin : List Str → Str
  | [] => []
  | [x] => x
  | x :: r => x ++ ' ' :: spaceJoin r
def commaJoin : List Str → Str
  | [] => []
  | [x] => x
  | x :: r => x ++ ',' :: commaJoin r

/-- `starts_regexp` (fix: regular expressions are skipped by `is_single_group`): does a slash open a regular expression
rather than being a division sign? `rev` = the characters before the slash, the last one first -/
def startsRegexp (rev : Str) : Bool :=
  match rev.dropWhile isWs with
  | [] => true
  | c :: b =>
    if c ∈ s%"(,~=<>!*+-^&|" then true
    else [s%"IN", s%"NE", s%"EQ", s%"LE", s%"LT", s%"GE", s%"GT", s%"LIKE", s%"AND", s%"OR", s%"NOT"].contains
      (upper (((c :: b).takeWhile fun x => ('a' ≤ x ∧ x ≤ 'z') ∨ ('A' ≤ x ∧ x ≤ 'Z')).reverse))

/-- the scan of `is_single_group` over the stripped text: nesting depth, inside a regular expression?, inside which
quote?, the characters already scanned (last first) -/
def groupScan : Nat → Bool → Option Char → Str → Str → Bool
  | _, _, _, _, [] => true
  | depth, true, q, rev, c :: r => groupScan depth (c != '/') q (c :: rev) r
  | depth, false, some q, rev, c :: r =>
    if c = q then groupScan depth false none (c :: rev) r else groupScan depth false (some q) (c :: rev) r
  | depth, false, none, rev, c :: r =>
    if c = '\'' ∨ c = '"' ∨ c = '`' then groupScan depth false (some c) (c :: rev) r
    else if c = '/' ∧ startsRegexp rev then groupScan depth true none (c :: rev) r
    else if c = '(' then groupScan (depth + 1) false none (c :: rev) r
    else if c = ')' then
      (if depth - 1 = 0 ∧ !r.isEmpty then false else groupScan (depth - 1) false none (c :: rev) r)
    else groupScan depth false none (c :: rev) r

def isSingleGroup (exp : Str) : Bool :=
  let e := strip exp
  if startsWith ['('] e && endsWith [')'] e then groupScan 0 false none [] e else false

def valStr (r : R) : Res Str := do pyStr (← tokOf r).val

def setVal (r : R) (s : Str) : Res R := do
  let t ← tokOf r
  pure (.tok { t with val := .str s })

def binop (op : Str) (t : List R) : Res R := do
  if t.length ≠ 2 then .error .assertionError else
  let a ← valStr (← nth t 0)
  let b ← valStr (← nth t 1)
  setVal (← nth t 0) (a ++ ' ' :: op ++ ' ' :: b)

def boolop (op : Str) (t : List R) : Res R := do
  if t.length ≠ 2 then .error .assertionError else
  let a ← valStr (← nth t 0)
  let b ← valStr (← nth t 1)
  setVal (← nth t 0) (s%"( " ++ a ++ ' ' :: op ++ ' ' :: b ++ s%" )")

def parseNatD (s : Str) : Option Nat :=
  if s.isEmpty then none else
  s.foldl (fun acc c => match acc with
    | some a => if '0' ≤ c ∧ c ≤ '9' then some (a * 10 + (c.toNat - 48)) else none
    | none => none) (some 0)

/-- Python `int(lexeme)` for SIGNED_INT lexemes -/
def parseInt : Str → Option Int
  | '-' :: r => (parseNatD r).map fun n => -(n : Int)
  | '+' :: r => (parseNatD r).map fun n => (n : Int)
  | s => (parseNatD s).map fun n => (n : Int)

/-- `str(item)` of a `list` element: a Token prints its original text -/
def listItemStr : R → Res Str
  | .tok t => .ok t.text
  | .str s => .ok s
  | _ => .error .unsupported

/-! ### composite -/

mutual
/-- `calculate_depth`: `False` counts as 0 -/
def depthJ : J → Nat
  | .list xs => depthL xs + 1
  | .tup xs => depthL xs + 1
  | _ => 0
def depthL : List J → Nat
  | [] => 0
  | x :: r => max (depthJ x) (depthL r)
end

structure CState where
  d : Fields                 -- composite_dict (keys already lower case)
  pd : Option Fields         -- position_dict (the same object as d["__position__"])
  cd : Fields                -- comments_dict (the same object as d["__comments__"])

def appendTo (k : Str) (v : J) (d : Fields) : Res Fields :=
  match lookup k d with
  | none => .ok (setKey k (.list [v]) d)
  | some (.list xs) => .ok (setKey k (.list (xs ++ [v])) d)
  | some _ => .error .attributeError

def avJ : AV → Res J
  | .j v => .ok v
  | .toks _ => .error .unsupported

/-- effect of one simple attribute `key = v` on the block's own dict (`_process_composite_config`,
`_process_composite_points`, the REPEATED_KEYS branch, plain assignment) -/
def dataStep (repeated : List Str) (key : Str) (v : J) (d : Fields) : Res Fields :=
  if key = s%"config" then
    match v with
    | .dict sub =>
      if sub.any (fun kv => hiddenKey (lower kv.1)) then .error .unsupported else
      match lookup key d with
      | none => .ok (setKey key (.dict (sub.foldl (fun c kv => setKey (lower kv.1) kv.2 c) [])) d)
      | some (.dict c) => .ok (setKey key (.dict (sub.foldl (fun c kv => setKey (lower kv.1) kv.2 c) c)) d)
      | some _ => .error .attributeError
    | _ => .error .typeError
  else if key = s%"points" then
    match lookup key d with
    | none => .ok (setKey key v d)
    | some existing =>
      match (if depthJ existing = 2 then J.list [existing] else existing) with
      | .list xs => .ok (setKey key (.list (xs ++ [v])) d)
      | _ => .error .attributeError
  else if repeated.contains key then appendTo key v d
  else .ok (setKey key v d)

/-- effect of the same attribute on `position_dict` (only when include_position) -/
def posStep (repeated : List Str) (key : Str) (v pos : J) (pd : Fields) : Res Fields :=
  if key = s%"config" then
    match v with
    | .dict [(subkey, _)] =>
      match lookup key pd with
      | none => .ok (setKey key (.dict [(subkey, pos)]) pd)
      | some (.dict c) => .ok (setKey key (.dict (setKey subkey pos c)) pd)
      | some _ => .error .typeError
    | _ => .error .assertionError
  else if key = s%"points" then
    match lookup key pd with
    | none => .ok (setKey key pos pd)
    | some (.dict e) => .ok (setKey key (.list [.dict e, pos]) pd)
    | some (.list es) => .ok (setKey key (.list (es ++ [pos])) pd)
    | some _ => .error .attributeError
  else if repeated.contains key then appendTo key pos pd
  else .ok (setKey key pos pd)

/-- hoisting of an attribute's comments (plain keywords only, and only a non-empty list) -/
def comStep (cfg : Cfg) (repeated : List Str) (key : Str) (comments : Option J) (cd : Fields) : Fields :=
  if key = s%"config" ∨ key = s%"points" ∨ repeated.contains key then cd else
  match comments with
  | some c => if cfg.com && truthy c then setKey key c cd else cd
  | none => cd

/-- the simple-attribute branch of `composite` -/
def attrItem (cfg : Cfg) (repeated : List Str) (st : CState) (key : Str) (v pos : J) (comments : Option J) : Res CState :=
  match dataStep repeated key v st.d with
  | .error e => .error e
  | .ok d' =>
    match st.pd with
    | none => .ok { d := d', pd := none, cd := comStep cfg repeated key comments st.cd }
    | some pd =>
      match posStep repeated key v pos pd with
      | .error e => .error e
      | .ok pd' => .ok { d := d', pd := some pd', cd := comStep cfg repeated key comments st.cd }

/-- a nested block: singleton types under their name, the others appended under the plural key -/
def blockItem (singletons : List Str) (sub : Fields) (d : Fields) : Res Fields :=
  match lookup s%"__type__" sub with
  | some (.str k) =>
    if underscored k then .error .unsupported else
    if singletons.contains k then .ok (setKey k (.dict sub) d)
    else appendTo (plural k) (.dict sub) d
  | some _ => .error .unsupported
  | none => .error .keyError             -- a block dict always carries __type__

/-- the single remaining entry of an `attr` dict once the bookkeeping entries are popped -/
def attrKV : List (Str × AV) → Res (Str × J)
  | [(key, .j v)] =>
    if underscored key then .error .unsupported
    else if stripJ v = v then .ok (key, v)
    else .error .unsupported               -- user data never holds bookkeeping keys
  | [(_, .toks _)] => .error .unsupported
  | _ => .error .assertionError

def attrCore (ty pos : Option AV) (rest : List (Str × AV)) : Res (Str × J × J) :=
  match ty with
  | some _ => .error .unsupported
  | none =>
    match pos with
    | some (.j p) => (match attrKV rest with | .ok (key, v) => .ok (key, v, p) | .error e => .error e)
    | _ => .error .keyError

def attrComments (kvs : List (Str × AV)) : Option J :=
  match lookupAV s%"__comments__" kvs with | some (.j c) => some c | _ => none

/-- what `composite` reads off an `attr` dict: (key, value, position) and the comments -/
def attrParts (kvs : List (Str × AV)) : Res (Str × J × J) :=
  attrCore (lookupAV s%"__type__" kvs) (lookupAV s%"__position__" kvs)
    (delAV s%"__comments__" (delAV s%"__tokens__" (delAV s%"__position__" kvs)))

/-- one element of `attribute_dicts` in `composite` -/
def compositeItem (cfg : Cfg) (singletons repeated : List Str) (st : CState) : R → Res CState
  | .cdict sub =>
    match blockItem singletons sub st.d with
    | .ok d' => .ok { st with d := d' }
    | .error e => .error e
  | .adict kvs =>
    match attrParts kvs with
    | .ok (key, v, pos) => attrItem cfg repeated st key v pos (attrComments kvs)
    | .error e => .error e
  | _ => .error .attributeError            -- `.keys()` of something that is not a dict

/-- `t[0][0]`: the block-type token -/
def compositeKey : R → Res Tok
  | .seq _ (x :: _) => tokOf x
  | .seq _ [] => .error .indexError
  | _ => .error .unsupported

/-- `create_position_dict(key_token, None)` -/
def posBase (key : Tok) : Fields := [(s%"line", key.line), (s%"column", key.col)]

/-- the dict `composite` starts from: `__type__`, then `__position__` / `__comments__` when asked for -/
def initState (cfg : Cfg) (keyName : Str) (key : Tok) : CState :=
  let d0 : Fields := [(s%"__type__", .str keyName)]
  let d1 := if cfg.pos then d0 ++ [(posKey, .dict (posBase key))] else d0
  let d2 := if cfg.com then d1 ++ [(comKey, .dict [])] else d1
  { d := d2, pd := if cfg.pos then some (posBase key) else none, cd := [] }

/-- `position_dict` and `comments_dict` are the objects stored under the two hidden keys -/
def finishState (cfg : Cfg) (st : CState) : Fields :=
  let d3 := match st.pd with | some p => setKey posKey (.dict p) st.d | none => st.d
  if cfg.com then setKey comKey (.dict st.cd) d3 else d3

def compositeBody (cfg : Cfg) (singletons repeated : List Str) (keyTok : Tok) (items : List R) : Res R :=
  match valLower keyTok with
  | .error e => .error e
  | .ok keyName =>
    match items.foldlM (compositeItem cfg singletons repeated) (initState cfg keyName keyTok) with
    | .error e => .error e
    | .ok st => .ok (.cdict (finishState cfg st))

/-- `MapfileTransformer.composite(t)` -/
def composite (cfg : Cfg) (singletons repeated : List Str) (t : List R) : Res R :=
  match t with
  | [x] => .ok x
  | ty :: body :: _ =>
    match compositeKey ty with
    | .error e => .error e
    | .ok keyTok =>
      compositeBody cfg singletons repeated keyTok (match body with | .seq false xs => xs | x => [x])
  | [] => .error .indexError

/-! ### dispatch -/

def first (t : List R) : Res R := nth t 0

/-- the call-back `MapfileTransformer.<data>(children)`; unknown rules keep the tree (`__default__`) -/
def callback (cfg : Cfg) (data : Str) (cm : Option (List Str)) (t : List R) : Res R :=
  let singletons := Gen.singletonNames
  let repeated := Gen.repeatedKeys
  if data = s%"start" then (match t with | [x] => pure x | _ => pure (.seq false t))
  else if data = s%"composite_body" ∨ data = s%"composite_type" ∨ data = s%"value" then pure (.seq false t)
  else if data = s%"composite" then composite cfg singletons repeated t
  else if data = s%"attr" then attr t
  else if data = s%"config" then config t
  else if data = s%"projection" then projection t
  else if data = s%"points" then pairLists s%"points" t
  else if data = s%"pattern" then pairLists s%"pattern" t
  else if data = s%"metadata" ∨ data = s%"values" ∨ data = s%"validation" ∨ data = s%"connectionoptions" then
    valuePairs cfg data t
  else if data = s%"comparison" then do
    if t.length ≠ 3 then .error .assertionError else
    let parts ← t.mapM valStr
    setVal (← first t) (s%"( " ++ spaceJoin parts ++ s%" )")
  else if data = s%"and_test" then boolop s%"AND" t
  else if data = s%"or_test" then boolop s%"OR" t
  else if data = s%"compare_op" ∨ data = s%"runtime_var" ∨ data = s%"regexp" ∨ data = s%"bare_string"
       ∨ data = s%"name" ∨ data = s%"string" ∨ data = s%"path" then first t
  else if data = s%"not_expression" then do
    let v ← valStr (← first t)
    setVal (← first t) (s%"NOT " ++ v)
  else if data = s%"expression" then do
    let parts ← t.mapM valStr
    let exp := spaceJoin parts
    if isSingleGroup exp then first t else setVal (← first t) ('(' :: exp ++ [')'])
  else if data = s%"add" then binop ['+'] t
  else if data = s%"sub" then binop ['-'] t
  else if data = s%"div" then binop ['/'] t
  else if data = s%"mul" then binop ['*'] t
  else if data = s%"power" then binop ['^'] t
  else if data = s%"neg" then do
    if t.length ≠ 1 then .error .assertionError else
    let v ← valStr (← first t)
    setVal (← first t) (if startsWith ['-'] v then s%"- " ++ v else '-' :: v)
  else if data = s%"func_call" then do
    match t with
    | [f, p] =>
      let ft ← tokOf f
      let fname ← pyStr ft.val
      let ps ← match p with
        | .str s => pure s
        | .tok pt => pure pt.text
        | _ => .error .unsupported
      pure (.tok { ft with val := .str ('(' :: fname ++ '(' :: ps ++ s%"))") })
    | _ => .error .valueError
  else if data = s%"func_params" then do
    let parts ← t.mapM valStr
    pure (.str (commaJoin parts))
  else if data = s%"attr_bind" then do
    if t.length ≠ 1 then .error .assertionError else
    let v ← valStr (← first t)
    setVal (← first t) ('[' :: v ++ [']'])
  else if data = s%"extent" then (if t.length = 4 then pure (.seq false t) else .error .assertionError)
  else if data = s%"color" then .error .unsupported
  else if data = s%"true" then do
    let v ← tokOf (← first t); pure (.tok { v with val := .bool true })
  else if data = s%"false" then do
    let v ← tokOf (← first t); pure (.tok { v with val := .bool false })
  else if data = s%"int" then do
    let v ← tokOf (← first t)
    match v.val with
    | .str s => (match parseInt s with | some n => pure (.tok { v with val := .int n }) | none => .error .valueError)
    | _ => .error .typeError
  else if data = s%"float" then do
    let v ← tokOf (← first t)
    match v.val with
    | .str s => (match cfg.floatOf s with | some r => pure (.tok { v with val := .flt r }) | none => .error .unsupported)
    | _ => .error .typeError
  else if data = s%"string_pair" then (match t with | [a, b] => pure (.seq false [a, b]) | _ => .error .valueError)
  else if data = s%"rgb" then (match t with | [a, b, c] => pure (.seq true [a, b, c]) | _ => .error .valueError)
  else if data = s%"num_pair" ∨ data = s%"int_pair" then (match t with | [a, b] => pure (.seq true [a, b]) | _ => .error .valueError)
  else if data = s%"attr_bind_pair" ∨ data = s%"attr_mixed_pair" ∨ data = s%"hexcolorrange" then
    (if t.length = 2 then pure (.seq false t) else .error .assertionError)
  else if data = s%"colorrange" then (if t.length = 6 then pure (.seq false t) else .error .assertionError)
  else if data = s%"hexcolor" then do
    let v ← tokOf (← first t)
    let s ← strVal v
    pure (.tok { v with val := .str (lower (cleanString s)) })
  else if data = s%"list" then do
    let v ← tokOf (← first t)
    let parts ← t.mapM listItemStr
    pure (.tok { v with val := .str ('{' :: commaJoin parts ++ ['}']) })
  else pure (.tree data cm t)

mutual
/-- `MapfileTransformer.transform(tree)`: bottom-up; children that are not trees are passed through -/
def mainT (cfg : Cfg) : R → Res R
  | .tree data cm xs => do
      let xs' ← mainTL cfg xs
      callback cfg data cm xs'
  | x => .ok x
def mainTL (cfg : Cfg) : List R → Res (List R)
  | [] => .ok []
  | x :: r => do
      let x' ← mainT cfg x
      let r' ← mainTL cfg r
      pure (x' :: r')
end

/-! ### Canonize and CommentsTransformer -/

mutual
/-- `Canonize().transform(tree)` (in place): a `symbolset` tree becomes a `composite` whose type token is the SYMBOLSET
keyword itself — `tree.children.pop(0)`, kept in the tree by `!start` (so that its position is recorded) -/
def canonize : R → R
  | .tree data cm xs =>
      let xs' := canonizeL xs
      if data = s%"symbolset" then
        match xs' with
        | k :: rest => .tree s%"composite" cm (.tree s%"composite_type" none [k] :: rest)
        | [] => .tree s%"composite" cm []         -- `pop(0)` from an empty list: see `canonizable`
      else .tree data cm xs'
  | x => x
def canonizeL : List R → List R
  | [] => []
  | x :: r => canonize x :: canonizeL r
end

mutual
/-- no `symbolset` node without children (`pop(0)` would raise IndexError; the grammar never builds one) -/
def canonizable : R → Bool
  | .tree data _ xs => (data != s%"symbolset" || !xs.isEmpty) && canonizableL xs
  | _ => true
def canonizableL : List R → Bool
  | [] => true
  | x :: r => canonizable x && canonizableL r
end

def commentsJ (cm : Option (List Str)) : J := .list ((cm.getD []).map .str)

/-- `add_metadata_comments(d, md)`; `md` = the children of the metadata tree -/
def addMetadataComments (d : Fields) (md : List R) : Res Fields := do
  if md.length > 2 then
    let sps := (md.drop 1).dropLast
    let cd0 := match lookup s%"__comments__" d with | some (.dict c) => c | _ => []
    let cd ← sps.foldlM (fun cd sp => do
      match sp with
      | .tree _ cm (c0 :: _) =>
        let key ← match c0 with
          | .tok t => if t.type = s%"UNQUOTED_STRING" then strVal t else .error .assertionError
          | .tree _ _ (.tok t :: _) => strVal t
          | _ => .error .attributeError
        let key := lower (cleanString key)
        if hasKey key d then pure (setKey key (commentsJ cm) cd) else .error .assertionError
      | _ => .error .attributeError) cd0
    pure (setKey s%"__comments__" (.dict cd) d)
  else pure d

/-- `_save_attr_comments`: the node's comments (possibly an empty list) are always stored -/
def attrCom (cm : Option (List Str)) : R → Res R
  | .adict kvs => .ok (.adict (setAV comKey (.j (commentsJ cm)) kvs))
  | _ => .error .typeError

/-- `_save_projection_comments`: stored only when there are comments -/
def projCom (cm : Option (List Str)) : R → Res R
  | .adict kvs => .ok (if (cm.getD []).isEmpty then .adict kvs else .adict (setAV comKey (.j (commentsJ cm)) kvs))
  | _ => .error .typeError

/-- `_save_composite_comments`: `xs'` are the (already processed) children of the composite tree -/
def compCom (cm : Option (List Str)) (xs' : List R) : R → Res R
  | .cdict d =>
    let d1 := if hasKey comKey d then d else setKey comKey (.dict []) d
    let d2 := if (cm.getD []).isEmpty then d1 else
      match lookup comKey d1 with
      | some (.dict c) => setKey comKey (.dict (setKey s%"__type__" (commentsJ cm) c)) d1
      | _ => d1
    if lookup s%"__type__" d2 = some (.str s%"metadata") then
      match xs' with
      | .tree _ _ md :: _ => (match addMetadataComments d2 md with | .ok d3 => .ok (.cdict d3) | .error e => .error e)
      | _ => .error .attributeError
    else .ok (.cdict d2)
  | _ => .error .typeError

/-- the call-back `CommentsTransformer.<data>` on a node whose children are already processed -/
def comNode (cfg : Cfg) (data : Str) (cm : Option (List Str)) (xs' : List R) : Res R :=
  if data = s%"attr" then
    match mainT cfg (.tree data cm xs') with | .ok r => attrCom cm r | .error e => .error e
  else if data = s%"projection" then
    match mainT cfg (.tree data cm xs') with | .ok r => projCom cm r | .error e => .error e
  else if data = s%"composite" then
    match mainT cfg (.tree data cm xs') with | .ok r => compCom cm xs' r | .error e => .error e
  else .ok (.tree data cm xs')

mutual
/-- `CommentsTransformer(mapfile_transformer).transform(tree)` (in place, bottom-up) -/
def comT (cfg : Cfg) : R → Res R
  | .tree data cm xs =>
    match comTL cfg xs with
    | .ok xs' => comNode cfg data cm xs'
    | .error e => .error e
  | x => .ok x
def comTL (cfg : Cfg) : List R → Res (List R)
  | [] => .ok []
  | x :: r =>
    match comT cfg x with
    | .error e => .error e
    | .ok x' => (match comTL cfg r with | .ok r' => .ok (x' :: r') | .error e => .error e)
end

/-- `MapfileToDict(include_position, include_comments).transform(tree)` -/
def transform (cfg : Cfg) (tree : R) : Res R :=
  if canonizable tree then do
    let t := canonize tree
    let t ← if cfg.com then comT cfg t else pure t
    mainT cfg t
  else .error .indexError

/-- what the caller gets, as a plain value (`none`: not a dict / list of dicts) -/
def resultJ : R → Option J
  | .cdict d => some (.dict d)
  | .seq false xs => (xs.mapM fun (x : R) => match x with | R.cdict d => some (J.dict d) | _ => none).map J.list
  | _ => none

/-! ### tree shapes (hypotheses of the C13 / C02 theorems, evaluated on every real tree by the harness) -/

def flagNames : List Str := [s%"composite", s%"metadata", s%"values", s%"validation", s%"connectionoptions"]

mutual
/-- a subtree without block nodes and without already transformed dicts -/
def flagFree : R → Bool
  | .tree data _ xs => !flagNames.contains data && flagFreeL xs
  | .tok _ => true
  | .str _ => true
  | .seq _ xs => flagFreeL xs
  | .adict _ => false
  | .cdict _ => false
def flagFreeL : List R → Bool
  | [] => true
  | x :: r => flagFree x && flagFreeL r
end

def attrNames : List Str := [s%"attr", s%"config", s%"points", s%"pattern", s%"projection"]
def kvNames : List Str := [s%"metadata", s%"values", s%"validation", s%"connectionoptions"]

mutual
/-- the shapes the grammar gives the items of a block (Bool version of `ShapeItem`) -/
def shapeItemB : R → Bool
  | .tree data _ xs =>
    if data = s%"composite" then
      match xs with
      | [.tree d2 _ ys] => kvNames.contains d2 && flagFreeL ys
      | [ty, .tree b _ items] => (b == s%"composite_body") && flagFree ty && shapeItemsB items
      | _ => false
    else (attrNames.contains data || kvNames.contains data) && flagFreeL xs
  | _ => false
def shapeItemsB : List R → Bool
  | [] => true
  | x :: r => shapeItemB x && shapeItemsB r
end

def comNames : List Str := [s%"attr", s%"projection", s%"composite"]

mutual
/-- a value subtree: no block, key/value, attr or projection node inside, no already transformed dict -/
def plainT : R → Bool
  | .tree data _ xs => !comNames.contains data && !flagNames.contains data && plainTL xs
  | .tok _ => true
  | .str _ => true
  | .seq _ xs => plainTL xs
  | .adict _ => false
  | .cdict _ => false
def plainTL : List R → Bool
  | [] => true
  | x :: r => plainT x && plainTL r
end

mutual
/-- the shapes of block items for the two-pass (include_comments) pipeline: as `shapeItemB`, with value subtrees free
of attr / projection nodes -/
def shapeCItemB : R → Bool
  | .tree data _ xs =>
    if data = s%"composite" then
      match xs with
      | [.tree d2 _ ys] => kvNames.contains d2 && plainTL ys
      | [ty, .tree b _ items] => (b == s%"composite_body") && plainT ty && shapeCItemsB items
      | _ => false
    else (attrNames.contains data || kvNames.contains data) && plainTL xs
  | _ => false
def shapeCItemsB : List R → Bool
  | [] => true
  | x :: r => shapeCItemB x && shapeCItemsB r
end

def shapeCRootB : R → Bool
  | .tree data cm xs => if data = s%"start" then shapeCItemsB xs else shapeCItemB (.tree data cm xs)
  | _ => false

/-- the root of a parsed (canonized) document: `start` over grammar-shaped blocks, or one such block (SYMBOLSET) -/
def shapeRootB : R → Bool
  | .tree data cm xs => if data = s%"start" then shapeItemsB xs else shapeItemB (.tree data cm xs)
  | _ => false

end Mappy.Transformer
