/-
  M9c — the token re-typing hook of `Parser.parse` (parser.py): while the interactive parser is fed, an unquoted
  word directly after the keyword SYMBOL (in any letter case: the previous token is upper-cased first) that is not one
  of SYMBOL_ATTRIBUTES, the word GRID directly after the keyword NAME and the word FEATURE directly after the keyword
  IMAGEMODE are re-typed to UNQUOTED_STRING_VALUE.
  `prev` is the text of the top of Lark's value stack when it is a token (`none`: empty stack — the first token of the
  input — or a tree on top).
-/
import Mappy.Base
import Mappy.Gen.Vocab

namespace Mappy.Retype

def unq : Str := s%"UNQUOTED_STRING"
def unqValue : Str := s%"UNQUOTED_STRING_VALUE"

def retypeWith (symbolAttrs : List Str) (prev : Option Str) (ty text : Str) : Str :=
  let prevU := prev.map upper
  if ty = unq then
    if prevU = some s%"SYMBOL" && !symbolAttrs.contains (upper text) then unqValue else ty
  else if ty = s%"GRID" then
    if prevU = some s%"NAME" then unqValue else ty
  else if ty = s%"FEATURE" then
    if prevU = some s%"IMAGEMODE" then unqValue else ty
  else ty

def retype (prev : Option Str) (ty text : Str) : Str := retypeWith Gen.symbolAttributes prev ty text

end Mappy.Retype
