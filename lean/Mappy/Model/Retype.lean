/-
  M9c — the token re-typing hook of `Parser.parse` (parser.py): while the interactive parser is fed, an unquoted
  word directly after the token text `SYMBOL` that is not one of SYMBOL_ATTRIBUTES, and the word GRID directly after
  the token text `NAME`, are re-typed to UNQUOTED_STRING_VALUE.  `prev` is the text of the top of Lark's value stack
  when it is a token (`none`: empty stack — the first token of the input — or a tree on top).
-/
import Mappy.Base
import Mappy.Gen.Vocab

namespace Mappy.Retype

def unq : Str := s%"UNQUOTED_STRING"
def unqValue : Str := s%"UNQUOTED_STRING_VALUE"

def retypeWith (symbolAttrs : List Str) (prev : Option Str) (ty text : Str) : Str :=
  if ty = unq then
    if prev = some s%"SYMBOL" && !symbolAttrs.contains (upper text) then unqValue else ty
  else if ty = s%"GRID" then
    if prev = some s%"NAME" then unqValue else ty
  else ty

def retype (prev : Option Str) (ty text : Str) : Str := retypeWith Gen.symbolAttributes prev ty text

end Mappy.Retype
