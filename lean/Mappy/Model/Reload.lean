/-
  The dictionary a reload of the printed text gives back, as a function of the dictionary that was printed
  (`normJ`): the only differences C01 allows — an enumerated word comes back upper-cased, a number at a keyword
  typed `string` comes back as its decimal string — applied at every simple keyword of every object, by the same
  schema look-up (`cellOf`) the printer uses.  Everything else (key order, nesting, hidden keys, data blocks) is
  left as it is.  Tied to the code by the `reload` correspondence (real `loads(dumps(d))` = `normJ d` on every
  generated document outside the documented exclusions); theorems: Props/C04Doc.lean.
-/
import Mappy.Model.Printer

namespace Mappy.Printer

open Quoter in
/-- none of the "leave it as it is" tests of `format_value` applies to the text -/
def guardsFree (attr t : Str) : Bool :=
  !inParenthesis t && !(attr = s%"expression" && inBraces t) && !(attr ≠ s%"text" && inBrackets t) &&
  !(startsWith s%"NOT " t && inParenthesis (t.drop 4))

/-- the walk of `__check_options_list` ends at an enumeration that lists the word (and the word is not END) -/
def enumHit (s : Str) : List Opt → Bool
  | [] => false
  | o :: r =>
    if enumHas o (lower s) then lower s != s%"end"
    else if o.isExpr && (endsWith s%"'i" s || endsWith s%"\"i" s) then false
    else enumHit s r

/-- a word listed by an enumerated alternative of a `oneOf` / `anyOf` keyword (ANGLE follow, POSITION ur, SIZE giant) -/
def optsEnum (attr : Str) (opts : Option (List Opt)) (s : Str) : Bool :=
  match opts with
  | some os => guardsFree attr s && guardsFree attr (upper s) && enumHit s os
  | none => false

/-- the two differences a reload may show (C01): an enumerated word comes back upper-cased (at a keyword that is an
enumeration, or at a `oneOf` keyword one of whose alternatives lists the word), a number at a keyword typed `string` comes
back as its decimal string -/
def normV (attr : Str) (p : CellProps) (v : J) : J :=
  match v with
  | .str s =>
    if p.hasEnum && attr ≠ s%"compop" then .str (upper s)
    else if !p.hasEnum && !p.typeString && optsEnum attr p.opts s then .str (upper s)
    else v
  | .int n => if !p.hasEnum && p.typeString && !p.isExpr then .str (intStr n) else v
  | .flt x => if !p.hasEnum && p.typeString && !p.isExpr then .str x else v
  | v => v

/-- `normV` at the cell the printer's look-up finds for (object type, keyword); no cell, no change -/
def normAt (T : Table) (ty : Option Str) (attr : Str) (v : J) : J :=
  match ty with
  | none => v
  | some t => match cellOf T t attr with
    | none => v
    | some p => normV attr p v

mutual
/-- the reloaded form of an object -/
def normJ (T : Table) : J → J
  | .dict f => .dict (normF T (typeOf f) f)
  | j => j
/-- … of its entries, `ty` being the object's `__type__` -/
def normF (T : Table) (ty : Option Str) : Fields → Fields
  | [] => []
  | (attr, v) :: r => (attr, normE T ty attr v) :: normF T ty r
/-- … of the value of one entry: hidden keys and data blocks (METADATA, PROJECTION, POINTS, PATTERN, CONFIG, repeated
keywords) are kept, lists of objects and nested objects are visited, a simple keyword's value is normalised -/
def normE (T : Table) (ty : Option Str) (attr : Str) : J → J
  | .list xs => .list (if isMetaKey attr then xs else if attr ∈ Gen.objectListKeys then normL T xs else xs)
  | .dict g => .dict (if isMetaKey attr || isDataKey attr || !hasKey s%"__type__" g then g else normF T (typeOf g) g)
  | v => if isMetaKey attr || isDataKey attr then v else normAt T ty attr v
/-- … of a list of objects -/
def normL (T : Table) : List J → List J
  | [] => []
  | x :: r => normJ T x :: normL T r
end

/-- a root object: key/value blocks at the root are printed by `process_key_dict` and left alone -/
def normRoot (T : Table) (x : J) : J :=
  match x with
  | .dict f => match lookup s%"__type__" f with
    | some (.str t) => if t = s%"metadata" || t = s%"validation" || t = s%"connectionoptions" then x else normJ T x
    | _ => x
  | _ => x

/-- what `loads(dumps(c))` gives back for the argument of `pprint`: a dictionary or a list of root dictionaries -/
def normDoc (T : Table) (c : J) : J :=
  match c with
  | .dict f => normRoot T (.dict f)
  | .list xs => .list (xs.map (normRoot T))
  | c => c

end Mappy.Printer
