/-
  M9a — model of Parser.load_includes / _get_include_filename (parser.py).
  The file system and os.path are parameters: `fs` maps an absolute path to the file's text (as `open_file`
  returns it), `resolve` maps the name written on an INCLUDE line to that absolute path (relative names are
  joined with the ROOT file's directory — the same `fn` is passed down at every depth).
  Recursion is on the remaining nesting budget (5 − _nested_includes), so termination is structural.
-/
import Mappy.Base

namespace Mappy.Includes

/-- `text.split("\n")` (always at least one line) -/
def splitNL : Str → List Str
  | [] => [[]]
  | c :: r =>
    if c = '\n' then [] :: splitNL r
    else match splitNL r with
      | h :: t => (c :: h) :: t
      | [] => [[c]]

/-- `"\n".join(lines)` -/
def joinNL : List Str → Str
  | [] => []
  | [x] => x
  | x :: y :: r => x ++ ['\n'] ++ joinNL (y :: r)

/-- `l.strip().lower().startswith("include")` -/
def isInclude (l : Str) : Bool := startsWith s%"include" (lower (strip l))

/-- `line.split("#")[0]` -/
def beforeHash : Str → Str
  | [] => []
  | c :: r => if c = '#' then [] else c :: beforeHash r

/-- `str.split()` (whitespace-separated words) -/
def words : Str → List Str
  | [] => []
  | c :: r =>
    if isWs c then words r
    else match r with
      | [] => [[c]]
      | d :: _ => if isWs d then [c] :: words r
                  else match words r with
                    | w :: ws => (c :: w) :: ws
                    | [] => [[c]]

/-- `s.strip(ch)` for a single character -/
def stripChar (ch : Char) (s : Str) : Str :=
  ((s.dropWhile (· = ch)).reverse.dropWhile (· = ch)).reverse

/-- `_get_include_filename`: second word of the line before any `#`, with surrounding quotes removed; `none` when the
line names no file (the line is then left to the parser, which reports the syntax error) -/
def includeName (l : Str) : Option Str :=
  match words (beforeHash l) with
  | _ :: name :: _ => some (stripChar '"' (stripChar '\'' name))
  | _ => none

/-- the loop over the lines of one file; `sub` expands an included file one level deeper, or is `none`
when the nesting limit is reached -/
def expandWith (fs : Str → Option Str) (resolve : Str → Str) (sub : Option (List Str → Res (List Str))) :
    List Str → Res (List Str)
  | [] => .ok []
  | l :: r =>
    if isInclude l then
      match sub with
      | none => .error .valueError           -- "Maximum nested include exceeded! (MaxNested=5)"
      | some deeper =>
        match includeName l with
        | none =>
          match expandWith fs resolve sub r with
          | .error e => .error e
          | .ok rest => .ok (l :: rest)
        | some name =>
          match fs (resolve name) with
          | none => .error .ioError
          | some text =>
            match deeper (splitNL text) with
            | .error e => .error e
            | .ok inc =>
              match expandWith fs resolve sub r with
              | .error e => .error e
              | .ok rest => .ok (joinNL inc :: rest)
    else
      match expandWith fs resolve sub r with
      | .error e => .error e
      | .ok rest => .ok (l :: rest)

/-- expand the lines of one file with `budget` levels of nesting left (`budget = 5 - _nested_includes`);
structural recursion on the budget: the termination proof is the "never recurses forever" claim -/
def expandLines (fs : Str → Option Str) (resolve : Str → Str) : Nat → List Str → Res (List Str)
  | 0 => expandWith fs resolve none
  | b + 1 => expandWith fs resolve (some (expandLines fs resolve b))

/-- `load_includes(text, fn)` at nesting level `nested` -/
def loadIncludes (fs : Str → Option Str) (resolve : Str → Str) (nested : Nat) (text : Str) : Res Str :=
  (expandLines fs resolve (5 - nested) (splitNL text)).map joinNL

end Mappy.Includes
